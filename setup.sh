#!/bin/sh
# Build the framework from files on disk only (offline): translator, Lean library + drivers, harness.
set -e
cd "$(dirname "$0")"
export CARGO_NET_OFFLINE=true
(cd harness && cargo build -q -p rs2lean 2>/dev/null)
./harness/target/debug/rs2lean /repo lean/SafeNet/Gen || true
MODS=$(python3 -c "
import sys; sys.path.insert(0,'checks')
from props import PROPS
print(' '.join(sorted({c['props_module'] for c in PROPS.values()} | {k['driver_exe'] for c in PROPS.values() for k in c.get('components',[]) if k.get('driver_exe')})))")
(cd lean && lake build SafeNet $MODS) || echo "setup: lake build reported errors (checks will report them)"
(cd harness && cargo build -q --workspace 2>/dev/null) || echo "setup: cargo build reported errors (checks will report them)"
# components with their own build environment / target dir (e.g. the MAX_CHUNK_SIZE=400 self-encryption build)
python3 - <<'PY'
import json, glob, os, subprocess
for p in sorted(glob.glob('checks/C*.json')):
    for comp in json.load(open(p)).get('components', []):
        if comp.get('target_dir') or comp.get('build_env'):
            env = dict(os.environ, CARGO_NET_OFFLINE='true'); env.update(comp.get('build_env', {}))
            cmd = ['cargo', 'build', '-q', '-p', comp['package'], '--bin', comp['bin']]
            if comp.get('target_dir'):
                cmd += ['--target-dir', os.path.join('/verif/harness', comp['target_dir'])]
            print('setup: building', comp['name'], flush=True)
            subprocess.run(cmd, cwd='/verif/harness', env=env, stderr=subprocess.DEVNULL)
PY
echo "setup done"
