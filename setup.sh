#!/bin/sh
# Build the framework from files on disk only (offline): translator, Lean library + driver, harness.
set -e
cd "$(dirname "$0")"
export CARGO_NET_OFFLINE=true
(cd harness && cargo build -q -p rs2lean)
./harness/target/debug/rs2lean /repo lean/SafeNet/Gen || true
(cd lean && lake build SafeNet driver)
(cd harness && cargo build -q --workspace)
echo "setup done"
