import SafeNet.Base.Dec
import SafeNet.Proofs.Dec
import SafeNet.Model.Amount
