-- Root of the `SafeNet` library. Property modules (`SafeNet.Props.Cxx`) and drivers are built by name.
import SafeNet.Base.Dec
import SafeNet.Driver.Util
