import SafeNet.Driver.Util
import SafeNet.Driver.Replication
open SafeNet.Driver

/-- `drv_replication` replays an ops file on stdin through the replication model (C09). -/
def main (args : List String) : IO UInt32 := do
  match args with
  | [] => loop (← IO.getStdin) Replication.step {}; return 0
  | ["search"] => return 0
  | _ => IO.eprintln "usage: drv_replication < ops.txt"; return 2
