import SafeNet.Driver.Util
import SafeNet.Driver.FullGlue
open SafeNet.Driver

/-- `drv_fullglue` replays an ops file on stdin through the composed store + fetcher model; `search` prints the
histories on which the regenerated `PutLocalRecord` handler lets a full node fetch beyond its farthest record. -/
def main (args : List String) : IO UInt32 := do
  match args with
  | [] => loop (← IO.getStdin) FullGlue.step {}; return 0
  | ["search"] =>
    for l in FullGlue.searchCandidates do IO.println l
    return 0
  | _ => IO.eprintln "usage: drv_fullglue [search] < ops.txt"; return 2
