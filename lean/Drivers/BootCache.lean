import SafeNet.Driver.Util
import SafeNet.Driver.BootCache
open SafeNet.Driver

/-- `drv_bootcache` replays an ops file on stdin through the bootstrap-cache model; `drv_bootcache search`
prints candidate counterexamples found in the model. -/
def main (args : List String) : IO UInt32 := do
  match args with
  | [] => loop (← IO.getStdin) BootCache.dstep BootCache.DState.init; return 0
  | ["search"] => (BootCache.searchCandidates.forM IO.println); return 0
  | _ => IO.eprintln "usage: drv_bootcache [search] < ops.txt"; return 2
