import SafeNet.Driver.Util
import SafeNet.Driver.Parsers
open SafeNet.Driver

/-- `drv_parsers` replays an ops file on stdin through the C17 parser models; `drv_parsers search`
prints boundary inputs on which the regenerated model panics. -/
def main (args : List String) : IO UInt32 := do
  match args with
  | [] => loop (← IO.getStdin) Parsers.step (); return 0
  | ["search"] => (Parsers.searchCandidates.forM IO.println); return 0
  | _ => IO.eprintln "usage: drv_parsers [search] < ops.txt"; return 2
