import SafeNet.Driver.Util
import SafeNet.Driver.Quote
open SafeNet.Driver

/-- `drv_quote` replays an ops file on stdin through the quote model; `drv_quote search` prints
candidate counterexamples found in the model. -/
def main (args : List String) : IO UInt32 := do
  match args with
  | [] => loop (← IO.getStdin) Quote.step (); return 0
  | ["search"] => (Quote.searchCandidates.forM IO.println); return 0
  | _ => IO.eprintln "usage: drv_quote [search] < ops.txt"; return 2
