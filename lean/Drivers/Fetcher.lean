import SafeNet.Driver.Util
import SafeNet.Driver.Fetcher
open SafeNet.Driver

/-- `drv_fetcher` replays an ops file on stdin through the replication-fetcher model. -/
def main (args : List String) : IO UInt32 := do
  match args with
  | [] => loop (← IO.getStdin) Fetcher.step {}; return 0
  | ["search"] => return 0
  | _ => IO.eprintln "usage: drv_fetcher < ops.txt"; return 2
