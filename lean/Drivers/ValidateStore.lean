import SafeNet.Driver.Util
import SafeNet.Driver.ValidateStore
open SafeNet.Driver

/-- `drv_vstore` replays an ops file on stdin through the model of put validation over the record store;
`drv_vstore search` prints candidate histories on which the regenerated model contradicts C07. -/
def main (args : List String) : IO UInt32 := do
  match args with
  | [] => loop (← IO.getStdin) ValidateStore.step (SafeNet.ValidateStore.fresh 1); return 0
  | ["search"] => (ValidateStore.searchCandidates.forM IO.println); return 0
  | _ => IO.eprintln "usage: drv_vstore [search] < ops.txt"; return 2
