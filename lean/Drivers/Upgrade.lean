import SafeNet.Driver.Util
import SafeNet.Driver.Upgrade
open SafeNet.Driver

/-- `drv_upgrade` replays an ops file on stdin through the C20 model; `drv_upgrade search` prints
option records on which the regenerated model contradicts the property. -/
def main (args : List String) : IO UInt32 := do
  match args with
  | [] => loop (← IO.getStdin) Upgrade.step (); return 0
  | ["search"] => (Upgrade.searchCandidates.forM IO.println); return 0
  | _ => IO.eprintln "usage: drv_upgrade [search] < ops.txt"; return 2
