import SafeNet.Driver.Util
import SafeNet.Driver.Quorum
open SafeNet.Driver

/-- `drv_quorum` replays an ops file on stdin through the quorum model; `drv_quorum search` prints
candidate histories used when a proof obligation broke. -/
def main (args : List String) : IO UInt32 := do
  match args with
  | [] => loop (← IO.getStdin) Quorum.step {}; return 0
  | ["search"] => (Quorum.searchCandidates.forM IO.println); return 0
  | _ => IO.eprintln "usage: drv_quorum [search] < ops.txt"; return 2
