import SafeNet.Driver.Util
import SafeNet.Driver.QuoteHist
open SafeNet.Driver

/-- `drv_quotehist` replays an ops file on stdin through the quote-history model; `search` prints candidates. -/
def main (args : List String) : IO UInt32 := do
  match args with
  | [] => loop (← IO.getStdin) QuoteHist.step ([] : SafeNet.QuoteHist.State); return 0
  | ["search"] => (QuoteHist.searchCandidates.forM IO.println); return 0
  | _ => IO.eprintln "usage: drv_quotehist [search] < ops.txt"; return 2
