import SafeNet.Driver.Util
import SafeNet.Driver.QuoteDuty
open SafeNet.Driver

/-- `drv_quoteduty` replays an ops file on stdin through the node-side quoting model; `search` prints candidates. -/
def main (args : List String) : IO UInt32 := do
  match args with
  | [] => loop (← IO.getStdin) QuoteDuty.step (); return 0
  | ["search"] => (QuoteDuty.searchCandidates.forM IO.println); return 0
  | _ => IO.eprintln "usage: drv_quoteduty [search] < ops.txt"; return 2
