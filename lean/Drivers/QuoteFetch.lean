import SafeNet.Driver.Util
import SafeNet.Driver.QuoteFetch
open SafeNet.Driver

def main (args : List String) : IO UInt32 := do
  match args with
  | [] => loop (← IO.getStdin) QuoteFetch.step (); return 0
  | ["search"] => (QuoteFetch.searchCandidates.forM IO.println); return 0
  | _ => IO.eprintln "usage: drv_quotefetch [search] < ops.txt"; return 2
