import SafeNet.Driver.Util
import SafeNet.Driver.Amount
open SafeNet.Driver

/-- `drv_amount` replays an ops file on stdin through the amount model; `drv_amount search` prints
candidate counterexamples found in the model. -/
def main (args : List String) : IO UInt32 := do
  match args with
  | [] => loop (← IO.getStdin) Amount.step (); return 0
  | ["search"] => (Amount.searchCandidates.forM IO.println); return 0
  | _ => IO.eprintln "usage: drv_amount [search] < ops.txt"; return 2
