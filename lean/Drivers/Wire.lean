import SafeNet.Driver.Util
import SafeNet.Driver.Wire
open SafeNet.Driver

/-- `drv_wire` replays an ops file on stdin through the wire model; `drv_wire search` prints
candidate counterexamples found in the model. -/
def main (args : List String) : IO UInt32 := do
  match args with
  | [] => loop (← IO.getStdin) Wire.step (); return 0
  | ["search"] => (Wire.searchCandidates.forM IO.println); return 0
  | _ => IO.eprintln "usage: drv_wire [search] < ops.txt"; return 2
