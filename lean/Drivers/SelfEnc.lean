import SafeNet.Driver.Util
import SafeNet.Driver.SelfEnc
open SafeNet.Driver

def main (args : List String) : IO UInt32 := do
  match args with
  | [] => loop (← IO.getStdin) SelfEnc.step (); return 0
  | ["search"] => (SelfEnc.searchCandidates.forM IO.println); return 0
  | _ => IO.eprintln "usage: drv_selfenc [search] < ops.txt"; return 2
