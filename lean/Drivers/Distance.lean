import SafeNet.Driver.Util
import SafeNet.Driver.Distance
open SafeNet.Driver

def main (args : List String) : IO UInt32 := do
  match args with
  | [] => loop (← IO.getStdin) Distance.step ({} : Distance.DSt); return 0
  | ["search"] => (Distance.searchCandidates.forM IO.println); return 0
  | _ => IO.eprintln "usage: drv_distance [search] < ops.txt"; return 2
