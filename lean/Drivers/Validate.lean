import SafeNet.Driver.Util
import SafeNet.Driver.Validate
open SafeNet.Driver

/-- `drv_validate` replays an ops file on stdin through the put-validation model; `drv_validate search`
prints candidate counterexamples found in the model. -/
def main (args : List String) : IO UInt32 := do
  match args with
  | [] => loop (← IO.getStdin) Validate.step ⟨[], []⟩; return 0
  | ["search"] => (Validate.searchCandidates.forM IO.println); return 0
  | _ => IO.eprintln "usage: drv_validate [search] < ops.txt"; return 2
