import SafeNet.Driver.Util
import SafeNet.Driver.Lifecycle
open SafeNet.Driver

/-- `drv_lifecycle` replays an ops file on stdin through the lifecycle model. -/
def main (args : List String) : IO UInt32 := do
  match args with
  | [] => loop (← IO.getStdin) Lifecycle.step SafeNet.Lifecycle.Sys.init; return 0
  | ["search"] => return 0
  | _ => IO.eprintln "usage: drv_lifecycle [search] < ops.txt"; return 2
