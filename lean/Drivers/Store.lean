import SafeNet.Driver.Util
import SafeNet.Driver.Store
open SafeNet.Driver

/-- `drv_store` replays an ops file on stdin through the record-store model; `drv_store search` prints
candidate counterexamples found in the regenerated model. -/
def main (args : List String) : IO UInt32 := do
  match args with
  | [] => loop (← IO.getStdin) Store.step Store.DSt.init; return 0
  | ["search"] => (Store.searchCandidates.forM IO.println); return 0
  | _ => IO.eprintln "usage: drv_store [search] < ops.txt"; return 2
