import SafeNet.Driver.Util
import SafeNet.Driver.Register
open SafeNet.Driver

def main (args : List String) : IO UInt32 := do
  match args with
  | [] => loop (← IO.getStdin) Register.step {}; return 0
  | ["search"] => (Register.searchCandidates.forM IO.println); return 0
  | _ => IO.eprintln "usage: drv_register [search] < ops.txt"; return 2
