import SafeNet.Driver.Util
import SafeNet.Driver.ClientRead
open SafeNet.Driver

def main (args : List String) : IO UInt32 := do
  match args with
  | [] => loop (← IO.getStdin) ClientRead.step (); return 0
  | ["search"] => (ClientRead.searchCandidates.forM IO.println); return 0
  | _ => IO.eprintln "usage: drv_clientread [search] < ops.txt"; return 2
