import SafeNet.Driver.Util
import SafeNet.Driver.AddrDerive
open SafeNet.Driver

def main (args : List String) : IO UInt32 := do
  match args with
  | [] => loop (← IO.getStdin) AddrDerive.step (); return 0
  | ["search"] => (AddrDerive.searchCandidates.forM IO.println); return 0
  | _ => IO.eprintln "usage: drv_addrderive [search] < ops.txt"; return 2
