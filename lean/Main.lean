import SafeNet.Driver.Util
import SafeNet.Driver.Amount
open SafeNet.Driver

def main (args : List String) : IO UInt32 := do
  let stdin ← IO.getStdin
  match args with
  | ["amount"] => loop stdin Amount.step (); return 0
  | ["search-amount"] => (Amount.searchCandidates.forM IO.println); return 0
  | _ => IO.eprintln "usage: driver <component>"; return 2
