import SafeNet.Driver.Util
import SafeNet.Model.Register
import SafeNet.Model.MerkleReg
import SafeNet.Model.ClientRegister
namespace SafeNet.Driver.Register
open SafeNet.Register SafeNet.MerkleReg SafeNet.ClientRegister

structure St where
  ops : List (Nat × Op) := []
  regs : List (Nat × SReg) := []
  crdts : List (Nat × (Nat × MReg)) := []   -- id ↦ (address, state)
  cregs : List (Nat × CReg) := []           -- client-side registers (autonomi `Register`)

def errName : Err → String
  | .tooManyEntries n => s!"toomany {n}"
  | .invalidSignature => "invalidsig"
  | .accessDenied => "accessdenied"
  | .entryTooBig => "toobig"
  | .differentBase => "differentbase"
  | .addrMismatch => "addrmismatch"

def opId (st : St) (o : Op) : Nat :=
  match st.ops.find? (fun p => p.2 = o) with
  | some p => p.1
  | none => 0

def fillGo (r : SReg) (src : Nat) : Nat → Nat → Nat → List (Nat × Op) → SReg × Nat × List (Nat × Op)
  | 0, _, acc, tbl => (r, acc, tbl)
  | n + 1, id, acc, tbl =>
    let o : Op := { addr := r.base.addr, node := id, children := [], size := 32, source := src, sig := 0, sigOk := true }
    let tbl := alSet id o tbl
    match addOp r o with
    | .ok r' => fillGo r' src n (id + 1) (acc + 1) tbl
    | .error _ => fillGo r src n (id + 1) acc tbl

/-- n `write_atop`s with consecutive entry ids; returns the register and the number accepted -/
def cfillGo (c : CReg) (key len : Nat) : Nat → Nat → Nat → CReg × Nat
  | 0, _, acc => (c, acc)
  | n + 1, id, acc =>
    match writeAtop c id len key with
    | (c', .ok _) => cfillGo c' key len n (id + 1) (acc + 1)
    | (c', .error _) => cfillGo c' key len n (id + 1) acc

def cPerms (ws : List String) : Option Perms :=
  match ws with
  | ["anyone"] => some .anyone
  | "writers" :: ks => (natList ks).map .writers
  | _ => none

def step (st : St) (ws : List String) : St × String :=
  match ws with
  | "cnew" :: c :: name :: owner :: initid :: initlen :: perms =>
    match natList [c, name, owner, initid, initlen], cPerms perms with
    | some [c, name, owner, initid, initlen], some p =>
      let c0 := CReg.empty (newBase name owner p)
      if initid = 0 then ({ st with cregs := alSet c c0 st.cregs }, "ok")
      else match writeAtop c0 initid (max initlen 8) owner with
        | (c1, .ok _) => ({ st with cregs := alSet c c1 st.cregs }, "ok")
        | (_, .error e) => (st, s!"err {errName e}")
    | _, _ => (st, "bad-op")
  | ["cwrite", c, k, id, len] =>
    match natList [c, k, id, len] with
    | some [c, k, id, len] =>
      match alGet c st.cregs with
      | some cr =>
        match writeAtop cr id (max len 8) k with
        | (cr', .ok _) => ({ st with cregs := alSet c cr' st.cregs }, "ok")
        | (cr', .error e) => ({ st with cregs := alSet c cr' st.cregs }, s!"err {errName e}")
      | none => (st, "bad-op")
    | _ => (st, "bad-op")
  | ["cfill", c, k, first, n, len] =>
    match natList [c, k, first, n, len] with
    | some [c, k, first, n, len] =>
      match alGet c st.cregs with
      | some cr =>
        let (cr', acc) := cfillGo cr k (max len 8) n first 0
        ({ st with cregs := alSet c cr' st.cregs }, s!"ok {acc}")
      | none => (st, "bad-op")
    | _ => (st, "bad-op")
  | ["cvalues", c] =>
    match c.toNat?.bind (fun c => alGet c st.cregs) with
    | some cr => (st, tagNats "values" (sortNats (read cr.crdt)))
    | none => (st, "bad-op")
  | ["cstored", c] =>
    match c.toNat?.bind (fun c => alGet c st.cregs) with
    | some cr => (st, tagNats "values" (sortNats (read (ofSigned cr.signed).crdt)))
    | none => (st, "bad-op")
  | ["cops", c] =>
    match c.toNat?.bind (fun c => alGet c st.cregs) with
    | some cr =>
      let ids := cr.signed.ops.map (·.node)
      (st, s!"ops {ids.length} {ids.foldl (· + ·) 0} crdt {cr.crdt.dag.length + cr.crdt.orphans.length}")
    | none => (st, "bad-op")
  | ["cverify", c] =>
    match c.toNat?.bind (fun c => alGet c st.cregs) with
    | some cr =>
      match verify cr.signed with
      | .ok () => (st, "ok")
      | .error (.tooManyEntries n) => (st, s!"err toomany {n}")
      | .error _ => (st, "err op")
    | none => (st, "bad-op")
  | "op" :: rest =>
    match natList rest with
    | some (id :: addr :: node :: size :: source :: sig :: sigok :: children) =>
      ({ st with ops := alSet id { addr, node, children, size, source, sig, sigOk := sigok != 0 } st.ops }, "ok")
    | _ => (st, "bad-op")
  | "reg" :: r :: addr :: owner :: osig :: "anyone" :: [] =>
    match natList [r, addr, owner, osig] with
    | some [r, addr, owner, osig] =>
      ({ st with regs := alSet r { base := { addr, owner, perms := .anyone }, ownerSigOk := osig != 0, ops := [] } st.regs }, "ok")
    | _ => (st, "bad-op")
  | "reg" :: r :: addr :: owner :: osig :: "writers" :: ws' =>
    match natList [r, addr, owner, osig], natList ws' with
    | some [r, addr, owner, osig], some wl =>
      ({ st with regs := alSet r { base := { addr, owner, perms := .writers wl }, ownerSigOk := osig != 0, ops := [] } st.regs }, "ok")
    | _, _ => (st, "bad-op")
  | ["inject", r, o] =>
    -- a copy as a malicious peer could serve it: the op enters the set unchecked
    match r.toNat?, o.toNat? with
    | some r, some o =>
      match alGet r st.regs, alGet o st.ops with
      | some reg, some op => ({ st with regs := alSet r { reg with ops := insertOp reg.ops op } st.regs }, "ok")
      | _, _ => (st, "bad-op")
    | _, _ => (st, "bad-op")
  | ["addop", r, o] =>
    match r.toNat?, o.toNat? with
    | some r, some o =>
      match alGet r st.regs, alGet o st.ops with
      | some reg, some op =>
        match addOp reg op with
        | .ok reg' => ({ st with regs := alSet r reg' st.regs }, "ok")
        | .error e => (st, s!"err {errName e}")
      | _, _ => (st, "bad-op")
    | _, _ => (st, "bad-op")
  | [m, a, b] =>
    match a.toNat?, b.toNat? with
    | some a, some b =>
      if m == "merge" || m == "vmerge" then
        match alGet a st.regs, alGet b st.regs with
        | some ra, some rb =>
          match (if m == "merge" then merge ra rb else verifiedMerge ra rb) with
          | .ok r' => ({ st with regs := alSet a r' st.regs }, "ok")
          | .error e =>
            -- which op's defect is reported first depends on the order of the other side's op set (a `BTreeSet` ordered
            -- by the ops' bytes, which the model does not have): with several different per-op defects present the
            -- refusal is compared as the class `op` (the harness checks that the reported one is among those present)
            let perOp : Bool := match e with
              | .tooManyEntries _ => false
              | .differentBase => false
              | _ => rb.ownerSigOk
            let classes := (rb.ops.filterMap fun op =>
              match verifyOp rb.base op with
              | .error e' => some e'
              | .ok _ => none).eraseDups
            if perOp && classes.length ≥ 2 then (st, "err op") else (st, s!"err {errName e}")
        | _, _ => (st, "bad-op")
      else if m == "crdtnew" then
        ({ st with crdts := alSet a (b, {}) st.crdts }, "ok")
      else if m == "crdt" then
        match alGet a st.crdts, alGet b st.ops with
        | some (addr, c), some op =>
          if addr ≠ op.addr then (st, "err addrmismatch")
          else ({ st with crdts := alSet a (addr, apply c { hash := op.node, children := op.children }) st.crdts }, "ok")
        | _, _ => (st, "bad-op")
      else if m == "crdtmerge" then
        match alGet a st.crdts, alGet b st.crdts with
        | some (addr, ca), some (_, cb) => ({ st with crdts := alSet a (addr, SafeNet.MerkleReg.merge ca cb) st.crdts }, "ok")
        | _, _ => (st, "bad-op")
      else (st, "bad-op")
    | _, _ => (st, "bad-op")
  | ["reset"] => ({}, "ok")
  | ["verify", r] =>
    match r.toNat? with
    | some r =>
      match alGet r st.regs with
      | some reg =>
        match verify reg with
        | .ok () => (st, "ok")
        | .error (.tooManyEntries n) => (st, s!"err toomany {n}")
        | .error _ => if !reg.ownerSigOk then (st, "err ownersig") else (st, "err op")
      | none => (st, "bad-op")
    | none => (st, "bad-op")
  | ["ops", r] =>
    match r.toNat? with
    | some r =>
      match alGet r st.regs with
      | some reg => (st, tagNats "ops" (sortNats (reg.ops.map (opId st))))
      | none => (st, "bad-op")
    | none => (st, "bad-op")
  | ["fill", r, n, first, src] =>
    match natList [r, n, first, src] with
    | some [r, n, first, src] =>
      match alGet r st.regs with
      | some reg =>
        let (reg', acc, tbl) := fillGo reg src n first 0 st.ops
        ({ st with regs := alSet r reg' st.regs, ops := tbl }, s!"ok {acc}")
      | none => (st, "bad-op")
    | _ => (st, "bad-op")
  | ["read", c] =>
    match c.toNat? with
    | some c =>
      match alGet c st.crdts with
      | some (_, m) => (st, tagNats "read" (sortNats (read m)))
      | none => (st, "bad-op")
    | none => (st, "bad-op")
  | ["size", c] =>
    match c.toNat? with
    | some c =>
      match alGet c st.crdts with
      | some (_, m) => (st, s!"size {m.dag.length + m.orphans.length}")
      | none => (st, "bad-op")
    | none => (st, "bad-op")
  | _ => (st, "bad-op")


/-- Model search (used when a proof obligation broke): boundary histories on which the regenerated model
contradicts a C06 clause. Each candidate is a short history ending in `reset`; the harness replays it on
the real code and its oracle judges it. -/
def searchCandidates : List String := Id.run do
  let mut out : List String := []
  let max := Gen.Register.maxNumEntries
  let mut rid := 1
  -- (a) a state reached through accepted add_ops, within the limit, must verify
  for k in [max - 1, max, max + 1] do
    let hist := [s!"reg {rid} 1 1 1 anyone", s!"fill {rid} {k} {1000 * rid} 1", s!"verify {rid}"]
    let (st, _) := hist.foldl (fun (acc : St × String) l => step acc.1 (words l)) (({} : St), "")
    match alGet rid st.regs with
    | some reg =>
      if reg.ops.length ≤ max then
        match verify reg with
        | .ok () => pure ()
        | .error _ => out := out ++ hist ++ ["reset"]
      else
        -- add_op alone took the replica beyond the entry limit
        out := out ++ hist ++ ["reset"]
    | none => pure ()
    rid := rid + 1
  -- (b) static rejections: a foreign-address / forged / unauthorised / oversized op must not enter
  let probes : List (String × Op) := [
    ("op 9001 2 9101 32 1 0 1", { addr := 2, node := 9101, children := [], size := 32, source := 1, sig := 0, sigOk := true }),
    ("op 9002 1 9102 32 2 9002 0", { addr := 1, node := 9102, children := [], size := 32, source := 2, sig := 9002, sigOk := false }),
    ("op 9003 1 9103 32 3 0 1", { addr := 1, node := 9103, children := [], size := 32, source := 3, sig := 0, sigOk := true }),
    ("op 9004 1 9104 1025 1 0 1", { addr := 1, node := 9104, children := [], size := 1025, source := 1, sig := 0, sigOk := true })]
  let base : SReg := { base := { addr := 1, owner := 1, perms := .writers [1, 2] }, ownerSigOk := true, ops := [] }
  for (decl, o) in probes do
    match addOp base o with
    | .ok _ =>
      -- the forged probe needs its genuine original and a donor declared first (replay rebuilds forged ops from them)
      out := out ++ [s!"reg {rid} 1 1 1 writers 1 2", "op 9012 1 9102 32 2 0 1", "op 9013 1 9113 32 1 0 1", decl,
        s!"addop {rid} {(decl.splitOn " ")[1]!}", s!"ops {rid}", "reset"]
      rid := rid + 1
    | .error _ => pure ()
  return out

end SafeNet.Driver.Register
