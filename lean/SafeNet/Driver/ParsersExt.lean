import SafeNet.Driver.Util
import SafeNet.Model.ParsersExt
/-! Driver ops of the C17 coverage round 2 (see `SafeNet.Model.ParsersExt`); used by `SafeNet.Driver.Parsers`. -/
namespace SafeNet.Driver.ParsersExt
open SafeNet.Panic SafeNet.Parsers SafeNet.Gen.Parsers

def utf8Valid (bs : List Nat) : Bool :=
  ByteArray.validateUTF8 (ByteArray.mk (bs.map (·.toUInt8)).toArray)

def showUnit : Res Unit Unit → String
  | .ok _ => "ok"
  | .err _ => "err"
  | .panic _ => "panic"

def showRes {α : Type} (f : α → String) : Res Unit α → String
  | .ok v => s!"ok {f v}"
  | .err _ => "err"
  | .panic _ => "panic"

def protoOfTag : String → Proto
  | "ip4" => .ip4 | "udp" => .udp | "tcp" => .tcp | "quic" => .quic | "ws" => .ws | "p2p" => .p2p
  | _ => .other

/-- `err` | `empty` | comma-separated protocol tags -/
def parsedAddr (tp : String) : Option (List Proto) :=
  if tp == "err" then none else if tp == "empty" then some [] else some ((tp.splitOn ",").map protoOfTag)

def bit (c : Char) : Bool := c == '1'

def parsePair (a : String) : Option (Nat × Nat) :=
  match a.splitOn ":" with
  | [s, f] =>
    match s.toNat?, f.toNat? with
    | some s, some f => some (s, f)
    | _, _ => none
  | _ => none

def hexList (s : String) : Option (List (List Nat)) :=
  if s == "-" then some [] else (s.splitOn ",").mapM unhex

def compOf (s : String) : Option Comp :=
  if s == "R" then some .root else if s == "C" then some .cur else if s == "P" then some .parent
  else if s.startsWith "N:" then (unhex ((s.drop 2).toString)).map .normal else none

def compsOf (s : String) : Option (List Comp) :=
  if s == "-" then some [] else (s.splitOn ",").mapM compOf

def showComp : Comp → String
  | .root => "R" | .cur => "C" | .parent => "P"
  | .normal n => "N:" ++ hex n

def showComps (cs : List Comp) : String := if cs.isEmpty then "-" else ",".intercalate (cs.map showComp)

def showOptNat : Option Nat → String
  | some n => toString n
  | none => "-"

def logLineOf (s : String) : Option LogLine :=
  match s with
  | "n" => some (true, none)
  | "u1" => some (false, some true)
  | "u0" => some (false, some false)
  | "nu1" => some (true, some true)
  | "nu0" => some (true, some false)
  | _ => none

/-- the AEAD is never reached by the wallet ops of the harness (encrypted contents stay below salt + nonce) -/
def noAead (s : Bytes) : Res Unit Bytes := decryptKey (fun _ _ _ _ => none) utf8Valid s [112, 119]

def stepLine (ws : List String) : Option String :=
  match ws with
  | ["binversion", b] =>
    some (match unhex b with
    | some b => showRes hex (binVersion b (utf8Valid b))
    | none => "bad-op")
  | ["envvar", s] =>
    some (match unhex s with
    | some s => showRes (fun (kv : Bytes × Bytes) => s!"{hex kv.1} {hex kv.2}") (parseEnvVar s)
    | none => "bad-op")
  | ["logtargets", s] =>
    some (match unhex s with
    | some s => (match loggingTargets s with | .ok _ => "ok" | .err _ => "err" | .panic _ => "panic")
    | none => "bad-op")
  | ["lpkeys", s] =>
    some (match unhex s with
    | some s => showRes (fun (ks : List Key) =>
        if ks.isEmpty then "-" else ",".intercalate (ks.map fun k => s!"{k.1}:{k.2}")) (parseKeySequence s)
    | none => "bad-op")
  | ["lpstyle", s] =>
    some (match unhex s with
    | some s => showRes (fun (v : Option Nat × Option Nat × Nat) =>
        s!"fg={showOptNat v.1} bg={showOptNat v.2.1} mod={v.2.2}") (parseStyle s)
    | none => "bad-op")
  | ["lpconfig", _, _, tp] =>
    some (if tp == "err" then showUnit (launchpadConfig none) else
    match tp.splitOn ";" with
    | [k, s] =>
      if k.startsWith "k:" && s.startsWith "s:" then
        match hexList ((k.drop 2).toString), hexList ((s.drop 2).toString) with
        | some ks, some ss => showUnit (launchpadConfig (some (ks, ss)))
        | _, _ => "bad-op"
      else "bad-op"
    | _ => "bad-op")
  | ["appdata", src, tp] => some (showUnit (appDataLoad (src != "missing") (tp == "ok")))
  | ["antpeers", _, tp] =>
    let items : Option (List (Option (List Proto))) :=
      if tp == "na" then none else some ((tp.splitOn ";").map parsedAddr)
    let out := antPeers items
    some (s!"ok {out.length} " ++ (if out.isEmpty then "-" else "|".intercalate (out.map fun t =>
      if t.isEmpty then "empty" else ",".intercalate t)))
  | ["contacts", ig, _, tp] =>
    some (if tp.startsWith "json:" then
      match ((tp.drop 5).toString).splitOn ":" with
      | vm :: rest =>
        let ps := ":".intercalate rest
        let peers : Option (List (List (Nat × Nat))) :=
          if ps == "nopeers" then some [] else
          (ps.splitOn "|").mapM fun p => if p == "e" then some [] else (p.splitOn ",").mapM parsePair
        match peers with
        | some peers => showRes toString (contactsParse (.json (vm == "1") peers) (ig == "1"))
        | none => "bad-op"
      | [] => "bad-op"
    else if tp.startsWith "lines:" then
      showRes toString (contactsParse (.lines ((((tp.drop 6).toString).splitOn ";").map parsedAddr)) (ig == "1"))
    else "bad-op")
  | ["evmenv", _, _, _, tp] =>
    some (match tp.toList with
    | [a, b, c] => (match evmFromEnv (bit a) (bit b) (bit c) with | .ok _ => "ok custom" | .err _ => "err" | .panic _ => "panic")
    | _ => "bad-op")
  | ["evmcustom", _, _, _, tp] =>
    some (match tp.toList with
    | [a, b, c] => (match evmNewCustom (bit a) (bit b) (bit c) with | .ok _ => "ok custom" | .err _ => "err" | .panic _ => "panic")
    | _ => "bad-op")
  | ["evmget", _, _, _, tp] =>
    some (match tp.toList with
    | [a, b, c] => (match evmGetNetwork (bit a) (bit b) (bit c) with | .ok _ => "ok custom" | .err _ => "err" | .panic _ => "panic")
    | _ => "bad-op")
  | ["evmcsv", _, tp] =>
    some (if tp == "na" then (match evmFromCsv false [] with | .ok _ => "ok custom" | .err _ => "err" | .panic _ => "panic") else
    let parts := (tp.splitOn ",").map fun p => match p.toList with
      | [u, a] => (bit u, bit a)
      | _ => (false, false)
    (match evmFromCsv true parts with | .ok _ => "ok custom" | .err _ => "err" | .panic _ => "panic"))
  | ["atto", s] =>
    some (match unhex s with
    | some s => (match attoFromStr s with
      | .ok n => s!"ok {n}"
      | .err .units => "err units"
      | .err .remainder => "err remainder"
      | .err .lossOfPrecision => "err loss"
      | .err .excessive => "err excessive"
      | .panic _ => "panic")
    | none => "bad-op")
  | ["natpeer", _, tp] => some (showUnit (natPeerAddr (tp == "sock") (tp == "ma")))
  | ["metricslog", _, tp] =>
    some (if tp == "-" then showRes toString (metricServers []) else
    match (tp.splitOn ",").mapM logLineOf with
    | some ls => showRes toString (metricServers ls)
    | none => "bad-op")
  | ["regkey", src, b, tp] =>
    some (match unhex b with
    | some b => showUnit (registerSigningKey (if src == "none" then none else some b) (tp != "na") (tp == "1"))
    | none => "bad-op")
  | "udreg" :: rest =>
    some (match rest.getLast? with
    | none => "bad-op"
    | some tp =>
      match rest.dropLast.mapM unhex with
      | none => "bad-op"
      | some names =>
        let vs := if tp == "-" then [] else tp.splitOn ","
        if vs.length ≠ names.length then "bad-op" else
        showRes toString (localRegisters ((names.zip vs).map fun nv => (nv.1, utf8Valid nv.1, nv.2 == "1"))))
  | "udpub" :: names =>
    some (match names.mapM unhex with
    | some ns => showRes toString (localPublicArchives (ns.map fun n => (n, utf8Valid n)))
    | none => "bad-op")
  | ["udpriv", _, _, tp] =>
    some (if tp == "err" then showRes hex (localPrivateAccess none)
    else if tp.startsWith "sa:" then
      match unhex ((tp.drop 3).toString) with
      | some s => showRes hex (localPrivateAccess (some s))
      | none => "bad-op"
    else "bad-op")
  | "udprivs" :: rest =>
    let tps := rest.filter fun w => w == "err" || w.startsWith "sa:"
    let files : Option (List (Option Bytes)) := tps.mapM fun t =>
      if t == "err" then some none else (unhex ((t.drop 3).toString)).map some
    some (match files with
    | some fs => if 2 * fs.length ≠ rest.length then "bad-op" else showRes toString (localPrivateArchives fs)
    | none => "bad-op")
  | ["walletexport", kind, content, key] =>
    some (match unhex content with
    | some c => showUnit (walletExport (kind == "plain") (kind == "enc") c (utf8Valid c) noAead (fun _ => key == "ok"))
    | none => "bad-op")
  | ["relpath", _, _, kind, fc, dc] =>
    some (match compsOf fc, compsOf dc with
    | some f, some d => showRes showComps (relativeFilePath f d (kind == "file"))
    | _, _ => "bad-op")
  | ["mpdec", _, _, tp] => some (showUnit (mpDecode (tp == "ok")))
  | ["mprt", _, _, _] => some "ok same"
  | _ => none

/-- Model search for the routines of this module: inputs on which the regenerated model panics. -/
def searchCandidates : List String := Id.run do
  let mut out : List String := []
  let b (s : String) : Bytes := bytesOf s
  for s in ["v", "xv", "v1", "antnode v", "vé", "é v"] do
    if (binVersion (b s) true).isPanic then out := out ++ [s!"binversion {hex (b s)}"]
  for s in ["", "=", "a", "a=b", "a=b=c"] do
    if (parseEnvVar (b s)).isPanic then out := out ++ [s!"envvar {hex (b s)}"]
  for s in ["<ctrl->", "<alt->", "<shift->", "ctrl-", "shift-é", "<q>", "é"] do
    if (parseKeySequence (b s)).isPanic then out := out ++ [s!"lpkeys {hex (b s)}"]
  for s in ["gray23", "gray24", "gray255", "rgb", "rgb1", "rgb12", "xrgb", "rgb555", "rgb600", "rgb700", "rgb999", "x on gray24", "x on rgb"] do
    if (parseStyle (b s)).isPanic then out := out ++ [s!"lpstyle {hex (b s)}"]
  if (launchpadConfig (some ([b "<qq>"], []))).isPanic then
    out := out ++ [s!"lpconfig json {hex (b "{\"keybindings\":{\"Status\":{\"<qq>\":\"Quit\"}}}")} x"]
  if (evmFromEnv false true true).isPanic then
    out := out ++ [s!"evmenv {hex (b "not a url")} {hex (b "0x03B770D9cD32077cC0bF330c13C114a87643B124")} {hex (b "0x03B770D9cD32077cC0bF330c13C114a87643B124")} x"]
  if (evmFromCsv true [(false, false), (false, false), (false, false), (false, false)]).isPanic then
    out := out ++ [s!"evmcsv {hex (b "a,b,c,d")} x"]
  if (metricServers [(false, some false)]).isPanic then out := out ++ [s!"metricslog {hex (b "Metrics server on \n")} x"]
  if (walletExport true false [120] true (fun _ => .err ()) (fun _ => false)).isPanic then
    out := out ++ [s!"walletexport plain {hex (b "not-a-private-key")} x"]
  if (relativeFilePath [.cur, .normal [97]] [.cur] false).isPanic then
    out := out ++ [s!"relpath {hex (b "./a")} {hex (b ".")} dir x x"]
  return out

end SafeNet.Driver.ParsersExt
