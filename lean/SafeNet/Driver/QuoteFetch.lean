import SafeNet.Driver.Util
import SafeNet.Model.QuoteFetch
import SafeNet.Model.QuoteFlow
/-! Driver for the client-side quote fetch (C13).
`fetch found=<id.id...|-> ignore=<id...|-> ord=<k> <id>=<resp> ...`; `S` in `found` is the client's own peer id.
resp = q:<addr>:<signer>:<content> (addr s|p<j>|n, signer s|p<j>|g, content o|x) | e | E | n | c | d | u
`flow <peer 0..4> <live1> <paid1> <live2> <paid2>`: two fetch rounds over five honest peers, peer `<peer>` quoting the two
metrics one after the other → `<fetch 1> ; <fetch 2> ; relayed=none|some` (did the client hand what it collected to anyone,
`Model/QuoteFlow.relayed` under the regenerated dispatch fact) -/
namespace SafeNet.Driver.QuoteFetch
open SafeNet.Driver SafeNet.Model.QuoteFetch

def selfId : Nat := 99

def dropPrefix (p s : String) : Option String :=
  if p.toList.isPrefixOf s.toList then some (String.ofList (s.toList.drop p.length)) else none

def parseIds (s : String) : Option (List Nat) :=
  if s = "-" then some [] else (s.splitOn ".").mapM fun t => if t = "S" then some selfId else t.toNat?

def parseResp (s : String) : Option Resp :=
  match s.splitOn ":" with
  | ["q", a, sg, c] =>
    let addr : Option Addr := if a = "s" then some .self else if a = "n" then some .nonPeer
      else (dropPrefix "p" a).bind fun r => r.toNat?.map Addr.peer
    let signer : Option Signer := if sg = "s" then some .self else if sg = "g" then some .garbage
      else (dropPrefix "p" sg).bind fun r => r.toNat?.map Signer.peer
    let content : Option Bool := if c = "o" then some true else if c = "x" then some false else none
    match addr, signer, content with
    | some a, some s, some c => some (.quote ⟨a, s, c⟩)
    | _, _, _ => none
  | ["e"] => some .recordExists
  | ["E"] => some .quoteErr
  | ["n"] => some .failed
  | ["c"] => some .failed
  | ["d"] => some .failed
  | ["u"] => some .unexpected
  | _ => none

def field (key : String) (ws : List String) : Option String :=
  ws.findSome? fun w => dropPrefix (key ++ "=") w

def step (_ : Unit) (ws : List String) : Unit × String :=
  match ws with
  | "fetch" :: rest =>
    match (field "found" rest).bind parseIds, (field "ignore" rest).bind parseIds with
    | some found, some ignore =>
      -- per-peer responses: tokens `<id>=<resp>`; a peer without one does not reply
      let table : Option (List (Nat × Resp)) := (rest.filter fun w =>
          match w.splitOn "=" with
          | [k, _] => k.toNat?.isSome
          | _ => false).mapM fun w =>
        match w.splitOn "=" with
        | [k, v] => match k.toNat?, parseResp v with
          | some k, some r => some (k, r)
          | _, _ => none
        | _ => none
      match table with
      | none => ((), "bad-op")
      | some table =>
        let resp : Nat → Resp := fun p => ((table.find? (·.1 == p)).map (·.2)).getD .failed
        match fetch selfId found ignore resp with
        | .ok out => ((), tagNats "ok" (sortNats out))
        | .error .notEnoughPeers => ((), "err notenough")
        | .error .noStoreCostResponses => ((), "err noresponses")
    | _, _ => ((), "bad-op")
  | ["flow", p, l1, c1, l2, c2] =>
    match p.toNat?, l1.toNat?, c1.toNat?, l2.toNat?, c2.toNat? with
    | some p, some l1, some c1, some l2, some c2 =>
      if p > 4 then ((), "bad-op") else
      let one := match fetch selfId [0, 1, 2, 3, 4] [] (fun _ => .quote ⟨.self, .self, true⟩) with
        | .ok out => tagNats "ok" (sortNats out)
        | .error _ => "err"
      let rounds : List SafeNet.QuoteFlow.Round := [⟨2000, [(p, ⟨100, l1, c1⟩)]⟩, ⟨3000, [(p, ⟨1100, l2, c2⟩)]⟩]
      let n := (rounds.map fun r =>
        (SafeNet.QuoteFlow.relayed Gen.QuoteFetch.quoteVerificationDispatched r).length).sum
      ((), s!"{one} ; {one} ; relayed={if n == 0 then "none" else "some"}")
    | _, _, _, _, _ => ((), "bad-op")
  | _ => ((), "bad-op")

/-- model search: single-peer deviations among five otherwise honest peers on which the regenerated model returns a
quote that is not signed by the peer it is attributed to -/
def searchCandidates : List String :=
  let resps : List (String × QuoteResp) :=
    [("q:p3:p3:o", ⟨.peer 3, .peer 3, true⟩), ("q:s:p3:o", ⟨.self, .peer 3, true⟩), ("q:n:p3:o", ⟨.nonPeer, .peer 3, true⟩),
     ("q:p3:g:o", ⟨.peer 3, .garbage, true⟩), ("q:s:g:o", ⟨.self, .garbage, true⟩), ("q:p3:s:o", ⟨.peer 3, .self, true⟩)]
  resps.filterMap fun (tok, q) =>
    let resp : Nat → Resp := fun p => if p = 1 then .quote q else .quote ⟨.self, .self, true⟩
    match fetch selfId [0, 1, 2, 3, 4] [] resp with
    | .ok out => if out.contains 1 && !signedBy 1 q.signer 1 then
        some s!"fetch found=0.1.2.3.4 ignore=- ord=0 0=q:s:s:o 1={tok} 2=q:s:s:o 3=q:s:s:o 4=q:s:s:o" else none
    | .error _ => none

end SafeNet.Driver.QuoteFetch
