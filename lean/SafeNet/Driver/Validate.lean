import SafeNet.Driver.Util
import SafeNet.Model.Validate
/-! Line-protocol driver for the put-validation model (see `harness/hnode/src/bin/validate.rs`). -/
namespace SafeNet.Driver.Validate
open SafeNet.Validate SafeNet.Gen.Validate

def resName : Res → String
  | .ok => "ok" | .keyMismatch => "keyMismatch" | .unpaid => "unpaid" | .unexpectedPayment => "unexpectedPayment"
  | .parse => "parse" | .payNotForUs => "payNotForUs" | .payWrongContent => "payWrongContent"
  | .payExpired => "payExpired" | .payOutOfRange => "payOutOfRange" | .payChain => "payChain"
  | .outdated => "outdated" | .invalidSig => "invalidSig" | .noTx => "noTx" | .regNotFound => "regNotFound"
  | .regInvalid => "regInvalid" | .regDifferentBase => "regDifferentBase" | .kindMismatch => "kindMismatch"

def dots (l : List Nat) : String := ".".intercalate (l.map toString)

def contentStr : Content → String
  | .chunk => "C"
  | .pad n v => s!"S{n}" ++ (if v then "" else "i")
  | .txs ids => "T" ++ dots ids
  | .reg alt ops => (if alt then "A" else "R") ++ dots ops

def sortStore (s : Store) : Store :=
  s.foldl (fun acc e =>
    let rec ins : Store → Store
      | [] => [e]
      | x :: xs => if e.1 < x.1 then e :: x :: xs else x :: ins xs
    ins acc) []

def storeStr (s : Store) : String :=
  if s.isEmpty then "-" else ",".intercalate ((sortStore s).map fun (k, c) => s!"{k}={contentStr c}")

/-- the stored form of an incoming unpaid register record (its value can coincide with the stored one) -/
def incomingContent (d : Delivery) : Option Content :=
  match d.kind, d.content with
  | .reg, .reg _ b ops => some (.reg (regAlt b) (union (ops.map (·.id)) []))
  | _, _ => none

def tyStr (d : Delivery) (s : Store) (k : Nat) : Ty → String
  | .c => "c"
  | .s => "s"
  | t =>
    let same := decide (some k = derivedKey d.content) && (incomingContent d).isSome && s.get k == incomingContent d
    match t with
    | .i => if same then "im" else "i"
    | _ => if same then "im" else "m"

/-- print a segment of commands, tracking the store as the puts in it take effect -/
def printToks (d : Delivery) : Store → List Tok → List String
  | _, [] => []
  | s, .H k :: r => s!"H{k}" :: printToks d s r
  | s, .G k :: r => s!"G{k}" :: printToks d s r
  | s, .K :: r => "K" :: printToks d s r
  | s, .V :: r => "V" :: printToks d s r
  | s, .P a :: r => s!"P{a}" :: printToks d s r
  | s, .W k c :: r => s!"W{k}={contentStr c}" :: printToks d (s.put k c) r
  | s, .F k t :: r => s!"F{k}:{tyStr d s k t}" :: printToks d s r
  | s, .R k t :: r => (if (s.get k).isSome then s!"R{k}:{tyStr d s k t}" else s!"N{k}") :: printToks d s r

def outLine (res : String) (toks : List String) : String :=
  if toks.isEmpty then s!"{res} |" else s!"{res} | " ++ " ".intercalate toks

/-! parsing -/

def kindOf : String → Option Kind
  | "chunkp" => some .chunkp | "chunk" => some .chunk | "padp" => some .padp | "pad" => some .pad
  | "txp" => some .txp | "tx" => some .tx | "regp" => some .regp | "reg" => some .reg
  | _ => none

def parseNats (s : String) : Option (List Nat) :=
  if s.isEmpty then some [] else (s.splitOn ".").mapM String.toNat?

def parseStored (d : String) : Option Content :=
  let tag := d.take 1
  let rest := (d.drop 1).toString
  match tag.toString with
  | "C" => some .chunk
  | "S" =>
    if rest.endsWith "i" then (rest.dropEnd 1).toString.toNat?.map (fun n => .pad n false)
    else rest.toNat?.map (fun n => .pad n true)
  | "T" => (parseNats rest).map (fun l => .txs (union l []))
  | "R" => (parseNats rest).map (fun l => .reg false (union l []))
  | "A" => (parseNats rest).map (fun l => .reg true (union l []))
  | _ => none

def parseStore (s : String) : Option Store :=
  if s = "-" then some [] else
  (s.splitOn ",").mapM fun e =>
    match e.splitOn "=" with
    | [k, d] => do
      let k ← k.toNat?
      let c ← parseStored d
      pure (k, c)
    | _ => none

def parseTx (e : String) : Option TxD :=
  match e.splitOn "." with
  | [o, t, v] => do pure ⟨← o.toNat?, ← t.toNat?, v == "v"⟩
  | _ => none

def parseOp (e : String) : Option OpD := do
  let n ← (e.dropEnd 1).toString.toNat?
  let c ← match (e.takeEnd 1).toString with
    | "v" => some OpCls.v | "u" => some OpCls.u | "f" => some OpCls.f
    | "s" => some OpCls.s | "z" => some OpCls.z | _ => none
  pure ⟨n, c⟩

def parseContent (s : String) : Option DContent :=
  if s = "X" then some .bad else
  let tag := (s.take 1).toString
  let rest := (s.drop 1).toString
  match tag with
  | "C" => if rest.startsWith "k" then (rest.drop 1).toString.toNat?.map .chunkPre else rest.toNat?.map .chunk
  | "S" =>
    match rest.splitOn "." with
    | [o, n, v] => do pure (.pad (← o.toNat?) (← n.toNat?) (v == "v" || v == "d"))
    | _ => none
  | "T" => if rest = "-" then some (.txs []) else ((rest.splitOn ",").mapM parseTx).map .txs
  | "R" =>
    match rest.splitOn "." with
    | [i, b, ops] => do
      let i ← i.toNat?
      let b ← match b with | "g" => some RegBase.good | "a" => some RegBase.alt | "b" => some RegBase.bad | _ => none
      let ops ← if ops = "-" then some [] else (ops.splitOn ",").mapM parseOp
      pure (.reg i b ops)
    | _ => none
  | _ => none

/-- payee `x` / `y`: claimed peer-id bytes that do not decode -/
def parsePayee (p : String) : Option Nat :=
  if p = "x" then some 999 else if p = "y" then some 998 else p.toNat?

def parseQuote (q : String) : Option QuoteD :=
  match q.splitOn "." with
  | [p, s, sg, t, c, v, a] => do
    pure ⟨← parsePayee p, ← s.toNat?, sg == "1", t == "f" || t == "b", c == "1", v == "1", ← a.toNat?⟩
  | _ => none

def parsePay (s : String) : Option (Option PayD) :=
  if s = "-" then some none else
  match s.splitOn ";" with
  | [qs, cl] => do
    let quotes ← (qs.splitOn ",").mapM parseQuote
    let close ← if cl = "-" then some [] else parseNats cl
    pure (some ⟨quotes, close⟩)
  | _ => none

def parseDelivery : List String → Option Delivery
  | [p, k, rk, c, pay] => do
    let client ← match p with | "c" => some true | "r" => some false | _ => none
    pure ⟨client, ← kindOf k, ← rk.toNat?, ← parseContent c, ← parsePay pay⟩
  | _ => none

def idOf : String → Nat
  | "a" => 0 | "b" => 1 | "c" => 2 | _ => 9

/-- the header window `RecordStore::put` looks at is three bytes -/
def hdrOf (len : Nat) (h : String) : Option Kind := if len < 3 then none else kindOf h

def heldOf : String → Option Held
  | "none" => some .none | "chunk" => some .chunk | "same" => some .same | "diff" => some .diff | "pad" => some .pad
  | _ => none

def deliverLine (w : World) (d : Delivery) : World × String :=
  let (r, toks, s') := runAlone 8 (Flight.start d) w.store []
  let big := validate d w.store
  let line := outLine (resName r) (printToks d w.store toks)
  -- the big-step function the theorems are about must agree with the small-step run
  let line := if w.flights.isEmpty && (big.1 ≠ r || big.2 ≠ toks) then "MODEL-INCONSISTENT " ++ line else line
  ({ w with store := s' }, line)

def actLine (w : World) (d? : Option Delivery) (a : Act) (id : Nat) : World × String :=
  let d := match d? with | some d => some d | none => (w.flight id).map (·.d)
  match w.act a, d with
  | (w', some (done, toks)), some d =>
    (w', outLine (match done with | some r => resName r | none => "pend") (printToks d w.store toks))
  | _, _ => (w, "bad-op")

/-- the well-formed delivery behind a `big <path> <kind> <delta>` line (nothing held; only the size varies) -/
def bigDelivery (client : Bool) (kind : String) : Option Delivery :=
  let pay : PayD := ⟨[⟨0, 0, true, true, true, true, 5⟩, ⟨1, 1, true, true, true, true, 2⟩, ⟨2, 2, true, true, true, true, 3⟩], [0, 1, 2]⟩
  match kind with
  | "chunk" => some ⟨client, .chunk, 0, .chunk 0, none⟩
  | "chunkp" => some ⟨client, .chunkp, 0, .chunk 0, some pay⟩
  | "pad" => some ⟨client, .pad, 1, .pad 0 1 true, none⟩
  | "padp" => some ⟨client, .padp, 1, .pad 0 1 true, some pay⟩
  | "junk" => some ⟨client, .chunk, 0, .bad, none⟩
  | "junkp" => some ⟨client, .chunkp, 0, .bad, some pay⟩
  | _ => none

/-- `MAX_PACKET_SIZE + delta` (delta may be negative).  Exact for the unsigned kinds (chunk, junk, junkp); a signed
record (pad, padp, chunkp) cannot be built to an exact length, the harness builds it within 63 bytes of the length
64 bytes further away from the limit: any such length is on the same strict side, the model takes that aim. -/
def bigLen (kind delta : String) : Option Nat :=
  let signed := kind == "pad" || kind == "padp" || kind == "chunkp"
  if delta.startsWith "-" then (delta.drop 1).toString.toNat?.map (fun n => maxPacketSize - n - (if signed then 64 else 0))
  else delta.toNat?.map (fun n => maxPacketSize + n + (if signed then 64 else 0))

def bigLine (client : Bool) (kind delta : String) : Option String := do
  let d ← bigDelivery client kind
  let len ← bigLen kind delta
  match validateSized len d [] with
  | none => pure "tooLarge puts=0"
  | some (r, toks) =>
    let puts := (toks.filter fun | .W _ _ => true | _ => false).length
    pure s!"{resName r} puts={puts}"

/-- `bigm <path> <delta>`: key 1 holds the transaction set {1}; a second valid transaction of the owner arrives (client
path: `TransactionWithPayment` with an expired quote, tolerated as an update; replication path: a vector); each
record is about half the limit, their union re-serialised is `MAX_PACKET_SIZE + delta` long — the harness builds it
within 511 bytes of the length 512 bytes further away from the limit, the model takes that aim. -/
def bigmLine (client : Bool) (delta : String) : Option String := do
  let bad : PayD := ⟨[⟨0, 0, true, false, true, true, 5⟩, ⟨1, 1, true, true, true, true, 2⟩, ⟨2, 2, true, true, true, true, 3⟩], [0, 1, 2]⟩
  let d : Delivery := if client then ⟨true, .txp, 1, .txs [⟨0, 2, true⟩], some bad⟩ else ⟨false, .tx, 1, .txs [⟨0, 2, true⟩], none⟩
  let plen ← if delta.startsWith "-" then (delta.drop 1).toString.toNat?.map (fun n => maxPacketSize - n - 512)
    else delta.toNat?.map (fun n => maxPacketSize + n + 512)
  match validateSizedPut (plen / 2 + 4096) plen d [(1, .txs [1])] with
  | .refused => pure "tooLarge puts=0"
  | .refusedAtPut _ => pure "tooLarge puts=0"
  | .done r toks =>
    let puts := (toks.filter fun | .W _ _ => true | _ => false).length
    pure s!"{resName r} puts={puts}"

def step (w : World) (ws : List String) : World × String :=
  match ws with
  | ["bigm", p, delta] =>
    match (match p with | "c" => some true | "r" => some false | _ => none) with
    | some client => (w, (bigmLine client delta).getD "bad-op")
    | none => (w, "bad-op")
  | "case" :: st :: rest =>
    match parseStore st, parseDelivery rest with
    | some s, some d => deliverLine ⟨s, []⟩ d
    | _, _ => (w, "bad-op")
  | ["new", st] =>
    match parseStore st with
    | some s => (⟨s, []⟩, "ok")
    | none => (w, "bad-op")
  | "deliver" :: rest =>
    match parseDelivery rest with
    | some d => deliverLine w d
    | none => (w, "bad-op")
  | "begin" :: id :: rest =>
    match parseDelivery rest with
    | some d => actLine w (some d) (.begin (idOf id) d) (idOf id)
    | none => (w, "bad-op")
  | ["ans", id] =>
    match w.act (.ans (idOf id)) with
    | (w', some _) => (w', "answered")
    | _ => (w, "bad-op")
  | ["run", id] => actLine w none (.run (idOf id)) (idOf id)
  | ["dump"] => (w, "store " ++ storeStr w.store)
  | ["evict", k] =>
    match k.toNat? with
    | some k => ((w.act (.remove k)).1, if (w.store.get k).isSome then "evicted" else "absent")
    | none => (w, "bad-op")
  | ["big", p, kind, delta] =>
    match (match p with | "c" => some true | "r" => some false | _ => none) with
    | some client => (w, (bigLine client kind delta).getD "bad-op")
    | none => (w, "bad-op")
  | ["close", r, ps] =>
    -- routing-table peers in order of increasing distance; a new chunk paid to this node (twice) and to the
    -- peer at rank `r`, validated against the close set the driver serves
    match r.toNat?, (if ps = "-" then some [] else parseNats ps) with
    | some r, some ps =>
      match ps[r]? with
      | some p =>
        let set := closeSet ps
        let pay : PayD := ⟨[⟨0, 0, true, true, true, true, 5⟩, ⟨p, p, true, true, true, true, 2⟩,
          ⟨0, 0, true, true, true, true, 3⟩], set⟩
        let (_, line) := deliverLine ⟨[], []⟩ ⟨true, .chunkp, 0, .chunk 0, some pay⟩
        (w, s!"set={dots set} " ++ line)
      | none => (w, "bad-op")
    | _, _ => (w, "bad-op")
  | ["sput", mx, len, h, held] =>
    match mx.toNat?, len.toNat?, heldOf held with
    | some mx, some len, some held =>
      let (r, ev) := storePut mx len (hdrOf len h) held
      (w, s!"{match r with | .ok => "ok" | .tooLarge => "tooLarge"} ev={if ev then 1 else 0} obs=same")
    | _, _, _ => (w, "bad-op")
  | _ => (w, "bad-op")

/-! ## Model search: candidate inputs on which the regenerated model contradicts C03 / C04 / C07 -/

def allSix (d : Delivery) : Bool :=
  match d.pay with
  | some p => (vecOf p).all
  | none => false

/-- does the model's outcome on this case contradict one of the properties? -/
def violates (s : Store) (d : Delivery) : Bool :=
  let (r, toks) := validate d s
  let writes := toks.filterMap fun | .W k c => some (k, c) | _ => none
  let mismatch := match route d.client d.kind with
    | .txRepl => false
    | _ => derivedKey d.content ≠ some d.rk
  (r ≠ .ok && !writes.isEmpty) ||
  (mismatch && (r == .ok || !writes.isEmpty)) ||
  writes.any (fun (k, c) =>
    (d.client && (s.get k).isNone && !(isPaid d.kind && allSix d)) ||
    (match c, s.get k with
      | .pad n v, some (.pad m _) => !v || n ≤ m
      | .pad _ v, _ => !v
      | .txs l, old =>
        let oldIds := match old with | some (.txs o) => o | _ => []
        oldIds.any (fun x => !l.contains x) ||
          l.any (fun x => !oldIds.contains x && !((txForKey d).any fun t => t.valid && t.t == x && 3 * t.owner + 1 == k))
      | .reg _ l, old =>
        let oldIds := match old with | some (.reg _ o) => o | _ => []
        oldIds.any (fun x => !l.contains x) ||
          (match d.content with
            | .reg _ b ops => b == .bad || ops.any (fun o => !opValid (regAlt b) o.cls)
            | _ => true)
      | _, _ => false))

def candidateLines : List String := [
  -- one payment condition false at a time, new key, every paid kind
  "case - c chunkp 0 C0 0.0.1.f.0.1.5,1.1.1.f.1.1.2,2.2.1.f.1.1.3;0.1.2",
  "case - c chunkp 0 C0 0.0.1.e.1.1.5,1.1.1.f.1.1.2,2.2.1.f.1.1.3;0.1.2",
  "case - c chunkp 0 C0 0.0.1.u.1.1.5,1.1.1.f.1.1.2,2.2.1.f.1.1.3;0.1.2",
  "case - c chunkp 0 C0 0.0.0.f.1.1.5,1.1.1.f.1.1.2,2.2.1.f.1.1.3;0.1.2",
  "case - c chunkp 0 C0 0.0.1.f.1.1.5,1.3.1.f.1.1.2,2.2.1.f.1.1.3;0.1.2",
  "case - c chunkp 0 C0 3.3.1.f.1.1.5,1.1.1.f.1.1.2,2.2.1.f.1.1.3;1.2.3",
  "case - c chunkp 0 C0 0.0.1.f.1.1.5,1.1.1.f.1.1.2,2.2.1.f.1.1.3;0.1",
  "case - c chunkp 0 C0 0.0.1.f.1.1.5,1.1.1.f.1.0.2,2.2.1.f.1.1.3;0.1.2",
  "case - c chunkp 0 C0 0.0.1.f.1.1.5,1.1.1.f.1.1.2;0.1.2",
  "case - c padp 1 S0.3.v 0.0.1.f.0.1.5,1.1.1.f.1.1.2,2.2.1.f.1.1.3;0.1.2",
  "case - c padp 1 S0.3.v 0.0.1.e.1.1.5,1.1.1.f.1.1.2,2.2.1.f.1.1.3;0.1.2",
  "case - c txp 1 T0.1.v 0.0.1.f.0.1.5,1.1.1.f.1.1.2,2.2.1.f.1.1.3;0.1.2",
  "case - c txp 1 T0.1.v 0.0.1.f.1.1.5,1.1.1.f.1.0.2,2.2.1.f.1.1.3;0.1.2",
  "case - c regp 2 R0.g.1v 0.0.1.f.0.1.5,1.1.1.f.1.1.2,2.2.1.f.1.1.3;0.1.2",
  "case - c regp 2 R0.g.1v 0.0.1.f.1.1.5,1.1.1.f.1.1.2,2.2.1.f.1.1.3;0.2",
  -- unpaid uploads of new data
  "case - c chunk 0 C0 -", "case - c pad 1 S0.3.v -", "case - c tx 1 T0.1.v -", "case - c reg 2 R0.g.1v -",
  -- key mismatches on every path
  "case 2=R1,5=R1 c reg 5 R0.g.1v,2v -",
  "case 2=R1 c reg 0 R0.g.2v -",
  "case - r reg 5 R0.g.1v -",
  "case - r chunk 3 C0 -",
  "case 1=S1 r pad 4 S0.3.v -",
  "case 1=S1,4=S1 c pad 4 S0.3.v -",
  "case - c chunkp 3 C0 0.0.1.f.1.1.5,1.1.1.f.1.1.2,2.2.1.f.1.1.3;0.1.2",
  "case - c padp 4 S0.3.v 0.0.1.f.1.1.5,1.1.1.f.1.1.2,2.2.1.f.1.1.3;0.1.2",
  "case - c txp 4 T0.1.v 0.0.1.f.1.1.5,1.1.1.f.1.1.2,2.2.1.f.1.1.3;0.1.2",
  "case - c regp 5 R0.g.1v 0.0.1.f.1.1.5,1.1.1.f.1.1.2,2.2.1.f.1.1.3;0.1.2",
  -- mutable records: stale / equal counters, bad signatures, foreign and invalid entries
  "case 1=S3 r pad 1 S0.3.v -", "case 1=S3 r pad 1 S0.2.v -", "case 1=S3 c pad 1 S0.3.v -",
  "case 1=S3 r pad 1 S0.5.w -", "case - r pad 1 S0.5.n -", "case 1=S3 c pad 1 S0.5.w -",
  "case 1=T1 r tx 1 T0.2.i -", "case 1=T1 r tx 1 T1.2.v -", "case - r tx 1 T0.2.i,0.3.v -", "case 1=T1.2 r tx 1 T0.3.v -",
  "case 2=R1 r reg 2 R0.b.2v -", "case 2=R1 r reg 2 R0.g.2u -", "case 2=R1 r reg 2 R0.g.2f -", "case 2=R1.2 r reg 2 R0.g.3v -",
  "case 2=R1 c reg 2 R0.g.2u -",
  -- first arrival of an invalid register on a key not held
  "case - r reg 2 R0.b.1v -", "case - r reg 2 R0.g.1v,2u -", "case - r reg 2 R0.g.1v,2s -", "case - r reg 2 R0.g.1v,2z -",
  "case - r reg 2 R0.g.2f -",
  "case - c regp 2 R0.b.1v 0.0.1.f.1.1.5,1.1.1.f.1.1.2,2.2.1.f.1.1.3;0.1.2",
  "case - c regp 2 R0.g.1v,2u 0.0.1.f.1.1.5,1.1.1.f.1.1.2,2.2.1.f.1.1.3;0.1.2",
  "case - r pad 1 S0.3.w -", "case - r tx 1 T0.1.i -", "case - r tx 1 T1.2.v -"
]

/-- histories in which the store drops the key between a validation's existence test and its read of the local
copy; a put without a (valid) payment must not survive any of them: the store has to end up empty -/
def historyCandidates : List (List String) :=
  let bad := "0.0.1.e.1.1.5,1.1.1.f.1.1.2,2.2.1.f.1.1.3;0.1.2"
  [ ["new 1=S3", "begin a c pad 1 S0.5.v -", "ans a", "evict 1", "run a", "ans a", "run a", "dump"],
    ["new 1=S3", "begin a c pad 1 S0.1.v -", "ans a", "evict 1", "run a", "ans a", "run a", "dump"],
    ["new 2=R1", "begin a c reg 2 R0.g.2v -", "ans a", "evict 2", "run a", "ans a", "run a", "dump"],
    ["new 2=R1", "begin a c reg 2 R0.g.2v -", "ans a", "run a", "ans a", "evict 2", "run a", "ans a", "run a", "dump"],
    ["new 1=T1", s!"begin a c txp 1 T0.2.v {bad}", "ans a", "evict 1", "run a", "ans a", "run a", "dump"],
    ["new 2=R1", s!"begin a c regp 2 R0.g.2v {bad}", "ans a", "evict 2", "run a", "ans a", "run a", "dump"] ]

/-- run a history through the model; does the store end up non-empty? -/
def historyViolates (h : List String) : Bool :=
  let w := h.foldl (fun w l => (step w (words l)).1) (⟨[], []⟩ : World)
  !w.store.isEmpty

/-- oversized records the model would let through on a path -/
def bigmCandidates : List String :=
  ["bigm c 0", "bigm c 1000000", "bigm r 1000"].filter fun l =>
    match words l with
    | ["bigm", p, delta] => (bigmLine (p == "c") delta) != some "tooLarge puts=0"
    | _ => false

def bigCandidates : List String :=
  ["big r chunk 0", "big r chunk 1", "big r chunk 1000000", "big r pad 4000000", "big c chunkp 1000", "big c junkp 0", "big r junk 0"].filter fun l =>
    match words l with
    | ["big", p, kind, delta] =>
      match bigDelivery (p == "c") kind, bigLen kind delta with
      | some d, some len => (validateSized len d []).isSome
      | _, _ => false
    | _ => false

def searchCandidates : List String :=
  (candidateLines.filter fun l =>
    match words l with
    | "case" :: st :: rest =>
      match parseStore st, parseDelivery rest with
      | some s, some d => violates s d
      | _, _ => false
    | _ => false) ++ (historyCandidates.filter historyViolates).flatten ++ bigCandidates ++ bigmCandidates

end SafeNet.Driver.Validate
