import SafeNet.Driver.Util
import SafeNet.Model.ParsersR6
/-! Driver ops of the C17 audit round 6 (see `SafeNet.Model.ParsersR6`); used by `SafeNet.Driver.Parsers`. -/
namespace SafeNet.Driver.ParsersR6
open SafeNet.Panic SafeNet.Parsers SafeNet.Gen.Parsers

def showUnit : Res Unit Unit → String
  | .ok _ => "ok"
  | .err _ => "err"
  | .panic _ => "panic"

def natsOf (s : String) : Option (List Nat) :=
  if s == "-" then some [] else (s.splitOn ",").mapM (·.toNat?)

/-- `err` | `<F|A>:<idxs>:<f1|f0>:<ok|err|x>` -/
def levelOf (s : String) : Option (Option MapLevel) :=
  if s == "err" then some none else
  match s.splitOn ":" with
  | [k, is, f, d] =>
    if (k == "F" || k == "A") && (f == "f1" || f == "f0") && (d == "ok" || d == "err" || d == "x") then
      (natsOf is).map fun idxs => some { additional := k == "A", idxs := idxs, fetched := f == "f1", decryptOk := d == "ok" }
    else none
  | _ => none

def urlPortOf : String → Option UrlPort
  | "bad" => some .bad | "port" => some .explicit | "dflt" => some .dflt | "none" => some .absent
  | _ => none

def optNat (s : String) (noneWord : String) : Option (Option Nat) :=
  if s == noneWord then some none else s.toNat?.map some

def stepLine (ws : List String) : Option String :=
  match ws with
  | ["datamap", _, _, tp] =>
    some (match (tp.splitOn "/").mapM levelOf with
    | some ls => showUnit (dataMapFetch ls)
    | none => "bad-op")
  | ["addnum", m, c] =>
    some (match optNat m "-", optNat c "none" with
    | some m, some c =>
      if m == some 0 || m.getD 0 ≥ 65536 || c.getD 1 ≥ 65536 then "bad-op" else
      if c.getD 1 > 40 && m.getD 0 + c.getD 1 ≤ 65535 then "bad-op" else
      (match addNumbering (m.getD 0) (c.getD 1) with
      | .ok ns =>
        (match ns.head?, ns.getLast? with
        | some a, some b => s!"ok {a}-{b}"
        | _, _ => "ok none")
      | .err _ => "err"
      | .panic _ => "panic")
    | _, _ => "bad-op")
  | ["logfiles", u, c] =>
    some (match optNat u "none", optNat c "none" with
    | some u, some c =>
      if u.getD 0 ≥ 2 ^ 64 || c.getD 0 ≥ 2 ^ 64 then "bad-op" else
      (match logFileLimits u c with
      | .ok _ => "ok"
      | .error _ => "panic")
    | _, _ => "bad-op")
  | ["killfaucet", p] =>
    some (if p == "nofaucet" then showUnit (killFaucet none) else
    match optNat p "null" with
    | some (some n) => if n ≤ 4194304 || n ≥ 2 ^ 32 then "bad-op" else showUnit (killFaucet (some (some n)))
    | some none => showUnit (killFaucet (some none))
    | none => "bad-op")
  | ["upgrade0", _, tp] =>
    some (if tp == "skipped" then "skipped" else if tp == "v0" then "err" else if tp == "v1" then showUnit (upgradeFirstNode 0) else "bad-op")
  | ["logdestrt", d] =>
    let dest : Option LogDest :=
      if d == "stderr" then some .stderr else if d == "stdout" then some .stdout
      else if d.startsWith "p:" then (unhex ((d.drop 2).toString)).map .path else none
    some (match dest with
    | some dest => if logDestRoundTrip dest == some dest then "same" else "differs"
    | none => "bad-op")
  | ["promcfg", _, tp] =>
    some (match urlPortOf tp with
    | some u => (match promConfig u with
      | .ok n => s!"ok {n}"
      | .err _ => "err"
      | .panic _ => "panic")
    | none => "bad-op")
  | _ => none

/-- Model search for the routines of this module: inputs on which the regenerated model panics (printed as the
harness would write them where the op line is self-contained; `datamap` lines name the crafted indices). -/
def searchCandidates : List String := Id.run do
  let mut out : List String := []
  for idxs in [[0], [1], [0, 1], [0, 1, 5], [0, 1, 2], [1, 2, 3], [0, 1, 2, 4]] do
    let l : MapLevel := { additional := false, idxs := idxs, fetched := true, decryptOk := false }
    if (dataMapFetch [some l]).isPanic then
      out := out ++ [s!"datamap-craft F {",".intercalate (idxs.map toString)}"]
  for (m, c) in [(65535, 1), (65534, 1), (1, 65535), (65535, 0), (65533, 2), (65530, 5)] do
    if (addNumbering m c).isPanic then out := out ++ [s!"addnum {m} {c}"]
  for u in [UrlPort.dflt, UrlPort.absent] do
    if (promConfig u).isPanic then
      out := out ++ [s!"promcfg {hex (bytesOf (if u == .dflt then "http://127.0.0.1:80/metrics" else "foo://127.0.0.1/metrics"))} x"]
  for (u, c) in [(2 ^ 64 - 1, 1), (1, 2 ^ 64 - 1), (10, 2 ^ 64 - 10)] do
    match logFileLimits (some u) (some c) with
    | .error _ => out := out ++ [s!"logfiles {u} {c}"]
    | .ok _ => pure ()
  if (killFaucet (some none)).isPanic then out := out ++ ["killfaucet null"]
  if (upgradeFirstNode 0).isPanic then out := out ++ [s!"upgrade0 {hex (bytesOf "antnode 0.112.6\n")} x"]
  return out

end SafeNet.Driver.ParsersR6
