import SafeNet.Driver.Util
import SafeNet.Model.Lifecycle
namespace SafeNet.Driver.Lifecycle
open SafeNet.Lifecycle

def kv (ws : List String) (key : String) : Option String :=
  ws.findSome? fun w =>
    if w.startsWith (key ++ "=") then some ((w.drop (key.length + 1)).toString) else none

def b01 (s : String) : Option Bool :=
  if s = "0" then some false else if s = "1" then some true else none

def parseFaults (ws : List String) : Option (List Fault) :=
  match kv ws "faults" with
  | none => none
  | some f =>
    if f = "-" then some [] else
    f.toList.mapM fun c =>
      if c = '0' then some Fault.ok else if c = '1' then some Fault.fail else if c = '2' then some Fault.failAfter else none

/-- `-` ↦ no request; `p` ↦ (p,p); `p-q` ↦ (p,q). -/
def parseRange (s : String) : Option (Option (Nat × Nat)) :=
  if s = "-" then some none else
  match s.splitOn "-" with
  | [a] => a.toNat?.map fun p => some (p, p)
  | [a, b] =>
    match a.toNat?, b.toNat? with
    | some p, some q => some (some (p, q))
    | _, _ => none
  | _ => none

def parseOp (ws : List String) : Option Op :=
  match ws with
  | "add" :: rest =>
    match (kv rest "count").bind String.toNat?, (kv rest "np").bind parseRange, (kv rest "mp").bind parseRange,
          (kv rest "rp").bind parseRange, (kv rest "metrics").bind b01, (kv rest "ver").bind String.toNat?,
          parseFaults rest with
    | some c, some np, some mp, some rp, some m, some v, some f => some (.add c np mp rp m v f)
    | _, _, _, _, _, _, _ => none
  | "start" :: i :: rest =>
    match i.toNat?, parseFaults rest with
    | some i, some f => some (.start i (((kv rest "ct").bind b01).getD false) f)
    | _, _ => none
  | "stop" :: i :: rest =>
    match i.toNat?, parseFaults rest with
    | some i, some f => some (.stop i f)
    | _, _ => none
  | "remove" :: i :: rest =>
    match i.toNat?, (kv rest "keep").bind b01, parseFaults rest with
    | some i, some k, some f => some (.remove i k f)
    | _, _, _ => none
  | "upgrade" :: i :: rest =>
    match i.toNat?, (kv rest "force").bind b01, (kv rest "start").bind b01, (kv rest "ver").bind String.toNat?,
          parseFaults rest with
    | some i, some fo, some st, some v, some f => some (.upgrade i fo st v (((kv rest "ct").bind b01).getD false) f)
    | _, _, _, _, _ => none
  | ["refresh"] => some .refresh
  | "refresh-full" :: rest =>
    -- `fail` and `faults` are optional (a bare `refresh-full` is the fault-free `antctl status`)
    match (match kv rest "faults" with | none => some [] | some _ => parseFaults rest) with
    | some f => some (.refreshFull (((kv rest "fail").bind b01).getD false) f)
    | none => none
  | "drestart" :: i :: rest =>
    match i.toNat?, (kv rest "retain").bind b01, parseFaults rest with
    | some i, some r, some f => some (.drestart i r f)
    | _, _, _ => none
  | ["restart-outside", i] => i.toNat?.map .restartOutside
  | ["die-outside", i] => i.toNat?.map .kill
  | ["kill", i] => i.toNat?.map .kill
  | ["flaky", i, b] =>
    match i.toNat?, b01 b with
    | some i, some b => some (.flaky i b)
    | _, _ => none
  | ["saveload"] => some .saveload
  | _ => none

def optS : Option Nat → String
  | none => "-"
  | some p => toString p

def statusS : Status → String
  | .added => "A" | .running => "R" | .stopped => "S" | .removed => "X"

def insertBy {α : Type} (key : α → Nat) (x : α) : List α → List α
  | [] => [x]
  | y :: r => if key x ≤ key y then x :: y :: r else y :: insertBy key x r

def sortBy {α : Type} (key : α → Nat) (xs : List α) : List α := xs.foldl (fun acc x => insertBy key x acc) []

def svcS (s : Svc) : String :=
  s!" {s.number}/{s.number}/{s.number}:{statusS s.status}:pid={optS s.pid}:np={optS s.nodePort}:mp={optS s.metricsPort}:rp={s.rpcPort}:v={s.version}:cp={optS s.peers}:pe={optS s.peer}:la={optS s.lport}"

/-- in-memory registry, registry file, simulated OS -/
def dump (s : Sys) : String :=
  let w := s.w
  let inst := (sortBy (fun e => e.1) w.os.installed).map fun e => s!"{e.1}:{optS e.2.1}"
  let procs := (sortBy (fun p => p.pid) w.os.procs).map fun p => s!"{p.pid}@{p.svc}:{p.port}"
  let dirs := (sortBy id w.os.dirs).map toString
  "R" ++ String.join (w.reg.map svcS) ++ " | F" ++ String.join (s.file.map svcS) ++
    s!" | OS inst=[{",".intercalate inst}] procs=[{",".intercalate procs}] dirs=[{",".intercalate dirs}] np={w.os.nextPid} npt={w.os.nextPort}"

/-- `cmd <op line>`: one whole `antctl` invocation (add / start / stop / remove / upgrade / refresh-full = status). -/
def parseSOp (ws : List String) : Option SOp :=
  if ws = ["reload"] then some .reload else
  match ws with
  | "cmd" :: rest =>
    match parseOp rest with
    | some (.add c np mp rp m v f) => some (.cmd (.add c np mp rp m v f))
    | some (.start i ct f) => some (.cmd (.start i ct f))
    | some (.stop i f) => some (.cmd (.stop i f))
    | some (.remove i k f) => some (.cmd (.remove i k f))
    | some (.upgrade i fo st v ct f) => some (.cmd (.upgrade i fo st v ct f))
    | some (.refreshFull fl f) => some (.cmd (.refreshFull fl f))
    | _ => none
  | _ => (parseOp ws).map .op

/-- `probe-moved-registry`: save the registry at its place (path 0), copy the file to path 1, load it from there. -/
def probeMoved (s : Sys) : String :=
  match loadReg (copyFile (saveReg [] ⟨0, s.w.reg⟩) 0 1) 1 with
  | some r => "loaded-from=moved saves-to=" ++ (if r.savePath = 1 then "moved" else if r.savePath = 0 then "original" else "elsewhere")
  | none => "err:load"

def step (s : Sys) (ws : List String) : Sys × String :=
  if ws = ["reset"] then (Sys.init, "ok") else
  if ws = ["probe-moved-registry"] then (s, probeMoved s) else
  match parseSOp ws with
  | none => (s, s!"bad-op calls=0 | {dump s}")
  | some op =>
    match execS s op with
    | (s', r, calls) => (s', s!"{r.text} calls={calls} | {dump s'}")

end SafeNet.Driver.Lifecycle
