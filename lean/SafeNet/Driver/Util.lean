/-! Line-protocol helpers for the model driver (import-free). -/
namespace SafeNet.Driver

def hexVal (c : Char) : Option Nat :=
  if '0' ≤ c ∧ c ≤ '9' then some (c.toNat - 48)
  else if 'a' ≤ c ∧ c ≤ 'f' then some (c.toNat - 87)
  else if 'A' ≤ c ∧ c ≤ 'F' then some (c.toNat - 55)
  else none

/-- Decode a hex string to byte values; `-` denotes the empty string. -/
def unhex (s : String) : Option (List Nat) :=
  if s = "-" then some [] else
  let rec go : List Char → List Nat → Option (List Nat)
    | [], acc => some acc.reverse
    | [_], _ => none
    | a :: b :: rest, acc =>
      match hexVal a, hexVal b with
      | some x, some y => go rest ((x * 16 + y) :: acc)
      | _, _ => none
  go s.toList []

def hexDigit (n : Nat) : Char :=
  if n < 10 then Char.ofNat (48 + n) else Char.ofNat (87 + n)

def hex (bs : List Nat) : String :=
  if bs.isEmpty then "-" else
  String.ofList (bs.flatMap fun b => [hexDigit (b / 16), hexDigit (b % 16)])

def words (line : String) : List String :=
  (line.trimAscii.toString.splitOn " ").filter (· ≠ "")

/-- Run a stateful line processor over stdin. -/
partial def loop {σ : Type} (h : IO.FS.Stream) (step : σ → List String → σ × String) (s : σ) : IO Unit := do
  let line ← h.getLine
  if line.isEmpty then return ()
  let ws := words line
  if ws.isEmpty then loop h step s else
  let (s', out) := step s ws
  IO.println out
  loop h step s'

def natList (ws : List String) : Option (List Nat) := ws.mapM String.toNat?

end SafeNet.Driver

namespace SafeNet.Driver

def insertSorted (x : Nat) : List Nat → List Nat
  | [] => [x]
  | y :: ys => if x ≤ y then x :: y :: ys else y :: insertSorted x ys

/-- insertion sort (canonical output order for anything that came out of a set/map) -/
def sortNats (xs : List Nat) : List Nat := xs.foldl (fun acc x => insertSorted x acc) []

def joinNats (xs : List Nat) : String := " ".intercalate (xs.map toString)

/-- `tag n1 n2 …` with no trailing space when the list is empty -/
def tagNats (tag : String) (xs : List Nat) : String :=
  if xs.isEmpty then tag else tag ++ " " ++ joinNats xs

/-- association-list update -/
def alSet {α : Type} (k : Nat) (v : α) : List (Nat × α) → List (Nat × α)
  | [] => [(k, v)]
  | (k', v') :: rest => if k = k' then (k, v) :: rest else (k', v') :: alSet k v rest

def alGet {α : Type} (k : Nat) (l : List (Nat × α)) : Option α := (l.find? (·.1 == k)).map (·.2)

end SafeNet.Driver
