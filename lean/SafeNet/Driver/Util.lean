/-! Line-protocol helpers for the model driver (import-free). -/
namespace SafeNet.Driver

def hexVal (c : Char) : Option Nat :=
  if '0' ≤ c ∧ c ≤ '9' then some (c.toNat - 48)
  else if 'a' ≤ c ∧ c ≤ 'f' then some (c.toNat - 87)
  else if 'A' ≤ c ∧ c ≤ 'F' then some (c.toNat - 55)
  else none

/-- Decode a hex string to byte values; `-` denotes the empty string. -/
def unhex (s : String) : Option (List Nat) :=
  if s = "-" then some [] else
  let rec go : List Char → List Nat → Option (List Nat)
    | [], acc => some acc.reverse
    | [_], _ => none
    | a :: b :: rest, acc =>
      match hexVal a, hexVal b with
      | some x, some y => go rest ((x * 16 + y) :: acc)
      | _, _ => none
  go s.toList []

def hexDigit (n : Nat) : Char :=
  if n < 10 then Char.ofNat (48 + n) else Char.ofNat (87 + n)

def hex (bs : List Nat) : String :=
  if bs.isEmpty then "-" else
  String.ofList (bs.flatMap fun b => [hexDigit (b / 16), hexDigit (b % 16)])

def words (line : String) : List String :=
  (line.trimAscii.toString.splitOn " ").filter (· ≠ "")

/-- Run a stateful line processor over stdin. -/
partial def loop {σ : Type} (h : IO.FS.Stream) (step : σ → List String → σ × String) (s : σ) : IO Unit := do
  let line ← h.getLine
  if line.isEmpty then return ()
  let ws := words line
  if ws.isEmpty then loop h step s else
  let (s', out) := step s ws
  IO.println out
  loop h step s'

def natList (ws : List String) : Option (List Nat) := ws.mapM String.toNat?

end SafeNet.Driver
