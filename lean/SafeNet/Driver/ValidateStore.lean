import SafeNet.Driver.Validate
import SafeNet.Model.ValidateStore
/-!
Line-protocol driver for put validation over the record-store model (see `harness/hnode/src/bin/vstore.rs`):

```
new <cache> <store>                          fresh node store, cache size, initial content (each entry put, written, acknowledged in order)  -> ok
deliver <path> <kind> <rk> <content> <pay>   one validation processed to completion, its reads answered by the store   -> <result> | <trace>
run <id>                                     write task <id> completes                                                    -> ran add | illegal-choice | no-task
ack <id>                                     the AddLocalRecordAsStored of write <id> is handled                        -> ok | illegal-choice | no-note
get <k> | has <k> | dump                     observations
```
A put in a trace reads `W<key>=<content>:t<id>` (write task spawned), `:dedup`, `:max`, `:refused`.
Scratchpad signature classes as in `drv_validate`, plus `e`: signed by the owner, `data_encoding` changed afterwards.
-/
namespace SafeNet.Driver.ValidateStore
open SafeNet.Validate SafeNet.ValidateStore SafeNet.Driver.Validate

def svalStr (x : SVal) : String :=
  contentStr x.c ++ (match x.c with
    | .pad _ true => if x.enc ≠ ownerEnc then "e" else ""
    | _ => "")

def outStr : Option PutOut → String
  | some (.task n) => s!"t{n + 1}"
  | some .dedup => "dedup"
  | some .max => "max"
  | some .refused => "refused"
  | none => "?"

/-- the content word of a delivery, with the scratchpad classes `e` / `d` resolved -/
def splitPadClass (c : String) : String × Nat × Nat :=
  if c.startsWith "S" && c.endsWith ".e" then ((c.dropEnd 1).toString ++ "v", 8, 0)
  else if c.startsWith "S" && c.endsWith ".d" then (c, ownerEnc, 1)
  else (c, ownerEnc, 0)

def parseDX : List String → Option DX
  | [p, k, rk, c, pay] =>
    let (c', enc, dat) := splitPadClass c
    (parseDelivery [p, k, rk, c', pay]).map (fun d => ⟨d, enc, dat⟩)
  | _ => none

/-- the store content a validation's trace is printed against (only its own keys matter) -/
def snapOf (vs : VS) (d : Delivery) : Store :=
  let ks := if rwKey d = d.rk then [d.rk] else [rwKey d, d.rk]
  ks.filterMap (fun k => (view vs k).map (fun c => (k, c)))

def printAll (dx : DX) (vs vsEnd : VS) : List PutOut → Bool → List Tok → List String
  | _, _, [] => []
  | outs, _, .W k c :: rest =>
    s!"W{k}={svalStr (svalOf dx c)}:{outStr outs.head?}" :: printAll dx vs vsEnd outs.tail true rest
  | outs, seen, t :: rest =>
    printToks dx.d (snapOf (if seen then vsEnd else vs) dx.d) [t] ++ printAll dx vs vsEnd outs seen rest

def deliverLine (vs : VS) (dx : DX) : VS × String :=
  let (r, toks) := validateS vs dx.d
  let res := applyToksS vs dx toks
  (res.1, outLine (resName r) (printAll dx vs res.1 res.2 false toks))

def descOf (vs : VS) (k : Nat) : String :=
  match viewS vs k with
  | some x => svalStr x
  | none => "none"

def dumpStr (vs : VS) : String :=
  let es := (List.range 60).filterMap fun k =>
    if (viewS vs k).isSome || has vs k then some s!"{k}={descOf vs k}:{if has vs k then 1 else 0}" else none
  let ord := fun (i : Nat) => (vs.wids.findIdx? (· == i)).map (· + 1) |>.getD 0
  let ts := vs.st.tasks.filterMap fun (i, t) =>
    match t with
    | .write k _ _ => some s!"{ord i}:{k}"
    | _ => none
  let ns := vs.st.notes.map fun (i, n) => s!"{ord i}:{n.k}"
  let j := fun (l : List String) => if l.isEmpty then "-" else ",".intercalate l
  s!"store {j es} tasks {j ts} notes {j ns}"

/-- initial content: each entry is put, written and acknowledged, in the listed order -/
def seed (vs : VS) : List (Nat × Content) → VS
  | [] => vs
  | (k, c) :: rest =>
    let r := putRec vs k ⟨c, (match c with | .pad .. => ownerEnc | _ => 0), 0⟩
    match r.2 with
    | .task n => seed (step (step r.1 (.run n)) (.ack n)) rest
    | _ => seed r.1 rest

def parseStoreOrdered (s : String) : Option (List (Nat × Content)) :=
  if s = "-" then some [] else
  (s.splitOn ",").mapM fun e =>
    match e.splitOn "=" with
    | [k, d] => do
      let k ← k.toNat?
      let c ← parseStored d
      pure (k, c)
    | _ => none

def step (vs : VS) (ws : List String) : VS × String :=
  match ws with
  | ["new", cache, st] =>
    match cache.toNat?, parseStoreOrdered st with
    | some c, some s => if c = 0 then (vs, "bad-op") else (seed (fresh c) s, "ok")
    | _, _ => (vs, "bad-op")
  | "deliver" :: rest =>
    match parseDX rest with
    | some dx => deliverLine vs dx
    | none => (vs, "bad-op")
  | ["run", n] =>
    -- writes are numbered from 1 on the op lines, in spawn order
    match n.toNat?.bind (fun n => if n = 0 then none else vs.wids[n - 1]?) with
    | some id =>
      (SafeNet.ValidateStore.step vs (.run (n.toNat! - 1)), match (SafeNet.Store.runTask vs.st id).2 with
        | .ran => "ran" | .ranAdd => "ran add" | .illegal => "illegal-choice" | .noTask => "no-task")
    | none => (vs, if n.toNat?.isSome then "no-task" else "bad-op")
  | ["ack", n] =>
    match n.toNat?.bind (fun n => if n = 0 then none else vs.wids[n - 1]?) with
    | some id =>
      (SafeNet.ValidateStore.step vs (.ack (n.toNat! - 1)), match (SafeNet.Store.deliver dist vs.st id).2 with
        | .ok => "ok" | .illegal => "illegal-choice" | .noNote => "no-note")
    | none => (vs, if n.toNat?.isSome then "no-note" else "bad-op")
  | ["get", k] =>
    match k.toNat? with
    | some k => (vs, descOf vs k)
    | none => (vs, "bad-op")
  | ["has", k] =>
    match k.toNat? with
    | some k => (vs, if has vs k then "1" else "0")
    | none => (vs, "bad-op")
  | ["dump"] => (vs, dumpStr vs)
  | _ => (vs, "bad-op")

/-! ## Model search: histories on which the regenerated model contradicts C07 under the `_partial` hypotheses -/

def runLines (ls : List String) : VS :=
  ls.foldl (fun vs l => (step vs (words l)).1) (fresh 1)

/-- candidate histories (validations of one key never overlap; every accepted write of the key is still cached
or acknowledged when the next validation of the key reads) with the key and the lowest counter / the entries the
settled store must still hold -/
def candidates : List (List String × Nat × Nat × List Nat) := [
  (["new 1 -", "deliver r pad 1 S0.5.v -", "deliver r pad 1 S0.3.v -", "run 1", "run 2", "ack 1", "ack 2"], 1, 5, []),
  (["new 25 -", "deliver r pad 1 S0.5.v -", "deliver r pad 1 S0.3.v -", "run 1", "run 2", "ack 1", "ack 2"], 1, 5, []),
  (["new 2 1=S3", "deliver r pad 1 S0.7.v -", "deliver r pad 1 S0.5.v -", "run 2", "run 3", "ack 2", "ack 3"], 1, 7, []),
  (["new 1 -", "deliver r tx 1 T0.1.v -", "deliver r tx 1 T0.2.v -", "run 1", "run 2", "ack 1", "ack 2"], 1, 0, [1, 2]),
  (["new 25 1=T1", "deliver r tx 1 T0.2.v -", "deliver r tx 1 T0.3.v -", "run 2", "run 3", "ack 2", "ack 3"], 1, 0, [1, 2, 3]),
  (["new 25 2=R1", "deliver r reg 2 R0.g.2v -", "run 2", "ack 2", "deliver r reg 2 R0.g.3v -", "run 3", "ack 3"], 2, 0, [1, 2, 3])
]

def violatesS (c : List String × Nat × Nat × List Nat) : Bool :=
  let (ls, k, m, ids) := c
  match view (runLines ls) k with
  | some (.pad n v) => !v || n < m
  | some (.txs l) => ids.any (fun x => !l.contains x)
  | some (.reg _ l) => ids.any (fun x => !l.contains x)
  | _ => true

def searchCandidates : List String :=
  (candidates.filter violatesS).flatMap (fun c => c.1 ++ ["dump"])

end SafeNet.Driver.ValidateStore
