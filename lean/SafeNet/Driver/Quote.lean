import SafeNet.Driver.Util
import SafeNet.Model.Quote
/-!
Line-protocol driver for the quote model (C13).  A quote's signed fields are ten tokens
`F = content(hex32) secs nanos closeRecords maxRecords paid liveTime density(hex32|N) size(dec|N) rewards(hex20)`.

* `bytes F`                                          → hex of `bytes_for_signing`
* `verify <claimed> <pubkey> <signer> F_signed F_presented` → `true|false`
* `pair <pubkey> <signer> F_signed F_1 F_2`          → `<verify 1> <verify 2> <same hash input>`
* `kpair <pubkey 1> <pubkey 2> <signer> F`           → `<verify 1> <verify 2> <same hash input>` (one signature, two key encodings)
* `qhash <pubkey hex> <signature hex> F`              → hex of `PaymentQuote::hash` (Keccak-256 of the hash input)
* `proof <self> <n> (<enc> <pubkey> <signer> F_signed F_presented)×n` → `<verify_for> payees=<..> byself=<k>`
* `exp <offset ns>` / `pexp <offset ns>…`            → `true|false` (timestamp = now + offset)
* `hist <offA> <liveA> <paidA> <offB> <liveB> <paidB>` → `<A.historical_verify(B)> <A.is_newer_than(B)>`

Identities are abstract: `K<i>` is the protobuf encoding of key `i`, `P<i>` its peer id, `X<r>` an unrelated
peer, `G<n>` undecodable bytes; `S<j>` = "signed by key `j` over the signing bytes of `F_signed`"; `N<i>` is a
non-canonical but decodable encoding of key `i`; `W0` is the small-order key / the signature `(neutral, 0)`, `Q0` its peer id.
The scheme instance: the signature of `m` under key `k` is `k :: m`; ideal for every key but `W0`.
-/
namespace SafeNet.Driver.Quote
open SafeNet.Quote SafeNet.MsgPack

/-- the small-order key (`W0`: the curve's neutral element), its peer id `Q0`, and the one signature `W0` the
harness presents under it (`(neutral, 0)`), which real ed25519 verification accepts for every message -/
def weakKey : Nat := 2000000

def scheme : SigScheme Nat where
  sign k m := k :: m
  verify k m s := if k = weakKey then s == [weakKey] else s == k :: m
  strong k := decide (k ≠ weakKey)
  ideal := by intro k m s hk; simp at hk; simp [hk]
  inj := by intro k m k' m' h; simpa using h

/-- `[k]` is the canonical protobuf of key `k`; `[k, 0]` the same followed by an unknown field, which
`try_decode_protobuf` skips (token `N<k>`) -/
def ids : Ids Nat Nat where
  decodeKey | [k] => some k | [k, 0] => some k | _ => none
  peerOf k := k
  decodePeer | [p] => some p | _ => none

structure Fields where
  content : List Nat
  secs : Nat
  nanos : Nat
  metrics : Metrics
  rewards : List Nat

def optHex (s : String) : Option (Option (List Nat)) :=
  if s = "N" then some none else (unhex s).map some
def optNat (s : String) : Option (Option Nat) :=
  if s = "N" then some none else s.toNat?.map some

def parseFields : List String → Option (Fields × List String)
  | c :: s :: n :: a :: b :: p :: l :: d :: z :: r :: rest => do
    let c ← unhex c; let s ← s.toNat?; let n ← n.toNat?; let a ← a.toNat?; let b ← b.toNat?
    let p ← p.toNat?; let l ← l.toNat?; let d ← optHex d; let z ← optNat z; let r ← unhex r
    some ({ content := c, secs := s, nanos := n,
            metrics := { closeRecordsStored := a, maxRecords := b, receivedPaymentCount := p, liveTime := l,
                         networkDensity := d, networkSize := z },
            rewards := r }, rest)
  | _ => none

def tagNat (pre : Char) (s : String) : Option Nat :=
  match s.toList with
  | c :: rest => if c = pre then (String.ofList rest).toNat? else none
  | [] => none

/-- peer token → abstract peer -/
def peerTok (s : String) : Option Nat :=
  if s = "Q0" then some weakKey else
  match tagNat 'P' s with
  | some i => some i
  | none => (tagNat 'X' s).map (· + 1000000)

/-- pubkey token → abstract key bytes -/
def keyTok (s : String) : Option (List Nat) :=
  if s = "W0" then some [weakKey] else
  match tagNat 'K' s with
  | some i => some [i]
  | none =>
    match tagNat 'N' s with
    | some i => some [i, 0]
    | none => (tagNat 'G' s).map fun _ => []

/-- encoded-peer token → abstract bytes -/
def encTok (s : String) : Option (List Nat) :=
  match peerTok s with
  | some p => some [p]
  | none => (tagNat 'G' s).map fun _ => []

def sigBytesOf (f : Fields) : List Nat := bytesForSigning f.content f.secs f.metrics f.rewards

/-- signer token → signature bytes over the signed fields -/
def sigTok (s : String) (signed : Fields) : Option (List Nat) :=
  if s = "W0" then some [weakKey] else
  match tagNat 'S' s with
  | some j => some (scheme.sign j (sigBytesOf signed))
  | none => (tagNat 'G' s).map fun _ => []

def mkQuote (f : Fields) (pk sig : List Nat) : Quote :=
  { content := f.content, secs := f.secs, nanos := f.nanos, metrics := f.metrics, rewards := f.rewards,
    pubKey := pk, signature := sig }

def showBool (b : Bool) : String := if b then "true" else "false"

def peerShow (p : Nat) : String := if p = weakKey then "Q0" else if p ≥ 1000000 then s!"X{p - 1000000}" else s!"P{p}"

/-- parse `n` proof entries -/
def parseEntries : Nat → List String → Option (Proof × List String)
  | 0, ws => some ([], ws)
  | n+1, e :: k :: s :: ws => do
    let e ← encTok e; let k ← keyTok k
    let (fs, ws) ← parseFields ws
    let (fp, ws) ← parseFields ws
    let sg ← sigTok s fs
    let (rest, ws) ← parseEntries n ws
    some ((e, mkQuote fp k sg) :: rest, ws)
  | _, _ => none

def nowNs : Int := 10000000000000000000

def tsOf (off : String) : Option Nat := off.toInt?.map fun o => (nowNs + o).toNat

def step (_ : Unit) (ws : List String) : Unit × String :=
  let r : Option String :=
    match ws with
    | "bytes" :: rest => do
      let (f, _) ← parseFields rest
      some (hex (sigBytesOf f))
    | "verify" :: c :: k :: s :: rest => do
      let c ← peerTok c; let k ← keyTok k
      let (fs, rest) ← parseFields rest
      let (fp, _) ← parseFields rest
      let sg ← sigTok s fs
      some (showBool (checkSigned scheme ids (mkQuote fp k sg) c))
    | "pair" :: k :: s :: rest => do
      let kb ← keyTok k
      let (fs, rest) ← parseFields rest
      let (f1, rest) ← parseFields rest
      let (f2, _) ← parseFields rest
      let sg ← sigTok s fs
      let q1 := mkQuote f1 kb sg
      let q2 := mkQuote f2 kb sg
      let claimed := match kb with | [i] => i | _ => 0
      some s!"{showBool (checkSigned scheme ids q1 claimed)} {showBool (checkSigned scheme ids q2 claimed)} {showBool (q1.hashInput == q2.hashInput)}"
    | "kpair" :: k1 :: k2 :: s :: rest => do
      let kb1 ← keyTok k1; let kb2 ← keyTok k2
      let (f, _) ← parseFields rest
      let sg ← sigTok s f
      let q1 := mkQuote f kb1 sg
      let q2 := mkQuote f kb2 sg
      let claimed := match kb1 with | i :: _ => i | _ => 0
      some s!"{showBool (checkSigned scheme ids q1 claimed)} {showBool (checkSigned scheme ids q2 claimed)} {showBool (q1.hashInput == q2.hashInput)}"
    | "qhash" :: k :: sg :: rest => do
      let k ← unhex k; let sg ← unhex sg
      let (f, _) ← parseFields rest
      some (hex (mkQuote f k sg).hash)
    | "proof" :: self :: n :: rest => do
      let self ← peerTok self; let n ← n.toNat?
      let (pr, _) ← parseEntries n rest
      let ps := (payees ids pr).map peerShow
      some s!"{showBool (verifyFor scheme ids pr self)} payees={if ps.isEmpty then "-" else ",".intercalate ps} byself={(quotesByPeer ids pr self).length}"
    | ["exp", off] => do
      let ts ← tsOf off
      some (showBool (hasExpired ts nowNs.toNat))
    | "pexp" :: offs => do
      let tss ← offs.mapM tsOf
      some (showBool (proofExpired tss nowNs.toNat))
    | ["hist", oa, la, pa, ob, lb, pb] => do
      let ta ← tsOf oa; let tb ← tsOf ob
      let la ← la.toNat?; let pa ← pa.toNat?; let lb ← lb.toNat?; let pb ← pb.toNat?
      some s!"{showBool (historicalVerify ⟨ta, la, pa⟩ ⟨tb, lb, pb⟩ nowNs.toNat)} {showBool (isNewerThan ta tb)}"
    | _ => none
  ((), r.getD "bad-op")

/-! ## model search (used only when a proof obligation broke) -/

def baseF : List String :=
  ["0707070707070707070707070707070707070707070707070707070707070707", "1700000000", "5", "1", "2", "3", "4",
   "N", "9", "0909090909090909090909090909090909090909"]

def setAt (l : List String) (i : Nat) (v : String) : List String := l.set i v

/-- single-field mutations of the signed fields (index, new value); the nanosecond field is the known finding and is not searched -/
def mutations : List (Nat × String) :=
  [(0, "0807070707070707070707070707070707070707070707070707070707070707"), (1, "1700000001"), (1, "1699999999"),
   (3, "2"), (4, "3"), (5, "4"), (6, "5"),
   (7, "0101010101010101010101010101010101010101010101010101010101010101"), (8, "N"), (8, "10"),
   (9, "0909090909090909090909090909090909090908")]

def searchCandidates : List String := Id.run do
  let mut out : List String := []
  -- a changed signed field that leaves the model's signing bytes unchanged
  for (i, v) in mutations do
    let f' := setAt baseF i v
    match parseFields baseF, parseFields f' with
    | some (a, _), some (b, _) =>
      if sigBytesOf a == sigBytesOf b then
        out := out ++ [" ".intercalate (["verify", "P0", "K0", "S0"] ++ baseF ++ f')]
    | _, _ => pure ()
  -- expiry classes: half a second inside each class so the implementation's own clock reading cannot matter
  let s : Int := 1000000000
  let cases : List (Int × Bool) :=
    [(s / 2, true), (60 * s, true), (-(s / 2), false), (-(3598 * s + s / 2), false), (-(3600 * s + s / 2), false),
     (-(3601 * s + s / 2), true), (-(3660 * s), true), (-(3540 * s), false)]
  for (off, want) in cases do
    if hasExpired (nowNs + off).toNat nowNs.toNat != want then out := out ++ [s!"exp {off}"]
  -- out-of-sequence claims must be flagged, in-sequence ones within the margin accepted
  let hist : List (List Int × Bool) :=
    [([-(100 * s + s / 2), 10, 5, -(50 * s + s / 2), 9, 5], false), ([-(100 * s + s / 2), 10, 5, -(50 * s + s / 2), 10, 4], false),
     ([-(50 * s + s / 2), 9, 5, -(100 * s + s / 2), 10, 5], false), ([-(100 * s + s / 2), 10, 5, -(50 * s + s / 2), 11, 6], true),
     ([-(100 * s + s / 2), 10, 5, -(50 * s + s / 2), 70, 6], true), ([-(100 * s + s / 2), 10, 5, -(50 * s + s / 2), 72, 6], false)]
  for (h, want) in hist do
    match h with
    | [oa, la, pa, ob, lb, pb] =>
      if historicalVerify ⟨(nowNs + oa).toNat, la.toNat, pa.toNat⟩ ⟨(nowNs + ob).toNat, lb.toNat, pb.toNat⟩ nowNs.toNat != want then
        out := out ++ [s!"hist {oa} {la} {pa} {ob} {lb} {pb}"]
    | _ => pure ()
  return out

end SafeNet.Driver.Quote
