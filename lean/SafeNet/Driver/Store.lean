import SafeNet.Driver.Util
import SafeNet.Base.Sha256
import SafeNet.Model.Store
import SafeNet.Model.StoreStart
import SafeNet.Model.StoreFault
/-!
Line protocol of the record-store model (`drv_store`), one output line per op line:

```
init <max> <cache> <peer> [<maxval> [<chan>]]  fresh store (shipped constants / feature flag; max_value_bytes) -> ok
initcmd <max> <cache> <peer>   fresh node SwarmDriver; `cput`, `remove`, `deliver`, `get`, `contains`, `addrs`, `cleanup`,
                               `payment` go through the real `handle_local_cmd`                 -> ok
cput <k> <v>                   LocalSwarmCmd::PutLocalRecord (type derived from the header)     -> ok | dedup | max | bad-header
kadput <k> <v>                 RecordStore::put (unverified path): only its size test       -> ok | too-large
len <v>                        length in bytes of value #v                                  -> <n>
key <k> <dist>                 distance of key k to the node (data from the harness)  -> ok
put <k> <v> <rt>               rt = c | s | n<v>                                     -> ok | dedup | max
remove <k> | setrange <r> | cleanup | payment                                         -> ok
run <id>                                                                              -> ran | ran add | illegal-choice | no-task
runfail <id> open | full <b>   write task <id> runs with a disk fault: the open fails / only b bytes fit
                                                                                      -> ran fail | ran add | illegal-choice | no-task
runany <id>                    (replay only) task <id> runs although an older task of its key is pending  -> ran | ran add | no-task
lifo <k> <v> <rt> [<k> <v> <rt> …]  (replay only) the puts are made back to back from one tokio worker task; the spawned
                               tasks then run in the worker's own order (last spawned first, then spawn order) -> <put results>
flen <k>                       length of key k's record file                          -> absent | <n>
deliver <id>                                                                          -> ok | illegal-choice | no-note
crash [<id>:<n> ...]           stop (tearing these writes), reopen                    -> ok | illegal-choice
start <netid>                  stop if running; check_and_wipe_storage_dir_if_necessary for this network id, then
                               open the store                                          -> started v=<version file>
start <netid> interrupt [<b>]  the same start, killed at the first write to a regular file that would take it beyond
                               <b> bytes (default 0); the node stays down             -> killed v=.. | exited v=..
vfile                          content of <root>/network_key_version                  -> absent | empty | <text>
                               (a node that is down answers `down` to everything but start, vfile, ls, key, len, init)
get <k>                        -> none | some <v> | part <v> <n>
contains <k>                   -> true | false
addrs | ls | dist | far | cache | pending | metrics <k>                               dumps
```
-/
namespace SafeNet.Driver.Store
open SafeNet.Store

structure DSt where
  dists : List (Nat × Nat)
  cfg : Cfg
  st : St
  /-- `<root>/network_key_version` (`none`: absent) -/
  vfile : Option Text := none
  /-- the node is running (an interrupted start leaves it down) -/
  up : Bool := true
  /-- the store sits inside a real node `SwarmDriver` (`initcmd`) -/
  cmd : Bool := false
  /-- which pending notifications are `RemoveFailedLocalRecord` commands (`Model/StoreFault`) -/
  failed : List Nat := []

def distOf (dists : List (Nat × Nat)) (k : Nat) : Nat := (lookup k dists).getD 0

def DSt.init : DSt :=
  { dists := [], cfg := Cfg.shipped 0 1, st := SafeNet.Store.init (Cfg.shipped 0 1) (fun _ => 0) }

def readStr : Read → String
  | .whole v => s!"{v}"
  | .part v n => s!"{v}.{n}"

def rtStr : RType → String
  | .chunk => "c"
  | .scratchpad => "s"
  | .nonChunk c => "n" ++ readStr c

def parseRt (s : String) : Option RType :=
  if s = "c" then some .chunk
  else if s = "s" then some .scratchpad
  else if s.startsWith "n" then (s.drop 1).toNat?.map (fun v => .nonChunk (.whole v))
  else none

def parseTear (s : String) : Option (Nat × Nat) :=
  match s.splitOn ":" with
  | [a, b] => match a.toNat?, b.toNat? with
    | some x, some y => some (x, y)
    | _, _ => none
  | _ => none

def insertNat (x : Nat) : List Nat → List Nat
  | [] => [x]
  | y :: ys => if x ≤ y then x :: y :: ys else y :: insertNat x ys

def sortNat (l : List Nat) : List Nat := l.foldr insertNat []

def joinOr (l : List String) : String := if l.isEmpty then "-" else " ".intercalate l

/-- entries sorted by first component, rendered -/
def dumpSorted {α : Type} (l : List (Nat × α)) (f : Nat × α → String) : String :=
  let ks := sortNat (l.map (·.1))
  joinOr (ks.filterMap (fun k => (lookup k l).map (fun a => f (k, a))))

def natsStr (l : List Nat) : String := ",".intercalate (l.map toString)

def outStr : Out → String
  | .put .ok => "ok"
  | .put .dedup => "dedup"
  | .put .maxRecords => "max"
  | .run .ran => "ran"
  | .run .ranAdd => "ran add"
  | .run .illegal => "illegal-choice"
  | .run .noTask => "no-task"
  | .deliver .ok => "ok"
  | .deliver .illegal => "illegal-choice"
  | .deliver .noNote => "no-note"
  | .ok => "ok"
  | .illegal => "illegal-choice"

def foutStr : FOut → String
  | .base o => outStr o
  | .run .ranAdd => "ran add"
  | .run .ranFail => "ran fail"
  | .run .ranSilent => "ran"
  | .run .illegal => "illegal-choice"
  | .run .noTask => "no-task"

def fapply (d : DSt) (op : FOp) : DSt × String :=
  let r := SafeNet.Store.fstep d.cfg (distOf d.dists) ⟨d.st, d.failed⟩ op
  ({ d with st := r.1.s, failed := r.1.failed }, foutStr r.2)

def apply (d : DSt) (op : Op) : DSt × String := fapply d (.base op)

def parsePuts : List String → Option (List (Nat × Nat × RType))
  | [] => some []
  | k :: v :: rt :: rest =>
    match k.toNat?, v.toNat?, parseRt rt, parsePuts rest with
    | some k, some v, some rt, some l => some ((k, v, rt) :: l)
    | _, _, _, _ => none
  | _ => none

/-- `lifo …`: the puts in order, then the tasks they spawned in the worker's order, whatever else is pending -/
def lifo (d : DSt) (puts : List (Nat × Nat × RType)) : DSt × String :=
  let dist := distOf d.dists
  let r := puts.foldl (fun (acc : St × List String) p =>
    let x := putVerified d.cfg dist acc.1 p.1 p.2.1 p.2.2
    (x.1, acc.2 ++ [outStr (.put x.2)])) (d.st, [])
  let ids := lifoOrder (spawnedIds d.st r.1)
  let s' := ids.foldl (fun s i => (runTaskAny s i).1) r.1
  ({ d with st := s' }, " ".intercalate r.2)

def textStr (t : Text) : String := if t.isEmpty then "empty" else String.ofList (t.map Char.ofNat)

def vfileStr : Option Text → String
  | none => "absent"
  | some t => textStr t

def isWriteEff : FsEff → Bool
  | .write _ => true
  | _ => false

/-- `start <netid> interrupt <b>`: the child process runs the start-up step with RLIMIT_FSIZE = b, so it is killed at
the first write to a regular file that would take the file beyond b bytes: every effect before the write of the version
file is complete, b bytes of that write reach the file. Without such a write (or with b bytes enough for it) the child
runs the whole step and exits; the store is not opened. -/
def startInterrupted (d : DSt) (id b : Nat) : DSt × String :=
  let cur := idText id
  let effs := startupEffects d.vfile cur
  let idx := effs.findIdx isWriteEff
  let i : Intr := ⟨idx, b, []⟩
  let r := nstep d.cfg (distOf d.dists) ⟨d.up, d.vfile, d.st⟩ (.start cur (some i))
  let killed := idx < effs.length && b < cur.length
  ({ d with up := r.1.up, vfile := r.1.vfile, st := r.1.st, failed := [] },
    (if killed then "killed" else "exited") ++ " v=" ++ vfileStr r.1.vfile)

def stepUp (d : DSt) (ws : List String) : DSt × String :=
  match ws with
  | ["init", m, c, _peer] =>
    match m.toNat?, c.toNat? with
    | some m, some c =>
      let cfg := Cfg.shipped m c
      ({ dists := [], cfg := cfg, st := SafeNet.Store.init cfg (fun _ => 0) }, "ok")
    | _, _ => (d, "bad-op")
  | ["init", m, c, _peer, mv] =>
    match m.toNat?, c.toNat?, mv.toNat? with
    | some m, some c, some mv =>
      let cfg := Cfg.shippedV m c mv
      ({ dists := [], cfg := cfg, st := SafeNet.Store.init cfg (fun _ => 0) }, "ok")
    | _, _, _ => (d, "bad-op")
  | ["init", m, c, _peer, mv, _chan] =>
    -- a small local command channel: a completion notification that finds it full waits, it is never lost
    match m.toNat?, c.toNat?, mv.toNat? with
    | some m, some c, some mv =>
      let cfg := Cfg.shippedV m c mv
      ({ dists := [], cfg := cfg, st := SafeNet.Store.init cfg (fun _ => 0) }, "ok")
    | _, _, _ => (d, "bad-op")
  | ["initcmd", m, c, _peer] =>
    -- a real node `SwarmDriver` (build_node): same store, commands go through the real handlers
    match m.toNat?, c.toNat? with
    | some m, some c =>
      let cfg := Cfg.shipped m c
      -- `build_node` has run the start-up check with the default network id (1): the version file names it
      ({ dists := [], cfg := cfg, st := SafeNet.Store.init cfg (fun _ => 0), vfile := some (idText 1), cmd := true }, "ok")
    | _, _ => (d, "bad-op")
  | ["cput", k, v] =>
    match k.toNat?, v.toNat? with
    | some k, some v =>
      match putLocalRecordType v with
      | some rt => apply d (.put k v rt)
      | none => (d, "bad-header")
    | _, _ => (d, "bad-op")
  | ["kadput", k, v] =>
    match k.toNat?, v.toNat? with
    | some _, some v => (d, if kadPutTooLarge d.cfg v then "too-large" else "ok")
    | _, _ => (d, "bad-op")
  | ["len", v] =>
    match v.toNat? with
    | some v => (d, s!"{valLen v}")
    | none => (d, "bad-op")
  | ["key", k, ds] =>
    match k.toNat?, ds.toNat? with
    | some k, some x => ({ d with dists := insert k x d.dists }, "ok")
    | _, _ => (d, "bad-op")
  | ["key", k, ds, kb, sb] =>
    -- the distance with the bytes it is the distance of (record key, this node's peer id): it must be the XOR of
    -- their SHA-256 digests as the model computes them (`Base/Sha256`); the store's eviction / clean-up / metrics
    -- decisions are then decisions about that number
    match k.toNat?, ds.toNat?, unhex kb, unhex sb with
    | some k, some x, some kb, some sb =>
      if x = SafeNet.Sha256.hashNat kb ^^^ SafeNet.Sha256.hashNat sb then ({ d with dists := insert k x d.dists }, "ok")
      else (d, "dist-mismatch")
    | _, _, _, _ => (d, "bad-op")
  | ["put", k, v, rt] =>
    match k.toNat?, v.toNat?, parseRt rt with
    | some k, some v, some rt => apply d (.put k v rt)
    | _, _, _ => (d, "bad-op")
  | ["remove", k] => match k.toNat? with | some k => apply d (.remove k) | none => (d, "bad-op")
  | ["run", i] => match i.toNat? with | some i => apply d (.run i) | none => (d, "bad-op")
  | ["runfail", i, "open"] => match i.toNat? with | some i => fapply d (.runFail i .openFail) | none => (d, "bad-op")
  | ["runfail", i, "full", b] =>
    match i.toNat?, b.toNat? with
    | some i, some b => fapply d (.runFail i (.full b))
    | _, _ => (d, "bad-op")
  | ["runany", i] =>
    match i.toNat? with
    | some i => let r := runTaskAny d.st i; ({ d with st := r.1 }, outStr (.run r.2))
    | none => (d, "bad-op")
  | "lifo" :: rest =>
    match parsePuts rest with
    | some (p :: ps) => lifo d (p :: ps)
    | _ => (d, "bad-op")
  | ["foreign", _, _] => (d, "ok")   -- replay-only probe outside the model (assumption: no foreign files)
  | ["flen", k] =>
    match k.toNat? with
    | some k => (d, match lookup k d.st.disk with | none => "absent" | some f => s!"{fileLen d.cfg.encrypt f}")
    | none => (d, "bad-op")
  | ["deliver", i] => match i.toNat? with | some i => apply d (.deliver i) | none => (d, "bad-op")
  | ["setrange", r] => match r.toNat? with | some r => apply d (.setRange r) | none => (d, "bad-op")
  | ["cleanup"] => apply d .cleanup
  | ["payment"] => apply d .payment
  | "crash" :: tears =>
    match tears.mapM parseTear with
    | some ts => apply d (.crash ts)
    | none => (d, "bad-op")
  | ["get", k] =>
    match k.toNat? with
    | some k =>
      (d, match get d.cfg d.st k with
        | none => "none"
        | some (.whole v) => s!"some {v}"
        | some (.part v n) => s!"part {v} {n}")
    | none => (d, "bad-op")
  | ["contains", k] =>
    match k.toNat? with
    | some k => (d, if contains d.st k then "true" else "false")
    | none => (d, "bad-op")
  | ["addrs"] => (d, dumpSorted d.st.index (fun e => s!"{e.1}:{rtStr e.2}"))
  | ["ls"] => (d, dumpSorted d.st.disk (fun e => s!"{e.1}"))
  | ["dist"] => (d, joinOr ((sortByFst d.st.byDist).map (fun e => s!"{e.2}")))
  | ["far"] => (d, match d.st.farthest with | none => "none" | some (f, _) => s!"{f}")
  | ["cache"] =>
    -- oldest first
    let byStamp := sortByFst (d.st.cache.map (fun e => (e.2.2, e.1)))
    (d, joinOr (byStamp.filterMap (fun e => (lookup e.2 d.st.cache).map (fun x => s!"{e.2}:{x.1}"))))
  | ["pending"] =>
    -- notifications grouped by key (stable): their order across different keys is the order in which sender tasks
    -- happen to be polled once the channel has room, which nothing depends on (`deliver` is legal per key, FIFO)
    (d, s!"t={natsStr (d.st.tasks.map (·.1))} n={natsStr ((d.st.notes.mergeSort (fun a b => decide (a.2.k ≤ b.2.k))).map (·.1))}")
  | ["metrics", k] =>
    match k.toNat? with
    | some k =>
      let m := metrics d.cfg d.st k
      let dens := match m.density with | none => "none" | some r => s!"{r}"
      (d, s!"close={m.close} max={m.max} paid={m.paid} stored={m.stored} range={dens}")
    | none => (d, "bad-op")
  | _ => (d, "bad-op")

def step (d : DSt) (ws : List String) : DSt × String :=
  match ws with
  | ["vfile"] => (d, vfileStr d.vfile)
  | ["start", n] =>
    if d.cmd then (d, "bad-op") else
    match n.toNat? with
    | some id =>
      let r := nstep d.cfg (distOf d.dists) ⟨d.up, d.vfile, d.st⟩ (.start (idText id) none)
      ({ d with up := r.1.up, vfile := r.1.vfile, st := r.1.st, failed := [] }, "started v=" ++ vfileStr r.1.vfile)
    | none => (d, "bad-op")
  | ["start", n, "interrupt"] =>
    if d.cmd then (d, "bad-op") else
    match n.toNat? with
    | some id => startInterrupted d id 0
    | none => (d, "bad-op")
  | ["start", n, "interrupt", b] =>
    if d.cmd then (d, "bad-op") else
    match n.toNat?, b.toNat? with
    | some id, some b => startInterrupted d id b
    | _, _ => (d, "bad-op")
  | _ =>
    if d.up then stepUp d ws
    else match ws with
      | "init" :: _ => stepUp d ws
      | "initcmd" :: _ => stepUp d ws
      | "key" :: _ => stepUp d ws
      | ["len", _] => stepUp d ws
      | ["ls"] => stepUp d ws
      | _ => (d, "down")

/-- Model search (used only when a proof obligation broke): small histories on which the regenerated
model contradicts a clause; printed as harness op lines and replayed on the real code. -/
def searchCandidates : List String :=
  -- 1. shipped build without encryption: a torn write is served after reopen
  let c1 := if Gen.Store.shippedEncrypt then [] else
    ["init 4 2 1", "key 1 @1", "put 1 3 c", "crash 1:5", "get 1", "addrs"]
  -- 2. accept/refuse, farthest update, range bounds: boundary histories at capacity 2
  let c2 := if Gen.Store.pruneRefuseStrict && Gen.Store.farthestUpdateStrict
      && Gen.Store.withinRangeExclusive && Gen.Store.cleanupFromInclusive then [] else
    ["init 2 2 1", "key 1 @1", "key 2 @2", "key 3 @3", "put 1 3 c", "run 1", "deliver 1", "put 2 6 c", "run 2",
     "deliver 2", "far", "put 3 9 c", "addrs", "dist", "setrange @2", "metrics 1"]
  -- 3. a size test in the start-up scan: completely written records around the limit must survive a restart
  let c3 := if !Gen.Store.scanDropsOversized then [] else
    ["init 4 2 1 100", "key 1 @", "key 2 @", "key 3 @", "put 1 1299 c", "put 2 1254 c", "put 3 1251 c",
     "run 1", "run 2", "run 3", "deliver 1", "deliver 2", "deliver 3", "crash", "get 1", "get 2", "get 3", "addrs"]
  -- 4. the start-up step rewrites the version file outside the mismatch branch (or writes before it wipes): a start with
  -- the node's own id interrupted at its first file write, then a completed start — every completed record must survive
  let c4 := if Gen.Startup.versionWrittenOnlyOnMismatch && Gen.Startup.wipeBeforeVersionWrite then [] else
    ["init 4 2 1", "key 1 @", "key 2 @", "start 1", "put 1 3 c", "run 2", "deliver 2", "put 2 7 n7", "run 3", "deliver 3",
     "start 1 interrupt", "vfile", "ls", "start 1", "get 1", "get 2", "addrs", "ls", "vfile"]
  -- 5. the metrics flush is a spawned task again: two payments, flushes completing out of order, stop, restart
  let c5 := if Gen.Store.flushSynchronous then [] else
    ["init 4 2 1", "key 1 @", "run 0", "payment", "payment", "run 2", "run 1", "pending", "metrics 1", "crash", "metrics 1"]
  c1 ++ c2 ++ c3 ++ c4 ++ c5

end SafeNet.Driver.Store
