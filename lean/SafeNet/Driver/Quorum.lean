import SafeNet.Driver.Util
import SafeNet.Model.Quorum
/-! Line-protocol driver for the quorum model (C05). See `harness/hnet/src/bin/quorum.rs` for the protocol. -/
namespace SafeNet.Driver.Quorum
open SafeNet.Quorum SafeNet.Gen.Quorum

def dotted (l : List Nat) : String := ".".intercalate (l.map toString)

/-- transaction id `2*b` prints as `b`, its look-alike with another signature `2*b+1` as `bs` -/
def txIdStr (i : Nat) : String := toString (i / 2) ++ (if i % 2 = 1 then "s" else "")

def parseTxId (s : String) : Option Nat :=
  match s.toList.reverse with
  | 's' :: r => (String.ofList r.reverse).toNat?.map (fun b => 2 * b + 1)
  | _ => s.toNat?.map (fun b => 2 * b)

def kindChar : Kind → String
  | .chunk => "c" | .txn => "t" | .reg => "r" | .pad => "s" | .paid => "p"

def tok : Content → String
  | .junk n => s!"x{n}"
  | .hdr k n => s!"h{kindChar k}{n}"
  | .txs l => "t" ++ ".".intercalate (l.map txIdStr)
  | .reg b s ops => s!"r{b}{if s then "g" else "b"}" ++ String.join (ops.map fun o => s!".{o}")
  | .pad o c v ok => s!"s{o}.{c}.{v}{if ok then "g" else "b"}"

def natOfChars (cs : List Char) : Option Nat := (String.ofList cs).toNat?

def parseNats (s : String) : Option (List Nat) :=
  if s.isEmpty then some [] else (s.splitOn ".").mapM String.toNat?

/-- strictly ascending (the canonical form of a register's op set) -/
def ascending : List Nat → Bool
  | a :: b :: rest => decide (a < b) && ascending (b :: rest)
  | _ => true

/-- split a trailing class character `g`/`b` off a numeral -/
def numCls (s : String) : Option (Nat × Bool) :=
  match s.toList.reverse with
  | 'g' :: r => (natOfChars r.reverse).map (·, true)
  | 'b' :: r => (natOfChars r.reverse).map (·, false)
  | _ => none

def parseTok (s : String) : Option Content :=
  match s.toList with
  | 'x' :: r => (natOfChars r).map .junk
  | 'h' :: k :: r =>
    let kind : Option Kind := match k with
      | 'c' => some .chunk | 't' => some .txn | 'r' => some .reg | 's' => some .pad | 'p' => some .paid | _ => none
    match kind, natOfChars r with
    | some k, some n => some (.hdr k n)
    | _, _ => none
  | 't' :: r =>
    let body := String.ofList r
    let ids : Option (List Nat) := if body.isEmpty then some [] else (body.splitOn ".").mapM parseTxId
    ids.bind fun l => if l.all (· < 12) then some (.txs l) else none
  | 'r' :: r =>
    match (String.ofList r).splitOn "." with
    | hd :: opsS =>
      match numCls hd, opsS.mapM String.toNat? with
      | some (b, ok), some ops => if ascending ops && b < 3 && ops.all (· < 8) then some (.reg b ok ops) else none
      | _, _ => none
    | [] => none
  | 's' :: r =>
    match (String.ofList r).splitOn "." with
    | [o, c, v] =>
      match o.toNat?, c.toNat?, numCls v with
      | some o, some c, some (v, ok) => if o < 3 && 1 ≤ c && c ≤ 9 && v ≤ 9 then some (.pad o c v ok) else none
      | _, _, _ => none
    | _ => none
  | _ => none

def parseQuorum (s : String) : Option Quorum :=
  match s with
  | "one" => some .one
  | "majority" => some .majority
  | "all" => some .all
  | _ =>
    match s.toList with
    | 'n' :: r => (natOfChars r).map .n
    | _ => none

/-- insertion sort on keys (ASCII tokens: same order as Rust's `str` ordering) -/
def insertBy {α : Type} (lt : α → α → Bool) (x : α) : List α → List α
  | [] => [x]
  | y :: ys => if lt x y then x :: y :: ys else y :: insertBy lt x ys

def sortBy {α : Type} (lt : α → α → Bool) (l : List α) : List α := l.foldr (insertBy lt) []

/-- suffix shown when a record carries a key other than the requested one -/
def keySfx (pre : String) (k qkey : Nat) : String := if k = qkey then "" else s!"{pre}k{k}"

/-- version map with the key of each stored record (`look c` = that key, `qkey` = the requested key) -/
def mapStrK (m : List (Content × List Nat)) (look : Content → Nat) (qkey : Nat) : String :=
  let rows := m.map fun (c, ps) => (tok c ++ keySfx "@" (look c) qkey, dotted (sortBy (fun a b => decide (a < b)) ps))
  let rows := sortBy (fun a b => decide (a.1 < b.1)) rows
  ",".intercalate (rows.map fun (t, ps) => s!"{t}={ps}")

def mapStr (m : List (Content × List Nat)) : String :=
  let rows := m.map fun (c, ps) => (tok c, dotted (sortBy (fun a b => decide (a < b)) ps))
  let rows := sortBy (fun a b => decide (a.1 < b.1)) rows
  ",".intercalate (rows.map fun (t, ps) => s!"{t}={ps}")

/-- `last`: key of the record of the reply being handled (the record handed over by `accumulate_get_record_found`);
`look`: key of the record stored for a version; `qkey`: the requested key -/
def outcomeStr (last : Option Nat) (look : Content → Nat) (qkey : Nat) : Outcome → String
  | .ok c => s!"ok {tok c}" ++ keySfx " key=" (last.getD (look c)) qkey
  | .split m => s!"split {mapStrK m look qkey}"
  | .notEnough c e g => s!"notenough {tok c} {e} {g}" ++ keySfx " key=" (look c) qkey
  | .mismatch c => s!"mismatch {tok c}" ++ keySfx " key=" (last.getD (look c)) qkey
  | .notFound => "notfound"
  | .timeout => "timeout"
  | .closed => "closed"

def retStr : Ret → String
  | .ok => "ok" | .dropped => "dropped" | .chan => "chan" | .bad => "bad-op"

def outStr (o : Out) (last : Option Nat) (look : Content → Nat) (qkey : Nat) : String :=
  match o.ret, o.info with
  | .bad, _ => "bad-op"
  | _, some (joined, q) => s!"{if joined then "join" else "new"} q{q}"
  | r, none => retStr r ++ String.join (o.deliveries.map fun (c, oc) => s!" ; c{c} {outcomeStr last look qkey oc}")

def queryStr (q : Query) : String :=
  s!"q{q.qid} k{q.key} n{q.senders.length} [{mapStr q.results}]"

def dumpStr (s : State) : String :=
  let qs := sortBy (fun (a b : Query) => decide (a.qid < b.qid)) s.pending
  if qs.isEmpty then "pending -" else "pending " ++ " | ".intercalate (qs.map queryStr)

def parseCfg (q : String) (rest : List String) : Option Cfg :=
  match parseQuorum q with
  | none => none
  | some qu =>
    let rec go (ws : List String) (cfg : Cfg) : Option Cfg :=
      match ws with
      | [] => some cfg
      | "reg" :: r => go r { cfg with isReg := true }
      | w :: r =>
        match w.toList with
        | 't' :: '=' :: t => (parseTok (String.ofList t)).bind fun c => go r { cfg with target := some c }
        | 'e' :: '=' :: e => (parseNats (String.ofList e)).bind fun l => if l.all (· ≤ 64) then go r { cfg with expected := l } else none
        | _ => none
    go rest { quorum := qu, target := none, isReg := false }

def parseOp (ws : List String) : Option Op :=
  match ws with
  | "get" :: k :: c :: q :: rest =>
    match k.toNat?, c.toNat?, parseCfg q rest with
    | some k, some c, some cfg => some (.get k c cfg)
    | _, _, _ => none
  | ["found", q, p, t] =>
    match q.toNat?, p.toNat?, parseTok t with
    | some q, some p, some c => some (.found q p c none)
    | _, _, _ => none
  | ["found", q, p, t, k] =>
    match q.toNat?, p.toNat?, parseTok t, k.toList with
    | some q, some p, some c, 'k' :: kd =>
      match natOfChars kd with
      | some k => if k ≤ 15 then some (.found q p c (some k)) else none
      | none => none
    | _, _, _, _ => none
  | ["finished", q] => q.toNat?.map .finished
  | ["notfound", q] => q.toNat?.map .notFound
  | ["quorumfailed", q] => q.toNat?.map .quorumFailed
  | ["timeout", q] => q.toNat?.map .timeout
  | ["hangup", c] => c.toNat?.map .hangup
  | _ => none

def nodup : List Content → Bool
  | [] => true
  | c :: cs => !cs.contains c && nodup cs

def step (s : State) (ws : List String) : State × String :=
  match ws with
  | ["reset"] => ({}, if s.pending.isEmpty then "reset" else s!"reset leaked={s.pending.length}")
  | ["dump"] => (s, dumpStr s)
  | "merge" :: toks =>
    match toks.mapM parseTok with
    | none => (s, "bad-op")
    | some cs =>
      if !nodup cs then (s, "illegal-choice")
      else
        -- the versions are listed in ascending order of their key in the result map (choice witness for the
        -- content hashes): entry i has key i; the model visits them as the code does (`visitOrder`)
        let m : List (Nat × Content) := (List.range cs.length).zip cs
        (s, match mergeSplitMap m with | none => "none" | some c => s!"some {tok c}")
  | _ =>
    match parseOp ws with
    | none => (s, "bad-op")
    | some op =>
      -- the harness can only address queries that exist (a `QueryId` cannot be forged) and knows 64 peers
      let known : Bool := match op with
        | .found q p _ _ => decide (q < s.nextQid) && decide (p ≤ 64)
        | .finished q | .notFound q | .quorumFailed q | .timeout q => decide (q < s.nextQid)
        | _ => true
      if !known then (s, "bad-op") else
      let r := SafeNet.Quorum.step s op
      -- the query the event addresses (before the step), for printing the keys of the records handed over
      let qid : Nat := match op with
        | .found q _ _ _ | .finished q | .notFound q | .quorumFailed q | .timeout q => q
        | _ => 0
      let qkey : Nat := match findQ qid s.pending with | some q => q.key | none => 0
      let last : Option Nat := match op with
        | .found _ _ _ fk => some (fk.getD qkey)
        | _ => none
      (r.1, outStr r.2 last (fun c => storedKey r.1.keys qid c qkey) qkey)

/-- Model search (used only when a proof obligation broke): short histories on which the regenerated model
delivers `ok` although fewer than the quorum of distinct peers answered / the target differs. -/
def searchCandidates : List String :=
  let hist (l : List String) : List String := ["reset"] ++ l ++ ["dump"]
  -- a peer answering twice must not complete a quorum of 2
  hist ["get 0 0 n2", "found 0 1 hc0", "found 0 1 hc0", "finished 0"] ++
  -- one reply must not satisfy majority / all; quorum-many replies must
  hist ["get 0 0 majority", "found 0 1 hc0", "found 0 2 hc0", "found 0 2 hc0", "found 0 3 hc0"] ++
  hist ["get 0 0 all", "found 0 1 hc0", "found 0 2 hc0", "found 0 3 hc0", "found 0 4 hc0", "timeout 0"] ++
  hist ["get 0 0 n3", "found 0 1 hc0", "found 0 2 hc0", "found 0 3 hc0"] ++
  -- a target that differs must not be returned as ok
  hist ["get 0 0 one t=hc1", "found 0 1 hc0"] ++
  hist ["get 0 0 n2 t=hc1", "found 0 1 hc0", "found 0 2 hc0"] ++
  -- register targets: a superset / subset of the expected ops, another base, an undecodable record
  hist ["get 0 0 one t=r0g.1 reg", "found 0 1 r0g.1.2"] ++
  hist ["get 0 0 one t=r0g.1.2 reg", "found 0 1 r0g.1"] ++
  hist ["get 0 0 one t=r0g.1 reg", "found 0 1 r1g.1"] ++
  hist ["get 0 0 one t=hr0 reg", "found 0 1 hr0"] ++
  hist ["get 0 0 n2 t=r0g.0 reg", "found 0 1 r0g.0.1", "found 0 2 r0g.0.1"] ++
  -- Quorum::N above the close group size
  hist ["get 0 0 n6", "found 0 1 hc0", "found 0 2 hc0", "found 0 3 hc0", "found 0 4 hc0", "found 0 5 hc0", "finished 0"] ++
  hist ["get 0 0 n7", "found 0 1 hc0", "found 0 2 hc0", "found 0 3 hc0", "found 0 4 hc0", "found 0 5 hc0", "found 0 6 hc0", "found 0 7 hc0"] ++
  -- a caller that hung up (head / middle of the queue) must not starve the others
  hist ["get 0 0 one", "get 0 1 one", "get 0 2 one", "hangup 0", "found 0 1 hc0"] ++
  hist ["get 0 0 n2", "get 0 1 n2", "get 0 2 n2", "hangup 1", "found 0 1 hc0", "finished 0"] ++
  hist ["get 0 0 one", "get 0 1 one", "hangup 0", "timeout 0"] ++
  -- the merge of a split must not depend on the iteration order of the result map (ties: equal highest counters,
  -- several verified bases, mixed kinds)
  hist ["merge s0.2.0g s0.2.1g", "merge s0.2.1g s0.2.0g", "merge r0g.0 r1g.1", "merge r1g.1 r0g.0", "merge t0 r0g.1", "merge s0.1.0g s0.1.1g s0.1.2g"] ++
  -- named holders (`expected_holders`) must not lower the number of copies required
  hist ["get 0 0 majority e=1.2.3", "found 0 1 hc0", "found 0 2 hc0", "finished 0"] ++
  hist ["get 0 0 majority e=1.2", "found 0 1 hc0", "timeout 0"] ++
  hist ["get 0 0 n3 e=1", "found 0 1 hc0", "found 0 2 hc0", "timeout 0"] ++
  -- split
  hist ["get 0 0 n2", "found 0 1 hc0", "found 0 2 hc1", "found 0 3 hc1"] ++
  hist ["get 0 0 n2", "found 0 1 hc0", "found 0 2 hc1", "finished 0"]

end SafeNet.Driver.Quorum
