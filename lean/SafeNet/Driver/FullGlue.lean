import SafeNet.Driver.Util
import SafeNet.Driver.Fetcher
import SafeNet.Base.Sha256
import SafeNet.Model.FullGlue
/-!
Line protocol of the composed store + fetcher model (`drv_fullglue`, C08), one output line per op line.
See `harness/hnet/src/bin/fullglue.rs`.

```
new <seed> <max> <cache> <nkeys>   fresh never-run node driver, max_records / records_cache_size               -> ok
key <k> <dist> <addr> <self>       distance of key k (must be the XOR of the SHA-256 digests of the two byte strings)  -> ok
put <k> <v> <w>                    PutLocalRecord through the real handler, then every spawned task runs        -> state line
advert <h> <k:t,..|-> <w>          add_keys_to_replication_fetcher(holder h, list)                              -> state line
early <k> <t> <w>                  FetchCompleted                                                                -> state line
ack                                the oldest pending AddLocalRecordAsStored is handled                          -> state line
settle                             every pending AddLocalRecordAsStored is handled, oldest first                 -> state line
rmfailed <k>                       RemoveFailedLocalRecord                                                       -> state line
range <r>                          the run loop's distance-range update (store and fetcher)                      -> state line
cleanup                            TriggerIrrelevantRecordCleanup                                                -> state line
```
`<w>` = the emitted list `h:k:t,...` (choice witness). State line:
`res=.. emit=.. fail=.. tbf=k:t:h,.. ogf=k:t:h,.. frange=.. ffar=.. idx=k:t,.. sfar=.. srange=.. notes=n`
-/
namespace SafeNet.Driver.FullGlue
open SafeNet SafeNet.FullGlue
open SafeNet.Driver.Fetcher (splitList parsePair parseChoice joinOr sortBy leEntry showOpt dedup)

structure DSt where
  dists : List (Nat × Nat) := []
  cfg : Store.Cfg := Store.Cfg.shipped 0 1
  st : St := SafeNet.FullGlue.init (Store.Cfg.shipped 0 1) (fun _ => 0)

def distOf (d : DSt) (k : Nat) : Nat := (d.dists.lookup k).getD 0

def showQueue (l : List Fetcher.Entry) : String :=
  joinOr ((sortBy leEntry l).map fun e => s!"{e.key}:{e.ty}:{e.holder}")

def showIdx (l : List (Nat × Store.RType)) : String :=
  joinOr ((sortBy (fun (a b : Nat × Nat) => decide (a.1 ≤ b.1)) (l.map fun e => (e.1, tyCode e.2))).map
    fun e => s!"{e.1}:{e.2}")

def showRes : HRes → String
  | .ok => "ok"
  | .maxRecords => "max"
  | .badHeader => "badheader"
  | .illegal => "illegal-choice"
  | .noNote => "no-note"

def render (s : St) (o : HOut) : String :=
  let emit := joinOr (o.emitted.map fun e => s!"{e.holder}:{e.key}:{e.ty}")
  let fail := joinOr ((sortBy (fun a b => decide (a ≤ b)) (dedup o.failed)).map toString)
  (if o.stuck then "stuck " else "") ++ (if o.illegal then "illegal-choice " else "") ++
  s!"res={showRes o.res} emit={emit} fail={fail} tbf={showQueue s.fetcher.tbf} ogf={showQueue s.fetcher.ogf} " ++
  s!"frange={showOpt s.fetcher.range} ffar={showOpt s.fetcher.farthest} idx={showIdx s.store.index} " ++
  s!"sfar={showOpt (s.store.farthest.map (·.1))} srange={showOpt s.store.range} notes={s.store.notes.length}"

/-- every spawned task except the start-up flush (which sits in the driver's own, never-run runtime) runs, oldest first -/
def runTasks (cfg : Store.Cfg) (dist : Nat → Nat) (s : St) : St :=
  let ids := (s.store.tasks.filter fun t => match t.2 with | .flush _ => false | _ => true).map (·.1)
  ids.foldl (fun s id => (SafeNet.FullGlue.step cfg dist s (.run id)).1) s

def apply (d : DSt) (op : Op) : DSt × String :=
  let (s', o) := SafeNet.FullGlue.step d.cfg (distOf d) d.st op
  let s'' := runTasks d.cfg (distOf d) s'
  ({ d with st := s'' }, render s'' o)

def step (d : DSt) (ws : List String) : DSt × String :=
  match ws with
  | ["new", _, m, c, _] =>
    match m.toNat?, c.toNat? with
    | some m, some c =>
      let cfg := Store.Cfg.shipped m c
      ({ dists := [], cfg := cfg, st := SafeNet.FullGlue.init cfg (fun _ => 0) }, "ok")
    | _, _ => (d, "bad-op")
  | ["key", k, v, ab, sb] =>
    match k.toNat?, v.toNat?, unhex ab, unhex sb with
    | some k, some v, some ab, some sb =>
      if v = SafeNet.Sha256.hashNat ab ^^^ SafeNet.Sha256.hashNat sb then
        ({ d with dists := (k, v) :: d.dists.filter (·.1 ≠ k) }, "ok")
      else (d, "dist-mismatch")
    | _, _, _, _ => (d, "bad-op")
  | ["put", k, v, c] =>
    match k.toNat?, v.toNat?, (splitList c).mapM parseChoice with
    | some k, some v, some ch => apply d (.put k v ch)
    | _, _, _ => (d, "bad-op")
  | ["advert", h, l, c] =>
    match h.toNat?, (splitList l).mapM parsePair, (splitList c).mapM parseChoice with
    | some h, some inc, some ch => apply d (.advert h inc ch)
    | _, _, _ => (d, "bad-op")
  | ["early", k, t, c] =>
    match k.toNat?, t.toNat?, (splitList c).mapM parseChoice with
    | some k, some t, some ch => apply d (.early k t ch)
    | _, _, _ => (d, "bad-op")
  | ["ack"] =>
    match d.st.store.notes with
    | [] => (d, render d.st { res := .noNote })
    | (id, _) :: _ => apply d (.deliver id)
  | ["settle"] =>
    let ids := d.st.store.notes.map (·.1)
    let s' := ids.foldl (fun s id => (SafeNet.FullGlue.step d.cfg (distOf d) s (.deliver id)).1) d.st
    ({ d with st := s' }, render s' {})
  | ["rmfailed", k] =>
    match k.toNat? with
    | some k => apply d (.removeFailed k)
    | none => (d, "bad-op")
  | ["range", r] =>
    match r.toNat? with
    | some r => apply d (.setRange r)
    | none => (d, "bad-op")
  | ["cleanup"] => apply d .cleanup
  | _ => (d, "bad-op")

/-! ## model search (`drv_fullglue search`)

Candidate histories on which the REGENERATED handler lets a node that has just refused a record emit or keep a fetch
farther than its farthest held record. Key ids are distance ranks (the harness numbers the keys of a history by
increasing distance), so `dist = id` has the order the real distances have. -/

def violates (cfg : Store.Cfg) (ops : List Op) : Bool :=
  let dist : Nat → Nat := fun k => k
  let rec go (s : St) : List Op → Bool
    | [] => false
    | op :: rest =>
      let (s', o) := SafeNet.FullGlue.step cfg dist s op
      let s'' := runTasks cfg dist s'
      let bad := o.res == .maxRecords &&
        ((o.emitted ++ pending s''.fetcher).any fun e => decide (maxHeld dist s''.store.index < dist e.key))
      bad || go s'' rest
  go (SafeNet.FullGlue.init cfg dist) ops

def opLine : Op → String
  | .put k v _ => s!"put {k} {v}"
  | .advert h l _ => s!"advert {h} " ++ joinOr (l.map fun p => s!"{p.1}:{p.2}")
  | .early k t _ => s!"early {k} {t}"
  | .deliver _ => "settle"
  | .removeFailed k => s!"rmfailed {k}"
  | .setRange r => s!"range {r}"
  | .cleanup => "cleanup"
  | .run _ => "settle"

/-- fill the store with the `m` closest keys, then a scenario; choice witnesses are found by trying the candidates the
greedy loop could return (here: at most one entry, so the candidates are the queued entries and the empty list) -/
def candidates : List (Nat × List Op) :=
  let fill (m : Nat) : List Op := (List.range m).flatMap fun i => [Op.put i (3 * i) [], Op.deliver (i + 1)]
  (List.range 3).flatMap fun m0 =>
    let m := m0 + 1
    -- (a) key m+2 in flight from holder 1 and queued for holder 2; it arrives as another version and is refused
    [(m, fill m ++ [.advert 1 [(m + 2, 0)] [⟨m + 2, 0, 1, 0⟩],
                    .advert 2 [(m + 2, 0), (m + 3, 0)] [⟨m + 3, 0, 2, 0⟩],
                    .put (m + 2) 7 [⟨m + 2, 0, 2, 0⟩]]),
     (m, fill m ++ [.advert 1 [(m + 2, 0)] [⟨m + 2, 0, 1, 0⟩],
                    .advert 2 [(m + 2, 0), (m + 3, 0)] [⟨m + 3, 0, 2, 0⟩],
                    .put (m + 2) 7 []]),
     -- (b) 22 farther keys advertised at once: 20 in flight, 2 queued; the first arrival is refused and frees a slot
     (m, fill m ++ [.advert 1 ((List.range 22).map fun i => (m + 1 + i, 0))
                      ((List.range 20).map fun i => ⟨m + 1 + i, 0, 1, 0⟩),
                    .put (m + 1) 300 [⟨m + 21, 0, 1, 0⟩]]),
     (m, fill m ++ [.advert 1 ((List.range 22).map fun i => (m + 1 + i, 0))
                      ((List.range 20).map fun i => ⟨m + 1 + i, 0, 1, 0⟩),
                    .put (m + 1) 300 []])]

/-- the histories the regenerated model convicts, as harness op lines (`new` with seed 1; derived parts are regenerated
by the harness on replay) -/
def searchCandidates : List String :=
  candidates.flatMap fun (m, ops) =>
    if violates (Store.Cfg.shipped m 3) ops then
      [s!"new 1 {m} 3 30"] ++ (List.range 30).map (fun k => s!"key {k}") ++ ops.map opLine
    else []

end SafeNet.Driver.FullGlue
