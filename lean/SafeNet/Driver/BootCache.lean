import SafeNet.Driver.Util
import SafeNet.Model.BootCache
/-!
Line-protocol driver for the bootstrap-cache model (`drv_bootcache`).

Syntax (no spaces inside a token):
  ma     := `~` | proto (`,` proto)*       proto := i4:n | i6:n | d:n | u:n | t:n | q | w | p:n | c | x:n
  addr   := ma `;` succ `;` fail `;` seen
  cache  := `-` | entry (`|` entry)*        entry := peer `=` [addr (`+` addr)*]
  choice := `e:-` | `e:` peer (`,` peer)*   (peers the implementation evicted; tie-break witness)
Ops:  cfg P A E N | mk s mode | tick d | add s ma e | upd s ma b | clean s e | flush s b e | write s | load e |
      lupd ma b e | start flags count args env o e h | file cache | corrupt k | craft ma | race … |
      wfault s | ffault s b e h | pswap s t | fbegin s b z:1 | fbegin s b z:0 e | fend s b e h
-/
namespace SafeNet.Driver.BootCache
open SafeNet.BootCache

def parseProto (s : String) : Option Proto :=
  match s.splitOn ":" with
  | ["q"] => some .quic
  | ["w"] => some .ws
  | ["c"] => some .circuit
  | ["i4", n] => n.toNat?.map .ip4
  | ["i6", n] => n.toNat?.map .ip6
  | ["d", n] => n.toNat?.map .dns
  | ["u", n] => n.toNat?.map .udp
  | ["t", n] => n.toNat?.map .tcp
  | ["p", n] => n.toNat?.map .p2p
  | ["x", n] => n.toNat?.map .other
  | _ => none

def parseMa (s : String) : Option Ma :=
  if s = "~" then some [] else (s.splitOn ",").mapM parseProto

def parseAddr (s : String) : Option Addr :=
  match s.splitOn ";" with
  | [m, a, b, t] =>
    match parseMa m, a.toNat?, b.toNat?, t.toNat? with
    | some m, some a, some b, some t => some ⟨m, a, b, t⟩
    | _, _, _, _ => none
  | _ => none

def parseEntry (s : String) : Option (Nat × List Addr) :=
  match s.splitOn "=" with
  | [p, as] =>
    match p.toNat? with
    | none => none
    | some p => if as = "" then some (p, []) else ((as.splitOn "+").mapM parseAddr).map (fun l => (p, l))
  | _ => none

def parseCache (s : String) : Option Cache :=
  if s = "-" then some [] else (s.splitOn "|").mapM parseEntry

def parseChoice (s : String) : Option (List Nat) :=
  match s.splitOn ":" with
  | ["e", "-"] => some []
  | ["e", l] => (l.splitOn ",").mapM String.toNat?
  | _ => none

def showProto : Proto → String
  | .ip4 n => s!"i4:{n}" | .ip6 n => s!"i6:{n}" | .dns n => s!"d:{n}" | .udp n => s!"u:{n}" | .tcp n => s!"t:{n}"
  | .quic => "q" | .ws => "w" | .p2p n => s!"p:{n}" | .circuit => "c" | .other n => s!"x:{n}"

def showMa (m : Ma) : String := if m.isEmpty then "~" else ",".intercalate (m.map showProto)

def showAddr (a : Addr) : String := s!"{showMa a.ma};{a.succ};{a.fail};{a.seen}"

def insertEntry (e : Nat × List Addr) : Cache → Cache
  | [] => [e]
  | f :: t => if e.1 ≤ f.1 then e :: f :: t else f :: insertEntry e t

def sortCache : Cache → Cache
  | [] => []
  | e :: t => insertEntry e (sortCache t)

/-- peers ascending; peers with an empty address list are not printed (the implementation's
`get_all_addrs` cannot show them; `n=` carries the peer count) -/
def showCache (c : Cache) : String :=
  let c := c.filter (fun e => !e.2.isEmpty)
  if c.isEmpty then "-" else
  "|".intercalate ((sortCache c).map fun e => s!"{e.1}=" ++ "+".intercalate (e.2.map showAddr))

def showFile : File → String
  | .absent => "absent"
  | .garbage => "garbage"
  | .data c => showCache c

def memOf (s : Sys) (i : Nat) : String := s!"{showCache (getW s.ws i).mem} n={(getW s.ws i).mem.length}"

/-- FNV-1a (64 bit) of the UTF-8 bytes, as the harness computes it -/
def fnv (s : String) : Nat :=
  (s.toUTF8.foldl (fun (h : UInt64) b => (h ^^^ b.toUInt64) * 0x100000001b3) 0xcbf29ce484222325).toNat

def parseDigest (s : String) : Option Nat :=
  match s.splitOn ":" with
  | ["h", n] => n.toNat?
  | _ => none

def insertAll (x : Nat) : List Nat → List (List Nat)
  | [] => [[x]]
  | y :: t => (x :: y :: t) :: (insertAll x t).map (y :: ·)

def perms : List Nat → List (List Nat)
  | [] => [[]]
  | x :: t => (perms t).flatMap (insertAll x)

def rotations (l : List Nat) : List (List Nat) := (List.range l.length).map (fun k => l.drop k ++ l.take k)

def parseTagged (tag : String) (s : String) : Option (List Nat) :=
  match s.splitOn ":" with
  | [t, "-"] => if t = tag then some [] else none
  | [t, l] => if t = tag then (l.splitOn ",").mapM String.toNat? else none
  | _ => none

def parseMaList (s : String) : Option (List Ma) :=
  if s = "-" then some [] else (s.splitOn "+").mapM parseMa

def insertStr (x : String) : List String → List String
  | [] => [x]
  | y :: t => if x < y then x :: y :: t else y :: insertStr x t

def sortStr : List String → List String
  | [] => []
  | x :: t => insertStr x (sortStr t)

/-- result of `get_bootstrap_addr`, addresses rendered and sorted as strings -/
def showStart : Except StartErr (List Addr) → String
  | .ok l => if l.isEmpty then "ok -" else "ok " ++ "+".intercalate (sortStr (l.map showAddr))
  | .error .noPeers => "err nopeers"
  | .error .cache => "err cache"
  | .error .badDir => "err baddir"

def flushOut (s : Sys) (i : Nat) : String := s!"m={memOf s i} f={showFile s.file}"

/-- what `--bootstrap-cache-dir` points at, from the flags of `mk` / `start` -/
def dirKindOf (fl : String) : DirKind :=
  if fl.contains 'D' then .isFile else if fl.contains 'U' then .uncreatable else if fl.contains 'M' then .missing
  else if fl.contains 'd' then .isDir else .noOverride

/-- Driver state: the model state, and for every store whose flush is stopped between its halves the model state at the
moment of its load half (the tie-break of that load is only observable at the commit: the `h:` digest selects it). -/
structure DState where
  sys : Sys
  snaps : List (Nat × Sys)

def DState.init : DState := ⟨Sys.init Cfg.default 1, []⟩

def snapOf (snaps : List (Nat × Sys)) (i : Nat) : Option Sys := (snaps.find? (·.1 == i)).map (·.2)

/-- history `… flushLoad i ch1 … (ops of others) … flushCommit i wc ch`: ops of others never touch store `i`'s `loaded`,
so the state before the commit is the current one with `loaded` as the load half left it. The stopped flush has READ THE
FILE at `fbegin` (the snapshot's file) but its clock reads — the first one is where it is stopped — all return the time of
`fend`: the clean-up inside `load_cache_data` runs on the snapshot's file with the current clock. -/
def graftLoad (cur snap : Sys) (i : Nat) (ch1 : List Nat) : Sys :=
  let l := (getW (SafeNet.BootCache.step { snap with now := cur.now } (.flushLoad i ch1)).ws i).loaded
  { cur with ws := modAt (fun w => { w with loaded := l }) i cur.ws }

def step (s : Sys) (ws : List String) : Sys × String :=
  match ws with
  | ["cfg", p, a, e, n] =>
    match p.toNat?, a.toNat?, e.toNat?, n.toNat? with
    | some p, some a, some e, some n => (Sys.init ⟨p, a, e⟩ n, "ok")
    | _, _, _, _ => (s, "bad-op")
  | ["tick", d] =>
    match d.toNat? with
    | some d => let s' := SafeNet.BootCache.step s (.tick d); (s', s!"now {s'.now}")
    | none => (s, "bad-op")
  | ["add", i, m, e] =>
    match i.toNat?, parseMa m, parseChoice e with
    | some i, some m, some ch => let s' := SafeNet.BootCache.step s (.add i m ch); (s', s!"m={memOf s' i}")
    | _, _, _ => (s, "bad-op")
  | ["upd", i, m, b] =>
    match i.toNat?, parseMa m, b.toNat? with
    | some i, some m, some b => let s' := SafeNet.BootCache.step s (.upd i m (b != 0)); (s', s!"m={memOf s' i}")
    | _, _, _ => (s, "bad-op")
  | ["clean", i, e] =>
    match i.toNat?, parseChoice e with
    | some i, some ch => let s' := SafeNet.BootCache.step s (.clean i ch); (s', s!"m={memOf s' i}")
    | _, _ => (s, "bad-op")
  | ["flush", i, b, e] =>
    match i.toNat?, b.toNat?, parseChoice e with
    | some i, some b, some ch =>
      let s' := run s (flushOps i (b != 0) ch)
      (s', flushOut s' i)
    | _, _, _ => (s, "bad-op")
  | ["flush", i, b, e, h] =>
    -- `sync_and_flush_to_disk` evicts twice (inside `load_cache_data`, then after the merge); only the second
    -- eviction is observable. The digest `h:` of the implementation's output selects the tie-break of the
    -- first one: the model must reproduce the output exactly under SOME legal tie-break.
    match i.toNat?, b.toNat?, parseChoice e, parseDigest h with
    | some i, some b, some ch, some d =>
      let attempt (ch1 : List Nat) : Sys := run s [.flushLoad i ch1, .flushCommit i (b != 0) ch]
      let s0 := attempt ch
      if fnv (flushOut s0 i) == d then (s0, flushOut s0 i) else
      let ks := match s.file with | .data c => keys c | _ => []
      let cands := if ks.length ≤ 7 then perms ks else rotations ks
      match cands.find? (fun ch1 => fnv (flushOut (attempt ch1) i) == d) with
      | some ch1 => let s1 := attempt ch1; (s1, flushOut s1 i)
      | none => (s0, flushOut s0 i)
    | _, _, _, _ => (s, "bad-op")
  | ["mk", i, mode] =>
    -- store `i` is rebuilt: `n` = `new(config)`, otherwise `new_from_peers_args` (`d` = `bootstrap_cache_dir`
    -- override with the config's own path elsewhere, `c` = no override, `f` = first, `l` = local, `i` = ignore_cache)
    match i.toNat? with
    | some i =>
      -- `get_bootstrap_cache_path()?` comes first in `new_from_peers_args`: an unusable directory argument ends it
      match (if mode.contains 'n' then none else dirErr (dirKindOf mode)) with
      | some .badDir => (s, "err baddir")
      | some _ => (s, "err cache")
      | none =>
      let first := mode.contains 'f'
      let dis := mode.contains 'l'
      let s' := SafeNet.BootCache.step s (.rebuild i first dis)
      (s', s!"m={memOf s' i} f={showFile s'.file}")
    | none => (s, "bad-op")
  | ["start", fl, cnt, as, ev, o, e, h] =>
    -- `PeersArgs::get_bootstrap_addr`; `o:` = hash-map order of the cache peers in the result, `e:` = peers evicted
    -- by the load, `h:` = digest of the implementation's output (selects the load's tie-break when the result is cut)
    match parseMaList as, parseMaList ev, parseTagged "o" o, parseChoice e, parseDigest h with
    | some addrs, some env, some ord, some ch, some d =>
      let count := if cnt = "-" then none else cnt.toNat?
      let args : StartArgs := ⟨fl.contains 'f', fl.contains 'l', fl.contains 'i', addrs, count⟩
      let dk := dirKindOf fl
      let file := if dk == .missing then File.absent else s.file
      let attempt (ch1 : List Nat) : String := showStart (startup s.cfg ch1 ord s.now args env dk file)
      let r0 := attempt ch
      if fnv r0 == d then (s, r0) else
      let ks := match s.file with | .data c => keys c | _ => []
      let cands := if ks.length ≤ 7 then perms ks else rotations ks
      match cands.find? (fun ch1 => fnv (attempt ch1) == d) with
      | some ch1 => (s, attempt ch1)
      | none => (s, r0)
    | _, _, _, _, _ => (s, "bad-op")
  | ["wfault", i] =>
    -- a save during which every write fails (disk full): `AtomicWriteFile` never commits, so the file is what it
    -- was, the error is returned, the memory is untouched
    match i.toNat? with
    | some i => (s, s!"err m={memOf s i} f={showFile s.file}")
    | none => (s, "bad-op")
  | ["ffault", i, b, e, h] =>
    -- the same through `sync_and_flush_to_disk` (which does nothing and reports Ok when cache writing is disabled):
    -- `Op.flushFail` — what stays in memory follows `flushFailKeepsMemory`
    match i.toNat?, b.toNat?, parseChoice e, parseDigest h with
    | some i, some b, some ch, some d =>
      let res (s' : Sys) : String := s!"{if (getW s.ws i).disabled then "ok" else "err"} m={memOf s' i} f={showFile s'.file}"
      let attempt (ch1 : List Nat) : Sys := run s [.flushLoad i ch1, .flushFail i (b != 0) ch]
      let s0 := attempt ch
      if fnv (res s0) == d then (s0, res s0) else
      let ks := match s.file with | .data c => keys c | _ => []
      let cands := if ks.length ≤ 7 then perms ks else rotations ks
      match cands.find? (fun ch1 => fnv (res (attempt ch1)) == d) with
      | some ch1 => let s1 := attempt ch1; (s1, res s1)
      | none => (s0, res s0)
    | _, _, _, _ => (s, "bad-op")
  | ["ffault", i, e, h] =>
    match i.toNat?, parseChoice e, parseDigest h with
    | some i, some ch, some _ =>
      let s' := run s [.flushLoad i ch, .flushFail i false ch]
      (s', s!"{if (getW s.ws i).disabled then "ok" else "err"} m={memOf s' i} f={showFile s'.file}")
    | _, _, _ => (s, "bad-op")
  | ["pswap", i, j] =>
    match i.toNat?, j.toNat? with
    | some i, some j =>
      if i < s.ws.length && j < s.ws.length && i != j then
        let s' := SafeNet.BootCache.step s (.swap i j)
        (s', s!"m={memOf s' i} | m={memOf s' j}")
      else (s, "busy")
    | _, _ => (s, "bad-op")
  | ["write", i] =>
    match i.toNat? with
    | some i => let s' := SafeNet.BootCache.step s (.write i); (s', s!"f={showFile s'.file}")
    | none => (s, "bad-op")
  | ["load", e] =>
    match parseChoice e with
    | some ch =>
      match load s.cfg ch s.now s.file with
      | some c => (s, s!"ok {showCache c}")
      | none => (s, "err")
    | none => (s, "bad-op")
  | ["lupd", m, b, e] =>
    match parseMa m, b.toNat?, parseChoice e with
    | some m, some b, some ch =>
      match load s.cfg ch s.now s.file with
      | some c => (s, s!"ok {showCache (updAddr s.now c m (b != 0))}")
      | none => (s, "err")
    | _, _, _ => (s, "bad-op")
  | ["file", c] =>
    match parseCache c with
    | some c => let s' := SafeNet.BootCache.step s (.extFile (.data c)); (s', s!"f={showFile s'.file}")
    | none => (s, "bad-op")
  | ["corrupt", k] =>
    match k.toNat? with
    | some k =>
      let f := if k = 5 then File.absent else File.garbage
      let s' := SafeNet.BootCache.step s (.extFile f); (s', s!"f={showFile s'.file}")
    | none => (s, "bad-op")
  | ["craft", m] =>
    match parseMa m with
    | some m => (s, match craft m with | some r => s!"some {showMa r}" | none => "none")
    | none => (s, "bad-op")
  | "race" :: _ => (s, "race ok")
  | _ => (s, "bad-op")

/-- the driver's step: `fbegin` / `fend` (a flush stopped between its halves) on top of `step` -/
def dstep (st : DState) (ws : List String) : DState × String :=
  let s := st.sys
  match ws with
  | ["fbegin", i, _, "z:1"] =>
    -- stopped after the load half: the load happens NOW (on the file as it is now); its tie-break is chosen at `fend`
    match i.toNat? with
    | some i =>
      if i < s.ws.length && (snapOf st.snaps i).isNone then
        (⟨SafeNet.BootCache.step s (.flushLoad i []), (i, s) :: st.snaps⟩, "paused")
      else (st, "busy")
    | none => (st, "bad-op")
  | ["fbegin", i, b, "z:0", e] =>
    -- the flush met no clock read and ran to its end at once
    match i.toNat?, b.toNat?, parseChoice e with
    | some i, some b, some ch =>
      if i < s.ws.length && (snapOf st.snaps i).isNone then
        let s' := run s (flushOps i (b != 0) ch)
        (⟨s', st.snaps⟩, s!"done {flushOut s' i}")
      else (st, "busy")
    | _, _, _ => (st, "bad-op")
  | ["fend", i, b, e, h] =>
    match i.toNat?, b.toNat?, parseChoice e, parseDigest h with
    | some i, some b, some ch, some d =>
      match snapOf st.snaps i with
      | none => (st, "idle")
      | some snap =>
        let snaps := st.snaps.filter (·.1 != i)
        let attempt (ch1 : List Nat) : Sys := SafeNet.BootCache.step (graftLoad s snap i ch1) (.flushCommit i (b != 0) ch)
        let s0 := attempt ch
        if fnv (flushOut s0 i) == d then (⟨s0, snaps⟩, flushOut s0 i) else
        let ks := match snap.file with | .data c => keys c | _ => []
        let cands := if ks.length ≤ 7 then perms ks else rotations ks
        match cands.find? (fun ch1 => fnv (flushOut (attempt ch1) i) == d) with
        | some ch1 => let s1 := attempt ch1; (⟨s1, snaps⟩, flushOut s1 i)
        | none => (⟨s0, snaps⟩, flushOut s0 i)
    | _, _, _, _ => (st, "bad-op")
  | ["fend", i, _] =>
    -- no flush of this store is stopped (it ran to its end at `fbegin`): nothing to do
    match i.toNat? with
    | some i => if (snapOf st.snaps i).isNone then (st, "idle") else (st, "bad-op")
    | none => (st, "bad-op")
  | "cfg" :: _ => let (s', o) := step s ws; (⟨s', []⟩, o)
  | op :: i :: _ =>
    -- a store whose flush is in flight is not available to other ops
    if ["add", "upd", "clean", "flush", "write", "mk", "wfault", "ffault"].contains op
        && (match i.toNat? with | some i => (snapOf st.snaps i).isSome | none => false) then (st, "busy")
    else if op == "pswap" && (match ws with
        | [_, a, b] => (match a.toNat?, b.toNat? with
          | some a, some b => (snapOf st.snaps a).isSome || (snapOf st.snaps b).isSome
          | _, _ => false)
        | _ => false) then (st, "busy")
    else let (s', o) := step s ws; (⟨s', st.snaps⟩, o)
  | _ => let (s', o) := step s ws; (⟨s', st.snaps⟩, o)

/-- Model search (used only when a proof obligation broke): inputs on which the regenerated model
contradicts a clause of C18, printed as harness op lines (each candidate is a whole case, ops joined by " ; "
are not supported by the replay, so every candidate here is a single self-contained line or a short block
starting with `cfg`). -/
def searchCandidates : List String := Id.run do
  let mut out : List String := []
  -- non-atomic write: readers can observe a partial file; ask the harness to race real writers
  if !Gen.BootCache.writeAtomic then
    out := out ++ ["cfg 50 6 86400 3", "race 1 3 60", "race 2 3 60", "race 3 4 60"]
  -- a failed flush must leave the memory within its limits
  if !Gen.BootCache.flushFailKeepsMemory then
    out := out ++ ["cfg 1 2 100 1", "tick 2", "add 0 i4:1,u:1,q,p:1", "flush 0 0", "tick 2", "add 0 i4:1,u:1,q,p:2", "ffault 0 0", "load"]
  -- the periodic save must clean up (bounded file)
  if !Gen.BootCache.periodicFlushCleans then
    out := out ++ ["cfg 1 2 100 2", "tick 2", "add 0 i4:1,u:1,q,p:1", "flush 0 0", "tick 2", "add 0 i4:1,u:1,q,p:2", "pswap 0 1", "flush 1 0", "load"]
  -- start-up must not fail because of an unparsable cache file
  if !Gen.BootCache.startupIgnoresLoadError then
    let sa : StartArgs := ⟨false, false, false, [[.ip4 1, .udp 1, .quic, .p2p 7]], none⟩
    if okB (startup ⟨3, 3, 100⟩ [] [] 1000000 sa [] .noOverride .garbage) != okB (startup ⟨3, 3, 100⟩ [] [] 1000000 sa [] .noOverride .absent) then
      out := out ++ ["cfg 3 3 100 1", "corrupt 1", "start - - i4:1,u:1,q,p:7 -", "corrupt 0", "start d 5 i4:1,u:1,q,p:7 -"]
  -- bounds / clean-up clauses on a small exhaustive family of histories
  let a (p n : Nat) : String := s!"i4:{n},u:{n},q,p:{p}"
  let hist : List (List String) := [
    ["cfg 2 2 100 1", s!"tick 1", s!"add 0 {a 1 1} e:-", "tick 1", s!"add 0 {a 2 1} e:-", "tick 1", s!"add 0 {a 3 1} e:1", "clean 0 e:-"],
    ["cfg 2 2 100 1", "tick 1", s!"add 0 {a 1 1} e:-", "tick 1", s!"add 0 {a 1 2} e:-", "tick 1", s!"add 0 {a 1 3} e:-", "clean 0 e:-"],
    ["cfg 2 2 100 1", "tick 1", s!"add 0 {a 1 1} e:-", s!"upd 0 {a 1 1} 0", s!"upd 0 {a 1 1} 0", "clean 0 e:-"],
    ["cfg 2 2 100 1", "tick 1", s!"add 0 {a 1 1} e:-", "tick 100", "clean 0 e:-"],
    ["cfg 2 2 100 2", "tick 1", s!"add 0 {a 1 1} e:-", "flush 0 0 e:-", "tick 1", s!"add 1 {a 2 1} e:-", "flush 1 0 e:-", "load e:-"]]
  for h in hist do
    let mut s := Sys.init ⟨2, 2, 100⟩ 1
    let mut bad := false
    for l in h do
      let (s', _) := step s (words l)
      s := s'
      for w in s.ws do
        if w.mem.length > s.cfg.maxPeers then bad := true
        for e in w.mem do
          if e.2.length > s.cfg.maxAddrs then bad := true
      if l.startsWith "clean" then
        for w in s.ws do
          for e in w.mem do
            for x in e.2 do
              if x.fail > x.succ || x.seen + s.cfg.expiry ≤ s.now then bad := true
    if h.getLast? == some "load e:-" then
      match load s.cfg [] s.now s.file with
      | some c => if c.length < 2 then bad := true
      | none => bad := true
    if bad then out := out ++ h
  return out

end SafeNet.Driver.BootCache
