import SafeNet.Driver.Util
import SafeNet.Model.Replication
/-! Line-protocol driver for the replication model (C09). See `harness/hnode/src/bin/replication.rs`. -/
namespace SafeNet.Driver.Replication
open SafeNet.Replication
open SafeNet.Validate (Content Store)
open SafeNet.Fetcher (Entry)

structure DState where
  n : Nat := 0
  rts : List (Nat × List Nat) := []
  pd : List ((Nat × Nat) × Nat) := []
  kd : List ((Nat × Nat) × Nat) := []
  sys : Sys := {}

def world (d : DState) : World :=
  { n := d.n
    rt := fun i => (d.rts.lookup i).getD []
    pdist := fun i p => (d.pd.lookup (i, p)).getD 0
    kdist := fun i k => (d.kd.lookup (i, k)).getD 0 }

def splitList (s : String) : List String := if s = "-" then [] else s.splitOn ","
def joinOr (l : List String) : String := if l.isEmpty then "-" else ",".intercalate l

def insertBy (le : α → α → Bool) (x : α) : List α → List α
  | [] => [x]
  | y :: ys => if le x y then x :: y :: ys else y :: insertBy le x ys
def sortBy (le : α → α → Bool) (l : List α) : List α := l.foldr (insertBy le) []

def dotted (l : List Nat) : String := ".".intercalate (l.map toString)

def parseIds (s : String) : Option (List Nat) :=
  if s = "" then some [] else
  match (s.splitOn ".").mapM String.toNat? with
  | some l => some (sortNats l).eraseDups
  | none => none

def parseContent (s : String) : Option Content :=
  match s.toList with
  | 'C' :: [] => some .chunk
  | 'S' :: r => (String.ofList r).toNat?.map (fun n => .pad n true)
  | 'T' :: r => (parseIds (String.ofList r)).bind (fun l => if l.isEmpty then none else some (.txs l))
  | 'R' :: r => (parseIds (String.ofList r)).map (fun l => .reg false l)
  | 'A' :: r => (parseIds (String.ofList r)).map (fun l => .reg true l)
  | _ => none

def showContent : Content → String
  | .chunk => "C"
  | .pad n valid => s!"S{n}" ++ (if valid then "" else "i")
  | .txs l => "T" ++ dotted l
  | .reg alt l => (if alt then "A" else "R") ++ dotted l

/-- record-type token → code -/
def parseType (s : String) : Option Nat :=
  if s = "C" then some 0 else if s = "S" then some 1 else
  match parseContent s with
  | some (.txs l) => some (tyOf (.txs l))
  | some (.reg a l) => some (tyOf (.reg a l))
  | _ => none

def trailingZeros : Nat → Nat → Nat
  | 0, _ => 0
  | fuel + 1, n => if n % 2 == 0 && n != 0 then 1 + trailingZeros fuel (n / 2) else 0

def decList : Nat → Nat → List Nat
  | 0, _ => []
  | fuel + 1, n =>
    if n == 0 then [] else
    let x := trailingZeros 64 n
    x :: decList fuel ((n / 2 ^ x - 1) / 2)

def showType (t : Nat) : String :=
  if t == 0 then "C" else if t == 1 then "S" else
  let m := t - 2
  let l := dotted (decList 64 (m / 4))
  match m % 4 with
  | 0 => "T" ++ l
  | 1 => "R" ++ l
  | 3 => "A" ++ l
  | _ => "?"

/-- `h:k:T`, or `h:k:T!` for an entry of the batch the `FetchCompleted` handler returned after a `PutLocalRecord` of the
same reply (`deadline` field 1: `choiceDone`) -/
def parseChoice (s : String) : Option Entry :=
  let (s, mark) := match s.toList.reverse with
    | '!' :: r => (String.ofList r.reverse, 1)
    | _ => (s, 0)
  match s.splitOn ":" with
  | [a, b, c] => match a.toNat?, b.toNat?, parseType c with
    | some h, some k, some t => some ⟨k, t, h, mark⟩
    | _, _, _ => none
  | _ => none

def parseWitness (s : String) : Option (List Entry) :=
  match s.toList with
  | 'c' :: '=' :: r => (splitList (String.ofList r)).mapM parseChoice
  | _ => none

def parseKeyTypes (s : String) : Option (List (Nat × Nat)) :=
  (splitList s).mapM fun e =>
    match e.splitOn "=" with
    | [k, t] => match k.toNat?, parseType t with
      | some k, some t => some (k, t)
      | _, _ => none
    | _ => none

def parsePairs (s : String) : Option (List (Nat × Nat)) :=
  (splitList s).mapM fun e =>
    match e.splitOn ":" with
    | [a, b] => match a.toNat?, b.toNat? with
      | some x, some y => some (x, y)
      | _, _ => none
    | _ => none

def leRow (a b : Nat × String × Nat) : Bool :=
  a.1 < b.1 || (a.1 == b.1 && (a.2.1 < b.2.1 || (a.2.1 == b.2.1 && a.2.2 ≤ b.2.2)))

def showQueue (l : List Entry) : String :=
  let rows := sortBy leRow (l.map fun e => (e.key, showType e.ty, e.holder))
  joinOr (rows.map fun r => s!"{r.1}:{r.2.1}:{r.2.2}")

def showIdx (s : Store) : String :=
  let rows := sortBy (fun (a b : Nat × Content) => a.1 ≤ b.1) s
  joinOr (rows.map fun r => s!"{r.1}={showType (tyOf r.2)}/{showContent r.2}")

def view (s : Sys) (i : Nat) : String :=
  let nd := s.node i
  s!"n{i} idx={showIdx nd.store} tbf={showQueue nd.fetcher.tbf} ogf={showQueue nd.fetcher.ogf}"

def showMsg (s : Sys) (id : Nat) : String :=
  match s.msg id with
  | some (.rep a b _ _) => s!"{id}:rep:{a}>{b}"
  | some (.get a b k) => s!"{id}:get:{a}>{b}:{k}"
  | some (.rsp a b k _) => s!"{id}:rsp:{a}>{b}:{k}"
  | none => s!"{id}:?"

def showWire (s : Sys) (ids : List Nat) : String := joinOr (ids.map (showMsg s))

def showSched (l : List Entry) : String := joinOr (l.map fun e => s!"{e.holder}:{e.key}:{showType e.ty}")

def showFail (l : List Nat) : String := joinOr ((sortNats l).eraseDups.map toString)

def showWrites (l : List (Nat × Content)) : String := joinOr (l.map fun p => s!"W{p.1}={showContent p.2}")

def showNet : Option Nat → String
  | some k => s!"N{k}"
  | none => "-"

def pre (o : Out) : String := if o.illegal then "illegal-choice " else ""

def step (d : DState) (ws : List String) : DState × String :=
  let w := world d
  match ws with
  | ["new", n] =>
    match n.toNat? with
    | some n => ({ n := n, sys := init n }, "ok")
    | none => (d, "bad-op")
  | ["rt", i, l] =>
    match i.toNat?, parsePairs l with
    | some i, some ps =>
      let d := { d with rts := (i, ps.map (·.1)) :: d.rts.filter (·.1 != i),
                        pd := ps.map (fun p => ((i, p.1), p.2)) ++ d.pd }
      (d, "close=" ++ joinOr ((closestK (world d) i).map toString))
    | _, _ => (d, "bad-op")
  | ["kd", i, l] =>
    match i.toNat?, parsePairs l with
    | some i, some ps => ({ d with kd := ps.map (fun p => ((i, p.1), p.2)) ++ d.kd }, "ok")
    | _, _ => (d, "bad-op")
  | ["seed", i, k, c, wit] =>
    match i.toNat?, k.toNat?, parseContent c, parseWitness wit with
    | some i, some k, some c, some ch =>
      let (s, o) := SafeNet.Replication.step w d.sys (.seed i k c ch)
      if o.bad then (d, "bad-op") else
      ({ d with sys := s },
       pre o ++ s!"seed sched={showSched o.sched} fail={showFail o.failed} | {view s i} | wire+={showWire s o.newMsgs}")
    | _, _, _, _ => (d, "bad-op")
  | ["range", i, r] =>
    match i.toNat?, r.toNat? with
    | some i, some r =>
      let (s, o) := SafeNet.Replication.step w d.sys (.range i r)
      if o.bad then (d, "bad-op") else ({ d with sys := s }, "ok")
    | _, _ => (d, "bad-op")
  | ["tick", i, t] =>
    match i.toNat?, t.toNat? with
    | some i, some t =>
      let (s, o) := SafeNet.Replication.step w d.sys (.tick i t)
      if o.bad then (d, "bad-op") else ({ d with sys := s }, "ok")
    | _, _ => (d, "bad-op")
  | ["interval", i] =>
    match i.toNat? with
    | some i =>
      let (s, o) := SafeNet.Replication.step w d.sys (.interval i)
      if o.bad then (d, "bad-op") else
      let keys := sortBy (fun (a b : Nat × Nat) => a.1 ≤ b.1) o.keys
      let ks := joinOr (keys.map fun p => s!"{p.1}={showType p.2}")
      ({ d with sys := s }, s!"interval to={joinOr (o.targets.map toString)} keys={ks} | wire+={showWire s o.newMsgs}")
    | none => (d, "bad-op")
  | ["forge", a, b, l] =>
    match a.toNat?, b.toNat?, parseKeyTypes l with
    | some a, some b, some ks =>
      let (s, o) := SafeNet.Replication.step w d.sys (.forge a b ks)
      if o.bad then (d, "bad-op") else ({ d with sys := s }, "m" ++ joinOr (o.newMsgs.map toString))
    | _, _, _ => (d, "bad-op")
  | ["spoof", a, h, b, l] =>
    match a.toNat?, h.toNat?, b.toNat?, parseKeyTypes l with
    | some a, some h, some b, some ks =>
      let (s, o) := SafeNet.Replication.step w d.sys (.spoof a h b ks)
      if o.bad then (d, "bad-op") else ({ d with sys := s }, "m" ++ joinOr (o.newMsgs.map toString))
    | _, _, _, _ => (d, "bad-op")
  | ["dup", m] =>
    match m.toNat? with
    | some m =>
      let (s, o) := SafeNet.Replication.step w d.sys (.dup m)
      if o.bad then (d, "bad-op") else ({ d with sys := s }, "m" ++ joinOr (o.newMsgs.map toString))
    | none => (d, "bad-op")
  | "drop" :: m :: _ =>
    match m.toNat? with
    | some m =>
      let who : Option Nat := match d.sys.msg m with
        | some (.get src _ _) => some src
        | some (.rsp _ dst _ _) => some dst
        | _ => none
      let (s, o) := SafeNet.Replication.step w d.sys (.drop m)
      if o.bad then (d, "bad-op") else
      match who with
      | some i => ({ d with sys := s }, s!"drop net={showNet o.netget} sched=- | {view s i} | wire+=-")
      | none => ({ d with sys := s }, "drop")
    | none => (d, "bad-op")
  | "deliver" :: m :: rest =>
    let ch : Option (List Entry) := match rest with
      | [] => some []
      | [wit] => parseWitness wit
      | _ => none
    match m.toNat?, ch with
    | some m, some ch =>
      let msg := d.sys.msg m
      let (s, o) := SafeNet.Replication.step w d.sys (.deliver m ch)
      if o.bad then (d, "bad-op") else
      match msg with
      | some (.rep _ dst _ _) =>
        ({ d with sys := s },
         pre o ++ s!"rep sched={showSched o.sched} fail={showFail o.failed} | {view s dst} | wire+={showWire s o.newMsgs}")
      | some (.get ..) =>
        let tok := match o.rsp with
          | some (some c) => showContent c
          | _ => "none"
        ({ d with sys := s }, s!"get rsp={tok} | wire+={showWire s o.newMsgs}")
      | some (.rsp _ dst _ _) =>
        ({ d with sys := s },
         pre o ++ s!"rsp {showWrites o.writes} net={showNet o.netget} sched={showSched o.sched} fail={showFail o.failed} | {view s dst} | wire+={showWire s o.newMsgs}")
      | none => (d, "bad-op")
    | _, _ => (d, "bad-op")
  | ["dump"] | ["settled"] =>
    (d, " | ".intercalate ((List.range d.n).map (view d.sys)))
  | _ => (d, "bad-op")

end SafeNet.Driver.Replication
