import SafeNet.Driver.Util
import SafeNet.Base.Sha3
import SafeNet.Model.Wire
import SafeNet.Model.WireCbor
/-!
Line-protocol driver for the wire model (C12); op syntax and the value-tree token syntax are documented in
`harness/hlight/src/bin/wire.rs` and `wire/tree.rs`.
-/
namespace SafeNet.Driver.Wire
open SafeNet.Wire SafeNet.MsgPack SafeNet.Gen.Wire

def nameStr (n : List Nat) : String := String.ofList (n.map Char.ofNat)

def kindName (k : RecordKind) : String :=
  ((reprStr k).splitOn ".").getLast!

def kindOf (s : String) : Option RecordKind := RecordKind.all.find? (kindName · == s)

/-- split the first character off a token -/
def headTail (s : String) : Option (Char × String) :=
  match s.toList with
  | c :: rest => some (c, String.ofList rest)
  | [] => none

mutual
def parseTree : Nat → List String → Option (Tree × List String)
  | 0, _ => none
  | _, [] => none
  | fuel+1, w :: ws =>
    match headTail w with
    | none => none
    | some (c, rest) =>
      if c = 'N' ∧ rest = "" then some (.unit, ws)
      else if c = 'T' ∧ rest = "" then some (.bool true, ws)
      else if c = 'F' ∧ rest = "" then some (.bool false, ws)
      else if c = 'U' then rest.toNat?.map fun n => (.u n, ws)
      else if c = 'I' then rest.toNat?.map fun n => (.i n, ws)
      else if c = 'S' then (unhex rest).map fun b => (.str b, ws)
      else if c = 'B' then (unhex rest).map fun b => (.bytes b, ws)
      else if c = 'O' ∧ rest = "" then some (.none, ws)
      else if c = 'J' ∧ rest = "" then (parseTree fuel ws).map fun (t, r) => (.some t, r)
      else if c = 'Q' then rest.toNat?.bind fun n => (parseTrees fuel n ws).map fun (ts, r) => (.seq ts, r)
      else if c = 'P' then rest.toNat?.bind fun n => (parseTrees fuel n ws).map fun (ts, r) => (.tup ts, r)
      else if c = 'V' then
        match headTail rest with
        | some (':', name) => some (.uvar (nm name), ws)
        | _ => none
      else if c = 'W' then
        match headTail rest with
        | some (':', name) => (parseTree fuel ws).map fun (t, r) => (.nvar (nm name) t, r)
        | _ => none
      else none
def parseTrees : Nat → Nat → List String → Option (List Tree × List String)
  | _, 0, ws => some ([], ws)
  | 0, _, _ => none
  | fuel+1, n+1, ws =>
    match parseTree fuel ws with
    | none => none
    | some (t, r) => (parseTrees fuel n r).map fun (ts, r') => (t :: ts, r')
end

mutual
def showTree : Tree → List String
  | .unit => ["N"]
  | .bool b => [if b then "T" else "F"]
  | .u n => [s!"U{n}"]
  | .i m => [s!"I{m}"]
  | .str s => ["S" ++ hex s]
  | .bytes s => ["B" ++ hex s]
  | .none => ["O"]
  | .some t => "J" :: showTree t
  | .seq ts => s!"Q{ts.length}" :: showTrees ts
  | .tup ts => s!"P{ts.length}" :: showTrees ts
  | .uvar n => ["V:" ++ nameStr n]
  | .nvar n t => ("W:" ++ nameStr n) :: showTree t
def showTrees : List Tree → List String
  | [] => []
  | t :: ts => showTree t ++ showTrees ts
end

def treeText (t : Tree) : String := " ".intercalate (showTree t)

/-! ## named trees (CBOR ops): the same tokens plus `R<n> (.<field> <t>)*n` for struct bodies -/

section Cbor
open SafeNet.WireCbor

mutual
def parseCTree : Nat → List String → Option (CTree × List String)
  | 0, _ => none
  | _, [] => none
  | fuel+1, w :: ws =>
    match headTail w with
    | none => none
    | some (c, rest) =>
      if c = 'N' ∧ rest = "" then some (.unit, ws)
      else if c = 'T' ∧ rest = "" then some (.bool true, ws)
      else if c = 'F' ∧ rest = "" then some (.bool false, ws)
      else if c = 'U' then rest.toNat?.map fun n => (.u n, ws)
      else if c = 'I' then rest.toNat?.map fun n => (.i n, ws)
      else if c = 'S' then (unhex rest).map fun b => (.str b, ws)
      else if c = 'B' then (unhex rest).map fun b => (.bytes b, ws)
      else if c = 'O' ∧ rest = "" then some (.none, ws)
      else if c = 'J' ∧ rest = "" then (parseCTree fuel ws).map fun (t, r) => (.some t, r)
      else if c = 'Q' then rest.toNat?.bind fun n => (parseCTrees fuel n ws).map fun (ts, r) => (.seq ts, r)
      else if c = 'P' then rest.toNat?.bind fun n => (parseCTrees fuel n ws).map fun (ts, r) => (.tup ts, r)
      else if c = 'R' then rest.toNat?.bind fun n => (parseCFields fuel n ws).map fun (fs, r) => (.record fs, r)
      else if c = 'V' then
        match headTail rest with
        | some (':', name) => some (.uvar (nm name), ws)
        | _ => none
      else if c = 'W' then
        match headTail rest with
        | some (':', name) => (parseCTree fuel ws).map fun (t, r) => (.nvar (nm name) t, r)
        | _ => none
      else none
def parseCTrees : Nat → Nat → List String → Option (List CTree × List String)
  | _, 0, ws => some ([], ws)
  | 0, _, _ => none
  | fuel+1, n+1, ws =>
    match parseCTree fuel ws with
    | none => none
    | some (t, r) => (parseCTrees fuel n r).map fun (ts, r') => (t :: ts, r')
def parseCFields : Nat → Nat → List String → Option (List (List Nat × CTree) × List String)
  | _, 0, ws => some ([], ws)
  | 0, _, _ => none
  | _, _, [] => none
  | fuel+1, n+1, w :: ws =>
    match headTail w with
    | some ('.', name) =>
      match parseCTree fuel ws with
      | none => none
      | some (t, r) => (parseCFields fuel n r).map fun (fs, r') => ((nm name, t) :: fs, r')
    | _ => none
end

mutual
def showCTree : CTree → List String
  | .unit => ["N"]
  | .bool b => [if b then "T" else "F"]
  | .u n => [s!"U{n}"]
  | .i m => [s!"I{m}"]
  | .str s => ["S" ++ hex s]
  | .bytes s => ["B" ++ hex s]
  | .none => ["O"]
  | .some t => "J" :: showCTree t
  | .seq ts => s!"Q{ts.length}" :: showCTrees ts
  | .tup ts => s!"P{ts.length}" :: showCTrees ts
  | .record fs => s!"R{fs.length}" :: showCFields fs
  | .uvar n => ["V:" ++ nameStr n]
  | .nvar n t => ("W:" ++ nameStr n) :: showCTree t
def showCTrees : List CTree → List String
  | [] => []
  | t :: ts => showCTree t ++ showCTrees ts
def showCFields : List (List Nat × CTree) → List String
  | [] => []
  | (k, t) :: fs => ("." ++ nameStr k) :: (showCTree t ++ showCFields fs)
end

def ctreeText (t : CTree) : String := " ".intercalate (showCTree t)

def isPrefixC : List Nat → List Nat → Bool
  | [], _ => true
  | _, [] => false
  | a :: as, b :: bs => a == b && isPrefixC as bs

/-- canonical acceptance of a message: the codec's reader takes a value of the type from the front, and writing that value
again gives a prefix of the input (`exact`: the whole input — golden vectors) -/
def decodeAsC (ty : String) (bs : List Nat) (exact : Bool) : Option CTree := do
  let (_, rd) ← cschemaOf ty
  let (t, _) ← readMsg rd bs
  let re := writeMsg t
  if (if exact then re == bs else isPrefixC re bs) then some t else none

end Cbor

/-- the header type is the one-field struct whose field must be a known tag -/
def extraOk (ty : String) (t : Tree) : Bool :=
  if ty = "RecordHeader" then
    match t with
    | .tup [.u n] => (tagKind n).isSome
    | _ => false
  else true

def isPrefix : List Nat → List Nat → Bool
  | [], _ => true
  | _, [] => false
  | a :: as, b :: bs => a == b && isPrefix as bs

/-- canonical acceptance: decodes, reads as the type, and re-encodes to a prefix of the input -/
def decodeAs (ty : String) (bs : List Nat) : Option Tree := do
  let s ← schemaOf ty
  let (v, _) ← decode bs
  let t ← ofVal s v
  if extraOk ty t && isPrefix (encode (toVal t)) bs then some t else none

def rle (xs : List String) : String :=
  let rec go : List String → Option (String × Nat) → List String → List String
    | [], none, acc => acc.reverse
    | [], some (s, n), acc => (s!"{s}*{n}" :: acc).reverse
    | x :: rest, none, acc => go rest (some (x, 1)) acc
    | x :: rest, some (s, n), acc => if x = s then go rest (some (s, n + 1)) acc else go rest (some (x, 1)) (s!"{s}*{n}" :: acc)
  ",".intercalate (go xs none [])

def hex2 (n : Nat) : String := String.ofList [hexDigit (n / 16), hexDigit (n % 16)]

/-- stand-in for the content hash in the driver (the theorems are stated for every `H`) -/
def standInHash (s : List Nat) : List Nat := 1 :: s.length :: s

/-! ## audit families (`harness/hlight/src/bin/wire/fam.rs`) -/

/-- the cut positions of the truncation families (the harness computes the same list) -/
def cuts (n : Nat) : List Nat :=
  (List.range (min n 64) ++ (List.range 24).map (fun i => i * n / 24) ++ [n - 1, n - 2, n - 3]).filter (· < n)

/-- raw acceptance by the MessagePack model reader: the input starts with a value of the type -/
def rawAccepts (ty : String) (bs : List Nat) : Bool :=
  match schemaOf ty with
  | none => false
  | some s =>
    match decode bs with
    | none => false
    | some (v, _) =>
      match ofVal s v with
      | some t => extraOk ty t
      | none => false

def rawAcceptsC (ty : String) (bs : List Nat) : Bool :=
  match SafeNet.WireCbor.cschemaOf ty with
  | none => false
  | some (_, rd) => (SafeNet.WireCbor.readMsg rd bs).isSome

def verdicts (n : Nat) (f : Nat → String) : String :=
  let items := (cuts n).map f
  if items.isEmpty then "none" else rle items

def fnvStep (h : UInt64) (b : Nat) : UInt64 := (h ^^^ b.toUInt64) * 0x100000001b3
def fnvList (h : UInt64) (bs : List Nat) : UInt64 := bs.foldl fnvStep h
/-- `n` times the same byte, without building the list (`fnvList h (List.replicate n b)`, unfolded) -/
def fnvRepeat : Nat → UInt64 → Nat → UInt64
  | 0, h, _ => h
  | n+1, h, b => fnvRepeat n (fnvStep h b) b
def fnvInit : UInt64 := 0xcbf29ce484222325
def hex16 (h : UInt64) : String :=
  String.ofList ((List.range 16).map fun i => hexDigit ((h.toNat / 16 ^ (15 - i)) % 16))

/-- a one-way line: under witness `a` (the implementation accepted) the model's own verdict, which must then be the same value;
under `r` (the implementation refused: a leaf the model keeps opaque may be invalid) `reject` -/
def oneWay (w : String) (mine : String) : Option String :=
  if w = "a" then some mine else if w = "r" then some "reject" else none

def step (_ : Unit) (ws : List String) : Unit × String :=
  let r : Option String :=
    match ws with
    | ["hdr", k] => (kindOf k).map fun k => hex (headerBytes k)
    | ["hdrdec", h] => (unhex h).map fun bs =>
        match fromRecord bs with
        | some k => s!"ok {kindName k}"
        | none => "err"
    | ["reghex", h] => (unhex h).map fun text => if registerHexShapeOk text then "ok" else "err"
    | ["ischunk", h] => (unhex h).map fun bs =>
        match isChunk bs with
        | some b => s!"ok {b}"
        | none => "err"
    | ["ischunksweep", b0] => do
      let b0 ← match unhex b0 with | some [b] => some b | _ => none
      let rows := (List.range 256).filterMap fun b1 =>
        let row := (List.range 256).map fun b2 =>
          match isChunk [b0, b1, b2, 0xc1] with
          | some true => "t"
          | some false => "f"
          | none => "-"
        if row.any (· ≠ "-") then some s!"{hex2 b1}:{rle row}" else none
      some (if rows.isEmpty then "none" else " ".intercalate rows)
    | ["hdrtry", h] => (unhex h).map fun bs =>
        match headerTryDeserialize bs with
        | some k => s!"ok {kindName k}"
        | none => "err"
    | ["hdrtrysweep2"] =>
      let rows := (List.range 256).filterMap fun b0 =>
        let row := (List.range 256).map fun b1 =>
          match headerTryDeserialize [b0, b1] with
          | some k => kindName k
          | none => "-"
        if row.any (· ≠ "-") then some s!"{hex2 b0}:{rle row}" else none
      some (if rows.isEmpty then "none" else " ".intercalate rows)
    | ["hdrsweep", b0] => do
      let b0 ← match unhex b0 with | some [b] => some b | _ => none
      let rows := (List.range 256).filterMap fun b1 =>
        let row := (List.range 256).map fun b2 =>
          match fromRecord [b0, b1, b2, 0xc1] with
          | some k => kindName k
          | none => "-"
        if row.any (· ≠ "-") then some s!"{hex2 b1}:{rle row}" else none
      some (if rows.isEmpty then "none" else " ".intercalate rows)
    | "enc" :: ty :: rest => do
      let s ← schemaOf ty
      let (t, _) ← parseTree (2 * rest.length + 4) rest
      some (if conforms s t && extraOk ty t then hex (encode (toVal t)) else "schema-mismatch")
    | "rec" :: k :: ty :: rest => do
      let k ← kindOf k
      let s ← schemaOf ty
      let (t, _) ← parseTree (2 * rest.length + 4) rest
      some (if conforms s t then hex (trySerializeRecord (toVal t) k) else "schema-mismatch")
    -- a value the serialiser refuses: an error, and (the model being a pure function of its input) no effect on later encodes
    | ["recfail", k, n] => do
      let _ ← kindOf k
      let _ ← n.toNat?
      some "err"
    | ["dec", ty, h] => do
      let bs ← unhex h
      some (match decodeAs ty bs with
        | some t => s!"ok {treeText t}"
        | none => "reject")
    | ["recdec", ty, h] => do
      let bs ← unhex h
      match fromRecord bs with
      | none => some "hdr-err"
      | some k =>
        some (if bs.length > headerSize then
          match decodeAs ty (bs.drop headerSize) with
          | some t => s!"{kindName k} ok {treeText t}"
          | none => s!"{kindName k} reject"
        else s!"{kindName k} reject")
    | "cenc" :: ty :: rest => do
      let (wr, _) ← SafeNet.WireCbor.cschemaOf ty
      let (t, _) ← parseCTree (2 * rest.length + 4) rest
      some (if SafeNet.WireCbor.conformsC wr t then hex (SafeNet.WireCbor.writeMsg t) else "schema-mismatch")
    | ["cdec", ty, h] => do
      let bs ← unhex h
      let _ ← SafeNet.WireCbor.cschemaOf ty
      some (match decodeAsC ty bs false with
        | some t => s!"ok {ctreeText t}"
        | none => "reject")
    | ["cgold", ty, h] => do
      let bs ← unhex h
      let _ ← SafeNet.WireCbor.cschemaOf ty
      some (match decodeAsC ty bs true with
        | some t => s!"ok {ctreeText t}"
        | none => "reject")
    | "decx" :: ty :: h :: w :: _ => do
      let bs ← unhex h
      oneWay w (match decodeAs ty bs with
        | some t => s!"ok {treeText t}"
        | none => "reject")
    | "recdecx" :: ty :: h :: w :: _ => do
      let bs ← unhex h
      match fromRecord bs with
      | none => some "hdr-err"
      | some k =>
        if w = "a" then
          some (if bs.length > headerSize then
            match decodeAs ty (bs.drop headerSize) with
            | some t => s!"{kindName k} ok {treeText t}"
            | none => s!"{kindName k} reject"
          else s!"{kindName k} reject")
        else if w = "r" then some s!"{kindName k} reject" else none
    | "cdecx" :: ty :: h :: w :: _ => do
      let bs ← unhex h
      let _ ← SafeNet.WireCbor.cschemaOf ty
      oneWay w (match decodeAsC ty bs false with
        | some t => s!"ok {ctreeText t}"
        | none => "reject")
    | ["dectrunc", ty, h] => do
      let bs ← unhex h
      let _ ← schemaOf ty
      some (verdicts bs.length fun k => if rawAccepts ty (bs.take k) then "a" else "r")
    | ["cdectrunc", ty, h] => do
      let bs ← unhex h
      let _ ← SafeNet.WireCbor.cschemaOf ty
      some (verdicts bs.length fun k => if rawAcceptsC ty (bs.take k) then "a" else "r")
    | ["recdectrunc", ty, h] => do
      let bs ← unhex h
      let _ ← schemaOf ty
      some (verdicts bs.length fun k =>
        let c := bs.take k
        let body := c.length > headerSize && rawAccepts ty (c.drop headerSize)
        match (fromRecord c).isSome, body with
        | true, true => "a"
        | true, false => "r"
        | false, false => "h"
        | false, true => "b")
    -- the worst-case honest Replicate of n records: the model's writer is run on it (length and a hash of every byte are
    -- compared with the real codec's), the read verdict is `honest_replicate_fits_iff` / `oversize_message_rejected`
    | ["crepl", n, b] => do
      let n ← n.toNat?
      let b ← match unhex b with | some [b] => some b | _ => none
      if n > 25165824 then none else
      let bytes := SafeNet.WireCbor.writeMsg (SafeNet.WireCbor.fillReplicate n b)
      let len := bytes.length
      if len != SafeNet.WireCbor.replicateRequestSize n b then some "closed-form-differs" else
      some s!"len={len} fnv={hex16 (fnvList fnvInit bytes)} read={if len ≤ SafeNet.WireCbor.requestCap then "ok" else "err"}"
    | ["crepl", n, b, c] => do
      let n ← n.toNat?; let c ← c.toNat?
      let b ← match unhex b with | some [b] => some b | _ => none
      if n > 25165824 || c > 25165824 then none else
      let bytes := SafeNet.WireCbor.writeMsg (SafeNet.WireCbor.mixedReplicate c n b)
      let len := bytes.length
      if len != SafeNet.WireCbor.mixedRequestSize c n b then some "closed-form-differs" else
      some s!"len={len} fnv={hex16 (fnvList fnvInit bytes)} read={if len ≤ SafeNet.WireCbor.requestCap then "ok" else "err"}"
    -- a response with an n-byte payload: prefix and payload header from the model's writer (`fill_response_bytes`), the
    -- payload hashed without building it; the read verdict is `response_cap_boundary`
    | ["cresp", n, b] => do
      let n ← n.toNat?
      let b ← match unhex b with | some [b] => some b | _ => none
      if n > 25165824 then none else
      let front := SafeNet.WireCbor.responsePrefix ++ SafeNet.Cbor.encodeArg 2 n
      let len := front.length + n
      if len != SafeNet.WireCbor.fillResponseSize n then some "closed-form-differs" else
      some s!"len={len} fnv={hex16 (fnvRepeat n (fnvList fnvInit front) b)} read={if len ≤ SafeNet.WireCbor.responseCap then "ok" else "err"}"
    | ["pchunk", a, v] => do
      let a ← unhex a
      let v ← unhex v
      let forged : Chunk := { address := a, value := v }
      let proof : Tree := .tup [.seq []]
      let bytes := trySerializeRecord (.arr [toVal proof, forged.toVal]) .ChunkWithPayment
      let (_, back) ← (tryDeserializeRecord bytes).bind (paidChunkOfVal (ofVal proofOfPayment) SafeNet.Sha3.hashBytes)
      some ((if back.address == SafeNet.Sha3.hashBytes v && back.value == v then "recomputed " else "kept ") ++ hex back.address)
    | ["chunk", a, v] => do
      let a ← unhex a
      let v ← unhex v
      let forged : Chunk := { address := a, value := v }
      let bytes := trySerializeRecord forged.toVal .Chunk
      -- the content hash is SHA3-256 itself (`Base/Sha3`, what `XorName::from_content` computes): the line shows the
      -- address of the decoded chunk, which the real decoder must reproduce byte for byte
      let back ← (tryDeserializeRecord bytes).bind (Chunk.ofVal SafeNet.Sha3.hashBytes)
      some ((if back.address == SafeNet.Sha3.hashBytes v && back.value == v then "recomputed " else "kept ") ++ hex back.address)
    | _ => none
  ((), r.getD "bad-op")

/-- Model search (used only when a proof obligation broke): headers whose bytes are not the fixed
`[0x91, tag]` assignment, or that do not decode back to their kind. -/
def searchCandidates : List String :=
  let fixed : List (String × Nat) :=
    [("ChunkWithPayment", 0), ("Chunk", 1), ("Transaction", 2), ("Register", 3), ("RegisterWithPayment", 4),
     ("Scratchpad", 5), ("ScratchpadWithPayment", 6), ("TransactionWithPayment", 7)]
  let bad := RecordKind.all.filter fun k =>
    let want := fixed.find? (·.1 == kindName k)
    match want with
    | some (_, tag) => headerBytes k != [0x91, tag] || fromRecord (headerBytes k ++ [0xc0]) != some k
    | none => true
  bad.map (fun k => s!"hdr {kindName k}") ++
    -- the chunk test must err exactly when the header decoder errs and be true exactly for the chunk tag
    ([[0x91, 8, 0], [0x91, 1, 0], [0x91, 0, 0], [0x00, 0x00, 0x00], [0x91, 1], [0x91, 0xcc, 1], [0x92, 1, 1]].filterMap fun bs =>
      if isChunk bs != (fromRecord bs).map (· == .Chunk) then some s!"ischunk {hex bs}" else none) ++
    (if (Chunk.ofVal standInHash (.bin [1, 2, 3])).map (·.address) != some (standInHash [1, 2, 3]) then
      ["chunk 0000000000000000000000000000000000000000000000000000000000000000 010203"] else []) ++
    -- messages: if the regenerated writer and reader of `PrettyPrintRecordKey` disagree (or are no longer today's kind), the
    -- messages that carry one, in the form the current writer produces; the harness oracle round-trips them on the real code
    (if SafeNet.Gen.WireCodec.ppkSerKind != SafeNet.Gen.WireCodec.ppkDeKind ||
        SafeNet.Gen.WireCodec.ppkSerKind != SafeNet.Gen.WireCodec.SerdeKind.seq then
      let key := match SafeNet.Gen.WireCodec.ppkSerKind with
        | .seq => "Q3 U1 U24 U255"
        | .bytes => "B0118ff"
      [s!"cenc Response W:Query W:GetStoreQuote R3 .quote W:Err W:RecordExists {key} .peer_address W:RecordKey B .storage_proofs Q0",
       s!"cenc Response W:Cmd W:Replicate W:Err W:RecordExists {key}",
       s!"cenc ProtocolError W:RecordExists {key}"]
    else [])

end SafeNet.Driver.Wire
