import SafeNet.Driver.Util
import SafeNet.Base.Sha256
import SafeNet.Model.Fetcher
/-! Line-protocol driver for the replication-fetcher model (C08). See `harness/hnet/src/bin/fetcher.rs`. -/
namespace SafeNet.Driver.Fetcher
open SafeNet.Fetcher

structure DState where
  dists : List (Nat × Nat) := []
  locals : List (Nat × Nat) := []
  st : State := {}

def distOf (d : DState) (k : Nat) : Nat := (d.dists.lookup k).getD 0

def splitList (s : String) : List String := if s = "-" then [] else s.splitOn ","

def parsePair (s : String) : Option (Nat × Nat) :=
  match s.splitOn ":" with
  | [a, b] => match a.toNat?, b.toNat? with
    | some x, some y => some (x, y)
    | _, _ => none
  | _ => none

/-- `h:k:t` -/
def parseChoice (s : String) : Option Entry :=
  match s.splitOn ":" with
  | [a, b, c] => match a.toNat?, b.toNat?, c.toNat? with
    | some h, some k, some t => some ⟨k, t, h, 0⟩
    | _, _, _ => none
  | _ => none

def leEntry (a b : Entry) : Bool :=
  a.key < b.key || (a.key == b.key && (a.ty < b.ty || (a.ty == b.ty && a.holder ≤ b.holder)))

def insertSorted (le : α → α → Bool) (x : α) : List α → List α
  | [] => [x]
  | y :: ys => if le x y then x :: y :: ys else y :: insertSorted le x ys

def sortBy (le : α → α → Bool) (l : List α) : List α := l.foldr (insertSorted le) []

def joinOr (l : List String) : String := if l.isEmpty then "-" else ",".intercalate l

def showRem (now : Nat) (e : Entry) : String :=
  if now ≤ e.deadline then toString (e.deadline - now) else "-" ++ toString (now - e.deadline)

def showQueue (now : Nat) (l : List Entry) : String :=
  joinOr ((sortBy leEntry l).map fun e => s!"{e.key}:{e.ty}:{e.holder}:{showRem now e}")

def showOpt : Option Nat → String
  | some n => toString n
  | none => "none"

def dedup (l : List Nat) : List Nat :=
  l.foldl (fun acc x => if acc.contains x then acc else acc ++ [x]) []

def render (s : State) (o : Out) : String :=
  let ret := joinOr (o.ret.map fun e => s!"{e.holder}:{e.key}:{e.ty}")
  let fail := joinOr ((sortBy (fun a b => decide (a ≤ b)) (dedup o.failed)).map toString)
  (if o.illegal then "illegal-choice " else "") ++
  s!"ret={ret} fail={fail} tbf={showQueue s.now s.tbf} ogf={showQueue s.now s.ogf} range={showOpt s.range} far={showOpt s.farthest}"

def apply (d : DState) (op : Op) : DState × String :=
  let (s', o) := SafeNet.Fetcher.step (distOf d) d.st op
  ({ d with st := s' }, render s' o)

def step (d : DState) (ws : List String) : DState × String :=
  match ws with
  | ["new", _] => ({}, "ok")
  | ["key", k, v] =>
    match k.toNat?, v.toNat? with
    | some k, some v => ({ d with dists := (k, v) :: d.dists.filter (·.1 ≠ k) }, "ok")
    | _, _ => (d, "bad-op")
  | ["key", k, v, ab, sb] =>
    -- the distance with the bytes it is the distance of: it must be the XOR of their SHA-256 digests (`Base/Sha256`)
    match k.toNat?, v.toNat?, unhex ab, unhex sb with
    | some k, some v, some ab, some sb =>
      if v = SafeNet.Sha256.hashNat ab ^^^ SafeNet.Sha256.hashNat sb then
        ({ d with dists := (k, v) :: d.dists.filter (·.1 ≠ k) }, "ok")
      else (d, "dist-mismatch")
    | _, _, _, _ => (d, "bad-op")
  | ["local", k, t] =>
    match k.toNat?, t.toNat? with
    | some k, some t => ({ d with locals := (k, t) :: d.locals.filter (·.1 ≠ k) }, "ok")
    | _, _ => (d, "bad-op")
  | ["unlocal", k] =>
    match k.toNat? with
    | some k => ({ d with locals := d.locals.filter (·.1 ≠ k) }, "ok")
    | none => (d, "bad-op")
  | ["add", h, l, c] =>
    match h.toNat?, (splitList l).mapM parsePair, (splitList c).mapM parseChoice with
    | some h, some inc, some ch => apply d (.add h inc d.locals ch)
    | _, _, _ => (d, "bad-op")
  | ["put", k, t, c] =>
    match k.toNat?, t.toNat?, (splitList c).mapM parseChoice with
    | some k, some t, some ch => apply d (.put k t ch)
    | _, _, _ => (d, "bad-op")
  | ["early", k, t, c] =>
    match k.toNat?, t.toNat?, (splitList c).mapM parseChoice with
    | some k, some t, some ch => apply d (.early k t ch)
    | _, _, _ => (d, "bad-op")
  | ["next", c] =>
    match (splitList c).mapM parseChoice with
    | some ch => apply d (.next ch)
    | none => (d, "bad-op")
  | ["range", r] =>
    match r.toNat? with
    | some r => apply d (.setRange r)
    | none => (d, "bad-op")
  | ["full", "none"] => apply d (.full none)
  | ["full", k] =>
    match k.toNat? with
    | some k => apply d (.full (some k))
    | none => (d, "bad-op")
  | ["age", n] =>
    match n.toNat? with
    | some n => apply d (.age n)
    | none => (d, "bad-op")
  | _ => (d, "bad-op")

end SafeNet.Driver.Fetcher
