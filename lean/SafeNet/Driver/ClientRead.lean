import SafeNet.Driver.Util
import SafeNet.Driver.SelfEnc
import SafeNet.Model.ClientRead
/-!
Driver for the C15 model. Contents of the harness universe as symbolic byte strings:
`g<id>` = `raw id`, `m<k>` = `wrap false k` (data-map chunk of data set k), `e<k>.<i>` = `ech k i`;
data set k itself is `raw (1000 + k)`.
-/
namespace SafeNet.Driver.ClientRead
open SafeNet.Driver SafeNet.Driver.SelfEnc SafeNet.Model.SelfEnc SafeNet.Model.ClientRead

def nSets : Nat := 6

/-- index of the first chunk of data set `k` with the same bytes as chunk `i` (sets 3, 4: three identical chunks) — mirrors `CHUNK_CLASSES` of the harness, which asserts it against the real output -/
def chunkClass (k i : Nat) : Nat :=
  if k = 3 ∨ k = 4 then 0 else i
def nGen : Nat := 4

def env : Env where
  rawLen _ := 100
  nOf d := if d < nSets then some 3 else none
  wOf _ := 300
  levelOf _ := none
  srcOf d := if d < nSets then some (.raw (1000 + d)) else none
  chunkOf d i := .ech d (chunkClass d i)

def S : SE Sym Nat := symSE env

/-- record key of the scratchpad of owner `o`: a code no content of the universe has (`raw` ids stay below 2000) -/
def padKey (o : Nat) : Nat := (Sym.raw (1000000 + o)).code

def contents : List Sym :=
  (List.range nGen).map Sym.raw ++
  (List.range nSets).flatMap fun k => Sym.wrap false k :: ((List.range 3).map fun i => Sym.ech k (chunkClass k i)).eraseDups

def dropPrefix (p s : String) : Option String :=
  if p.toList.isPrefixOf s.toList then some (String.ofList (s.toList.drop p.length)) else none

def parseContent (s : String) : Option Sym :=
  match dropPrefix "g" s, dropPrefix "m" s, dropPrefix "e" s with
  | some r, _, _ => r.toNat?.map Sym.raw
  | _, some r, _ => r.toNat?.bind fun k => if k < nSets then some (Sym.wrap false k) else none
  | _, _, some r => match r.splitOn "." with
    | [k, i] => match k.toNat?, i.toNat? with
      | some k, some i => if k < nSets ∧ i < 3 then some (Sym.ech k (chunkClass k i)) else none
      | _, _ => none
    | _ => none
  | _, _, _ => none

def contentName : Sym → String
  | .raw id => s!"g{id}"
  | .wrap false k => s!"m{k}"
  | .ech k i => s!"e{k}.{i}"
  | _ => "?"

def parsePad (s : String) : Option Pad :=
  match dropPrefix "P" s with
  | none => none
  | some r => match r.splitOn "." with
    | [o, c, sg, v] => match o.toNat?, c.toNat?, v.toNat? with
      | some o, some c, some v =>
        if sg = "v" ∨ sg = "n" ∨ sg = "w" ∨ sg = "i" then some { owner := o, ctr := c, valid := sg = "v", ver := v } else none
      | _, _, _ => none
    | [o, c, sg, v, e] => match o.toNat?, c.toNat?, v.toNat?, e.toNat? with
      | some o, some c, some v, some e =>
        -- the content type as delivered; the owner wrote 7
        if sg = "v" ∨ sg = "n" ∨ sg = "w" ∨ sg = "i" then
          some { owner := o, ctr := c, valid := sg = "v", ver := v, enc := e, encOwner := 7 } else none
      | _, _, _, _ => none
    | _ => none

/-- record key of register number `k`: a code no content, no vault has -/
def regKey (k : Nat) : Nat := (Sym.raw (2000000 + k)).code

/-- `R<k>.<v|w>` -/
def parseReg (s : String) : Option Reg :=
  match dropPrefix "R" s with
  | none => none
  | some r => match r.splitOn "." with
    | [k, sg] => match k.toNat? with
      | some k => if k < 3 ∧ (sg = "v" ∨ sg = "w") then some { key := regKey k, valid := sg = "v", id := k } else none
      | none => none
    | _ => none

/-- `T<id>+<id>…` -/
def parseTxs (s : String) : Option (List Nat) :=
  match dropPrefix "T" s with
  | none => none
  | some r =>
    match (r.splitOn "+").mapM (·.toNat?) with
    | some ids => if ids.length ≤ 4 ∧ 0 < ids.length ∧ ids.all (· ≤ 9) then some ids else none
    | none => none

/-- `<hdr>:<body>[@<key>]`: the `@<key>` part says under which `Record.key` the holder filed the reply; neither
`get_record_from_network` (it re-keys what its split handling returns with the *requested* key) nor `chunk_get` /
`get_vault_from_network` read `Record.key`, so the model's `Rec` has no such field and the driver drops it. -/
def parseRec (s : String) : Option (Rec Sym) :=
  match ((s.splitOn "@").headD "").splitOn ":" with
  | [h, b] =>
    let hdr : Option (Option Kind) :=
      if h = "c" then some (some .chunk) else if h = "s" then some (some .scratchpad)
      else if h = "r" then some (some .register) else if h = "t" then some (some .transaction)
      else if h = "o" ∨ h = "p" then some (some .other) else if h = "x" then some none else none
    let body : Option (Body Sym) :=
      if b = "J" then some .junk else if b = "Z" then some .empty
      else match parsePad b, parseReg b, parseTxs b with
        | some p, _, _ => some (.pad p)
        | _, some g, _ => some (.reg g)
        | _, _, some ts => some (.txs ts)
        | _, _, _ => (parseContent b).map Body.chunk
    match hdr, body with
    | some hdr, some body => some ⟨hdr, body⟩
    | _, _ => none
  | _ => none

/-- `<tag>` or `<tag>=<recs>` -/
def parseReply (s : String) : Option (Reply Sym) :=
  match s.splitOn "=" with
  | ["nf"] => some (.err .notFound)
  | ["to"] => some (.err .timeout)
  | ["km"] => some (.err .kindMismatch)
  | ["ok", r] => (parseRec r).map Reply.ok
  | ["nc", r] => (parseRec r).map fun _ => .err .notEnoughCopies
  | ["dn", r] => (parseRec r).map fun _ => .err .doesNotMatch
  | ["sp", rs] => ((rs.splitOn ",").mapM parseRec).bind fun m => if m.length ≤ 6 then some (.err (.split m)) else none
  | _ => none

def vaultErrName : VaultErr → String
  | .invalid => "invalid"
  | .missing => "missing"
  | .network c => c

/-- all permutations -/
def perms {α : Type} : List α → List (List α)
  | [] => [[]]
  | x :: xs => (perms xs).flatMap fun p => (List.range (p.length + 1)).map fun i => p.take i ++ x :: p.drop i

def rotations {α : Type} (l : List α) : List (List α) :=
  (List.range l.length).map fun r => l.drop r ++ l.take r

/-- the iteration orders a `vaultperm` line stands for (same set as the harness's `orders_of`) -/
def ordersOf {α : Type} (l : List α) : List (List α) :=
  if l.length ≤ 3 then perms l else rotations l ++ rotations l.reverse

def insertString (x : String) : List String → List String
  | [] => [x]
  | y :: ys => if x ≤ y then x :: y :: ys else y :: insertString x ys

def sortStrings (xs : List String) : List String := xs.foldr insertString []

def step (_ : Unit) (ws : List String) : Unit × String :=
  match ws with
  | ["chunk", c, r] =>
    match parseContent c, parseReply r with
    | some c, some r =>
      match chunkGet S padKey c.code r with
      | .ok chunk => ((), s!"ok {contentName chunk.value}")
      | .error e => ((), s!"err {getErrName e}")
    | _, _ => ((), "bad-op")
  | ["data", k, o, m, e0, e1, e2] =>
    match k.toNat?, (dropPrefix "o=" o).bind parseCode, (dropPrefix "m=" m).bind parseReply,
          (dropPrefix "e0=" e0).bind parseReply, (dropPrefix "e1=" e1).bind parseReply, (dropPrefix "e2=" e2).bind parseReply with
    | some k, some code, some m, some e0, some e1, some e2 =>
      if k < nSets then
        let replies : Nat → Reply Sym := fun a =>
          if a = (Sym.wrap false k).code then m
          else if a = (env.chunkOf k 0).code then e0
          else if a = (env.chunkOf k 1).code then e1
          else if a = (env.chunkOf k 2).code then e2
          else match contents.find? (fun s => s.code == a) with
            | some s => .ok ⟨some .chunk, .chunk s⟩
            | none => .err .notFound
        match dataGetPublic S padKey replies 4 [code] (Sym.wrap false k).code with
        | .ok (.raw id) => ((), if 1000 ≤ id then s!"ok d{id - 1000}" else "ok ?")
        | .ok _ => ((), "ok ?")
        | .error e => ((), s!"err {getErrName e}")
      else ((), "bad-op")
    | _, _, _, _, _, _ => ((), "bad-op")
  | ["vault", key, r] =>
    match key.toNat?, parseReply r with
    | some key, some r =>
      if key < 3 then
        match getVault padKey key r with
        | .ok p => ((), s!"ok {p.owner}.{p.ctr}.{p.ver} t={contentTypeOf p}")
        | .error e => ((), s!"err {vaultErrName e}")
      else ((), "bad-op")
    | _, _ => ((), "bad-op")
  | ["vaultwrite", key, r] =>
    -- Client::get_or_create_scratchpad: how the write path starts
    match key.toNat?, parseReply r with
    | some key, some r =>
      if key < 3 then
        match getOrCreate padKey key r with
        | .existing p => ((), s!"existing {p.owner}.{p.ctr}.{p.ver} t={contentTypeOf p}")
        | .fresh => ((), "new")
        | .error c => ((), s!"err {c}")
      else ((), "bad-op")
    | _, _ => ((), "bad-op")
  | ["vaultperm", key, r] =>
    match key.toNat?, parseReply r with
    | some key, some (.err (.split m)) =>
      if key < 3 ∧ m.length ≤ 6 ∧ 0 < m.length then
        let outcomes := (ordersOf m).map fun m' =>
          match getVault padKey key (.err (.split m')) with
          | .ok p => s!"ok {p.owner}.{p.ctr}.{p.ver} t={contentTypeOf p}"
          | .error e => s!"err {vaultErrName e}"
        ((), " | ".intercalate (sortStrings outcomes.eraseDups))
      else ((), "bad-op")
    | _, _ => ((), "bad-op")
  | _ => ((), "bad-op")

/-! ## Model search: small-scope enumeration of replies on which the regenerated model breaks the property -/

def padName (p : Pad) (sg : String) : String := s!"P{p.owner}.{p.ctr}.{sg}.{p.ver}"

def searchCandidates : List String :=
  let chunkCands : List String :=
    [("g0", "g0"), ("g0", "g1"), ("m0", "m1")].filterMap fun (want, got) =>
      match parseContent want, parseContent got with
      | some w, some g =>
        match chunkGet S padKey w.code (.ok ⟨some .chunk, .chunk g⟩) with
        | .ok c => if c.value.code ≠ w.code then some s!"chunk {want} ok=c:{got}" else none
        | .error _ => none
      | _, _ => none
  -- the same substitutions as another chunk's genuine record, filed under that chunk's own key
  let chunkCands := chunkCands ++ chunkCands.map (· ++ "@own")
  let dataCands : List String :=
    -- a substituted data map / a substituted chunk
    let mk (m e1 : String) := s!"data 0 o=0.0.0 m=ok=c:{m} e0=ok=c:e0.0 e1=ok=c:{e1} e2=ok=c:e0.2"
    [mk "m1" "e0.1", mk "m0" "e1.1", mk "m1@own" "e0.1", mk "m0" "e1.1@own"].filter fun line =>
      match step () (words line) with
      | (_, out) => out ≠ "ok d0" ∧ (dropPrefix "ok" out).isSome
  let pads : List (Pad × String) :=
    [({ owner := 0, ctr := 3, valid := true, ver := 0 }, "v"), ({ owner := 1, ctr := 9, valid := true, ver := 1 }, "v"),
     ({ owner := 0, ctr := 9, valid := false, ver := 1 }, "n"), ({ owner := 0, ctr := 4, valid := true, ver := 1 }, "v")]
  -- an unauthentic or outdated version returned, or an error although an authentic version was received
  let bad (reply : Reply Sym) (valids : List Pad) : Bool :=
    match getVault (B := Sym) padKey 0 reply with
    | .ok p => !(p.owner == 0 && p.valid) || valids.any (fun q => q.ctr > p.ctr)
    | .error _ => !valids.isEmpty
  let auth (l : List (Pad × String)) : List Pad := (l.map (·.1)).filter fun p => p.owner == 0 && p.valid
  let single : List String := pads.filterMap fun (p, sg) =>
    if bad (.ok ⟨some .scratchpad, .pad p⟩) (auth [(p, sg)]) then some s!"vault 0 ok=s:{padName p sg}" else none
  let single := single ++ single.map (· ++ "@own")
  let pairs : List String := pads.flatMap fun (p, sp) => pads.filterMap fun (q, sq) =>
    if p = q then none else
    let m : List (Rec Sym) := [⟨some .scratchpad, .pad p⟩, ⟨some .scratchpad, .pad q⟩]
    let m' : List (Rec Sym) := ⟨some .chunk, .junk⟩ :: m
    if bad (.err (.split m)) (auth [(p, sp), (q, sq)]) then some s!"vault 0 sp=s:{padName p sp},s:{padName q sq}"
    else if bad (.err (.split m')) (auth [(p, sp), (q, sq)]) then some s!"vault 0 sp=c:J,s:{padName p sp},s:{padName q sq}"
    else none
  chunkCands ++ dataCands ++ single ++ pairs

end SafeNet.Driver.ClientRead
