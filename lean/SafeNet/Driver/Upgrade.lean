import SafeNet.Driver.Util
import SafeNet.Model.Upgrade
/-!
Line protocol of `drv_upgrade` (inputs only):
  `cfg  k=v k=v …`     → install and upgrade argument lists and settings of the model
  `accept k=v k=v …`   → verdict of the clap-subset parser on both argument lists
Keys are dotted source expressions of `add_node` (`options.home_network`, `metrics_free_port`, …) and
`@provided` / `@prev` (environment given to `antctl upgrade` / registry-wide environment before the add),
`@listen` (port reported by the started node before the upgrade).
Values: `T` `F` booleans, `-` none, `s:<word>` some, `l:<w>,<w>` list (`l:` empty), `e:<Variant>` EVM network.
-/
namespace SafeNet.Driver.Upgrade
open SafeNet.ArgTable SafeNet.Upgrade

def parseVal (v : String) : Option Val :=
  if v = "T" then some (.bool true)
  else if v = "F" then some (.bool false)
  else if v = "-" then some (.opt none)
  else if v.startsWith "s:" then some (.opt (some (v.drop 2).toString))
  else if v.startsWith "l:" then
    let r := (v.drop 2).toString
    some (.list (if r = "" then [] else r.splitOn ","))
  else if v.startsWith "e:" then some (.evm (v.drop 2).toString)
  else none

def parseKV (w : String) : Option (String × Val) :=
  match w.splitOn "=" with
  | k :: rest@(_ :: _) => (parseVal ("=".intercalate rest)).map fun v => (k, v)
  | _ => none

def valuationOf (kvs : List (String × Val)) : Valuation :=
  fun p => match kvs.lookup (".".intercalate p) with | some v => v | none => .opt none

def optOf (kvs : List (String × Val)) (k : String) : Option String :=
  match kvs.lookup k with | some (.opt o) => o | _ => none

def showVal : Val → String
  | .opt none => "-"
  | v => asWord Gen.Upgrade.evmDisplay v

def showSettings (xs : List (String × Val)) : String :=
  " ".intercalate ((xs.filter fun kv => kv.1 ≠ "contents" ∧ kv.1 ≠ "working_directory").map fun kv => kv.1 ++ "=" ++ showVal kv.2)

def errClass : PErr → String
  | .unknown _ => "unknown" | .arity _ => "unknown" | .duplicate _ => "duplicate" | .positional => "unknown"
  | .unknownSubcommand _ => "unknown" | .missing _ => "missing" | .conflict _ _ => "conflict" | .requiredIf _ => "missing"

def verdict (items : List Item) : String :=
  match parseArgs items with
  | .ok _ => "ok"
  | .error e => "err:" ++ errClass e

def setup (ws : List String) : Option (Valuation × Valuation) :=
  match ws.mapM parseKV with
  | none => none
  | some kvs =>
    let σ := withEnv (valuationOf kvs) (optOf kvs "@provided") (optOf kvs "@prev")
    some (σ, afterStart (recordOf σ) (optOf kvs "@listen"))

def step (_ : Unit) (ws : List String) : Unit × String :=
  match ws with
  | "cfg" :: rest =>
    match setup rest with
    | none => ((), "bad-op")
    | some (σ, data) =>
      ((), "I: " ++ " ".intercalate (argv (buildInstall σ)) ++ " | " ++ showSettings (installSettings σ) ++
           " || U: " ++ " ".intercalate (argv (buildUpgrade data)) ++ " | " ++ showSettings (upgradeSettings data))
  | "accept" :: rest =>
    match setup rest with
    | none => ((), "bad-op")
    | some (σ, data) => ((), "I:" ++ verdict (buildInstall σ) ++ " U:" ++ verdict (buildUpgrade data))
  | _ => ((), "bad-op")

/-- Model search (only used when a proof obligation broke): option records on which the regenerated
model's upgrade definition differs from the install definition, or which the clap-subset parser rejects.
One record per option switched on alone, on top of the mandatory settings. -/
def base : List String :=
  ["service_name=s:antnode1", "service_data_dir_path=s:$R/data/antnode1", "service_log_dir_path=s:$R/log/antnode1",
   "service_antnode_path=s:$R/data/antnode1/antnode", "rpc_socket_addr=s:127.0.0.1:12001", "node_number=s:1",
   "options.rewards_address=s:0x03B770D9cD32077cC0bF330c13C114a87643B124", "options.version=s:0.1.0",
   "options.user_mode=F"]

def singles : List (List String) := [
  ["options.evm_network=e:ArbitrumOne"],
  ["options.evm_network=e:ArbitrumOne", "options.auto_restart=T"],
  ["options.evm_network=e:ArbitrumOne", "options.env_variables=s:ANT_LOG=all"],
  ["options.evm_network=e:ArbitrumOne", "options.user=s:root"],
  ["options.evm_network=e:ArbitrumOne", "options.home_network=T"],
  ["options.evm_network=e:ArbitrumOne", "options.upnp=T"],
  ["options.evm_network=e:ArbitrumOne", "options.log_format=s:json"],
  ["options.evm_network=e:ArbitrumOne", "options.network_id=s:7"],
  ["options.evm_network=e:ArbitrumOne", "options.node_ip=s:10.0.0.7"],
  ["options.evm_network=e:ArbitrumOne", "node_port=s:13001"],
  ["options.evm_network=e:ArbitrumOne", "metrics_free_port=s:14001"],
  ["options.evm_network=e:ArbitrumOne", "owner=s:discord_user"],
  ["options.evm_network=e:ArbitrumOne", "options.max_archived_log_files=s:5"],
  ["options.evm_network=e:ArbitrumOne", "options.max_log_files=s:9"],
  ["options.evm_network=e:ArbitrumOne", "options.peers_args.first=T"],
  ["options.evm_network=e:ArbitrumOne", "options.peers_args.local=T"],
  ["options.evm_network=e:ArbitrumOne", "options.peers_args.addrs=l:/ip4/10.0.0.1/udp/1200/quic-v1/p2p/12D3KooWRi6wF7yxWLuPSNskXc6kQ5cJ6eaymeMbCRdTnMesPgFx"],
  ["options.evm_network=e:ArbitrumOne", "options.peers_args.network_contacts_url=l:http://localhost:8080/contacts"],
  ["options.evm_network=e:ArbitrumOne", "options.peers_args.disable_mainnet_contacts=T"],
  ["options.evm_network=e:ArbitrumOne", "options.peers_args.ignore_cache=T"],
  ["options.evm_network=e:ArbitrumOne", "options.peers_args.bootstrap_cache_dir=s:$R/cache"],
  ["options.evm_network=e:ArbitrumSepolia"],
  ["options.evm_network=e:Custom", "options.evm_network.rpc_url_http=s:http://localhost:8545/",
   "options.evm_network.payment_token_address=s:0x5FbDB2315678afecb367f032d93F642f64180aa3",
   "options.evm_network.data_payments_address=s:0x8464135c8F25Da09e49BC8782676a84730C318bC"]]

def differs (ws : List String) : Bool :=
  match setup ws with
  | none => false
  | some (σ, data) =>
    let i := buildInstall σ
    let u := buildUpgrade data
    !(i.all u.contains && u.all i.contains && i.length == u.length) ||
    (installSettings σ != upgradeSettings data) ||
    verdict i != "ok" || verdict u != "ok"

def searchCandidates : List String :=
  (singles.filter fun s => differs (base ++ s)).flatMap fun s =>
    [" ".intercalate ("cfg" :: base ++ s), " ".intercalate ("accept" :: base ++ s)]

end SafeNet.Driver.Upgrade
