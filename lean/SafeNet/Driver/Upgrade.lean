import SafeNet.Driver.Util
import SafeNet.Model.Upgrade
import SafeNet.Model.UnitFile
/-!
Line protocol of `drv_upgrade` (inputs only):
  `cfg  k=v k=v …`     → install and upgrade argument lists and settings of the model
  `accept k=v k=v …`   → verdict of clap's tokeniser + the clap-subset parser on the STRINGS of both argument lists
  `unitprobe k=v …`    → what systemd starts for both definitions as the shipped backend renders them (`ok`/`rej`/
                          `exp`/`prog`), plus owner and home-network switch as antnode reads the install unit
  `lexprobe k=v …`     → the same, coarse (`ok`/`rej`), plus what the install strings were tokenised to:
                          number of peers / contact URLs, the owner (values that are not lex-safe)
Keys are dotted source expressions of `add_node` (`options.home_network`, `metrics_free_port`, …) and
`@provided` / `@prev` (environment given to `antctl upgrade` / registry-wide environment before the add),
`@listen` (port reported by the started node before the upgrade).
`@count` / `@fail` / `key#i`: an add of several services, one of which fails (see `failOf`); `@case`: see `caseTable`.
Values: `T` `F` booleans, `-` none, `s:<word>` some, `l:<w>,<w>` list (`l:` empty), `e:<Variant>` EVM network.
-/
namespace SafeNet.Driver.Upgrade
open SafeNet.ArgTable SafeNet.Upgrade SafeNet.UnitFile

/-- words are written with ` ` as `%20` and `%` as `%25`; a `,` inside a list element as `%2C` -/
def unesc (s : String) : String := ((s.replace "%20" " ").replace "%2C" ",").replace "%25" "%"
def esc (s : String) : String := (s.replace "%" "%25").replace " " "%20"

/-- `@case=l:Ü:ü,Ç:ç`: the non-ASCII capitals occurring in the line with their lower-case forms
(computed by the harness with Rust's `char::to_lowercase`; the model only needs to know which
characters the two foldings treat differently). -/
def caseTable (raw : List (String × String)) : List (String × String) :=
  match raw.lookup "@case" with
  | some v =>
    if v.startsWith "l:" then
      ((v.drop 2).toString.splitOn ",").filterMap fun pr =>
        match pr.splitOn ":" with
        | [u, l] => some (unesc u, unesc l)
        | _ => none
    else []
  | none => []

def classify (tbl : List (String × String)) (s : String) : AStr :=
  s.toList.map fun c =>
    let cs := String.singleton c
    if 'A' ≤ c ∧ c ≤ 'Z' then .asciiUp cs (String.singleton (Char.ofNat (c.toNat + 32)))
    else match tbl.lookup cs with
      | some l => .uniUp cs l
      | none => .plain cs

def parseVal (tbl : List (String × String)) (v : String) : Option Val :=
  if v = "T" then some (.bool true)
  else if v = "F" then some (.bool false)
  else if v = "-" then some (.opt none)
  else if v.startsWith "s:" then some (.opt (some (classify tbl (unesc (v.drop 2).toString))))
  else if v.startsWith "l:" then
    let r := (v.drop 2).toString
    some (.list (if r = "" then [] else (r.splitOn ",").map fun x => classify tbl (unesc x)))
  else if v.startsWith "e:" then some (.evm (v.drop 2).toString)
  else none

def splitKV (w : String) : Option (String × String) :=
  match w.splitOn "=" with
  | k :: rest@(_ :: _) => some (k, "=".intercalate rest)
  | _ => none

/-- valuation of service `i` of the add: `key#i` overrides `key` -/
def valuationOf (tbl : List (String × String)) (raw : List (String × String)) (i : Nat) : Valuation :=
  fun p =>
    let k := ".".intercalate p
    let v := match raw.lookup (k ++ "#" ++ toString i) with
      | some v => some v
      | none => raw.lookup k
    match v.bind (parseVal tbl) with | some v => v | none => .opt none

def optOf (tbl : List (String × String)) (raw : List (String × String)) (k : String) : Option AStr :=
  match (raw.lookup k).bind (parseVal tbl) with | some (.opt o) => o | _ => none

def natOf (raw : List (String × String)) (k : String) : Option Nat :=
  match raw.lookup k with
  | some v => if v.startsWith "s:" then (v.drop 2).toString.toNat? else none
  | none => none

def showVal : Val → String
  | .opt none => "-"
  | v => esc (asWord Gen.Upgrade.evmDisplay v)

def showSettings (xs : List (String × Val)) : String :=
  " ".intercalate ((xs.filter fun kv => kv.1 ≠ "contents" ∧ kv.1 ≠ "working_directory").map fun kv => kv.1 ++ "=" ++ showVal kv.2)

def showArgs (items : List Item) : String := " ".intercalate ((argv items).map esc)

def errClass : PErr → String
  | .unknown _ => "unknown" | .arity _ => "unknown" | .duplicate _ => "duplicate" | .positional => "unknown"
  | .unknownSubcommand _ => "unknown" | .missing _ => "missing" | .conflict _ _ => "conflict" | .requiredIf _ => "missing"
  | .untokenisable => "unknown"

/-- antnode's verdict on the strings of an argument list (tokenise as clap does, then parse) -/
def verdict (items : List Item) : String :=
  match parseArgStrings (argv items) with
  | .ok _ => "ok"
  | .error e => "err:" ++ errClass e

def coarse (items : List Item) : String :=
  match parseArgStrings (argv items) with
  | .ok _ => "ok"
  | .error _ => "rej"

def countOf : PVal → String
  | .absent => "0"
  | .many l => toString l.length
  | _ => "1"

/-- what the strings of an argument list were tokenised and parsed to (the part the probes vary) -/
def probeDetails (items : List Item) : String :=
  match parseArgStrings (argv items) with
  | .ok p =>
    "peers=" ++ countOf (p.top "addrs") ++ " urls=" ++ countOf (p.top "network_contacts_url") ++ " owner=" ++
      (match p.top "owner" with | .one s => esc s | _ => "-")
  | .error _ => "peers=- urls=- owner=-"

/-- `@fail=s:install:K` (the K-th install is refused; the loop goes on) / `@fail=s:port:K` (the port lookup
for the K-th service fails; `?` returns at once) -/
def failOf (raw : List (String × String)) : Option (String × Nat) :=
  match raw.lookup "@fail" with
  | some v =>
    match (v.drop 2).toString.splitOn ":" with
    | [kind, k] => k.toNat?.map fun n => (kind, n)
    | _ => none
  | none => none

def outcomeOf (raw : List (String × String)) : AddOutcome :=
  match failOf raw with
  | some ("install", _) => .someFailed
  | some (_, _) => .aborted
  | none => .allInstalled

def installedServices (raw : List (String × String)) : List Nat :=
  let n := (natOf raw "@count").getD 1
  let all := (List.range n).map (· + 1)
  match failOf raw with
  | some ("install", k) => all.filter (· ≠ k)
  | some (_, k) => all.filter (· < k)
  | none => all

/-- the option record `cmd::node::add` hands to `add_node`: a `--bootstrap-cache-dir` given on antctl's command
line (`@cli_cache`) against the service user's default (the record's own value), by the rule the source has -/
def cliRecord (tbl : List (String × String)) (raw : List (String × String)) (i : Nat) : Valuation :=
  let σ := valuationOf tbl raw i
  match optOf tbl raw "@cli_cache" with
  | some d =>
    withCli σ Gen.Upgrade.addKeepsUserBootstrapCacheDir (some d)
      (match σ cachePath with | .opt o => o | _ => none)
  | none => σ

/-- registry-wide environment when the daemon restarts the service (no later add in these histories) -/
def regEnvOf (tbl : List (String × String)) (raw : List (String × String)) (i : Nat) : Option AStr :=
  registryEnvAfterInstall (cliRecord tbl raw i) (optOf tbl raw "@prev") (outcomeOf raw)

/-- (option record, registry entry at upgrade time) of service `i` -/
def setup (raw : List (String × String)) (i : Nat) : Valuation × Valuation :=
  let tbl := caseTable raw
  let σ₀ := withEnvLater (cliRecord tbl raw i) (optOf tbl raw "@provided") (optOf tbl raw "@prev") (outcomeOf raw)
    (optOf tbl raw "@later")
  -- circumstances of a daemon restart: `~.listenport` = the port of the recorded listen address, `~.regenv`
  let σ : Valuation := fun p =>
    if p = ["~", "listenport"] then .opt (optOf tbl raw "@listen")
    else if p = ["~", "regenv"] then .opt (regEnvOf tbl raw i)
    else σ₀ p
  (σ, afterStart (recordOf σ) (optOf tbl raw "@listen"))

def showLevel : Val → String
  | .bool true => "user"
  | .bool false => "system"
  | _ => "?"

/-- the strings of the harness carry `$R` for its scratch root (plain characters): not a systemd variable -/
def fixRoot (s : String) : String := s.replace "$R" "/R"

def envPairs (s : String) : List (String × String) :=
  (s.splitOn ",").filter (· ≠ "") |>.map fun p =>
    match p.splitOn "=" with
    | k :: rest@(_ :: _) => (k, "=".intercalate rest)
    | _ => (p, "")

/-- `X: <ExecStart line> E: <Environment lines>` as the shipped systemd backend renders the definition -/
def showUnit (settings : List (String × Val)) (items : List Item) : String :=
  let program := match settings.lookup "program" with | some v => asWord Gen.Upgrade.evmDisplay v | none => ""
  let envs := match settings.lookup "environment" with
    | some (.opt (some e)) => (envPairs e.show).map fun kv => esc (unitEnvironmentLine kv.1 kv.2)
    | _ => []
  "X: " ++ esc (unitExecStartLine program (argv items)) ++ " E: " ++
    (if envs.isEmpty then "-" else ",".intercalate envs)

/-- the daemon's restart of the started service: `R: ..` (and `RU: ..`, the replacement's own next upgrade) -/
def showRestart (raw : List (String × String)) (data : Valuation) (regenv : Option AStr) : String :=
  match raw.lookup "@drestart" with
  | some "s:retain" =>
    " || R: " ++ showArgs (buildRestartRetain data) ++ " | " ++ showSettings (restartRetainSettings data) ++
      " levels=" ++ showLevel (restartRetainLevels data).1 ++ "/" ++ showLevel (restartRetainLevels data).2
  | some _ =>
    match data ["user"] with
    | .opt none => " || R: err:no-user"
    | _ =>
      let dataU : Valuation := fun p => if p = ["#env"] then .opt regenv else data p
      " || R: " ++ showArgs (buildRestartReplace data) ++ " | " ++ showSettings (restartReplaceSettings data) ++
        " levels=-/" ++ showLevel (evalSrc data Gen.Upgrade.restartReplaceInstallLevel) ++
      " || RU: " ++ showArgs (buildUpgrade (replaceRecordOf dataU)) ++ " | " ++ showSettings (upgradeSettings (replaceRecordOf dataU)) ++
        " levels=" ++ showLevel (upgradeLevels (replaceRecordOf dataU)).1 ++ "/" ++ showLevel (upgradeLevels (replaceRecordOf dataU)).2
  | none => ""

def programOfSettings (settings : List (String × Val)) : String :=
  match settings.lookup "program" with | some v => asWord Gen.Upgrade.evmDisplay v | none => ""

/-- what systemd starts for the definition rendered by the shipped backend: `exp` (specifier / variable / escape /
unbalanced quote / lone `;`), `prog` (another executable path), else `f` of antnode's parse of the re-tokenised words -/
def unitVerdictWith (f : Except PErr Parsed → String) (settings : List (String × Val)) (items : List Item) : String :=
  let program := programOfSettings settings
  match unitCommand (fixRoot (execStartValue program (argv items))) with
  | none => "exp"
  | some (p, args) => if p ≠ fixRoot program then "prog" else f (parseArgStrings args)

def unitVerdict := unitVerdictWith fun r => match r with | .ok _ => "ok" | .error e => "err:" ++ errClass e
def unitCoarse := unitVerdictWith fun r => match r with | .ok _ => "ok" | .error _ => "rej"

def unitDetails (settings : List (String × Val)) (items : List Item) : String :=
  let program := programOfSettings settings
  match unitCommand (fixRoot (execStartValue program (argv items))) with
  | some (p, args) =>
    if p ≠ fixRoot program then "owner=- home=-" else
    match parseArgStrings args with
    | .ok pr =>
      -- the harness reads the owner from a dump with all white space removed
      "owner=" ++ (match pr.top "owner" with | .one s => esc (s.replace " " "") | _ => "-") ++
      " home=" ++ (match pr.top "home_network" with | .set => "T" | _ => "F")
    | .error _ => "owner=- home=-"
  | none => "owner=- home=-"

def step (_ : Unit) (ws : List String) : Unit × String :=
  match ws with
  | "cfg" :: rest =>
    match rest.mapM splitKV with
    | none => ((), "bad-op")
    | some raw =>
      let outs := (installedServices raw).map fun i =>
        let (σ, data) := setup raw i
        s!"S{i} I: " ++ showArgs (buildInstall σ) ++ " | " ++ showSettings (installSettings σ) ++
           " level=" ++ showLevel (installLevel σ) ++
           " || U: " ++ showArgs (buildUpgrade data) ++ " | " ++ showSettings (upgradeSettings data) ++
           " levels=" ++ showLevel (upgradeLevels data).1 ++ "/" ++ showLevel (upgradeLevels data).2 ++
           showRestart raw data (regEnvOf (caseTable raw) raw i) ++
           " || " ++ showUnit (installSettings σ) (buildInstall σ)
      ((), if outs.isEmpty then "none" else " ;; ".intercalate outs)
  | "accept" :: rest =>
    match rest.mapM splitKV with
    | none => ((), "bad-op")
    | some raw =>
      let (σ, data) := setup raw 1
      ((), "I:" ++ verdict (buildInstall σ) ++ " U:" ++ verdict (buildUpgrade data) ++
           " XI:" ++ unitVerdict (installSettings σ) (buildInstall σ) ++
           " XU:" ++ unitVerdict (upgradeSettings data) (buildUpgrade data))
  | "unitprobe" :: rest =>
    match rest.mapM splitKV with
    | none => ((), "bad-op")
    | some raw =>
      let (σ, data) := setup raw 1
      ((), "XI:" ++ unitCoarse (installSettings σ) (buildInstall σ) ++
           " XU:" ++ unitCoarse (upgradeSettings data) (buildUpgrade data) ++ " " ++
           unitDetails (installSettings σ) (buildInstall σ))
  | "lexprobe" :: rest =>
    match rest.mapM splitKV with
    | none => ((), "bad-op")
    | some raw =>
      let (σ, data) := setup raw 1
      ((), "I:" ++ coarse (buildInstall σ) ++ " U:" ++ coarse (buildUpgrade data) ++ " " ++ probeDetails (buildInstall σ))
  | _ => ((), "bad-op")

/-- Model search (only used when a proof obligation broke): option records on which the regenerated
model's upgrade definition differs from the install definition, or which the clap-subset parser rejects.
One record per option switched on alone, on top of the mandatory settings. -/
def base : List String :=
  ["service_name=s:antnode1", "service_data_dir_path=s:$R/data/antnode1", "service_log_dir_path=s:$R/log/antnode1",
   "service_antnode_path=s:$R/data/antnode1/antnode", "rpc_socket_addr=s:127.0.0.1:12001", "node_number=s:1",
   "options.rewards_address=s:0x03B770D9cD32077cC0bF330c13C114a87643B124", "options.version=s:0.1.0",
   "options.user_mode=F", "options.auto_restart=F", "options.home_network=F", "options.upnp=F",
   "options.peers_args.first=F", "options.peers_args.local=F", "options.peers_args.disable_mainnet_contacts=F",
   "options.peers_args.ignore_cache=F", "@rpc_default_ip=T"]

def singles : List (List String) := [
  ["options.evm_network=e:ArbitrumOne"],
  ["options.evm_network=e:ArbitrumOne", "options.auto_restart=T"],
  ["options.evm_network=e:ArbitrumOne", "options.env_variables=s:ANT_LOG=all"],
  ["options.evm_network=e:ArbitrumOne", "options.user=s:root"],
  ["options.evm_network=e:ArbitrumOne", "options.home_network=T"],
  ["options.evm_network=e:ArbitrumOne", "options.upnp=T"],
  ["options.evm_network=e:ArbitrumOne", "options.log_format=s:json"],
  ["options.evm_network=e:ArbitrumOne", "options.network_id=s:7"],
  ["options.evm_network=e:ArbitrumOne", "options.node_ip=s:10.0.0.7"],
  ["options.evm_network=e:ArbitrumOne", "node_port=s:13001"],
  ["options.evm_network=e:ArbitrumOne", "metrics_free_port=s:14001"],
  ["options.evm_network=e:ArbitrumOne", "options.owner=s:Discord_user"],
  ["options.evm_network=e:ArbitrumOne", "options.owner=s:Ünal_Çelik", "@case=l:Ü:ü,Ç:ç"],
  ["options.evm_network=e:ArbitrumOne", "options.env_variables=s:A=1", "@count=s:2", "@fail=s:install:2",
   "service_name#2=s:antnode2", "service_data_dir_path#2=s:$R/data/antnode2", "service_log_dir_path#2=s:$R/log/antnode2",
   "service_antnode_path#2=s:$R/data/antnode2/antnode", "rpc_socket_addr#2=s:127.0.0.1:12002", "node_number#2=s:2"],
  ["options.evm_network=e:ArbitrumOne", "options.max_archived_log_files=s:5"],
  ["options.evm_network=e:ArbitrumOne", "options.max_log_files=s:9"],
  ["options.evm_network=e:ArbitrumOne", "options.peers_args.first=T"],
  ["options.evm_network=e:ArbitrumOne", "options.peers_args.local=T"],
  ["options.evm_network=e:ArbitrumOne", "options.peers_args.addrs=l:/ip4/10.0.0.1/udp/1200/quic-v1/p2p/12D3KooWRi6wF7yxWLuPSNskXc6kQ5cJ6eaymeMbCRdTnMesPgFx"],
  ["options.evm_network=e:ArbitrumOne", "options.peers_args.network_contacts_url=l:http://localhost:8080/contacts"],
  ["options.evm_network=e:ArbitrumOne", "options.peers_args.disable_mainnet_contacts=T"],
  ["options.evm_network=e:ArbitrumOne", "options.peers_args.ignore_cache=T"],
  ["options.evm_network=e:ArbitrumOne", "options.peers_args.bootstrap_cache_dir=s:$R/cache"],
  -- audit round 6: user-mode add --metrics-port --owner, started, restarted by the daemon with the peer id retained
  ["options.evm_network=e:ArbitrumOne", "options.user_mode=T", "metrics_free_port=s:13001", "options.owner=s:bob",
   "@listen=s:4242", "@drestart=s:retain"],
  -- a root add (service user set), started, replaced by the daemon
  ["options.evm_network=e:ArbitrumOne", "options.user=s:root", "options.owner=s:bob", "@listen=s:4242", "@drestart=s:replace",
   "~.new.new_node_number=s:2", "~.new.new_service_name=s:antnode2", "~.new.data_dir_path=s:$R/data/antnode2",
   "~.new.log_dir_path=s:$R/log/antnode2", "~.new.antnode_path=s:$R/data/antnode2/antnode"],
  -- `--bootstrap-cache-dir` given on antctl's own command line, user mode (no default)
  ["options.evm_network=e:ArbitrumOne", "options.user_mode=T", "@cli_cache=s:$R/my-cache"],
  ["options.evm_network=e:ArbitrumSepolia"],
  ["options.evm_network=e:Custom", "options.evm_network.rpc_url_http=s:http://localhost:8545/",
   "options.evm_network.payment_token_address=s:0x5FbDB2315678afecb367f032d93F642f64180aa3",
   "options.evm_network.data_payments_address=s:0x8464135c8F25Da09e49BC8782676a84730C318bC"]]

def differs (ws : List String) : Bool :=
  match ws.mapM splitKV with
  | none => false
  | some raw =>
    (installedServices raw).any fun n =>
      let (σ, data) := setup raw n
      let i := buildInstall σ
      let u := buildUpgrade data
      let sameItems := fun (a b : List Item) => a.all b.contains && b.all a.contains && a.length == b.length
      let restartDiffers := match raw.lookup "@drestart" with
        | some "s:retain" =>
          !(sameItems (buildRestartRetain data) u) || restartRetainLevels data != upgradeLevels data
        | some _ =>
          let keep := fun (l : List Item) => l.filter fun it =>
            !(["root-dir", "log-output-dest", "port", "metrics-server-port"].contains (it.flag.getD ""))
          !(sameItems (keep (buildRestartReplace data)) (keep u))
        | none => false
      let cliLost := match optOf (caseTable raw) raw "@cli_cache" with
        | some d => !(i.contains ⟨some "bootstrap-cache-dir", .one d.show⟩)
        | none => false
      -- the pinned listener port is the one purposeful difference of an upgrade
      let noPort := fun (l : List Item) => if (raw.lookup "@listen").isSome then l.filter (fun it => it.flag != some "port") else l
      !(sameItems (noPort i) (noPort u)) ||
      (installSettings σ != upgradeSettings data) ||
      upgradeLevels data != (installLevel σ, installLevel σ) ||
      restartDiffers || cliLost ||
      verdict i != "ok" || verdict u != "ok"

def searchCandidates : List String :=
  (singles.filter fun s => differs (s ++ base)).flatMap fun s =>
    [" ".intercalate ("cfg" :: s ++ base), " ".intercalate ("accept" :: s ++ base)]

end SafeNet.Driver.Upgrade
