import SafeNet.Driver.Util
import SafeNet.Model.SelfEnc
/-!
Driver for the C14 model: the model functions run over a *symbolic* instance of the `SE` parameter. Byte strings are
terms (`raw` user data of a length, `wrap` = serialised `DataMapLevel` of data map `d`, `bin` = serialised `Chunk`,
`ech d i` = i-th encrypted chunk of data map `d`); what the third-party crate did on the real run (per level: number
of chunks and size of the wrapped data map) comes in the op line as a witness table, everything the repo code decides
(when to stop packing, what is packed, chunk order, what the fetch loop unwraps, the round trip) is computed by the model.
-/
namespace SafeNet.Driver.SelfEnc
open SafeNet.Driver SafeNet.Model.SelfEnc

inductive Sym where
  | raw (id : Nat)
  | wrap (additional : Bool) (dm : Nat)
  | bin (s : Sym)
  | ech (dm : Nat) (i : Nat)
  deriving DecidableEq, Repr, Inhabited

/-- injective numbering, stands for sha3 -/
def Sym.code : Sym → Nat
  | .raw id => 4 * id
  | .wrap a d => 4 * (2 * d + (if a then 1 else 0)) + 1
  | .ech d i => 4 * ((d + i) * (d + i + 1) / 2 + i) + 2
  | .bin s => 4 * s.code + 3

def binHeader (n : Nat) : Nat := if n < 256 then 2 else if n < 65536 then 3 else 5

/-- The environment of one symbolic run. -/
structure Env where
  /-- length of user data `raw id` -/
  rawLen : Nat → Nat
  /-- number of encrypted chunks of data map `d` (`none`: the witness table has no such level) -/
  nOf : Nat → Option Nat
  /-- serialised size of `DataMapLevel::_(d)` -/
  wOf : Nat → Nat
  /-- which data map the third-party crate produces for this input -/
  levelOf : Sym → Option Nat
  /-- what data map `d` decrypts to (= what was encrypted) -/
  srcOf : Nat → Option Sym
  /-- the i-th encrypted chunk of data map `d` (repeated content gives byte-identical chunks: one term, one address) -/
  chunkOf : Nat → Nat → Sym := Sym.ech

def symLen (E : Env) : Sym → Nat
  | .raw id => E.rawLen id
  | .wrap _ d => E.wOf d
  | .bin s => symLen E s + binHeader (symLen E s)
  | .ech _ _ => 1

def insertIdx (x : Nat × Sym) : List (Nat × Sym) → List (Nat × Sym)
  | [] => [x]
  | y :: ys => if x.1 ≤ y.1 then x :: y :: ys else y :: insertIdx x ys

/-- `sorted_by_key(|c| c.index)` -/
def sortIdx (xs : List (Nat × Sym)) : List (Nat × Sym) := xs.foldr insertIdx []

def symSE (E : Env) : SE Sym Nat where
  len := symLen E
  hash := Sym.code
  enc s :=
    if symLen E s < 3 then none else
    match E.levelOf s with
    | none => none
    | some d => match E.nOf d with
      | none => none
      | some n => some (d, (List.range n).map (E.chunkOf d))
  infos d := match E.nOf d with
    | none => []
    | some n => (List.range n).map (fun i => (E.chunkOf d i).code)
  dec d chunks := match E.nOf d with
    | none => none
    | some n => if sortIdx chunks = (List.range n).map (fun i => (i, E.chunkOf d i)) then E.srcOf d else none
  wrap a d := .wrap a d
  unwrap
    | .wrap a d => some (a, d)
    | _ => none
  bin s := .bin s
  unbin
    | .bin s => some s
    | _ => none

/-- the pack/fetch environment of one user input of length `len` with witness table `tab = [(n₁, w₁), (n₂, w₂), …]` -/
def packEnv (len : Nat) (tab : List (Nat × Nat)) : Env where
  rawLen _ := len
  nOf d := if d = 0 then none else (tab[d - 1]?).map (·.1)
  wOf d := if d = 0 then 0 else ((tab[d - 1]?).map (·.2)).getD 0
  levelOf
    | .raw _ => some 1
    | .bin (.wrap _ d) => some (d + 1)
    | .wrap _ d => some (d + 1)
    | _ => none
  srcOf d :=
    if d = 0 then none
    else if d = 1 then some (.raw 0)
    else
      let prev : Sym := .wrap (decide (d - 1 ≥ 2)) (d - 1)
      some (if Gen.SelfEnc.packSerialisesChunk then .bin prev else prev)

def getErrName : GetErr → String
  | .invalidDataMap => "datamap"
  | .decryption => "decrypt"
  | .outOfFuel => "fuel"
  | .other c => c

def field (key : String) (ws : List String) : Option String :=
  ws.findSome? fun w =>
    let p := (key ++ "=").toList
    if p.isPrefixOf w.toList then some (String.ofList (w.toList.drop p.length)) else none

def parseTab (s : String) : Option (List (Nat × Nat)) :=
  if s = "-" then some [] else
  (s.splitOn ",").mapM fun e =>
    match e.splitOn ":" with
    | [a, b] => match a.toNat?, b.toNat? with
      | some a, some b => some (a, b)
      | _, _ => none
    | _ => none

def parseCode (s : String) : Option (List Nat) :=
  if s = "-" then some [] else (s.splitOn ".").mapM String.toNat?

def parseCodes (s : String) : Option (List (List Nat)) :=
  if s = "-" then some [] else (s.splitOn "/").mapM parseCode

def chunkLevel (c : Chunk Sym) : Nat :=
  match c.value with
  | .ech d _ => d
  | _ => 0

/-- run-length encoding of the levels of the chunk list, e.g. `1*8 2*3` -/
def levelRuns (cs : List (Chunk Sym)) : String :=
  let runs : List (Nat × Nat) := cs.foldl (fun acc c =>
    match acc with
    | (l, n) :: rest => if l = chunkLevel c then (l, n + 1) :: rest else (chunkLevel c, 1) :: acc
    | [] => [(chunkLevel c, 1)]) []
  " ".intercalate (runs.reverse.map fun (l, n) => s!"{l}*{n}")

def fuel : Nat := 24

def step (_ : Unit) (ws : List String) : Unit × String :=
  match ws with
  | "enc" :: rest =>
    match (field "max" rest).bind String.toNat?, (field "len" rest).bind String.toNat?, (field "tab" rest).bind parseTab with
    | some max, some len, some tab =>
      let S := symSE (packEnv len tab)
      match encrypt S max fuel (.raw 0) with
      | .error .selfEncryption => ((), "err selfenc")
      | .error .outOfFuel => ((), "err fuel")
      | .ok (dmc, chunks) =>
        let lvl := match dmc.value with
          | .wrap _ d => d
          | _ => 0
        let sound := dmc.address == dmc.value.code && chunks.all (fun c => c.address == c.value.code)
        ((), s!"ok lvl={lvl} dm={S.len dmc.value} addr={if sound then "content" else "other"} chunks={levelRuns chunks}")
    | _, _, _ => ((), "bad-op")
  | "fetch" :: rest =>
    match (field "max" rest).bind String.toNat?, (field "len" rest).bind String.toNat?, (field "tab" rest).bind parseTab,
          (field "codes" rest).bind parseCodes with
    | some max, some len, some tab, some codes =>
      let S := symSE (packEnv len tab)
      match encrypt S max fuel (.raw 0) with
      | .error _ => ((), "err selfenc")
      | .ok (dmc, chunks) =>
        match fetchFromDataMapChunk S (storeGet chunks) fuel codes dmc.value with
        | .ok d => ((), if d = .raw 0 then "ok same" else "ok different")
        | .error e => ((), s!"err {getErrName e}")
    | _, _, _, _ => ((), "bad-op")
  | "bound" :: rest =>
    -- the size of the largest content chunk is the third-party crate's (witness `big`); whether the data-map chunk
    -- fits is decided by the model of the pack loop
    match (field "max" rest).bind String.toNat?, (field "len" rest).bind String.toNat?, (field "tab" rest).bind parseTab,
          (field "big" rest).bind String.toNat? with
    | some max, some len, some tab, some big =>
      let S := symSE (packEnv len tab)
      match encrypt S max fuel (.raw 0) with
      | .error _ => ((), "err selfenc")
      | .ok (dmc, _) =>
        let dm := if S.len dmc.value ≤ max then "fits" else "over"
        ((), if big > max then s!"content over={big - max} dm={dm}" else s!"content within dm={dm}")
    | _, _, _, _ => ((), "bad-op")
  | "put" :: rest =>
    match (field "max" rest).bind String.toNat?, (field "len" rest).bind String.toNat?, (field "tab" rest).bind parseTab,
          field "entry" rest with
    | some max, some len, some tab, some entry =>
      let e? : Option Entry := if entry = "private" then some .dataPut else if entry = "public" then some .dataPutPublic
        else if entry = "cost" then some .dataCost else none
      match e? with
      | none => ((), "bad-op")
      | some e =>
        let S := symSE (packEnv len tab)
        -- an entry point that does not pass the bytes on unchanged is outside what the driver can predict: `pre` = identity
        match putEntry S max fuel id e (.raw 0) with
        | .error .selfEncryption => ((), "err selfenc")
        | .error .outOfFuel => ((), "err fuel")
        | .ok (dmc, chunks) =>
          if e = .dataCost then ((), "ok priced") else
          -- the read goes against what the put itself uploaded (a receipt covering every chunk); the public read starts
          -- from the ADDRESS: the data-map chunk must be among the uploaded records
          let store := putRecords (fun _ => true) (uploaded e dmc chunks)
          let start : Except GetErr (Chunk Sym) := if e = .dataPutPublic then storeGet store dmc.address else .ok dmc
          match start with
          | .error err => ((), s!"ok unreadable:{getErrName err}")
          | .ok m =>
            match fetchFromDataMapChunk S (storeGet store) fuel [] m.value with
            | .ok d => ((), if d = .raw 0 then "ok same" else "ok different")
            | .error err => ((), s!"ok unreadable:{getErrName err}")
    | _, _, _, _ => ((), "bad-op")
  | _ => ((), "bad-op")

/-- Inputs on which the regenerated model contradicts the round trip (replayed on the real code when a proof breaks);
`?` fields are filled in by the harness. Lengths: single-level, then what needs 2, 3 and 4 levels with MAX_CHUNK_SIZE=400. -/
def searchCandidates : List String :=
  -- model search over representative witness tables: 1..4 levels
  let tabs : List (Nat × List (Nat × Nat)) :=
    [(900, [(3, 330), (3, 330)]), (2000, [(5, 520), (3, 330), (3, 330)]), (6000, [(15, 1500), (4, 430), (3, 330), (3, 330)]),
     (24000, [(60, 6000), (15, 1500), (4, 430), (3, 330), (3, 330)])]
  let entryCands : List String :=
    [(Entry.dataPut, "private"), (Entry.dataPutPublic, "public"), (Entry.dataCost, "cost")].flatMap fun (e, name) =>
      (if e.passesBytesUnchanged then [] else
        [0, 1, 2].map fun len => s!"put max=? len={len} fill=c97 entry={name} tab=?") ++
      -- an upload that leaves out what the read needs: found on any accepted input, single- and multi-level
      (if e = .dataCost then [] else [100, 2000, 6000].filterMap fun len =>
        let tab : List (Nat × Nat) := if len = 100 then [(3, 330)] else if len = 2000 then [(5, 520), (3, 330), (3, 330)]
          else [(15, 1500), (4, 430), (3, 330), (3, 330)]
        let S := symSE (packEnv len tab)
        match putEntry S 400 fuel id e (.raw 0) with
        | .ok (dmc, chunks) =>
          let store := putRecords (fun _ => true) (uploaded e dmc chunks)
          let start : Except GetErr (Chunk Sym) := if e = .dataPutPublic then storeGet store dmc.address else .ok dmc
          match start with
          | .error _ => some s!"put max=? len={len} fill=r1 entry={name} tab=?"
          | .ok m =>
            match fetchFromDataMapChunk S (storeGet store) fuel [] m.value with
            | .ok d => if d = .raw 0 then none else some s!"put max=? len={len} fill=r1 entry={name} tab=?"
            | .error _ => some s!"put max=? len={len} fill=r1 entry={name} tab=?"
        | .error _ => none)
  entryCands ++ tabs.filterMap fun (len, tab) =>
    let S := symSE (packEnv len tab)
    match encrypt S 400 fuel (.raw 0) with
    | .error _ => some s!"fetch max=? len={len} fill=r1 tab=? codes=-"
    | .ok (dmc, chunks) =>
      match fetchFromDataMapChunk S (storeGet chunks) fuel [] dmc.value with
      | .ok d => if d = .raw 0 then none else some s!"fetch max=? len={len} fill=r1 tab=? codes=-"
      | .error _ => some s!"fetch max=? len={len} fill=r1 tab=? codes=-"

end SafeNet.Driver.SelfEnc
