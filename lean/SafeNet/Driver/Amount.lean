import SafeNet.Driver.Util
import SafeNet.Model.Amount
namespace SafeNet.Driver.Amount
open SafeNet.Amount SafeNet.Gen.Amount

def errName : PErr → String
  | .units => "units" | .remainder => "remainder" | .lossOfPrecision => "loss" | .excessive => "excessive"

def step (_ : Unit) (ws : List String) : Unit × String :=
  match ws with
  | ["display", n] =>
    match n.toNat? with
    | some k => ((), hex (display k))
    | none => ((), "bad-op")
  | ["parse", h] =>
    match unhex h with
    | some bs =>
      match parse bs with
      | .ok n => ((), s!"ok {n}")
      | .error e => ((), s!"err {errName e}")
    | none => ((), "bad-op")
  | ["add", a, b] =>
    match a.toNat?, b.toNat? with
    | some x, some y => ((), match checkedAdd x y with | some r => s!"some {r}" | none => "none")
    | _, _ => ((), "bad-op")
  | ["sub", a, b] =>
    match a.toNat?, b.toNat? with
    | some x, some y => ((), match checkedSub x y with | some r => s!"some {r}" | none => "none")
    | _, _ => ((), "bad-op")
  | "costsum" :: rest =>
    -- a cost sum as the client computes it (`.sum::<Amount>()` / `+=`, or a checked fold)
    match natList rest with
    | some xs => ((), match costSum xs with | some r => s!"sum {r}" | none => "overflow")
    | none => ((), "bad-op")
  | ["showatto", n] =>
    match n.toNat? with
    | some k => ((), hex (printedCost .atto k))
    | none => ((), "bad-op")
  | "clisum" :: split :: rest =>
    -- `clisum <k> a1 a2 …`: the first k events are consumed before the completion signal, the rest are drained
    match split.toNat?, natList rest with
    | some k, some xs => ((), s!"total {cliSummary (xs.take k) (xs.drop k)}")
    | _, _ => ((), "bad-op")
  | _ => ((), "bad-op")


/-- Model search (used only when a proof obligation broke): candidate inputs on which the
regenerated model contradicts the property; the harness replays them on the real code. -/
def searchCandidates : List String := Id.run do
  let mut out : List String := []
  let pows := (List.range 78).map (fun k => 10 ^ k) ++ (List.range 257).map (fun k => 2 ^ k)
  let ns := (List.range 1200) ++ pows ++ pows.map (· + 1) ++ pows.map (· - 1) ++ [U256 - 1]
  let mut nd := 0
  for n in ns do
    if n < U256 && nd < 5 then
      match parse (display n) with
      | .ok m => if m ≠ n then out := out ++ [s!"display {n}"]; nd := nd + 1
      | .error _ => out := out ++ [s!"display {n}"]; nd := nd + 1
  -- strings outside the decimal grammar that the model accepts
  let bad : List (List Nat) := [[], [46, 53], [48, 120, 49, 48], [48, 98, 49, 49], [48, 111, 55], [49, 95, 48],
    [48, 46, 48, 120, 49], [48, 46, 49, 95, 49], [43, 49], [49, 32]]
  for b in bad do
    match parse b with
    | .ok _ => out := out ++ [s!"parse {hex b}"]
    | .error _ => pure ()
  -- more than 18 fractional digits as written must be rejected, also when the excess is zeros
  for over in [[49, 46] ++ List.replicate 19 48, [48, 46, 53] ++ List.replicate 18 48, [48, 46] ++ List.replicate 30 48] do
    match parse over with
    | .ok _ => out := out ++ [s!"parse {hex over}"]
    | .error _ => pure ()
  -- the decimal string of 2^256 must not wrap
  let top := (SafeNet.Dec.toDigits (U256 / Gen.Amount.rawConv)).map (· + 48) ++ [46] ++
    (SafeNet.Dec.padLeft 18 (SafeNet.Dec.toDigits (U256 % Gen.Amount.rawConv))).map (· + 48)
  match parse top with
  | .ok _ => out := out ++ [s!"parse {hex top}"]
  | .error _ => pure ()
  -- checked arithmetic
  if checkedAdd (U256 - 1) 1 ≠ none then out := out ++ [s!"add {U256 - 1} 1"]
  if checkedSub 0 1 ≠ none then out := out ++ ["sub 0 1"]
  return out

end SafeNet.Driver.Amount
