import SafeNet.Driver.Util
import SafeNet.Model.AddrDerive
/-!
Line protocol of the address-derivation model (`drv_addrderive`):
```
chunk <value>            -> <name> <record key>
pad <owner pk>           -> <name> <record key>
tx <owner pk>            -> <name> <record key>
reg <label> <owner pk>   -> <name> <record key>
content <value>          -> <XorName::from_content(value)>
```
-/
namespace SafeNet.Driver.AddrDerive
open SafeNet.AddrDerive

def two (n : List Nat) : String := s!"{hex n} {hex (recordKey n)}"

def step (_ : Unit) (ws : List String) : Unit × String :=
  let r : Option String :=
    match ws with
    | ["chunk", v] => (unhex v).map (fun v => two (chunkName v))
    | ["pad", o] => (unhex o).map (fun o => two (scratchpadName o))
    | ["tx", o] => (unhex o).map (fun o => two (transactionName o))
    | ["reg", l, o] => do
      let l ← unhex l
      let o ← unhex o
      some (two (registerName l o))
    | ["content", v] => (unhex v).map (fun v => hex (fromContent v))
    | _ => none
  ((), r.getD "bad-op")

def searchCandidates : List String := []

end SafeNet.Driver.AddrDerive
