import SafeNet.Driver.Util
import SafeNet.Driver.Quote
import SafeNet.Model.QuoteDuty
/-!
Driver for the node-side quoting model (C13, component `quoteduty`); op syntax in `harness/hnode/src/bin/quoteduty.rs`.
This node is key / peer 999; `K<i>`/`P<i>` are key / peer `i`, `X<r>` an unrelated peer, `G` undecodable or garbage.
-/
namespace SafeNet.Driver.QuoteDuty
open SafeNet.Quote SafeNet.QuoteDuty SafeNet.Driver.Quote

def selfId : Nat := 999

def claimedTok (s : String) : Option Nat := if s = "S" then some selfId else peerTok s
def keyTokD (s : String) : Option (List Nat) :=
  if s = "KS" then some [selfId] else if s = "G" then some [] else (tagNat 'K' s).map fun i => [i]
def contentTok (s : String) : Option (List Nat) := (tagNat 'c' s).map fun j => [j]

def baseNs : Int := 10000000000000000000

def mkEntry (c k sg ct off : String) : Option (Entry Nat) := do
  let claimed ← claimedTok c
  let kb ← keyTokD k
  let content ← contentTok ct
  let o ← off.toInt?
  let ts := (baseNs + o).toNat
  let q0 : Quote := { content := content, secs := ts / nsPerSec, nanos := ts % nsPerSec, metrics := default,
                      rewards := [], pubKey := kb, signature := [] }
  let sig ← if sg = "SS" then some (scheme.sign selfId q0.sigBytes)
            else if sg = "G" then some []
            else (tagNat 'S' sg).map fun j => scheme.sign j q0.sigBytes
  some { claimed := claimed, quote := { q0 with signature := sig } }

def parseEntries : List String → Option (List (Entry Nat))
  | [] => some []
  | c :: k :: s :: ct :: off :: rest => do
    let e ← mkEntry c k s ct off
    let tl ← parseEntries rest
    some (e :: tl)
  | _ => none

def sameEntry (a b : Entry Nat) : Bool := a.claimed == b.claimed && decide (a.quote = b.quote)

/-- positions (0-based, increasing) of the forwarded entries in the input -/
def positions (input fwd : List (Entry Nat)) : List String :=
  let rec go (inp : List (Entry Nat)) (i : Nat) (fw : List (Entry Nat)) (fuel : Nat) : List String :=
    match fuel, fw, inp with
    | 0, _, _ => []
    | _, [], _ => []
    | _, _ :: fr, [] => "?" :: go [] i fr (fuel - 1)
    | fuel + 1, f :: fr, e :: er => if sameEntry e f then toString i :: go er (i + 1) fr fuel else go er (i + 1) (f :: fr) fuel
  go input 0 fwd (input.length + fwd.length + 1)

def step (_ : Unit) (ws : List String) : Unit × String :=
  let r : Option String :=
    match ws with
    | "create" :: rest => do
      let (f, _) ← parseFields (rest.take 1 ++ ["0", "0"] ++ rest.drop 1)
      let now := baseNs.toNat
      let q := createQuote scheme selfId [selfId] f.content (now / nsPerSec) (now % nsPerSec) f.metrics f.rewards
      let b (x : Bool) : String := if x then "true" else "false"
      some s!"signed={b (checkSigned scheme ids q selfId)} fields=true fresh={b (!hasExpired q.ts now)} storecost={b (verifyForStorecost scheme selfId q f.content now)}"
    | ["getquote", kind, j, ans, paid, live] => do
      let _ ← j.toNat?
      let paid ← paid.toNat?; let live ← live.toNat?
      let named ← if ["c", "r", "s", "t"].contains kind then some true else if ["p", "k"].contains kind then some false else none
      let own : List Nat := List.replicate 32 1
      let m : Metrics := { closeRecordsStored := 3, maxRecords := 16384, receivedPaymentCount := paid, liveTime := live,
                           networkDensity := none, networkSize := some 7 }
      let answer ← if ans = "q" then some (MetricsAnswer.metrics m false) else if ans = "e" then some (.metrics m true)
                   else if ans = "d" then some .dropped else none
      let now := baseNs.toNat
      let b (x : Bool) : String := if x then "true" else "false"
      match getStoreQuote scheme selfId [selfId] (if named then some own else none) answer (now / nsPerSec) (now % nsPerSec) [] with
      | .recordExists => some "exists peer=self"
      | .failed => some "failed peer=self"
      | .quote q =>
        let c := if q.content = own then "own" else if q.content = zeroName then "zero" else "other"
        some s!"quote content={c} signed={b (checkSigned scheme ids q selfId)} metrics={b (decide (q.metrics = m) && !hasExpired q.ts now)} storecost={b (verifyForStorecost scheme selfId q (if named then own else zeroName) now)} peer=self"
    | "duty" :: rest => do
      let es ← parseEntries rest
      if es.isEmpty then none else
      match quotesVerification scheme ids selfId selfId baseNs.toNat es with
      | none => some "none"
      | some fwd =>
        let ps := positions es fwd
        some ("fwd=" ++ (if ps.isEmpty then "-" else ",".intercalate ps))
    | _ => none
  ((), r.getD "bad-op")

def searchCandidates : List String :=
  let s : Int := 1000000000
  let base := s!"S KS SS c0 {-60 * s}"
  let cands : List (String × String) :=
    [ (s!"duty {base} P1 K1 S1 c0 {-55 * s}", "fwd=1"), (s!"duty {base} P1 K1 S2 c0 {-55 * s}", "fwd=-"),
      (s!"duty {base} P1 K1 S1 c1 {-55 * s}", "fwd=-"), (s!"duty {base} P1 K1 S1 c0 {-50 * s}", "fwd=-"),
      (s!"duty {base} P1 K1 S1 c0 {-70 * s}", "fwd=-"), (s!"duty {base} P1 K1 S1 c0 {-70 * s + 1}", "fwd=1"),
      (s!"duty P1 K1 S1 c0 {-55 * s}", "none"), (s!"duty S KS S1 c0 {-60 * s} P1 K1 S1 c0 {-55 * s}", "none"),
      (s!"duty S KS SS c0 {-4300 * s} P1 K1 S1 c0 {-4300 * s}", "none") ]
  cands.filterMap fun (op, want) => if (step () (words op)).2 != want then some op else none

end SafeNet.Driver.QuoteDuty
