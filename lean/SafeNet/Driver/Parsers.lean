import SafeNet.Driver.Util
import SafeNet.Model.Parsers
import SafeNet.Driver.ParsersExt
import SafeNet.Driver.ParsersR6
/-! Line-protocol driver for the C17 parser models (`drv_parsers`): one output line per op line of the
harness binaries `parsers` (hlight), `cliparsers` (hnode), `mgrparsers` (hmgr). -/
namespace SafeNet.Driver.Parsers
open SafeNet.Panic SafeNet.Parsers SafeNet.Gen.Parsers

def utf8Valid (bs : List Nat) : Bool :=
  ByteArray.validateUTF8 (ByteArray.mk (bs.map (·.toUInt8)).toArray)

def showRes {α : Type} (f : α → String) : Res Unit α → String
  | .ok v => s!"ok {f v}"
  | .err _ => "err"
  | .panic _ => "panic"

def kindName (t : Nat) : String :=
  match recordKindTags.find? (·.1 == t) with
  | some (_, n) => n
  | none => "?"

def protoOfTag : String → Proto
  | "ip4" => .ip4 | "udp" => .udp | "tcp" => .tcp | "quic" => .quic | "ws" => .ws | "p2p" => .p2p
  | _ => .other

def parseTriple (a : String) : Option (Nat × Nat × Bool) :=
  match a.splitOn ":" with
  | [s, f, e] =>
    match s.toNat?, f.toNat? with
    | some s, some f => some (s, f, e == "1")
    | _, _ => none
  | _ => none

def parsePeers (tp : String) : Option (List (List (Nat × Nat × Bool))) :=
  if tp == "nopeers" then some [] else
  (tp.splitOn "|").mapM fun p =>
    if p == "e" then some [] else (p.splitOn ",").mapM parseTriple

def parsePair (a : String) : Option (Nat × Nat) :=
  match a.splitOn ":" with
  | [s, f] =>
    match s.toNat?, f.toNat? with
    | some s, some f => some (s, f)
    | _, _ => none
  | _ => none

def rangeOf : List String → Option PortRange
  | ["single", p] => p.toNat?.map .single
  | ["range", a, b] =>
    match a.toNat?, b.toNat? with
    | some a, some b => some (.range a b)
    | _, _ => none
  | _ => none

def showOptNat : Option Nat → String
  | some p => s!"some {p}"
  | none => "none"

def stepLine (ws : List String) : String :=
  match ws with
  | ["reghex", s, pk] =>
    match unhex s with
    | some s => showRes (fun (v : Bytes × Bytes) => hex (v.1 ++ v.2)) (regFromHex (fun _ => pk == "1") s)
    | none => "bad-op"
  | ["regfmt", m, o] =>
    match unhex m, unhex o with
    | some m, some o => hex (regToHex m o)
    | _, _ => "bad-op"
  | ["scratchhex", s, pk] =>
    match unhex s with
    | some s => showRes hex (scratchFromHex (fun _ => pk == "1") s)
    | none => "bad-op"
  | ["scratchfmt", o] =>
    match unhex o with
    | some o => hex (scratchToHex o)
    | none => "bad-op"
  | ["decrypt", s, pw, aead] =>
    match unhex s, unhex pw with
    | some s, some pw =>
      let verdict : Option Bytes :=
        if aead.startsWith "pt:" then unhex ((aead.drop 3).toString) else none
      showRes hex (decryptKey (fun _ _ _ _ => verdict) utf8Valid s pw)
    | _, _ => "bad-op"
  | ["encrypt", k, pw] =>
    match unhex k, unhex pw with
    | some k, some pw =>
      -- ChaCha20-Poly1305 appends a 16-byte tag and keeps the length of the plaintext
      let out := encryptKey (fun _ _ key _ => key ++ List.replicate 16 0)
        (List.replicate saltLength 0) (List.replicate nonceLength 0) k pw
      s!"ok {out.length}"
    | _, _ => "bad-op"
  | ["hdr", b] =>
    match unhex b with
    | some b => showRes kindName (fromRecord b)
    | none => "bad-op"
  | ["recdeser", _, b, tp] =>
    match unhex b with
    | some b =>
      let verdict : Option Bytes := if tp.startsWith "ok:" then unhex ((tp.drop 3).toString) else none
      showRes hex (deserializeRecord (fun _ => verdict) b)
    | none => "bad-op"
  | ["craft", ig, _, tp] =>
    let parsed : Option (List Proto) :=
      if tp == "err" then none else if tp == "empty" then some [] else some ((tp.splitOn ",").map protoOfTag)
    match craftFromStr parsed (ig == "1") with
    | some idx => "some " ++ ",".intercalate (idx.map toString)
    | none => "none"
  | "leastfaulty" :: rest =>
    match rest.mapM parsePair with
    | some addrs => match leastFaulty addrs with
      | .ok r => showOptNat r
      | .err _ => "err"
      | .panic _ => "panic"
    | none => "bad-op"
  | ["reliable", s, f] =>
    match s.toNat?, f.toNat? with
    | some s, some f => toString (isReliable s f)
    | _, _ => "bad-op"
  | "loadcache" :: k :: m :: _ :: rest =>
    -- `loadcache k m <hexfile> <tp>` or `loadcache k m gen <description> <tp>`: the model sees only the parser's verdict
    let tp := rest.getLast?.getD "err"
    if rest.length = 0 ∨ rest.length > 2 then "bad-op" else
    match k.toNat?, m.toNat? with
    | some k, some m =>
      if tp == "err" then showRes toString (loadCache k m none) else
      match parsePeers tp with
      | some peers => showRes toString (loadCache k m (some peers))
      | none => "bad-op"
    | _, _ => "bad-op"
  | ["dmhex", s] =>
    match unhex s with
    | some s => showRes hex (dataMapFromHex s)
    | none => "bad-op"
  | ["dmfmt", b] =>
    match unhex b with
    | some b => hex (dataMapToHex b)
    | none => "bad-op"
  | ["addr", s] =>
    match unhex s with
    | some s => showRes hex (strToAddr s)
    | none => "bad-op"
  | ["addrfmt", b] =>
    match unhex b with
    | some b => hex (addrToStr b)
    | none => "bad-op"
  | ["portparse", s] =>
    match unhex s with
    | some s => showRes (fun r => match r with
        | PortRange.single p => s!"single {p}"
        | PortRange.range a b => s!"range {a} {b}") (portRangeParse s)
    | none => "bad-op"
  | "validate" :: rest =>
    match rangeOf rest.dropLast, rest.getLast?.bind String.toNat? with
    | some r, some c => match portRangeValidate r c with
      | .ok _ => "ok"
      | .err _ => "err"
      | .panic _ => "panic"
    | _, _ => "bad-op"
  | ["incr", p] =>
    if p == "none" then (match incrementPort none with | .ok r => showOptNat r | .err _ => "err" | .panic _ => "panic") else
    match p.toNat? with
    | some p => (match incrementPort (some p) with | .ok r => showOptNat r | .err _ => "err" | .panic _ => "panic")
    | none => "bad-op"
  | "startport" :: rest =>
    if rest == ["none"] then showOptNat (startPort none) else
    match rangeOf rest with
    | some r => showOptNat (startPort (some r))
    | none => "bad-op"
  | ["registry", src, utf8, tp] =>
    let file : Option (Option Bytes) := if src == "missing" then some none else (unhex src).map some
    match file with
    | none => "bad-op"
    | some file =>
      let parsed : Option Nat := if tp.startsWith "ok:" then ((tp.drop 3).toString).toNat? else none
      showRes toString (registryLoad file (utf8 == "1") parsed)
  | "walletdir" :: names =>
    match names.mapM unhex with
    | some ns =>
      let idx := walletFiles (ns.map fun n => (n, utf8Valid n))
      "ok " ++ (if idx.isEmpty then "-" else ",".intercalate (idx.map toString))
    | none => "bad-op"
  | "walletsel" :: input :: names =>
    match unhex input, names.mapM unhex with
    | some input, some ns => showRes hex (walletSelection input ns)
    | _, _ => "bad-op"
  | ["loadkey", _, kind, content] =>
    match unhex content with
    | some c =>
      let plain := kind == "plain" || kind == "both"
      let enc := kind == "enc" || kind == "both"
      -- the harness keeps encrypted contents below salt+nonce (or non-hex), so the AEAD is never reached
      showRes hex (loadPrivateKey plain enc c (utf8Valid c)
        (fun s => decryptKey (fun _ _ _ _ => none) utf8Valid s [112, 119]))
    | none => "bad-op"
  | ["loadwallet", _, kind, content, key] =>
    match unhex content with
    | some c =>
      let plain := kind == "plain" || kind == "both"
      let enc := kind == "enc" || kind == "both"
      let verdict : Option Bytes := if key.startsWith "ok:" then some (bytesOf ((key.drop 3).toString)) else none
      match loadWallet plain enc c (utf8Valid c)
          (fun s => decryptKey (fun _ _ _ _ => none) utf8Valid s [112, 119]) (fun _ => verdict) with
      | .ok a => "ok " ++ String.ofList (a.map fun b => Char.ofNat b)
      | .err _ => "err"
      | .panic _ => "panic"
    | none => "bad-op"
  | ["logformat", s] =>
    match unhex s with
    | some s => (match logFormatParse s with | some n => s!"ok {n}" | none => "err")
    | none => "bad-op"
  | ["logdest", s] =>
    match unhex s with
    | some s => s!"ok {logDestParse s}"
    | none => "bad-op"
  | ["regsave", _, _, la, lb, nb] =>
    match la.toNat?, lb.toNat?, nb.toNat? with
    | some la, some lb, some nb =>
      let (len, r) := saveSaveLoad la lb nb
      s!"len={len} " ++ (match r with
        | .ok n => s!"ok {n} same"
        | .err _ => "err"
        | .panic _ => "panic")
    | _, _, _ => "bad-op"
  | other => ((ParsersExt.stepLine other).orElse fun _ => ParsersR6.stepLine other).getD "bad-op"

def step (_ : Unit) (ws : List String) : Unit × String := ((), stepLine ws)

/-- Model search (used only when a proof obligation broke): boundary inputs on which the regenerated
model panics; the harness binaries replay them on the real code (each binary ignores the ops of the others). -/
def searchCandidates : List String := Id.run do
  let mut out : List String := []
  let zeros (n : Nat) : Bytes := List.replicate n 48
  -- hex-decoded lengths 0 .. expected + 2 (two characters per byte), and one odd length
  for n in List.range 84 do
    if (regFromHex (fun _ => false) (zeros (2 * n))).isPanic then out := out ++ [s!"reghex {hex (zeros (2 * n))} x"]
  for n in List.range 24 do
    if (decryptKey (fun _ _ _ _ => none) (fun _ => true) (zeros (2 * n)) []).isPanic then
      out := out ++ [s!"decrypt {hex (zeros (2 * n))} {hex [112, 119]} x"]
  for n in List.range 6 do
    let b := (List.replicate n 0x91)
    if (fromRecord b).isPanic then out := out ++ [s!"hdr {hex b}"]
    if (deserializeRecord (fun _ => (none : Option Bytes)) b).isPanic then out := out ++ [s!"recdeser - {hex b} x"]
  let edge : List Nat := [0, 1, 2, 32767, 32768, 65534, 65535]
  for a in edge do
    for b in edge do
      for c in [0, 1, 65535] do
        if (portRangeValidate (.range a b) c).isPanic then out := out ++ [s!"validate range {a} {b} {c}"]
  for p in edge do
    if (incrementPort (some p)).isPanic then out := out ++ [s!"incr {p}"]
  for s in ["0-65535", "1-2", "-", "", "1", "1-2-3"] do
    let bs : Bytes := s.toUTF8.toList.map UInt8.toNat
    if (portRangeParse bs).isPanic then out := out ++ [s!"portparse {hex bs}"]
  -- a wallet file holding something that is not a private key
  if (loadWallet true false [120] true (fun _ => .err ()) (fun _ => none)).isPanic then
    out := out ++ [s!"loadwallet {hex (bytesOf "0x52908400098527886E0F7030069857D2E4169EE7")} plain {hex (bytesOf "not-a-private-key")} x"]
  -- saving a short registry over a long one must leave exactly the short one
  if (saveSaveLoad 200 100 0).1 ≠ 100 then out := out ++ ["regsave 2,2,40,1 0,0,0,0"]
  let cedge : List Nat := [0, 1, 2147483647, 2147483648, 4294967294, 4294967295]
  for s in cedge do
    for f in cedge do
      if (leastFaulty [(s, f)]).isPanic then out := out ++ [s!"leastfaulty {s}:{f}"]
      if (loadCache 1 10 (some [[(s, f, false), (s, f, false), (s, f, false)]])).isPanic then
        out := out ++ [s!"loadcache 1 10 gen {s}:{f}:0,{s}:{f}:0,{s}:{f}:0"]
  return out ++ ParsersExt.searchCandidates ++ ParsersR6.searchCandidates

end SafeNet.Driver.Parsers
