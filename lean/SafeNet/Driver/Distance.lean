import SafeNet.Driver.Util
import SafeNet.Model.Distance
namespace SafeNet.Driver.Distance
open SafeNet.Distance SafeNet.Gen.Distance

def kindOf : String → Option Kind
  | "peer" => some .peerId | "chunk" => some .chunk | "tx" => some .transaction
  | "reg" => some .register | "key" => some .recordKey | "pad" => some .scratchpad
  | _ => none

/-- `id:dist` pairs -/
def parsePeers (ws : List String) : Option (List Peer) :=
  ws.mapM fun w =>
    match w.splitOn ":" with
    | [a, b] => match a.toNat?, b.toNat? with
      | some x, some y => some (x, y)
      | _, _ => none
    | _ => none

def ids (ps : List Peer) : String := joinNats (ps.map (·.1))

def optNat (s : String) : Option (Option Nat) :=
  if s = "-" then some none else (s.toNat?).map some

/-- `i=<hex bytes>` pairs -/
def parseBinds (ws : List String) : Option (List (Nat × List Nat)) :=
  ws.mapM fun w =>
    match w.splitOn "=" with
    | [a, b] => match a.toNat?, unhex b with
      | some x, some y => some (x, y)
      | _, _ => none
    | _ => none

/-- driver state: the target address and the peers' addresses of the last `bind` line, with the distances (peer id ↦
distance to the target, computed here with the model's own SHA-256); every `id:dist` pair of a following peer-list op
must agree with them, and `sort` / `inrange` / `closest` are then decided by the ADDRESS-level definitions
(`sortPeersByKeyAddr`, `getPeersInRangeAddr`, `calcClosestAddr`: SHA-256, XOR, the decimal detour of
`convert_distance_to_u256`, comparison) on those addresses -/
structure DSt where
  target : Option Addr := none
  addrs : List (Nat × Addr) := []
  ds : List (Nat × Nat) := []

def boundOk (st : DSt) (ps : List Peer) : Bool :=
  st.ds.isEmpty || ps.all (fun p => st.ds.lookup p.1 == some p.2)

/-- the address-level peer list of an op line (ids looked up among the bound addresses) -/
def apeers (st : DSt) (ps : List Peer) : Option (List APeer) :=
  ps.mapM (fun p => (st.addrs.lookup p.1).map (fun a => (p.1, a)))

/-- the address-level decision for a peer-list op after a `bind` (`none`: op has no address-level definition) -/
def stepAddr (st : DSt) (t : Addr) (ws : List String) : Option String :=
  match ws with
  | "sort" :: n :: rest =>
    match n.toNat?, (parsePeers rest).bind (apeers st) with
    | some n, some ps =>
      some (match sortPeersByKeyAddr t ps n with
        | some r => tagNats "ok" (r.map (·.1))
        | none => "err notenough")
    | _, _ => some "bad-op"
  | "inrange" :: r :: rest =>
    match r.toNat?, (parsePeers rest).bind (apeers st) with
    | some r, some ps => some (tagNats "ok" ((getPeersInRangeAddr t ps r).map (·.1)))
    | _, _ => some "bad-op"
  | "closest" :: n :: r :: rest =>
    match optNat n, optNat r, (parsePeers rest).bind (apeers st) with
    | some n, some r, some ps => some (tagNats "ok" ((calcClosestAddr t ps n r).map (·.1)))
    | _, _, _ => some "bad-op"
  | "derive-range" :: nf :: fl :: rest =>
    -- the neighbour's distance from the ADDRESSES: SHA-256, XOR, decimal detour of convert_distance_to_u256
    match nf.toNat?, fl.toNat?, (parsePeers rest) with
    | some nf, some fl, some ps =>
      some (match deriveRange (fun p => match st.addrs.lookup p.1 with
                                       | some a => convDist t a
                                       | none => p.2) nf fl ps with
        | some b => s!"ok {b}"
        | none => "none")
    | _, _, _ => some "bad-op"
  | _ => none

def stepU (ws : List String) : String :=
  match ws with
  | ["form", k, raw, xor] =>
    match kindOf k, unhex raw, unhex xor with
    | some kind, some r, some x =>
      let a : Addr := { kind, raw := r, xorname := x }
      s!"{hex (asBytes a)} {hex (toRecordKey a)} {hex (asBytes (fromRecordKey (toRecordKey a)))}"
    | _, _, _ => "bad-op"
  | ["distance", ba, bb, ha, hb] =>
    -- the model hashes the address bytes itself (SHA-256 of `Base/Sha256`); the digests on the line are the
    -- harness's (sha2 crate, independent of the code under test) and must be the same numbers
    match unhex ba, unhex bb, ha.toNat?, hb.toNat? with
    | some a, some b, some x, some y =>
      if SafeNet.Sha256.hashNat a ≠ x ∨ SafeNet.Sha256.hashNat b ≠ y then "digest-mismatch"
      else
        let aa : Addr := { kind := .recordKey, raw := a, xorname := [] }
        let ab : Addr := { kind := .recordKey, raw := b, xorname := [] }
        s!"{convert (distSha aa ab)}"
    | _, _, _, _ => "bad-op"
  | "sort" :: n :: rest =>
    match n.toNat?, parsePeers rest with
    | some n, some ps =>
      match sortPeersByKey ps n with
      | some r => tagNats "ok" (r.map (·.1))
      | none => "err notenough"
    | _, _ => "bad-op"
  | "inrange" :: r :: rest =>
    match r.toNat?, parsePeers rest with
    | some r, some ps => tagNats "ok" ((getPeersInRange ps r).map (·.1))
    | _, _ => "bad-op"
  | "closest" :: n :: r :: rest =>
    match optNat n, optNat r, parsePeers rest with
    | some n, some r, some ps => tagNats "ok" ((calcClosest ps n r).map (·.1))
    | _, _, _ => "bad-op"
  | "replcand" :: r :: rest =>
    match optNat r, parsePeers rest with
    | some r, some ps => tagNats "ok" ((replicateCandidates (sortByDist ps) r).map (·.1))
    | _, _ => "bad-op"
  | "proofresp" :: d :: k :: rest =>
    -- Node::respond_x_closest_record_proof: difficulty 1 = the key itself (found or not), else the held chunks nearest the key
    match d.toNat?, optNat k, parsePeers rest with
    | some d, some k, some ps =>
      match respondProof ps k d with
      | .single found => if found then "one found" else "one missing"
      | .nearest l => tagNats "ok" (l.map (·.1))
    | _, _, _ => "bad-op"
  | "derive-range" :: nf :: fl :: rest =>
    -- the interval arm of SwarmDriver::run: the responsible range from the routing table (distances to the node itself)
    match nf.toNat?, fl.toNat?, parsePeers rest with
    | some nf, some fl, some ps =>
      match deriveRange (fun p => p.2) nf fl ps with
      | some b => s!"ok {b}"
      | none => "none"
    | _, _, _ => "bad-op"
  | "closegroup" :: c :: me :: rest =>
    match c.toNat?, me.toNat?, parsePeers rest with
    | some c, some me, some ps =>
      match closeGroupSelect ps me (c != 0) with
      | some r => tagNats "ok" (r.map (·.1))
      | none => "err notenough"
    | _, _, _ => "bad-op"
  | _ => "bad-op"


def step (st : DSt) (ws : List String) : DSt × String :=
  match ws with
  | "target" :: _ => ({}, "bad-op")
  | "bind" :: tb :: rest =>
    -- distances from the target to every listed peer, from the raw address bytes through the model's SHA-256
    match unhex tb, parseBinds rest with
    | some t, some bs =>
      let ta : Addr := { kind := .recordKey, raw := t, xorname := [] }
      let as := bs.map (fun (i, b) => (i, ({ kind := .recordKey, raw := b, xorname := [] } : Addr)))
      let ds := as.map (fun (i, a) => (i, convert (distSha ta a)))
      ({ target := some ta, addrs := as, ds := ds },
        if ds.isEmpty then "-" else " ".intercalate (ds.map (fun (i, d) => s!"{i}:{d}")))
    | _, _ => (st, "bad-op")
  | op :: rest =>
    if op ∈ ["sort", "inrange", "closest", "replcand", "closegroup", "proofresp", "derive-range"] then
      -- the `id:dist` pairs are the trailing words of every peer-list op
      let pairs := (rest.filter (fun w => w.contains ':')).filterMap (fun w =>
        match w.splitOn ":" with
        | [a, b] => match a.toNat?, b.toNat? with
          | some x, some y => some (x, y)
          | _, _ => none
        | _ => none)
      if boundOk st pairs then
        let num := stepU ws
        -- after a `bind`: the address-level definition decides; it must agree with the number-level one on the
        -- line's distances (Lean: `sort_addr_is_sort_of_distances` etc.)
        match st.target.bind (fun t => stepAddr st t ws) with
        | some a => (st, if a == num then a else s!"addr-num-mismatch addr=[{a}] num=[{num}]")
        | none => (st, num)
      else (st, "unbound-dist")
    else (st, stepU ws)
  | [] => (st, stepU ws)

/-- model search: small checks of the regenerated definitions against the XOR metric -/
def searchCandidates : List String := Id.run do
  let mut out : List String := []
  -- convert must be the identity
  for n in [0, 1, 9, 10, 255, 256, 2 ^ 64, 2 ^ 128 + 7, 2 ^ 255, 2 ^ 256 - 1] do
    if convert n ≠ n then out := out ++ [s!"# convert {n} = {convert n} in the model"]
  return out

end SafeNet.Driver.Distance
