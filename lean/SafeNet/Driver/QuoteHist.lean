import SafeNet.Driver.Util
import SafeNet.Model.QuoteHist
/-!
Driver for the quote-history model (C13, component `quotehist`).
* `reset`                                             → `ok` (fresh driver)
* `deliver (<peer> <offset ns> <live> <paid>)+`       → one `QuoteVerification` batch; output per *distinct peer of the
  batch in order of first appearance*: `p<peer>:hist=<offset>/<live>/<paid>|none,flagged=<bool>` joined by spaces
Timestamps are `base + offset` where `base` is the harness's clock reading at start; the model's clock is `base`.
-/
namespace SafeNet.Driver.QuoteHist
open SafeNet.Quote SafeNet.QuoteHist

def baseNs : Int := 10000000000000000000

def parseQuotes : List String → Option (List (Nat × Hist))
  | [] => some []
  | p :: o :: l :: c :: rest => do
    let p ← p.toNat?; let o ← o.toInt?; let l ← l.toNat?; let c ← c.toNat?
    let tl ← parseQuotes rest
    some ((p, ⟨(baseNs + o).toNat, l, c⟩) :: tl)
  | _ => none

def showPeer (st : State) (p : Nat) : String :=
  let s := st.get p
  let h := match s.history with
    | none => "none"
    | some h => s!"{(h.ts : Int) - baseNs}/{h.liveTime}/{h.paid}"
  s!"p{p}:hist={h},flagged={if s.flagged then "true" else "false"}"

def step (st : State) (ws : List String) : State × String :=
  match ws with
  | ["reset"] => ([], "ok")
  | "deliver" :: rest =>
    match parseQuotes rest with
    | some qs =>
      if qs.isEmpty then (st, "bad-op") else
      let st' := deliverAll st baseNs.toNat qs
      let peers := (qs.map (·.1)).eraseDups
      (st', " ".intercalate (peers.map (showPeer st')))
    | none => (st, "bad-op")
  | _ => (st, "bad-op")

/-- Model search (used when a proof obligation broke): two-quote histories of one peer, both arrival orders, where the
later quote claims fewer payments / less uptime; printed when the model does not flag them. -/
def searchCandidates : List String := Id.run do
  let s : Int := 1000000000
  let mut out : List String := []
  let pairs : List (Hist × Hist × String × String) :=
    [ (⟨(baseNs - 200 * s).toNat, 10, 10⟩, ⟨(baseNs - 100 * s).toNat, 10, 5⟩, s!"{-200 * s} 10 10", s!"{-100 * s} 10 5"),
      (⟨(baseNs - 200 * s).toNat, 10, 10⟩, ⟨(baseNs - 100 * s).toNat, 4, 10⟩, s!"{-200 * s} 10 10", s!"{-100 * s} 4 10"),
      (⟨(baseNs - 200 * s).toNat, 10, 10⟩, ⟨(baseNs - 100 * s).toNat, 500, 10⟩, s!"{-200 * s} 10 10", s!"{-100 * s} 500 10") ]
  for (a, b, ta, tb) in pairs do
    let now := baseNs.toNat
    if !(deliver (deliver .empty a now) b now).flagged then out := out ++ ["reset", s!"deliver 1 {ta}", s!"deliver 1 {tb}"]
    if !(deliver (deliver .empty b now) a now).flagged then out := out ++ ["reset", s!"deliver 1 {tb}", s!"deliver 1 {ta}"]
  return out

end SafeNet.Driver.QuoteHist
