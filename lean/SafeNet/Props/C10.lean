import SafeNet.Base.Sha256
import SafeNet.Proofs.StoreCap
import SafeNet.Proofs.StoreCapCrash
import SafeNet.Proofs.StoreFlush
import SafeNet.Proofs.StoreFault
/-!
# C10 — store capacity, distance-based eviction and quoting metrics are exact

Statements over `SafeNet.Store` (model of `record_store.rs`, shared with C01/C02).  `dist` is the XOR
distance of a key to the node, supplied as data; `Injective dist` is the stated assumption (SHA-256).
-/
namespace SafeNet.Props.C10
open SafeNet.Store

/-- **The three views of the held set agree**, after every history and schedule (crashes and
reopenings included): the distance index is exactly `{(dist k, k) | k listed}` (no duplicates), and
`farthest_record` is the listed key of maximal distance (absent iff nothing is listed). -/
theorem views_agree (cfg : Cfg) (dist : Nat → Nat) (inj : Injective dist) (ops : List Op) :
    let s := run cfg dist ops
    (∀ d k, (d, k) ∈ s.byDist ↔ (k ∈ keys s.index ∧ d = dist k)) ∧
    (s.byDist.map (·.2)).Perm (keys s.index) ∧ (keys s.index).Nodup ∧
    (match s.farthest with
      | none => s.index = []
      | some (f, fd) => f ∈ keys s.index ∧ fd = dist f ∧ ∀ k ∈ keys s.index, dist k ≤ fd) := by
  have h := Views.run cfg inj ops
  refine ⟨?_, h.perm, h.nodup, ?_⟩
  · intro d k
    constructor
    · intro hm
      refine ⟨h.perm.mem_iff.mp (List.mem_map.mpr ⟨_, hm, rfl⟩), h.dOK _ hm⟩
    · rintro ⟨hk, rfl⟩
      obtain ⟨e, he, rfl⟩ := List.mem_map.mp (h.perm.mem_iff.mpr hk)
      have := h.dOK e he
      rw [← this]
      exact he
  · have := h.far
    cases hf : (run cfg dist ops).farthest with
    | none => rw [hf] at this; exact this
    | some p => obtain ⟨f, fd⟩ := p; rw [hf] at this; exact this

/-- The same for the distance the code computes — the XOR of the SHA-256 digests (`Base/Sha256`) of the record key's
bytes and of this node's peer-id bytes, which is the number on every `key` line of the correspondence run (the driver
recomputes it) — over any FINITE key universe `U` on which SHA-256 has no collision and key bytes are distinct (both
hypotheses speak about `U` only: a global "SHA-256 is injective" is false of any function into 256 bits). Keys outside
`U` are given distances beyond 2^256 so that the metric is total; histories over `U` never see them. -/
theorem views_agree_sha (cfg : Cfg) (U : List Nat) (keyBytes : Nat → List Nat) (self : List Nat)
    (hkeys : ∀ a ∈ U, ∀ b ∈ U, keyBytes a = keyBytes b → a = b)
    (hsha : ∀ a ∈ U, ∀ b ∈ U,
      SafeNet.Sha256.hashNat (keyBytes a) = SafeNet.Sha256.hashNat (keyBytes b) → keyBytes a = keyBytes b)
    (ops : List Op) :
    let dist := fun k => if k ∈ U then SafeNet.Sha256.hashNat (keyBytes k) ^^^ SafeNet.Sha256.hashNat self else 2 ^ 256 + k
    let s := run cfg dist ops
    (∀ k ∈ U, dist k = SafeNet.Sha256.hashNat (keyBytes k) ^^^ SafeNet.Sha256.hashNat self) ∧
    (∀ d k, (d, k) ∈ s.byDist ↔ (k ∈ keys s.index ∧ d = dist k)) ∧
    (match s.farthest with
      | none => s.index = []
      | some (f, fd) => f ∈ keys s.index ∧ fd = dist f ∧ ∀ k ∈ keys s.index, dist k ≤ fd) := by
  intro dist s
  have hlt : ∀ k, SafeNet.Sha256.hashNat (keyBytes k) ^^^ SafeNet.Sha256.hashNat self < 2 ^ 256 :=
    fun k => Nat.xor_lt_two_pow (SafeNet.Sha256.hashNat_lt _) (SafeNet.Sha256.hashNat_lt _)
  have inj : Injective dist := by
    intro a b h
    by_cases ha : a ∈ U <;> by_cases hb : b ∈ U
    · have h1 : SafeNet.Sha256.hashNat (keyBytes a) ^^^ SafeNet.Sha256.hashNat self =
          SafeNet.Sha256.hashNat (keyBytes b) ^^^ SafeNet.Sha256.hashNat self := by simpa [dist, ha, hb] using h
      have h' : SafeNet.Sha256.hashNat (keyBytes a) = SafeNet.Sha256.hashNat (keyBytes b) := by
        have := congrArg (· ^^^ SafeNet.Sha256.hashNat self) h1
        simpa [Nat.xor_assoc, Nat.xor_self] using this
      exact hkeys a ha b hb (hsha a ha b hb h')
    · have h1 : SafeNet.Sha256.hashNat (keyBytes a) ^^^ SafeNet.Sha256.hashNat self = 2 ^ 256 + b := by
        simpa [dist, ha, hb] using h
      have := hlt a
      omega
    · have h1 : 2 ^ 256 + a = SafeNet.Sha256.hashNat (keyBytes b) ^^^ SafeNet.Sha256.hashNat self := by
        simpa [dist, ha, hb] using h
      have := hlt b
      omega
    · have h1 : 2 ^ 256 + a = 2 ^ 256 + b := by simpa [dist, ha, hb] using h
      omega
  have h := views_agree cfg dist inj ops
  exact ⟨fun k hk => by simp [dist, hk], h.1, h.2.2.2⟩

/-- the hypotheses of `views_agree_sha` are satisfiable: a two-key universe with distinct one-byte keys whose digests
differ (checked by evaluation of the definition) -/
example : ∀ a ∈ [1, 2], ∀ b ∈ [1, 2], (fun k : Nat => [k]) a = (fun k : Nat => [k]) b → a = b := by
  intro a _ b _ h; simpa using h

/-- **The at-capacity decision**, in any state whose views agree (every reachable state, by `views_agree`):
with at least `max_records` listed, a `put_verified` of an unlisted key that is not answered from the
cache is accepted iff it is not farther than the farthest listed key `f`; then exactly `f` leaves the
index (and one write is queued); otherwise the result is `MaxRecords` and index, distance index,
farthest record and pending tasks are unchanged. -/
theorem at_capacity_decision (cfg : Cfg) (dist : Nat → Nat) (s : St) (hv : Views dist s) (k v : Nat) (rt : RType)
    (hfull : cfg.maxRecords ≤ s.index.length) (hmiss : (lookup k s.cache).map (·.1) ≠ some v) :
    let r := putVerified cfg dist s k v rt
    match s.farthest with
    | none => s.index = [] ∧ r.2 = .ok ∧ r.1.index = []
    | some (f, _) =>
      f ∈ keys s.index ∧ (∀ k' ∈ keys s.index, dist k' ≤ dist f) ∧
      if dist k ≤ dist f then
        r.2 = .ok ∧ r.1.index = erase f s.index ∧ (∃ id, (id, Task.write k v rt) ∈ r.1.tasks)
      else
        r.2 = .maxRecords ∧ r.1.index = s.index ∧ r.1.byDist = s.byDist ∧ r.1.farthest = s.farthest ∧
          r.1.tasks = s.tasks ∧ r.1.disk = s.disk := by
  have hfar := hv.far
  have hnl : ¬ s.index.length < cfg.maxRecords := by omega
  cases hf : s.farthest with
  | none =>
    rw [hf] at hfar
    simp only [FarOK] at hfar
    simp [putVerified, hmiss, prune, hf, hfar]
  | some p =>
    obtain ⟨f, fd⟩ := p
    rw [hf] at hfar
    simp only [FarOK] at hfar
    obtain ⟨hfm, hfd, hmax⟩ := hfar
    subst hfd
    refine ⟨hfm, hmax, ?_⟩
    by_cases hle : dist k ≤ dist f
    · have hr : refuses (dist f) (dist k) = false := by
        cases h : refuses (dist f) (dist k) with
        | false => rfl
        | true => have := refuses_iff.mp h; omega
      simp [putVerified, hmiss, prune, hf, hnl, hr, hle, removeKey]
    · have hr : refuses (dist f) (dist k) = true := refuses_iff.mpr (by omega)
      simp [putVerified, hmiss, prune, hf, hnl, hr, hle]

/-- the decision for reachable states -/
theorem at_capacity_decision_reachable (cfg : Cfg) (dist : Nat → Nat) (inj : Injective dist) (ops : List Op)
    (k v : Nat) (rt : RType) (hfull : cfg.maxRecords ≤ (run cfg dist ops).index.length)
    (hmiss : (lookup k (run cfg dist ops).cache).map (·.1) ≠ some v) (f fd : Nat)
    (hf : (run cfg dist ops).farthest = some (f, fd)) :
    let r := putVerified cfg dist (run cfg dist ops) k v rt
    (dist k ≤ dist f → r.2 = .ok ∧ r.1.index = erase f (run cfg dist ops).index) ∧
    (dist f < dist k → r.2 = .maxRecords ∧ r.1.index = (run cfg dist ops).index) := by
  have h := at_capacity_decision cfg dist _ (Views.run cfg inj ops) k v rt hfull hmiss
  rw [hf] at h
  simp only at h
  obtain ⟨_, _, h⟩ := h
  constructor
  · intro hle; rw [if_pos hle] at h; exact ⟨h.1, h.2.1⟩
  · intro hlt; rw [if_neg (by omega)] at h; exact ⟨h.1, h.2.1⟩

/-! ## clean-up -/

theorem mem_insertSorted {e x : Nat × Nat} {l : List (Nat × Nat)} : x ∈ insertSorted e l ↔ x = e ∨ x ∈ l := by
  induction l with
  | nil => simp [insertSorted]
  | cons y ys ih =>
    simp only [insertSorted]
    split
    · simp
    · simp only [List.mem_cons, ih]
      constructor
      · rintro (h | h | h)
        · exact .inr (.inl h)
        · exact .inl h
        · exact .inr (.inr h)
      · rintro (h | h | h)
        · exact .inr (.inl h)
        · exact .inl h
        · exact .inr (.inr h)

theorem mem_sortByFst {x : Nat × Nat} {l : List (Nat × Nat)} : x ∈ sortByFst l ↔ x ∈ l := by
  induction l with
  | nil => simp [sortByFst]
  | cons y ys ih => simp [sortByFst, mem_insertSorted, ih]

theorem foldl_removeKey_index (dist : Nat → Nat) (ks : List Nat) (s : St) :
    (ks.foldl (removeKey dist) s).index = s.index.filter (fun e => !ks.contains e.1) := by
  induction ks generalizing s with
  | nil => exact (List.filter_eq_self.mpr (by simp)).symm
  | cons k ks ih =>
    rw [List.foldl_cons, ih]
    simp only [removeKey, erase, List.filter_filter]
    apply List.filter_congr
    intro e _
    simp only [List.contains_cons]
    cases h1 : (e.1 != k) <;> cases h2 : ks.contains e.1 <;> simp_all [bne]

/-- **Clean-up is exact**: it applies only from `cleanupMin` listed records on (`MAX_RECORDS_COUNT / 10`
in the shipped build) and only when a responsible range is set; then exactly the records with
`dist k ≥ range` leave the index; otherwise nothing changes. -/
theorem cleanup_exact (cfg : Cfg) (dist : Nat → Nat) (s : St) (hv : Views dist s) :
    (cleanup cfg dist s).index =
      match s.range with
      | none => s.index
      | some r => if s.index.length < cfg.cleanupMin then s.index else s.index.filter (fun e => decide (dist e.1 < r)) := by
  unfold cleanup
  by_cases hlen : s.index.length < cfg.cleanupMin
  · simp only [hlen, ↓reduceIte]
    cases s.range <;> rfl
  · simp only [hlen, ↓reduceIte]
    cases hr : s.range with
    | none => rfl
    | some r =>
      simp only
      rw [foldl_removeKey_index]
      apply List.filter_congr
      intro e he
      have hk : e.1 ∈ keys s.index := List.mem_map.mpr ⟨e, he, rfl⟩
      by_cases hd : dist e.1 < r
      · simp only [hd, decide_true, Bool.not_eq_eq_eq_not, Bool.not_true, List.contains_eq_mem,
          decide_eq_false_iff_not, List.mem_map, not_exists, not_and]
        intro x hx hx2
        have hx' := (List.mem_filter.mp (mem_sortByFst.mp hx))
        have := hv.dOK x hx'.1
        have hb := beyond_iff.mp hx'.2
        rw [this, hx2] at hb
        omega
      · simp only [hd, decide_false, Bool.not_eq_eq_eq_not, Bool.not_false, List.contains_eq_mem,
          decide_eq_true_eq, List.mem_map]
        obtain ⟨x, hx, hx2⟩ := List.mem_map.mp (hv.perm.mem_iff.mpr hk)
        refine ⟨x, mem_sortByFst.mpr (List.mem_filter.mpr ⟨hx, beyond_iff.mpr ?_⟩), hx2⟩
        rw [hv.dOK x hx, hx2]; omega

/-- the shipped threshold -/
example : (Cfg.shipped 0 1).cleanupMin = 1638 := by decide

/-! ## quoting metrics -/

/-- **The quoted figures are exact**: records held within the responsible range (all held records when no
range is set), the configured capacity, the payment counter, and whether the key is held. -/
theorem metrics_exact (cfg : Cfg) (dist : Nat → Nat) (s : St) (hv : Views dist s) (k : Nat) :
    let m := metrics cfg s k
    m.close = (match s.range with
      | some r => (s.index.filter (fun e => decide (dist e.1 < r))).length
      | none => s.index.length) ∧
    m.max = cfg.maxRecords ∧ m.paid = s.payments ∧ (m.stored = true ↔ k ∈ keys s.index) ∧ m.density = s.range := by
  refine ⟨?_, rfl, rfl, ?_, rfl⟩
  · simp only [metrics]
    cases s.range with
    | none => rfl
    | some r =>
      simp only
      rw [hv.count_byDist (fun d => within d r)]
      congr 1
  · simp only [metrics, contains]
    exact lookup_isSome_iff

/-- `metrics_exact` after **any** history and schedule (crashes and reopenings included). -/
theorem metrics_exact_reachable (cfg : Cfg) (dist : Nat → Nat) (inj : Injective dist) (ops : List Op) (k : Nat) :
    let s := run cfg dist ops
    let m := metrics cfg s k
    m.close = (match s.range with
      | some r => (s.index.filter (fun e => decide (dist e.1 < r))).length
      | none => s.index.length) ∧
    m.max = cfg.maxRecords ∧ m.paid = s.payments ∧ (m.stored = true ↔ k ∈ keys s.index) ∧ m.density = s.range :=
  metrics_exact cfg dist _ (Views.run cfg inj ops) k

/-- `cleanup_exact` after **any** history and schedule. -/
theorem cleanup_exact_reachable (cfg : Cfg) (dist : Nat → Nat) (inj : Injective dist) (ops : List Op) :
    (cleanup cfg dist (run cfg dist ops)).index =
      match (run cfg dist ops).range with
      | none => (run cfg dist ops).index
      | some r =>
        if (run cfg dist ops).index.length < cfg.cleanupMin then (run cfg dist ops).index
        else (run cfg dist ops).index.filter (fun e => decide (dist e.1 < r)) :=
  cleanup_exact cfg dist _ (Views.run cfg inj ops)

def countPayments : List Op → Nat
  | [] => 0
  | .payment :: ops => countPayments ops + 1
  | _ :: ops => countPayments ops

def noCrash : List Op → Bool
  | [] => true
  | .crash _ :: _ => false
  | _ :: ops => noCrash ops

theorem foldl_removeKey_payments (dist : Nat → Nat) (ks : List Nat) (s : St) :
    (ks.foldl (removeKey dist) s).payments = s.payments := by
  induction ks generalizing s with
  | nil => rfl
  | cons k ks ih => rw [List.foldl_cons, ih]; rfl

theorem payments_runFrom (cfg : Cfg) (dist : Nat → Nat) (ops : List Op) (s : St) (h : noCrash ops = true) :
    (runFrom cfg dist s ops).payments = s.payments + countPayments ops := by
  induction ops generalizing s with
  | nil => simp [runFrom, countPayments]
  | cons op ops ih =>
    cases op with
    | crash t => simp [noCrash] at h
    | payment =>
      simp only [runFrom, countPayments]
      rw [ih _ (by simpa [noCrash] using h)]
      simp only [step, payment_eq, paymentSync]; omega
    | put k v rt =>
      simp only [runFrom, countPayments]
      rw [ih _ (by simpa [noCrash] using h)]
      congr 1
      simp only [step, putVerified]
      split
      · rfl
      · split
        · rfl
        · rename_i s2 hs2
          simp only [prune] at hs2
          split at hs2
          · cases hs2; rfl
          · split at hs2
            · cases hs2; rfl
            · split at hs2
              · cases hs2
              · cases hs2; rfl
    | remove k =>
      simp only [runFrom, countPayments]
      rw [ih _ (by simpa [noCrash] using h)]; rfl
    | run id =>
      simp only [runFrom, countPayments]
      rw [ih _ (by simpa [noCrash] using h)]
      congr 1
      simp only [step, runTask]
      split
      · rfl
      · split
        · split <;> rfl
        · rfl
    | deliver id =>
      simp only [runFrom, countPayments]
      rw [ih _ (by simpa [noCrash] using h)]
      congr 1
      simp only [step, deliver]
      split
      · rfl
      · split <;> rfl
    | setRange r =>
      simp only [runFrom, countPayments]
      rw [ih _ (by simpa [noCrash] using h)]; rfl
    | cleanup =>
      simp only [runFrom, countPayments]
      rw [ih _ (by simpa [noCrash] using h)]
      congr 1
      simp only [step, cleanup]
      split
      · rfl
      · split
        · rfl
        · exact foldl_removeKey_payments dist _ s

/-- **The payment counter is exact** between restarts: it counts the `payment_received` calls. -/
theorem payments_exact (cfg : Cfg) (dist : Nat → Nat) (ops : List Op) (h : noCrash ops = true) :
    (run cfg dist ops).payments = countPayments ops := by
  show (runFrom cfg dist (init cfg dist) ops).payments = _
  rw [payments_runFrom cfg dist ops (init cfg dist) h]
  simp [init, restart]

/-- what rs2lean read from `flush_historic_quoting_metrics`: the count is written to the metrics file in place, inside
`payment_received` / `with_config` — no spawned task carries a captured count (the model's `payment` and `restart`
follow this flag) -/
theorem flush_is_synchronous : Gen.Store.flushSynchronous = true := by decide

/-- **Payments survive a restart** when the metrics file holds the count: the reopened store reports what the file
holds (and it always holds the count — `payments_survive_restart_history`). -/
theorem payments_survive_restart (cfg : Cfg) (dist : Nat → Nat) (s : St) (torn : List (Nat × Nat))
    (hok : torn.all (tearOk s) = true) (hflushed : s.hist = some s.payments) :
    (step cfg dist s (.crash torn)).1.payments = s.payments := by
  simp [step, hok, restart, hflushed]

/-- The clause "payments received, which survive restarts": after ANY history — any completion order of the
spawned tasks, anything pending — a stop (with any torn writes) and restart reports exactly the payments received. -/
def PaymentsSurviveRestart : Prop :=
  ∀ (cfg : Cfg) (dist : Nat → Nat) (ops : List Op) (torn : List (Nat × Nat)),
    torn.all (tearOk (run cfg dist ops)) = true →
    (step cfg dist (run cfg dist ops) (.crash torn)).1.payments = (run cfg dist ops).payments

/-- **Payments survive a restart, after any history** — no hypothesis on the schedule: the metrics file is written in
place, so in every reachable state it holds the current count and no flush is pending (`FlushInv.run`). (Before the
repair of `flush_historic_quoting_metrics` this needed the flush tasks to complete in spawn order: two spawned
flushes completing out of order left the older count on disk — `spawned_flush_witness`.) -/
theorem payments_survive_restart_history : PaymentsSurviveRestart := by
  intro cfg dist ops torn hok
  exact payments_survive_restart cfg dist _ torn hok (FlushInv.run cfg dist ops).file

theorem payments_step (cfg : Cfg) (dist : Nat → Nat) (s : St) (h : FlushInv s) (op : Op) :
    (step cfg dist s op).1.payments = s.payments + countPayments [op] := by
  cases hop : op with
  | crash torn =>
    simp only [step, countPayments, Nat.add_zero]
    split
    · rw [show (restart cfg dist (crashDisk s torn) s.hist s.nextId).payments = s.hist.getD 0 from rfl, h.file]; rfl
    · rfl
  | _ =>
    have := payments_runFrom cfg dist [op] s (by subst hop; rfl)
    simpa [runFrom, hop] using this

theorem countPayments_cons (op : Op) (ops : List Op) : countPayments (op :: ops) = countPayments [op] + countPayments ops := by
  cases op <;> simp [countPayments] <;> omega

/-- **The payment counter is exact across restarts**: after any history, crashes and reopenings included, it counts
the `payment_received` calls since the node's first start. -/
theorem payments_exact_with_restarts (cfg : Cfg) (dist : Nat → Nat) (ops : List Op) :
    (run cfg dist ops).payments = countPayments ops := by
  have key : ∀ (ops : List Op) (s : St), FlushInv s → (runFrom cfg dist s ops).payments = s.payments + countPayments ops := by
    intro ops
    induction ops with
    | nil => intro s _; simp [runFrom, countPayments]
    | cons op ops ih =>
      intro s hs
      simp only [runFrom]
      rw [ih _ (hs.step cfg dist op), payments_step cfg dist s hs op, countPayments_cons op ops]
      omega
  have := key ops (init cfg dist) (FlushInv.init cfg dist)
  simpa [run, init, restart] using this

/-- **The clause depends on the generated flag**: with the flush as a spawned task carrying the count captured at spawn
time (the source before the repair), two payments whose flush tasks complete out of order leave the OLDER count in the
metrics file with nothing pending, and the restarted node signs 1 payment although it received 2. -/
theorem spawned_flush_witness :
    let cfg := Cfg.shipped 4 2
    let d : Nat → Nat := fun k => k
    let s := paymentSpawned (paymentSpawned (init cfg d))
    let s' := (runTask (runTask s 2).1 1).1
    s'.payments = 2 ∧ s'.tasks = [] ∧ s'.hist = some 1 ∧ (restart cfg d s'.disk s'.hist s'.nextId).payments = 1 := by
  decide

/-- non-vacuity: two payments, other tasks completing in any order, stop and restart: both payments are still counted -/
example :
    let cfg := Cfg.shipped 4 2
    let d : Nat → Nat := fun k => k
    (run cfg d [.payment, .put 1 3 .chunk, .payment, .run 2, .crash []]).payments = 2 ∧
    (run cfg d [.payment, .payment]).hist = some 2 ∧ (run cfg d [.payment, .payment]).tasks = [] := by
  decide

/-- completion notifications wait for room on the command channel instead of being dropped (regenerated from
`send_local_swarm_cmd`): every acknowledged write reaches `mark_as_stored`, which the counts above rely on -/
theorem notifications_not_dropped : Gen.Store.notificationSenderWaits = true := by decide

/-! ## capacity -/

/-- The unrestricted capacity bound: with nothing in flight, no more than `max_records` are held. -/
def CapacityBound : Prop :=
  ∀ (cfg : Cfg) (dist : Nat → Nat) (ops : List Op), Injective dist →
    (run cfg dist ops).tasks = [] → (run cfg dist ops).notes = [] →
    (run cfg dist ops).index.length ≤ max cfg.maxRecords 1

def overrunOps : List Op :=
  [.run 0, .put 1 3 .chunk, .put 2 6 .chunk, .put 3 9 .chunk, .put 4 12 .chunk,
   .run 1, .run 2, .run 3, .run 4, .deliver 1, .deliver 2, .deliver 3, .deliver 4]

/-- **K-h.** `max_records = 2`, four unacknowledged puts, then every write completes and every
notification is handled ⇒ four records held with nothing in flight. -/
theorem capacity_overrun_witness :
    let s := run (Cfg.shipped 2 5) (fun k => k) overrunOps
    s.tasks = [] ∧ s.notes = [] ∧ s.index.length = 4 := by
  decide

theorem capacityBound_false : ¬ CapacityBound := by
  intro h
  have w := capacity_overrun_witness
  have := h (Cfg.shipped 2 5) (fun k => k) overrunOps (fun a b e => e) w.1 w.2.1
  rw [w.2.2] at this
  exact absurd this (by decide)

/-- **Capacity bound (partial).** Missing hypothesis of the full statement: every put happens with no
write or notification in flight (each accepted put is acknowledged before the next put) and the node is
not restarted. Then listed records plus writes/notifications in flight never exceed
`max max_records 1`, in every state of the history. -/
theorem capacity_bound_partial (cfg : Cfg) (dist : Nat → Nat) (inj : Injective dist) (ops : List Op)
    (h : AckBeforePut cfg dist (init cfg dist) ops) :
    (run cfg dist ops).index.length + inflight (run cfg dist ops) ≤ max cfg.maxRecords 1 :=
  CapInv.runFrom inj ops (Views.init cfg inj) (CapInv.init cfg dist) h

/-- The capacity clause for histories in which every accepted put is acknowledged before the next put, restarts
allowed: listed records plus writes / notifications in flight stay within the capacity. FALSE of the code. -/
def CapacityBoundAcked : Prop :=
  ∀ (cfg : Cfg) (dist : Nat → Nat) (ops : List Op), Injective dist → AckBeforePutC cfg dist (init cfg dist) ops →
    (run cfg dist ops).index.length + inflight (run cfg dist ops) ≤ max cfg.maxRecords 1

/-- capacity 1, every put acknowledged: key 5 stored; key 2 (closer) stored, which evicts key 5 — its file deletion is
a pending task; the write of key 2 completes and is acknowledged; the node stops before the delete task runs -/
def restartOverrunOps : List Op :=
  [.put 5 3 .chunk, .run 1, .deliver 1, .put 2 6 .chunk, .run 3, .deliver 3, .crash []]

/-- the same without an eviction (what the harness can schedule on the real code: tasks spawned by one store call run
in spawn order there): key 1 stored, removed (file deletion pending), key 2 stored, stop -/
def restartOverrunOps' : List Op :=
  [.put 1 3 .chunk, .run 1, .deliver 1, .remove 1, .put 2 6 .chunk, .run 3, .deliver 3, .crash []]

/-- **K-v.** `max_records = 1`, every put acknowledged before the next, one pending file deletion lost in the stop:
the restarted node lists two records with nothing in flight (the start-up scan re-indexes every decryptable file and
does not enforce `max_records`). -/
theorem restart_overrun_witness :
    let s := run (Cfg.shipped 1 5) (fun k => k) restartOverrunOps
    let s' := run (Cfg.shipped 1 5) (fun k => k) restartOverrunOps'
    s.tasks = [] ∧ s.notes = [] ∧ keys s.index = [2, 5] ∧ s'.tasks = [] ∧ s'.notes = [] ∧ keys s'.index = [2, 1] ∧
    lostDeletes (Cfg.shipped 1 5) (fun k => k) (init (Cfg.shipped 1 5) (fun k => k)) restartOverrunOps = 1 ∧
    lostDeletes (Cfg.shipped 1 5) (fun k => k) (init (Cfg.shipped 1 5) (fun k => k)) restartOverrunOps' = 1 := by
  decide

theorem restartOverrun_acked :
    AckBeforePutC (Cfg.shipped 1 5) (fun k => k) (init (Cfg.shipped 1 5) (fun k => k)) restartOverrunOps := by
  simp only [AckBeforePutC, restartOverrunOps]
  decide

theorem capacityBoundAcked_false : ¬ CapacityBoundAcked := by
  intro h
  have w := restart_overrun_witness
  have := h (Cfg.shipped 1 5) (fun k => k) restartOverrunOps (fun a b e => e) restartOverrun_acked
  have hl : (run (Cfg.shipped 1 5) (fun k => k) restartOverrunOps).index.length = 2 := by
    have := congrArg List.length w.2.2.1
    simpa [keys] using this
  rw [hl] at this
  exact absurd this (by decide)

/-- **Capacity bound with crashes (partial).** Missing hypothesis of the full statement: every put happens with no write
or notification in flight. The node may stop and restart at any point, tearing any in-flight writes. Then, in every
state of the history, listed records plus writes / notifications in flight never exceed `max max_records 1` **plus the
number of file deletions that were still pending when the node stopped** (`lostDeletes`; each can bring one record
back, because the start-up scan does not enforce `max_records`). The bound is attained (`restart_overrun_witness`). -/
theorem capacity_bound_partial_crashes (cfg : Cfg) (dist : Nat → Nat) (inj : Injective dist) (ops : List Op)
    (h : AckBeforePutC cfg dist (init cfg dist) ops) :
    (run cfg dist ops).index.length + inflight (run cfg dist ops) ≤
      max cfg.maxRecords 1 + lostDeletes cfg dist (init cfg dist) ops := by
  have := CapInvL.runFromC inj ops (Reach.init cfg inj) (CapInv.init cfg dist) h
  simpa [CapInvL, cap, run] using this

/-- without a restart nothing is lost: `capacity_bound_partial` is the case `lostDeletes = 0` -/
theorem lostDeletes_zero_without_restart (cfg : Cfg) (dist : Nat → Nat) (ops : List Op)
    (h : AckBeforePut cfg dist (init cfg dist) ops) : lostDeletes cfg dist (init cfg dist) ops = 0 :=
  lostDeletes_of_noCrash h

/-- non-vacuity: an acknowledged history that reaches capacity and evicts -/
example : AckBeforePut (Cfg.shipped 1 2) (fun k => k) (init (Cfg.shipped 1 2) (fun k => k))
    [.run 0, .put 5 3 .chunk, .run 1, .deliver 1, .put 2 6 .chunk, .run 2, .run 3, .deliver 3, .put 9 9 .chunk] := by
  simp only [AckBeforePut]
  decide

/-- **A refused put leaves no trace** (K-u, fixed in `put_verified`): when `put_verified` answers
`MaxRecords`, index, distance index, farthest record, files, pending tasks and notifications are as
before; the cache holds nothing for the refused key and nothing it did not hold before; an unlisted
refused key is neither readable nor listed; and putting it again (any value, any type) is refused again. -/
theorem refused_put_leaves_no_trace (cfg : Cfg) (dist : Nat → Nat) (s : St) (k v : Nat) (rt : RType)
    (h : (putVerified cfg dist s k v rt).2 = .maxRecords) :
    let s' := (putVerified cfg dist s k v rt).1
    s'.index = s.index ∧ s'.byDist = s.byDist ∧ s'.farthest = s.farthest ∧ s'.disk = s.disk ∧
    s'.tasks = s.tasks ∧ s'.notes = s.notes ∧ s'.payments = s.payments ∧ s'.range = s.range ∧
    lookup k s'.cache = none ∧ (∀ e ∈ s'.cache, e ∈ s.cache) ∧
    (lookup k s.index = none → get cfg s' k = none ∧ contains s' k = false) ∧
    (∀ v' rt', (putVerified cfg dist s' k v' rt').2 = .maxRecords) := by
  unfold putVerified at h
  split at h
  · cases h
  · rename_i hmiss
    simp only at h
    split at h
    · rename_i hp
      have hs' : (putVerified cfg dist s k v rt).1 =
          { s with cache := erase k (pushBack cfg.cacheSize (erase k s.cache) s.clock k v), clock := s.clock + 1 } := by
        simp only [putVerified, hmiss, ↓reduceIte, hp]
      rw [hs']
      have hc : lookup k (erase k (pushBack cfg.cacheSize (erase k s.cache) s.clock k v)) = none := lookup_erase_self _ _
      refine ⟨rfl, rfl, rfl, rfl, rfl, rfl, rfl, rfl, hc, ?_, ?_, ?_⟩
      · intro e he
        obtain ⟨he1, he2⟩ := mem_erase.mp he
        rcases mem_pushBack he1 with rfl | he1
        · exact absurd rfl he2
        · exact (mem_erase.mp he1).1
      · intro hl
        simp only [SafeNet.Store.get, hc, hl, contains, Option.isSome_none, and_self]
      · intro v' rt'
        -- the refusal depends only on the index size, the farthest record and the distance of `k`
        unfold prune at hp
        simp only at hp
        split at hp
        · cases hp
        · rename_i hfull
          split at hp
          · cases hp
          · rename_i f fd hf
            split at hp
            · rename_i href
              simp [putVerified, hc, prune, hfull, hf, href]
            · cases hp
    · cases h

/-- the former K-u witness history now refuses the repeated put and serves nothing -/
example :
    let cfg := Cfg.shipped 1 2
    let s := run cfg (fun k => k) [.run 0, .put 1 3 .chunk, .run 1, .deliver 1, .put 2 6 .chunk]
    (putVerified cfg (fun k => k) s 2 6 .chunk).2 = .maxRecords ∧ get cfg s 2 = none ∧ contains s 2 = false ∧
      s.cache = [(1, 3, 0)] := by
  decide

/-! ## non-vacuity -/

/-- at capacity 2 with keys 1 and 3 held: key 2 (closer than 3) is accepted and evicts exactly 3; key 4 (farther)
is refused and nothing changes -/
example :
    let cfg := Cfg.shipped 2 5
    let s := run cfg (fun k => k) [.run 0, .put 1 3 .chunk, .run 1, .deliver 1, .put 3 9 .chunk, .run 2, .deliver 2]
    s.farthest = some (3, 3) ∧
    (putVerified cfg (fun k => k) s 2 6 .chunk).2 = .ok ∧ keys (putVerified cfg (fun k => k) s 2 6 .chunk).1.index = [1] ∧
    (putVerified cfg (fun k => k) s 4 12 .chunk).2 = .maxRecords ∧ (putVerified cfg (fun k => k) s 4 12 .chunk).1.index = s.index := by
  decide

/-- clean-up with threshold 2 and range 2: of the held keys 1, 2, 3 exactly 2 and 3 (distance ≥ 2) go, and one
file deletion per removed key is queued; below the threshold nothing happens -/
example :
    let cfg := { Cfg.shipped 9 5 with cleanupMin := 2 }
    let s := run cfg (fun k => k)
      [.run 0, .put 1 3 .chunk, .put 2 6 .chunk, .put 3 9 .chunk, .run 1, .run 2, .run 3, .deliver 1, .deliver 2, .deliver 3,
       .setRange 2]
    keys (cleanup cfg (fun k => k) s).index = [1] ∧ (cleanup cfg (fun k => k) s).tasks.length = 2 ∧
    (cleanup { cfg with cleanupMin := 4 } (fun k => k) s).index = s.index ∧
    (metrics cfg s 1).close = 1 ∧ (metrics cfg s 1).max = 9 ∧ (metrics cfg s 7).stored = false := by
  decide

/-- payments are counted and survive a restart -/
example :
    let cfg := Cfg.shipped 4 2
    let s := run cfg (fun k => k) [.payment, .payment, .crash []]
    s.payments = 2 ∧ (metrics cfg s 1).paid = 2 := by
  decide

/-- regenerated operators and constants the statements above were proved against -/
example : Gen.Store.pruneRefuseStrict = true ∧ Gen.Store.farthestUpdateStrict = true ∧
    Gen.Store.withinRangeExclusive = true ∧ Gen.Store.cleanupFromInclusive = true ∧
    Gen.Store.maxRecordsCount = 16384 ∧ Gen.Store.cleanupMin = 1638 := by decide

/-! ## capacity accounting with FAILING writes (`Model/StoreFault`) -/

/-- **A failed write is never counted.** The write task that fails touches files and the pending lists only: the record
index, the distance index, the farthest record, the cache, the payment count and therefore every quoting figure are
what they were (a key enters the index only through `AddLocalRecordAsStored`, which a failed write does not send). -/
theorem failed_write_never_counted (cfg : Cfg) (fs : FSt) (id : Nat) (f : Fault) (k : Nat) :
    let s' := (runFail cfg fs id f).1.s
    s'.index = fs.s.index ∧ s'.byDist = fs.s.byDist ∧ s'.farthest = fs.s.farthest ∧
      metrics cfg s' k = metrics cfg fs.s k := by
  have h := runFail_frame cfg fs id f
  simp only at h
  obtain ⟨h1, h2, h3, _, h5, h6, _⟩ := h
  refine ⟨h1, h2, h3, ?_⟩
  simp only [metrics, contains, h1, h2, h5, h6]

/-- **The three views agree after every history with failing writes** (and their handling, which is `remove`). -/
theorem views_agree_faults (cfg : Cfg) (dist : Nat → Nat) (inj : Injective dist) (fops : List FOp) :
    let s := (frun cfg dist fops).s
    (∀ d k, (d, k) ∈ s.byDist ↔ (k ∈ keys s.index ∧ d = dist k)) ∧
    (s.byDist.map (·.2)).Perm (keys s.index) ∧ (keys s.index).Nodup ∧
    (match s.farthest with
      | none => s.index = []
      | some (f, fd) => f ∈ keys s.index ∧ fd = dist f ∧ ∀ k ∈ keys s.index, dist k ≤ fd) := by
  have h : Views dist (frun cfg dist fops).s := Views.frunFrom inj fops (Views.init cfg inj)
  refine ⟨?_, h.perm, h.nodup, ?_⟩
  · intro d k
    constructor
    · intro hm
      refine ⟨h.perm.mem_iff.mp (List.mem_map.mpr ⟨_, hm, rfl⟩), h.dOK _ hm⟩
    · rintro ⟨hk, rfl⟩
      obtain ⟨e, he, rfl⟩ := List.mem_map.mp (h.perm.mem_iff.mpr hk)
      have := h.dOK e he
      rw [← this]
      exact he
  · have := h.far
    cases hf : (frun cfg dist fops).s.farthest with
    | none => rw [hf] at this; exact this
    | some p => obtain ⟨f, fd⟩ := p; rw [hf] at this; exact this

/-- **Capacity bound with failing writes (partial).** Same missing hypothesis as `capacity_bound_partial` — every put
happens with nothing in flight (a `RemoveFailedLocalRecord` not yet handled counts as in flight) and the node is not
restarted. Then listed records plus writes / notifications in flight never exceed `max max_records 1`: a failing write
turns one write in flight into one failure note (or into nothing), its handling removes a key. -/
theorem capacity_bound_partial_faults (cfg : Cfg) (dist : Nat → Nat) (inj : Injective dist) (fops : List FOp)
    (h : AckBeforePutF cfg dist (finit cfg dist) fops) :
    (frun cfg dist fops).s.index.length + inflight (frun cfg dist fops).s ≤ max cfg.maxRecords 1 :=
  CapInv.frunFrom inj fops (Views.init cfg inj) (CapInv.init cfg dist) h

/-- non-vacuity: capacity 1; key 5 stored; key 2 (closer) accepted, evicts 5, and its write FAILS; handled; settled:
nothing is listed (the evicted record is gone as well — the eviction is not undone), nothing in flight -/
example :
    let cfg := Cfg.shipped 1 5
    let d : Nat → Nat := fun k => k
    let fops : List FOp := [.base (.put 5 3 .chunk), .base (.run 1), .base (.deliver 1), .base (.put 2 6 .chunk),
      .base (.run 2), .runFail 3 (.full 0), .base (.deliver 3), .base (.run 4)]
    (frun cfg d fops).s.index = [] ∧ (frun cfg d fops).s.tasks = [] ∧ (frun cfg d fops).s.notes = [] ∧
      keys (frun cfg d fops).s.disk = [] := by
  decide

#print axioms SafeNet.Props.C10.views_agree
#print axioms SafeNet.Props.C10.views_agree_sha
#print axioms SafeNet.Props.C10.at_capacity_decision
#print axioms SafeNet.Props.C10.at_capacity_decision_reachable
#print axioms SafeNet.Props.C10.cleanup_exact
#print axioms SafeNet.Props.C10.metrics_exact
#print axioms SafeNet.Props.C10.metrics_exact_reachable
#print axioms SafeNet.Props.C10.cleanup_exact_reachable
#print axioms SafeNet.Props.C10.payments_exact
#print axioms SafeNet.Props.C10.payments_survive_restart
#print axioms SafeNet.Props.C10.payments_survive_restart_history
#print axioms SafeNet.Props.C10.flush_is_synchronous
#print axioms SafeNet.Props.C10.payments_exact_with_restarts
#print axioms SafeNet.Props.C10.spawned_flush_witness
#print axioms SafeNet.Props.C10.notifications_not_dropped
#print axioms SafeNet.Props.C10.capacity_bound_partial
#print axioms SafeNet.Props.C10.refused_put_leaves_no_trace
#print axioms SafeNet.Props.C10.capacity_overrun_witness
#print axioms SafeNet.Props.C10.capacityBound_false
#print axioms SafeNet.Props.C10.restart_overrun_witness
#print axioms SafeNet.Props.C10.capacityBoundAcked_false
#print axioms SafeNet.Props.C10.capacity_bound_partial_crashes
#print axioms SafeNet.Props.C10.lostDeletes_zero_without_restart
#print axioms SafeNet.Props.C10.failed_write_never_counted
#print axioms SafeNet.Props.C10.views_agree_faults
#print axioms SafeNet.Props.C10.capacity_bound_partial_faults
end SafeNet.Props.C10
