import SafeNet.Proofs.Amount
/-!
# C16 — token amounts: text round-trip and overflow-safe arithmetic

Statements only; helper lemmas live in `SafeNet.Proofs.Amount`.  `parse`, `display`, `checkedAdd`,
`checkedSub` are the model of `ant-evm/src/amount.rs` (`SafeNet.Model.Amount`), instantiated with
the constants / pad width / checked-ness flags that `rs2lean` regenerates from the Rust source
(`SafeNet.Gen.Amount`).  Strings are byte lists; `toChars ds` is the ASCII string of the digits `ds`.
-/
namespace SafeNet.Props.C16
open SafeNet.Dec SafeNet.Amount SafeNet.Gen.Amount

/-- The decimal grammar `digits+ ('.' digits*)?` with explicit digit lists (`u` = integer digits, `f` = the
fractional digits AS WRITTEN, trailing zeros included; the bound "at most 18 fractional digits" is the separate
conjunct `f.length ≤ 18` in the theorems). A whole amount written with a bare trailing point (`"1."`, zero
fractional digits) is in the grammar: the crate's own test-suite asserts `from_str("0.")` / `from_str("1.")`. -/
inductive Grammar : List Nat → List Nat → List Nat → Prop
  | whole (u : List Nat) : Digits u → u ≠ [] → Grammar (toChars u) u []
  | frac (u f : List Nat) : Digits u → u ≠ [] → Digits f → Grammar (toChars u ++ 46 :: toChars f) u f

theorem parse_of_grammar {s u f : List Nat} (g : Grammar s u f) : parse s = parseSpec u f := by
  cases g with
  | whole u hu hne =>
    exact parse_core u [] hu (by simp [Digits]) none rfl _ (splitDot_toChars u)
  | frac u f hu hne hf =>
    exact parse_core u f hu hf (some (toChars f)) rfl _ (splitDot_toChars_dot u _)

/-- Everything `parse` accepts is in the decimal grammar. -/
theorem grammar_of_parse_ok {s : List Nat} {n : Nat} (h : parse s = .ok n) :
    ∃ u f, Grammar s u f := by
  have hspec := splitDot_spec s
  unfold parse parseWith at h
  generalize splitDot s = p at h hspec
  obtain ⟨us, fo⟩ := p
  simp only at h hspec
  by_cases hg : (isDecimal us && !us.isEmpty) = true
  · simp only [hg, Bool.not_true, Bool.false_eq_true, ↓reduceIte] at h
    simp only [Bool.and_eq_true, Bool.not_eq_eq_eq_not, Bool.not_true, List.isEmpty_eq_false_iff] at hg
    obtain ⟨u, hu, rfl⟩ := isDecimal_exists hg.1
    have hne : u ≠ [] := by intro e; apply hg.2; simp [e, toChars]
    cases fo with
    | none =>
      refine ⟨u, [], ?_⟩
      rw [hspec]; simpa using Grammar.whole u hu hne
    | some fs =>
      by_cases hd : isDecimal fs = true
      · obtain ⟨f, hf, rfl⟩ := isDecimal_exists hd
        refine ⟨u, f, ?_⟩
        rw [hspec]; exact Grammar.frac u f hu hne hf
      · exfalso
        simp only [Option.getD_some, hd] at h
        split at h
        · cases h
        · split at h <;> simp at h
  · simp [hg] at h

/-! ## The property -/

/-- **Round trip.** Formatting any 256-bit amount and parsing it back yields the same amount. -/
theorem parse_display (n : Nat) (hn : n < U256) : parse (display n) = .ok n := by
  have hraw : rawConv = 10 ^ 18 := by decide
  have hpad : displayPad = 18 := by decide
  have hu := toDigits_lt (n / rawConv)
  have hr := toDigits_lt (n % rawConv)
  have hrl : (toDigits (n % rawConv)).length ≤ 18 :=
    toDigits_length_le _ 18 (by omega) (by rw [hraw]; exact Nat.mod_lt _ (Nat.pow_pos (by omega)))
  have hflen : (padLeft displayPad (toDigits (n % rawConv))).length = 18 := by
    simp [padLeft, hpad]; omega
  have hfd : Digits (padLeft displayPad (toDigits (n % rawConv))) := by
    intro d hd
    simp only [padLeft, List.mem_append, List.mem_replicate] at hd
    rcases hd with ⟨_, rfl⟩ | hd
    · omega
    · exact hr d hd
  have g : Grammar (display n) (toDigits (n / rawConv)) (padLeft displayPad (toDigits (n % rawConv))) := by
    have : display n = toChars (toDigits (n / rawConv)) ++ 46 :: toChars (padLeft displayPad (toDigits (n % rawConv))) := by
      simp [display]
    rw [this]
    exact Grammar.frac _ _ hu (toDigits_ne_nil _) hfd
  rw [parse_of_grammar g]
  have hval : ofDigits (toDigits (n / rawConv)) * 10 ^ 18
      + ofDigits (padLeft displayPad (toDigits (n % rawConv))) * 10 ^ (18 - (padLeft displayPad (toDigits (n % rawConv))).length) = n := by
    rw [hflen, ofDigits_padLeft, ofDigits_toDigits, ofDigits_toDigits, hraw]
    simp only [Nat.sub_self, Nat.pow_zero, Nat.mul_one]
    rw [Nat.mul_comm]; exact Nat.div_add_mod n (10 ^ 18)
  have := parseSpec_complete (toDigits (n / rawConv)) (padLeft displayPad (toDigits (n % rawConv)))
    (toDigits_ne_nil _) (by omega) (by rw [hval]; exact hn)
  rw [this, hval]

/-- **The printed string is the true value**: integer digits, a dot, then exactly 18 fractional
digits, with `int * 10^18 + frac = n`. -/
theorem display_denotes (n : Nat) :
    ∃ i f, display n = toChars i ++ 46 :: toChars f ∧ Digits i ∧ i ≠ [] ∧ Digits f ∧ f.length = 18 ∧
      ofDigits i * 10 ^ 18 + ofDigits f = n := by
  have hraw : rawConv = 10 ^ 18 := by decide
  have hpad : displayPad = 18 := by decide
  have hr := toDigits_lt (n % rawConv)
  have hrl : (toDigits (n % rawConv)).length ≤ 18 :=
    toDigits_length_le _ 18 (by omega) (by rw [hraw]; exact Nat.mod_lt _ (Nat.pow_pos (by omega)))
  refine ⟨toDigits (n / rawConv), padLeft displayPad (toDigits (n % rawConv)), by simp [display],
    toDigits_lt _, toDigits_ne_nil _, ?_, by simp [padLeft, hpad]; omega, ?_⟩
  · intro d hd
    simp only [padLeft, List.mem_append, List.mem_replicate] at hd
    rcases hd with ⟨_, rfl⟩ | hd
    · omega
    · exact hr d hd
  · rw [ofDigits_padLeft, ofDigits_toDigits, ofDigits_toDigits, hraw, Nat.mul_comm]
    exact Nat.div_add_mod n (10 ^ 18)

/-- **Soundness of parsing**: an accepted string is a decimal string `u[.f]` and the amount is its
exact value: `n / 10^18 = u + f / 10^|f|` (stated without division), and `n` is representable. -/
theorem parse_sound (s : List Nat) (n : Nat) (h : parse s = .ok n) :
    ∃ u f, Grammar s u f ∧ f.length ≤ 18 ∧ n < U256 ∧
      n * 10 ^ f.length = (ofDigits u * 10 ^ f.length + ofDigits f) * 10 ^ 18 := by
  obtain ⟨u, f, g⟩ := grammar_of_parse_ok h
  rw [parse_of_grammar g] at h
  obtain ⟨_, hlt, heq⟩ := parseSpec_sound u f n h
  exact ⟨u, f, g, ((parseSpec_ok_iff u f n).mp h).2.1, hlt, heq⟩

/-- **Parsing accepts exactly** the decimal strings with at most 18 fractional digits (as written) that
denote a representable amount, with exactly that amount — and nothing else. -/
theorem parse_accepts_iff (s : List Nat) (n : Nat) :
    parse s = .ok n ↔
      ∃ u f, Grammar s u f ∧ f.length ≤ 18 ∧
        n = ofDigits u * 10 ^ 18 + ofDigits f * 10 ^ (18 - f.length) ∧ n < U256 := by
  constructor
  · intro h
    obtain ⟨u, f, g⟩ := grammar_of_parse_ok h
    rw [parse_of_grammar g] at h
    obtain ⟨_, hlen, hval, hlt⟩ := (parseSpec_ok_iff u f n).mp h
    exact ⟨u, f, g, hlen, hval, hlt⟩
  · rintro ⟨u, f, g, hlen, hval, hlt⟩
    rw [parse_of_grammar g]
    have hne : u ≠ [] := by cases g <;> assumption
    exact (parseSpec_ok_iff u f n).mpr ⟨hne, hlen, hval, hlt⟩

/-- **More than 18 fractional digits are rejected**, whatever they are (also when the excess digits are all
zeros: `"1.0000000000000000000"`). -/
theorem parse_rejects_over_precise (s u f : List Nat) (g : Grammar s u f) (hlen : 18 < f.length) :
    ∃ e, parse s = .error e := by
  match hp : parse s with
  | .error e => exact ⟨e, rfl⟩
  | .ok n =>
    exfalso
    rw [parse_of_grammar g] at hp
    have := ((parseSpec_ok_iff u f n).mp hp).2.1
    omega

/-- Witness for the shape before the repair (the fraction measured only after trailing zeros were trimmed):
`"1.0000000000000000000"` — 19 fractional digits — was accepted as one whole token. -/
theorem untrimmed_length_unchecked_witness :
    parseWith false ([49, 46] ++ List.replicate 19 48) = .ok 1000000000000000000 := by
  rfl

/-- **Completeness of parsing**: every decimal string with at most 18 fractional digits whose value
is representable is accepted, with exactly that value. -/
theorem parse_complete (s u f : List Nat) (g : Grammar s u f) (hlen : f.length ≤ 18)
    (hV : ofDigits u * 10 ^ 18 + ofDigits f * 10 ^ (18 - f.length) < U256) :
    parse s = .ok (ofDigits u * 10 ^ 18 + ofDigits f * 10 ^ (18 - f.length)) := by
  rw [parse_of_grammar g]
  have hne : u ≠ [] := by cases g <;> assumption
  exact parseSpec_complete u f hne hlen hV

/-- Strings outside the grammar (radix prefixes, `_`, signs, empty units, non-digits …) are rejected. -/
theorem parse_rejects_non_decimal (s : List Nat) (h : ¬ ∃ u f, Grammar s u f) :
    ∃ e, parse s = .error e := by
  match hp : parse s with
  | .ok n => exact absurd (grammar_of_parse_ok hp) h
  | .error e => exact ⟨e, rfl⟩

/-- A representable-looking string whose value does not fit 256 bits is rejected (never wrapped). -/
theorem parse_never_wraps (s u f : List Nat) (g : Grammar s u f) (hlen : f.length ≤ 18)
    (hV : ofDigits u * 10 ^ 18 + ofDigits f * 10 ^ (18 - f.length) ≥ U256) :
    ∃ e, parse s = .error e := by
  match hp : parse s with
  | .error e => exact ⟨e, rfl⟩
  | .ok n =>
    exfalso
    rw [parse_of_grammar g] at hp
    obtain ⟨_, hlt, heq⟩ := parseSpec_sound u f n hp
    -- n * 10^|f| = (u*10^|f| + f) * 10^18  and  10^18 = 10^|f| * 10^(18-|f|)  ⇒  n = value ≥ U256
    have e1 : (10 : Nat) ^ 18 = 10 ^ f.length * 10 ^ (18 - f.length) := pow_split hlen
    have hpos : 0 < 10 ^ f.length := Nat.pow_pos (by omega)
    have : n * 10 ^ f.length = (ofDigits u * 10 ^ 18 + ofDigits f * 10 ^ (18 - f.length)) * 10 ^ f.length := by
      rw [heq, e1]
      simp only [Nat.add_mul]
      simp [Nat.mul_assoc, Nat.mul_comm, Nat.mul_left_comm]
    have := Nat.eq_of_mul_eq_mul_right hpos this
    omega

/-- **Checked addition** returns the exact sum or reports overflow; never a wrapped value. -/
theorem checked_add_exact (a b : Nat) (_ha : a < U256) (_hb : b < U256) :
    checkedAdd a b = if a + b < U256 then some (a + b) else none := by
  simp [checkedAdd, addIsChecked]

/-- **Checked subtraction** returns the exact difference or reports underflow. -/
theorem checked_sub_exact (a b : Nat) (_ha : a < U256) (_hb : b < U256) :
    checkedSub a b = if b ≤ a then some (a - b) else none := by
  simp [checkedSub, subIsChecked]

/-- the exact sum of the costs is a representable amount -/
def SumRepresentable (xs : List Nat) : Prop := xs.sum < U256

/-- The full statement for the CLI total, for an accumulation `f` that may report overflow: the exact sum when it
is representable, an error (no value) otherwise. Satisfiable — `cli_summary_checked_exact` — and FALSE of the
current code (`+=` on `Amount` wraps and still yields a value), see the witness. -/
def CliSummaryExactOf (f : List Nat → List Nat → Option Nat) : Prop :=
  ∀ l d : List Nat, ((l ++ d).sum < U256 → f l d = some (l ++ d).sum) ∧ (U256 ≤ (l ++ d).sum → f l d = none)

/-- …of the code as it stands (`cliSummaryWith false` = `some (cliSummary ..)`). -/
def CliSummaryExact : Prop := CliSummaryExactOf (cliSummaryWith false)

/-- **CLI totals are exact sums** — under `SumRepresentable`. Whatever the split between events consumed before
and after the completion signal (a scheduling choice of `tokio::select!`), the reported total is the exact sum of
all upload costs, as long as that sum is representable. -/
theorem cli_summary_exact_partial (l d : List Nat) (h : SumRepresentable (l ++ d)) :
    cliSummary l d = (l ++ d).sum := by
  unfold SumRepresentable at h
  have hacc : cliSummaryAccumulates = true := by decide
  have key : ∀ (xs : List Nat) (acc : Nat), acc + xs.sum < U256 →
      xs.foldl (fun (a x : Nat) => (a + x) % U256) acc = acc + xs.sum := by
    intro xs
    induction xs with
    | nil => intro acc _; simp
    | cons x xs ih =>
      intro acc hacc
      simp only [List.foldl_cons, List.sum_cons] at hacc ⊢
      rw [Nat.mod_eq_of_lt (by omega), ih (acc + x) (by omega)]
      omega
  unfold cliSummary
  simp only [hacc, ↓reduceIte, List.sum_append] at h ⊢
  rw [key l 0 (by omega), Nat.zero_add, key d l.sum (by omega)]

/-- Known finding K-s: the running total wraps silently. Two uploads costing 2^256−1 and 1 atto are reported as
a total of 0 (`tokens_spent += …` is ruint's `wrapping_add`). -/
theorem cli_summary_wraps_witness : cliSummary [U256 - 1] [1] = 0 ∧ cliSummary [] [U256 - 1, 1] = 0 := by
  constructor <;> simp [cliSummary, cliSummaryAccumulates, U256]

/-- The refutation isolates the wrap: the only way the current code fails the full statement is by answering a
wrapped value where an error is due (on representable sums it is exact: `cli_summary_exact_partial`). -/
theorem not_cliSummaryExact : ¬ CliSummaryExact := by
  intro h
  have h1 := (h [U256 - 1] [1]).2 (by simp [U256])
  simp [cliSummaryWith] at h1

/-- The statement is satisfiable: a `checked_add` accumulation meets it (so `not_cliSummaryExact` says something
about `+=`, not about every total function below 2^256). -/
theorem cli_summary_checked_exact : CliSummaryExactOf (cliSummaryWith true) := by
  intro l d
  unfold cliSummaryWith
  constructor
  · intro h; rw [if_pos rfl, if_pos h]
  · intro h; rw [if_pos rfl, if_neg (Nat.not_lt.mpr h)]

/-- The current code meets the first half of the full statement (exact when representable) … -/
theorem cli_summary_unchecked_exact_when_representable (l d : List Nat) (h : SumRepresentable (l ++ d)) :
    cliSummaryWith false l d = some (l ++ d).sum := by
  simp [cliSummaryWith, cli_summary_exact_partial l d h]

/-- The full statement for the cost sums (`data_cost`, `vault_cost`, `register_cost`, `file_cost`, the quote prices):
the exact sum, or a reported overflow — FALSE of the current code, see the witness. -/
def CostSumExact : Prop :=
  ∀ xs : List Nat, (xs.sum < U256 → costSum xs = some xs.sum) ∧ (U256 ≤ xs.sum → costSum xs = none)

theorem foldl_wrapping_exact (xs : List Nat) (acc : Nat) (h : acc + xs.sum < U256) :
    xs.foldl (fun (a x : Nat) => (a + x) % U256) acc = acc + xs.sum := by
  induction xs generalizing acc with
  | nil => simp
  | cons x xs ih =>
    simp only [List.foldl_cons, List.sum_cons] at h ⊢
    rw [Nat.mod_eq_of_lt (by omega), ih (acc + x) (by omega)]
    omega

/-- **Cost sums are exact** — under `SumRepresentable`. -/
theorem cost_sum_exact_partial (xs : List Nat) (h : SumRepresentable xs) : costSum xs = some xs.sum := by
  unfold SumRepresentable at h
  have := foldl_wrapping_exact xs 0 (by omega)
  simp [costSum, costSumWith, costSumsChecked, this]

/-- Known finding K-s (same defect at the sums): quotes of 2^256−1 and 1 atto add up to a cost of 0. -/
theorem cost_sum_wraps_witness : costSum [U256 - 1, 1] = some 0 := by
  simp [costSum, costSumWith, costSumsChecked, U256]

theorem not_costSumExact : ¬ CostSumExact := by
  intro h
  have h1 := (h [U256 - 1, 1]).2 (by simp [U256])
  rw [cost_sum_wraps_witness] at h1
  cases h1

/-- The repaired shape (a `checked_add` fold) would satisfy the full statement. -/
theorem cost_sum_checked_exact (xs : List Nat) :
    (xs.sum < U256 → costSumWith true xs = some xs.sum) ∧ (U256 ≤ xs.sum → costSumWith true xs = none) := by
  constructor <;> intro h <;> simp [costSumWith] <;> omega

/-! ### The printed cost lines state the amount in the unit they name -/

theorem fromChars_toChars (ds : List Nat) : fromChars (toChars ds) = ds := by
  induction ds with
  | nil => rfl
  | cons d ds ih =>
    simp only [fromChars, toChars, List.map_cons] at ih ⊢
    rw [ih]; simp

theorem atto_line_denotes (n : Nat) : lineDenotes true (printedCost .atto n) n = true := by
  have hd := toDigits_lt n
  have hne : toChars (toDigits n) ≠ [] := by rw [Ne, toChars_eq_nil]; exact toDigits_ne_nil n
  have hemp : (toChars (toDigits n)).isEmpty = false := by simpa [List.isEmpty_iff] using hne
  simp only [lineDenotes, readNumber, printedCost, splitDot_toChars, Option.getD_none, isDecimal_toChars hd,
    hemp, fromChars_toChars, ofDigits_toDigits, List.length_nil]
  simp [isDecimal, fromChars, ofDigits]

theorem tokens_line_denotes (n : Nat) : lineDenotes false (printedCost .tokens n) n = true := by
  obtain ⟨i, f, hs, hi, hne, hf, hlen, hval⟩ := display_denotes n
  have hne' : toChars i ≠ [] := by rw [Ne, toChars_eq_nil]; exact hne
  have hemp : (toChars i).isEmpty = false := by simpa [List.isEmpty_iff] using hne'
  simp only [lineDenotes, readNumber, printedCost, hs, splitDot_toChars_dot, Option.getD_some,
    isDecimal_toChars hi, isDecimal_toChars hf, hemp, fromChars_toChars, toChars_length, hlen, hval]
  simp

/-- **Every cost line of the CLI states the amount in the unit it names**: a line labelled "AttoTokens" shows the
atto integer, an unlabelled one the value in whole tokens with 18 fractional digits; read that way the printed
number is exactly the amount (over the regenerated table of ant-cli's cost `println!`s). -/
theorem printed_cost_denotes (site : String × CostKind × Bool) (hs : site ∈ costPrintSites) (n : Nat) :
    lineDenotes site.2.2 (printedCost site.2.1 n) n = true := by
  have hall : costPrintSites.all (fun s => (s.2.1 == CostKind.atto) == s.2.2) = true := by decide
  have := List.all_eq_true.mp hall site hs
  obtain ⟨nm, k, l⟩ := site
  cases k <;> cases l <;> simp at this
  · exact atto_line_denotes n
  · exact tokens_line_denotes n

/-- Witness for the lines before the repair (`vault cost` / `vault create` printed `{AttoTokens} AttoTokens`): the
whole-token rendering of any non-zero amount under the label "AttoTokens" reads 10^18 times too small (5 atto
shown as `0.000000000000000005 AttoTokens`). -/
theorem printed_unit_mismatch_witness (n : Nat) (hn : 0 < n) :
    lineDenotes true (printedCost .tokens n) n = false := by
  obtain ⟨i, f, hs, hi, hne, hf, hlen, hval⟩ := display_denotes n
  have hne' : toChars i ≠ [] := by rw [Ne, toChars_eq_nil]; exact hne
  have hemp : (toChars i).isEmpty = false := by simpa [List.isEmpty_iff] using hne'
  simp only [lineDenotes, readNumber, printedCost, hs, splitDot_toChars_dot, Option.getD_some,
    isDecimal_toChars hi, isDecimal_toChars hf, hemp, fromChars_toChars, toChars_length, hlen, hval]
  simp
  omega

/-! ## Non-vacuity: concrete instances of the hypotheses and of both outcomes -/

example : parse (display 1) = .ok 1 := parse_display 1 (by unfold U256; decide)
example : Grammar (toChars [1, 2] ++ 46 :: toChars [5]) [1, 2] [5] :=
  Grammar.frac _ _ (by simp [Digits]) (by simp) (by simp [Digits])
-- "12.5" parses to 12.5 * 10^18 (instance of `parse_complete` with all hypotheses discharged)
example : parse (toChars [1, 2] ++ 46 :: toChars [5]) = .ok 12500000000000000000 :=
  parse_complete _ [1, 2] [5] (Grammar.frac _ _ (by simp [Digits]) (by simp) (by simp [Digits]))
    (by simp) (by unfold U256; decide)
-- "1." is accepted (zero fractional digits), "1.000000000000000000" (18) too, 19 zeros are not
example : parse [49, 46] = .ok 1000000000000000000 := rfl
example : parse ([49, 46] ++ List.replicate 18 48) = .ok 1000000000000000000 := rfl
example : parse ([49, 46] ++ List.replicate 19 48) = .error .lossOfPrecision := rfl
-- "0x10" and "1_0" and "" are rejected
example : parse [48, 120, 49, 48] = .error .units := rfl
example : parse [49, 95, 48] = .error .units := rfl
example : parse [] = .error .units := rfl
-- the decimal string of 2^256 is rejected, not wrapped to 0
example : checkedAdd (U256 - 1) 1 = none := by simp [checkedAdd, addIsChecked, U256]
example : checkedSub 10 11 = none := by simp [checkedSub, subIsChecked]

end SafeNet.Props.C16

#print axioms SafeNet.Props.C16.parse_display
#print axioms SafeNet.Props.C16.display_denotes
#print axioms SafeNet.Props.C16.parse_sound
#print axioms SafeNet.Props.C16.parse_accepts_iff
#print axioms SafeNet.Props.C16.parse_rejects_over_precise
#print axioms SafeNet.Props.C16.untrimmed_length_unchecked_witness
#print axioms SafeNet.Props.C16.parse_complete
#print axioms SafeNet.Props.C16.parse_rejects_non_decimal
#print axioms SafeNet.Props.C16.parse_never_wraps
#print axioms SafeNet.Props.C16.checked_add_exact
#print axioms SafeNet.Props.C16.checked_sub_exact
#print axioms SafeNet.Props.C16.cli_summary_exact_partial
#print axioms SafeNet.Props.C16.cli_summary_wraps_witness
#print axioms SafeNet.Props.C16.not_cliSummaryExact
#print axioms SafeNet.Props.C16.cli_summary_checked_exact
#print axioms SafeNet.Props.C16.cli_summary_unchecked_exact_when_representable
#print axioms SafeNet.Props.C16.cost_sum_exact_partial
#print axioms SafeNet.Props.C16.cost_sum_wraps_witness
#print axioms SafeNet.Props.C16.not_costSumExact
#print axioms SafeNet.Props.C16.cost_sum_checked_exact
#print axioms SafeNet.Props.C16.printed_cost_denotes
#print axioms SafeNet.Props.C16.printed_unit_mismatch_witness
