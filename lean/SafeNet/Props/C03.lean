import SafeNet.Proofs.ValidateData
/-!
# C03 — new data is stored from a client only with a valid payment for that exact data

`validate d s` is the model of `Node::validate_and_store_record` / `store_replicated_in_record`
(`SafeNet.Model.Validate`) for delivery `d` against local store content `s`: result class and ordered
command trace; `Tok.W k c` is `PutLocalRecord` of content `c` under key `k`.  The routing table, the
list and order of the payment checks (`payCheckOrder`) and the comparators are regenerated from
`ant-node/src/put_validation.rs` on every run (`SafeNet.Gen.Validate`), so e.g. removing the
`has_expired` check or the quote-content check changes the term these theorems are about.

`vecOf p` are the six conditions of the property computed from the proof of payment `p`:
`sigs` (every quote signed by its claimed node), `selfPayee` (this node among the payees), `close` (all payees
known as close), `fresh` (no quote expired), `chain` (confirmed by the contract), `qaddr` (this node's
quote issued for the address being stored).
-/
namespace SafeNet.Props.C03
open SafeNet.Validate SafeNet.Gen.Validate

/-- all six payment conditions hold for delivery `d` -/
def PaidInFull (d : Delivery) : Prop :=
  isPaid d.kind = true ∧ ∃ p, d.pay = some p ∧
    (vecOf p).sigs = true ∧ (vecOf p).selfPayee = true ∧ (vecOf p).close = true ∧
    (vecOf p).fresh = true ∧ (vecOf p).chain = true ∧ (vecOf p).qaddr = true

theorem paidInFull_iff (d : Delivery) :
    PaidInFull d ↔ (isPaid d.kind = true ∧ (obsOfAns d ⟨[], none⟩).pay = .ok) := by
  unfold PaidInFull
  rw [obs_pay]
  constructor
  · rintro ⟨hk, p, hp, h1, h2, h3, h4, h5, h6⟩
    refine ⟨hk, ?_⟩
    rw [hp]
    have := payCheck_ok_iff_all (vecOf p)
    simp [PayVec.all, h1, h2, h3, h4, h5, h6] at this
    exact this
  · rintro ⟨hk, h⟩
    refine ⟨hk, ?_⟩
    cases hp : d.pay with
    | none => rw [hp] at h; simp at h
    | some p =>
      rw [hp] at h
      have := payCheck_ok_iff_all (vecOf p)
      simp only [h, beq_self_eq_true] at this
      have hall := this.symm
      simp [PayVec.all] at hall
      exact ⟨p, rfl, hall.1.1.1.1.1, hall.1.1.1.1.2, hall.1.1.1.2, hall.1.1.2, hall.1.2, hall.2⟩

theorem pay_obs_indep (d : Delivery) (a b : Ans) : (obsOfAns d a).pay = (obsOfAns d b).pay := by
  rw [obs_pay, obs_pay]

/-- **A client upload is stored at an address the node does not yet hold only if all six payment
conditions hold** (every kind, every vector, any prior store content). -/
theorem paid_store_requires_all (d : Delivery) (s : Store) (k : Nat) (c : Content)
    (hclient : d.client = true) (hnew : s.get k = none)
    (hW : Tok.W k c ∈ (validate d s).2) : PaidInFull d := by
  rw [validate_trace] at hW
  obtain ⟨hk, hw, _⟩ := W_mem_inv hW
  subst hk
  have hf := fresh_seq hnew
  have h := imp_of_bool (tbl_new_store_needs_payment d.client d.kind (obsOfAns d (seqAns d s)))
    (and3 hclient hf hw)
  simp only [Bool.and_eq_true, beq_iff_eq] at h
  rw [paidInFull_iff, pay_obs_indep d _ (seqAns d s)]
  exact ⟨h.2, h.1⟩

/-- **If any one of the conditions fails (or there is no payment) for an address not held, the upload is
rejected and nothing is stored.** -/
theorem any_failure_rejects (d : Delivery) (s : Store)
    (hclient : d.client = true) (hnew : s.get (rwKey d) = none) (hfail : ¬ PaidInFull d) :
    (validate d s).1 ≠ .ok ∧ ∀ k c, Tok.W k c ∉ (validate d s).2 := by
  have hf := fresh_seq hnew
  have h := tbl_failure_rejects d.client d.kind (obsOfAns d (seqAns d s))
  rw [paidInFull_iff, pay_obs_indep d _ (seqAns d s)] at hfail
  have hcond : ((obsOfAns d (seqAns d s)).pay != .ok || !isPaid d.kind) = true := by
    cases hp : isPaid d.kind
    · simp
    · cases hq : (obsOfAns d (seqAns d s)).pay <;> simp_all
  have h := imp_of_bool h (and3 hclient hf hcond)
  simp only [Bool.and_eq_true, bne_iff_ne, ne_eq, Bool.not_eq_eq_eq_not, Bool.not_true] at h
  refine ⟨by rw [validate_res]; exact h.1, ?_⟩
  rw [validate_trace]
  exact no_W_of_not_hasW h.2

/-- **Uploads without a fully valid payment are accepted only as updates of mutable records the node
already holds**: a put emitted for a client upload that is not paid in full implies the key is held and the
kind is a scratchpad, transaction or register kind. -/
theorem unpaid_only_updates (d : Delivery) (s : Store) (k : Nat) (c : Content)
    (hclient : d.client = true) (hunpaid : ¬ PaidInFull d)
    (hW : Tok.W k c ∈ (validate d s).2) :
    (s.get k).isSome = true ∧ kindFam d.kind ≠ 0 := by
  rw [validate_trace] at hW
  obtain ⟨hk, hw, _⟩ := W_mem_inv hW
  subst hk
  rw [paidInFull_iff, pay_obs_indep d _ (seqAns d s)] at hunpaid
  have hcond : ((obsOfAns d (seqAns d s)).pay != .ok || !isPaid d.kind) = true := by
    cases hp : isPaid d.kind
    · simp
    · cases hq : (obsOfAns d (seqAns d s)).pay <;> simp_all
  have h := imp_of_bool (tbl_unpaid_only_updates d.client d.kind (obsOfAns d (seqAns d s)))
    (and3 hclient hw hcond)
  simp only [Bool.and_eq_true, bne_iff_ne, ne_eq] at h
  rw [obs_h1_seq] at h
  exact h

/-- **A chunk that already exists is never rewritten** (on any path). -/
theorem existing_chunk_never_rewritten (d : Delivery) (s : Store) (c0 : Content)
    (hchunk : kindFam d.kind = 0) (hheld : s.get (rwKey d) = some c0) :
    ∀ k c, Tok.W k c ∉ (validate d s).2 := by
  have hh : ((obsOfAns d (seqAns d s)).h1 && kindFam d.kind == 0) = true := by
    rw [obs_h1_seq, hheld, hchunk]; rfl
  have h := imp_of_bool (tbl_chunk_never_rewritten d.client d.kind (obsOfAns d (seqAns d s))) hh
  rw [validate_trace]
  exact no_W_of_not_hasW (by simpa using h)

/-- Whatever the path, an error result comes with no put at all. -/
theorem rejected_stores_nothing (d : Delivery) (s : Store) (h : (validate d s).1 ≠ .ok) :
    ∀ k c, Tok.W k c ∉ (validate d s).2 := by
  rw [validate_res] at h
  have ht := imp_of_bool (tbl_error_no_put d.client d.kind (obsOfAns d (seqAns d s))) (by simpa using h)
  rw [validate_trace]
  exact no_W_of_not_hasW (by simpa using ht)

/-- The library functions the payment checks delegate to have the shape the model assumes (read off
`ant-evm/src/data_payments.rs` and `evmlib/.../payment_vault/mod.rs` by the translator): `verify_for` checks
payee membership and every signature, a proof is expired if any quote is, a quote expires strictly after
`QUOTE_EXPIRATION_SECS`, `verify_data_payment` fails on the first invalid result and sums only this node's quotes. -/
theorem source_shape :
    verifyForChecksPayeeAndSigs = true ∧ proofExpiredIfAny = true ∧ expiryStrict = true ∧
    quoteExpirationSecs = 3600 ∧ chainFailsOnInvalid = true ∧ chainSumsOwnedOnly = true ∧
    payCheckOrder = [.forUs, .content, .expiry, .close, .chain] := by decide

/-! Non-vacuity: a fully paid new chunk is stored; the same upload whose own quote was issued for another
address, or with an expired quote, is rejected. -/

def q (payee : Nat) (fresh content : Bool) : QuoteD := ⟨payee, payee, true, fresh, content, true, 5⟩
def goodPay : PayD := ⟨[q 0 true true, q 1 true true, q 2 true true], [0, 1, 2]⟩

example : validate ⟨true, .chunkp, 0, .chunk 0, some goodPay⟩ [] =
    (.ok, [.H 0, .K, .V, .P 5, .W 0 .chunk, .F 0 .c, .R 0 .c]) := by decide
example : (validate ⟨true, .chunkp, 0, .chunk 0, some ⟨[q 0 true false, q 1 true true, q 2 true true], [0, 1, 2]⟩⟩ []).1 =
    .payWrongContent := by decide
example : (validate ⟨true, .chunkp, 0, .chunk 0, some ⟨[q 0 true true, q 1 false true, q 2 true true], [0, 1, 2]⟩⟩ []).1 =
    .payExpired := by decide
example : PaidInFull ⟨true, .chunkp, 0, .chunk 0, some goodPay⟩ :=
  ⟨rfl, goodPay, rfl, by decide, by decide, by decide, by decide, by decide, by decide⟩
/-- an unpaid scratchpad update of a held pad is applied -/
example : validate ⟨true, .pad, 1, .pad 0 4 true, none⟩ [(1, .pad 3 true)] =
    (.ok, [.H 1, .G 1, .W 1 (.pad 4 true)]) := by decide

end SafeNet.Props.C03

#print axioms SafeNet.Props.C03.paid_store_requires_all
#print axioms SafeNet.Props.C03.any_failure_rejects
#print axioms SafeNet.Props.C03.unpaid_only_updates
#print axioms SafeNet.Props.C03.existing_chunk_never_rewritten
#print axioms SafeNet.Props.C03.rejected_stores_nothing
#print axioms SafeNet.Props.C03.source_shape
