import SafeNet.Proofs.ValidateData
import SafeNet.Proofs.ValidateWorld
/-!
# C03 — new data is stored from a client only with a valid payment for that exact data

`validate d s` is the model of `Node::validate_and_store_record` / `store_replicated_in_record`
(`SafeNet.Model.Validate`) for delivery `d` against local store content `s`: result class and ordered
command trace; `Tok.W k c` is `PutLocalRecord` of content `c` under key `k`.  The routing table, the
list and order of the payment checks (`payCheckOrder`) and the comparators are regenerated from
`ant-node/src/put_validation.rs` on every run (`SafeNet.Gen.Validate`), so e.g. removing the
`has_expired` check or the quote-content check changes the term these theorems are about.

`vecOf p` are the six conditions of the property computed from the proof of payment `p`:
`sigs` (every quote signed by its claimed node), `selfPayee` (this node among the payees), `close` (all payees
known as close), `fresh` (no quote expired), `chain` (confirmed by the contract), `qaddr` (this node's
quote issued for the address being stored).
-/
namespace SafeNet.Props.C03
open SafeNet.Validate SafeNet.Gen.Validate

/-- all six payment conditions hold for delivery `d` -/
def PaidInFull (d : Delivery) : Prop :=
  isPaid d.kind = true ∧ ∃ p, d.pay = some p ∧
    (vecOf p).sigs = true ∧ (vecOf p).selfPayee = true ∧ (vecOf p).close = true ∧
    (vecOf p).fresh = true ∧ (vecOf p).chain = true ∧ (vecOf p).qaddr = true

theorem paidInFull_iff (d : Delivery) :
    PaidInFull d ↔ (isPaid d.kind = true ∧ (obsOfAns d ⟨[], none⟩).pay = .ok) := by
  unfold PaidInFull
  rw [obs_pay]
  constructor
  · rintro ⟨hk, p, hp, h1, h2, h3, h4, h5, h6⟩
    refine ⟨hk, ?_⟩
    rw [hp]
    have := payCheck_ok_iff_all (vecOf p)
    simp [PayVec.all, h1, h2, h3, h4, h5, h6] at this
    exact this
  · rintro ⟨hk, h⟩
    refine ⟨hk, ?_⟩
    cases hp : d.pay with
    | none => rw [hp] at h; simp at h
    | some p =>
      rw [hp] at h
      have := payCheck_ok_iff_all (vecOf p)
      simp only [h, beq_self_eq_true] at this
      have hall := this.symm
      simp [PayVec.all] at hall
      exact ⟨p, rfl, hall.1.1.1.1.1, hall.1.1.1.1.2, hall.1.1.1.2, hall.1.1.2, hall.1.2, hall.2⟩

theorem pay_obs_indep (d : Delivery) (a b : Ans) : (obsOfAns d a).pay = (obsOfAns d b).pay := by
  rw [obs_pay, obs_pay]

/-- **A client upload is stored at an address the node does not yet hold only if all six payment
conditions hold** (every kind, every vector, any prior store content). -/
theorem paid_store_requires_all (d : Delivery) (s : Store) (k : Nat) (c : Content)
    (hclient : d.client = true) (hnew : s.get k = none)
    (hW : Tok.W k c ∈ (validate d s).2) : PaidInFull d := by
  rw [validate_trace] at hW
  obtain ⟨hk, hw, _⟩ := W_mem_inv hW
  subst hk
  have hf := fresh_seq hnew
  have h := imp_of_bool (tbl_new_store_needs_payment d.client d.kind (obsOfAns d (seqAns d s)))
    (and3 hclient hf hw)
  simp only [Bool.and_eq_true, beq_iff_eq] at h
  rw [paidInFull_iff, pay_obs_indep d _ (seqAns d s)]
  exact ⟨h.2, h.1⟩

/-- **If any one of the conditions fails (or there is no payment) for an address not held, the upload is
rejected and nothing is stored.** -/
theorem any_failure_rejects (d : Delivery) (s : Store)
    (hclient : d.client = true) (hnew : s.get (rwKey d) = none) (hfail : ¬ PaidInFull d) :
    (validate d s).1 ≠ .ok ∧ ∀ k c, Tok.W k c ∉ (validate d s).2 := by
  have hf := fresh_seq hnew
  have h := tbl_failure_rejects d.client d.kind (obsOfAns d (seqAns d s))
  rw [paidInFull_iff, pay_obs_indep d _ (seqAns d s)] at hfail
  have hcond : ((obsOfAns d (seqAns d s)).pay != .ok || !isPaid d.kind) = true := by
    cases hp : isPaid d.kind
    · simp
    · cases hq : (obsOfAns d (seqAns d s)).pay <;> simp_all
  have h := imp_of_bool h (and3 hclient hf hcond)
  simp only [Bool.and_eq_true, bne_iff_ne, ne_eq, Bool.not_eq_eq_eq_not, Bool.not_true] at h
  refine ⟨by rw [validate_res]; exact h.1, ?_⟩
  rw [validate_trace]
  exact no_W_of_not_hasW h.2

/-- **Uploads without a fully valid payment are accepted only as updates of mutable records the node
already holds**: a put emitted for a client upload that is not paid in full implies the key is held and the
kind is a scratchpad, transaction or register kind. -/
theorem unpaid_only_updates (d : Delivery) (s : Store) (k : Nat) (c : Content)
    (hclient : d.client = true) (hunpaid : ¬ PaidInFull d)
    (hW : Tok.W k c ∈ (validate d s).2) :
    (s.get k).isSome = true ∧ kindFam d.kind ≠ 0 := by
  rw [validate_trace] at hW
  obtain ⟨hk, hw, _⟩ := W_mem_inv hW
  subst hk
  rw [paidInFull_iff, pay_obs_indep d _ (seqAns d s)] at hunpaid
  have hcond : ((obsOfAns d (seqAns d s)).pay != .ok || !isPaid d.kind) = true := by
    cases hp : isPaid d.kind
    · simp
    · cases hq : (obsOfAns d (seqAns d s)).pay <;> simp_all
  have h := imp_of_bool (tbl_unpaid_only_updates d.client d.kind (obsOfAns d (seqAns d s)))
    (and3 hclient hw hcond)
  simp only [Bool.and_eq_true, bne_iff_ne, ne_eq] at h
  rw [obs_h1_seq] at h
  exact h

/-- **A chunk that already exists is never rewritten** (on any path). -/
theorem existing_chunk_never_rewritten (d : Delivery) (s : Store) (c0 : Content)
    (hchunk : kindFam d.kind = 0) (hheld : s.get (rwKey d) = some c0) :
    ∀ k c, Tok.W k c ∉ (validate d s).2 := by
  have hh : ((obsOfAns d (seqAns d s)).h1 && kindFam d.kind == 0) = true := by
    rw [obs_h1_seq, hheld, hchunk]; rfl
  have h := imp_of_bool (tbl_chunk_never_rewritten d.client d.kind (obsOfAns d (seqAns d s))) hh
  rw [validate_trace]
  exact no_W_of_not_hasW (by simpa using h)

/-- Whatever the path, an error result comes with no put at all. -/
theorem rejected_stores_nothing (d : Delivery) (s : Store) (h : (validate d s).1 ≠ .ok) :
    ∀ k c, Tok.W k c ∉ (validate d s).2 := by
  rw [validate_res] at h
  have ht := imp_of_bool (tbl_error_no_put d.client d.kind (obsOfAns d (seqAns d s))) (by simpa using h)
  rw [validate_trace]
  exact no_W_of_not_hasW (by simpa using ht)

/-! ## Every schedule of concurrent validations, with the store dropping keys at any time

`World.run` executes an arbitrary list of scheduler actions: `begin` a validation, `ans`wer its pending store read
from the store as it is then, `run` it on to its next read or its end (its put takes effect when emitted), and
`remove k` — the store drops key `k` (capacity eviction, range clean-up, removal of a failed write), at any point.
`(w.putsOf a)` are the puts action `a` emits in world `w`, each with the delivery whose validation emits it. -/

theorem paidInFull_of_paidB {d : Delivery} (h : paidB d = true) : PaidInFull d := by
  unfold paidB at h
  simp only [Bool.and_eq_true] at h
  obtain ⟨hk, hp⟩ := h
  cases hd : d.pay with
  | none => rw [hd] at hp; simp at hp
  | some p =>
    rw [hd] at hp
    simp only [PayVec.all, Bool.and_eq_true] at hp
    exact ⟨hk, p, hd, hp.1.1.1.1.1, hp.1.1.1.1.2, hp.1.1.1.2, hp.1.1.2, hp.1.2, hp.2⟩

/-- the put of `d` under key `k` is an **update of a record the node held**: `d` is of a mutable kind and, after
some prefix of the schedule so far (namely when this validation's `GetLocalRecord` was served), the store held a
record of that kind under `k` -/
def UpdatesHeld (s0 : Store) (pre : List Act) (d : Delivery) (k : Nat) : Prop :=
  kindFam d.kind ≠ 0 ∧ ∃ c0 : Content, c0.fam = kindFam d.kind ∧
    ∃ pre', pre' <+: pre ∧ (World.run ⟨s0, []⟩ pre').store.get k = some c0

/-- **The clause at full strength, about the validation that writes**: after any schedule `pre` (any number of
validations in flight, reads served at any later time, keys dropped at any time), whichever action `a` comes
next, every put it emits for a *client upload* `d` is either backed by all six payment conditions, or is an
update of a mutable record the node held when this very validation read its local copy.  So "uploads without
payment are accepted only as updates to mutable records the node already holds" — in particular the
interleaving *has-key answered "held" → record dropped → local read finds nothing* stores nothing (it did
before the repair recorded in `known_findings.jsonl`: the record was then stored as new, unpaid, with no
counter / merge check; `tbl_unpaid_put_reads_local` is false of that code). -/
theorem any_schedule_put_is_paid_or_update (s0 : Store) (pre : List Act) (a : Act)
    (d : Delivery) (k : Nat) (c : Content)
    (hput : (d, k, c) ∈ (World.run ⟨s0, []⟩ pre).putsOf a) :
    d ∈ startedBy ⟨s0, []⟩ (pre ++ [a]) ∧ k = rwKey d ∧
      (d.client = true → PaidInFull d ∨ UpdatesHeld s0 pre d k) := by
  obtain ⟨hk, _, _, hst, hl⟩ := put_justified s0 pre a d k c hput
  refine ⟨hst, hk, fun hc => ?_⟩
  rcases hl with hl | hl
  · rcases hl with hl | hl
    · rw [hc] at hl; cases hl
    · exact Or.inl (paidInFull_of_paidB hl)
  · exact Or.inr hl

/-- `putsOf` misses nothing: whenever an action makes a key held that was not, that key is the key of one of the
puts the action emits (so the theorem above speaks about every way a key can appear). -/
theorem every_new_key_is_a_put (w : World) (a : Act) (k : Nat) (hnew : w.store.get k = none)
    (hheld : (w.act a).1.store.get k ≠ none) : ∃ d c, (d, k, c) ∈ w.putsOf a :=
  new_key_is_put w a k hnew hheld

/-- **Under every schedule** (any number of validations in flight at once, every store read served at any
later time, keys dropped at any time, any interleaving — `World.run` over an arbitrary action list): a key the
node did not hold initially and holds afterwards is the key of a validation that was actually started and that
was either a replication delivery or a client upload with all six payment conditions.  (An update never
creates a key: the record it updates was held earlier, hence is itself accounted for.) -/
theorem any_schedule_new_key_paid (s0 : Store) (acts : List Act) (k : Nat)
    (hnew : s0.get k = none) (hheld : (World.run ⟨s0, []⟩ acts).store.get k ≠ none) :
    ∃ d ∈ startedBy ⟨s0, []⟩ acts, rwKey d = k ∧ (d.client = true → PaidInFull d) := by
  rcases any_schedule_held_is_justified s0 acts k hheld with h | ⟨d, hd, hk, _, hl⟩
  · exact absurd hnew h
  · refine ⟨d, hd, hk, fun hc => ?_⟩
    rcases hl with hl | hl
    · rw [hc] at hl; cases hl
    · exact paidInFull_of_paidB hl

/-- Corollary: if every started validation is an unpaid client upload, the set of held keys never grows,
whatever the schedule. -/
theorem any_schedule_unpaid_creates_nothing (s0 : Store) (acts : List Act)
    (hall : ∀ d ∈ startedBy ⟨s0, []⟩ acts, d.client = true ∧ ¬ PaidInFull d) (k : Nat)
    (hnew : s0.get k = none) : (World.run ⟨s0, []⟩ acts).store.get k = none := by
  by_cases h : (World.run ⟨s0, []⟩ acts).store.get k = none
  · exact h
  · obtain ⟨d, hd, _, hp⟩ := any_schedule_new_key_paid s0 acts k hnew h
    exact absurd (hp (hall d hd).1) (hall d hd).2

/-- The four places where the code accepts a put without a valid payment all insist on the local copy
(read off `put_validation.rs` by the translator: the unpaid `Scratchpad` / `Register` arms pass
`must_exist_locally = true`, the `TransactionWithPayment` / `RegisterWithPayment` arms pass it exactly when a
failed payment was tolerated because the key was reported held, and the three store functions reject with
`InvalidPutWithoutPayment` when the local read / existence test finds nothing). -/
theorem update_only_source_shape :
    padUpdateNeedsLocal = true ∧ regUpdateNeedsLocal = true ∧ txFailedPayNeedsLocal = true ∧
    regFailedPayNeedsLocal = true := by decide

/-! ## The close set: "all payees are peers the node knows as close" -/

/-- the close set is read off the source as `once(self).chain(peers).take(K_VALUE)`; it holds at most `K_VALUE`
entries, this node first, and no routing-table peer of distance rank ≥ `K_VALUE − 1` -/
theorem close_set_bounded :
    closeCutAfterChain = true ∧
    ∀ ps : List Nat, (closeSet ps).length ≤ kValue ∧ (closeSet ps).head? = some 0 ∧
      ∀ i (h : i < ps.length), ps.Nodup → 0 ∉ ps → kValue - 1 ≤ i → ps[i] ∉ closeSet ps := by
  refine ⟨by decide, ?_⟩
  intro ps
  have hk : kValue = 19 + 1 := by decide
  have hc : closeSet ps = 0 :: ps.take 19 := by
    have e : closeCutAfterChain = true := by decide
    simp [closeSet, e, hk, List.take_succ_cons]
  refine ⟨?_, by rw [hc]; rfl, ?_⟩
  · rw [hc, hk]; simp [List.length_take]; omega
  · intro i h hnd h0 hi
    rw [hc]
    intro hm
    rcases List.mem_cons.mp hm with h1 | h1
    · exact h0 (h1 ▸ List.getElem_mem h)
    · rw [List.mem_take_iff_getElem] at h1
      obtain ⟨j, hj, hje⟩ := h1
      have hjl : j < ps.length := by omega
      have := (List.getElem_inj (h₀ := hjl) (h₁ := h) hnd).mp hje
      rw [hk] at hi
      omega

/-- **A payee beyond the node's `K_VALUE` closest known peers makes the payment incomplete**: with the close
list the driver serves, a proof naming the routing-table peer of distance rank ≥ `K_VALUE − 1` is not paid in
full, hence (by `any_failure_rejects`) a new address is rejected and nothing is stored. -/
theorem payee_beyond_k_not_paid (d : Delivery) (ps : List Nat) (quotes : List QuoteD) (q : QuoteD) (i : Nat)
    (h : i < ps.length) (hnd : ps.Nodup) (h0 : 0 ∉ ps) (hi : kValue - 1 ≤ i)
    (hpay : d.pay = some ⟨quotes, closeSet ps⟩) (hq : q ∈ quotes) (hp : q.payee = ps[i]) (hdec : undec q = false) :
    ¬ PaidInFull d := by
  rintro ⟨_, p, hp', _, _, hclose, _⟩
  rw [hpay] at hp'
  injection hp' with hp'
  subst hp'
  simp only [vecOf, List.all_eq_true, Bool.or_eq_true] at hclose
  have := hclose q hq
  rw [hdec] at this
  simp only [Bool.false_eq_true, false_or, List.contains_eq_mem, decide_eq_true_eq] at this
  rw [hp] at this
  exact (close_set_bounded.2 ps).2.2 i h hnd h0 hi this

/-- a quote whose claimed peer id does not decode cannot be signature-checked: the proof is never paid in full -/
theorem undecodable_id_not_paid (d : Delivery) (p : PayD) (q : QuoteD)
    (hpay : d.pay = some p) (hq : q ∈ p.quotes) (hu : undec q = true) : ¬ PaidInFull d := by
  rintro ⟨_, p', hp', hsigs, _⟩
  rw [hpay] at hp'
  injection hp' with hp'
  subst hp'
  simp only [vecOf, List.all_eq_true, Bool.and_eq_true, Bool.not_eq_eq_eq_not, Bool.not_true] at hsigs
  have := (hsigs q hq).1.1
  rw [hu] at this
  cases this

/-- The library functions the payment checks delegate to have the shape the model assumes (read off
`ant-evm/src/data_payments.rs` and `evmlib/.../payment_vault/mod.rs` by the translator): `verify_for` checks
payee membership and every signature, a proof is expired if any quote is, a quote expires strictly after
`QUOTE_EXPIRATION_SECS`, `verify_data_payment` fails on the first invalid result and sums only this node's quotes. -/
theorem source_shape :
    verifyForChecksPayeeAndSigs = true ∧ proofExpiredIfAny = true ∧ expiryStrict = true ∧
    quoteExpirationSecs = 3600 ∧ chainFailsOnInvalid = true ∧ chainSumsOwnedOnly = true ∧
    payCheckOrder = [.forUs, .content, .expiry, .close, .chain] := by decide

/-! Non-vacuity: a fully paid new chunk is stored; the same upload whose own quote was issued for another
address, or with an expired quote, is rejected. -/

def q (payee : Nat) (fresh content : Bool) : QuoteD := ⟨payee, payee, true, fresh, content, true, 5⟩
def goodPay : PayD := ⟨[q 0 true true, q 1 true true, q 2 true true], [0, 1, 2]⟩

example : validate ⟨true, .chunkp, 0, .chunk 0, some goodPay⟩ [] =
    (.ok, [.H 0, .K, .V, .P 5, .W 0 .chunk, .F 0 .c, .R 0 .c]) := by decide
example : (validate ⟨true, .chunkp, 0, .chunk 0, some ⟨[q 0 true false, q 1 true true, q 2 true true], [0, 1, 2]⟩⟩ []).1 =
    .payWrongContent := by decide
example : (validate ⟨true, .chunkp, 0, .chunk 0, some ⟨[q 0 true true, q 1 false true, q 2 true true], [0, 1, 2]⟩⟩ []).1 =
    .payExpired := by decide
/-- an unsigned quote paying an undecodable id next to the node's genuine quote -/
example : (validate ⟨true, .chunkp, 0, .chunk 0, some ⟨[q 0 true true, ⟨999, 4, false, true, true, true, 1⟩, ⟨999, 4, false, true, true, true, 1⟩], [0]⟩⟩ []).1 =
    .payNotForUs := by decide
example : closeSet (List.range' 1 25) = 0 :: List.range' 1 19 := by decide
example : PaidInFull ⟨true, .chunkp, 0, .chunk 0, some goodPay⟩ :=
  ⟨rfl, goodPay, rfl, by decide, by decide, by decide, by decide, by decide, by decide⟩
/-- an unpaid scratchpad update of a held pad is applied -/
example : validate ⟨true, .pad, 1, .pad 0 4 true, none⟩ [(1, .pad 3 true)] =
    (.ok, [.H 1, .G 1, .W 1 (.pad 4 true)]) := by decide

/-- two interleaved validations of one new chunk key: an unpaid client upload and a paid one; both read
"not held" before either finishes; only the paid one puts -/
example : (World.run ⟨[], []⟩ [.begin 0 ⟨true, .chunk, 0, .chunk 0, none⟩,
      .begin 1 ⟨true, .chunkp, 0, .chunk 0, some goodPay⟩, .ans 1, .ans 0, .run 0, .run 1]).store = [(0, .chunk)] ∧
    startedBy ⟨[], []⟩ [.begin 0 ⟨true, .chunk, 0, .chunk 0, none⟩,
      .begin 1 ⟨true, .chunkp, 0, .chunk 0, some goodPay⟩, .ans 1, .ans 0, .run 0, .run 1] =
      [⟨true, .chunk, 0, .chunk 0, none⟩, ⟨true, .chunkp, 0, .chunk 0, some goodPay⟩] := by decide

/-! The audit's interleavings on the repaired code (each replayed on the real node by the harness, `evict` =
`remove`): has-key answered "held", the record is dropped, the read finds nothing ⇒ `unpaid`, nothing stored. -/
def padUpd : Delivery := ⟨true, .pad, 1, .pad 0 5 true, none⟩
def regUpd : Delivery := ⟨true, .reg, 2, .reg 0 .good [⟨2, .v⟩], none⟩
def expiredPay : PayD := ⟨[q 0 false true, q 1 true true, q 2 true true], [0, 1, 2]⟩
def txBadPay : Delivery := ⟨true, .txp, 1, .txs [⟨0, 2, true⟩], some expiredPay⟩
def regBadPay : Delivery := ⟨true, .regp, 2, .reg 0 .good [⟨2, .v⟩], some expiredPay⟩

example : (World.run ⟨[(1, .pad 3 true)], []⟩ [.begin 0 padUpd, .ans 0, .remove 1, .run 0, .ans 0, .run 0]).store = [] ∧
    ((World.run ⟨[(1, .pad 3 true)], []⟩ [.begin 0 padUpd, .ans 0, .remove 1, .run 0, .ans 0]).act (.run 0)).2 =
      some (some .unpaid, []) := by decide
example : (World.run ⟨[(2, .reg false [1])], []⟩ [.begin 0 regUpd, .ans 0, .remove 2, .run 0, .ans 0, .run 0]).store = [] ∧
    ((World.run ⟨[(2, .reg false [1])], []⟩ [.begin 0 regUpd, .ans 0, .remove 2, .run 0, .ans 0]).act (.run 0)).2 =
      some (some .unpaid, []) := by decide
example : (World.run ⟨[(1, .txs [1])], []⟩ [.begin 0 txBadPay, .ans 0, .remove 1, .run 0, .ans 0, .run 0]).store = [] ∧
    ((World.run ⟨[(1, .txs [1])], []⟩ [.begin 0 txBadPay, .ans 0, .remove 1, .run 0, .ans 0]).act (.run 0)).2 =
      some (some .unpaid, []) := by decide
example : (World.run ⟨[(2, .reg false [1])], []⟩ [.begin 0 regBadPay, .ans 0, .remove 2, .run 0, .ans 0, .run 0]).store = [] ∧
    ((World.run ⟨[(2, .reg false [1])], []⟩ [.begin 0 regBadPay, .ans 0, .remove 2, .run 0, .ans 0]).act (.run 0)).2 =
      some (some .unpaid, []) := by decide
/-- what that validation has observed when it is resumed for the last time: has-key answered "held", the read
returned nothing — an observation no schedule without removal produces -/
example : ((World.run ⟨[(1, .pad 3 true)], []⟩ [.begin 0 padUpd, .ans 0, .remove 1, .run 0, .ans 0]).flight 0).map (·.a) =
    some ⟨[true], some none⟩ := by decide
/-- the same update with the record still there when it is read is applied (and the put is attributed to it) -/
example : (World.run ⟨[(1, .pad 3 true)], []⟩ [.begin 0 padUpd, .ans 0, .run 0, .ans 0, .run 0]).store = [(1, .pad 5 true)] ∧
    (World.run ⟨[(1, .pad 3 true)], []⟩ [.begin 0 padUpd, .ans 0, .run 0, .ans 0]).putsOf (.run 0) =
      [(padUpd, 1, .pad 5 true)] := by decide
/-- non-vacuity of `UpdatesHeld`: the record dropped *after* the validation read it; the put is an update of the
record held at the read (prefix of length 4) -/
example : UpdatesHeld [(1, .pad 3 true)] [.begin 0 padUpd, .ans 0, .run 0, .ans 0, .remove 1] padUpd 1 :=
  ⟨by decide, .pad 3 true, rfl, [.begin 0 padUpd, .ans 0, .run 0, .ans 0], ⟨[.remove 1], rfl⟩, by decide⟩

end SafeNet.Props.C03

#print axioms SafeNet.Props.C03.paid_store_requires_all
#print axioms SafeNet.Props.C03.any_failure_rejects
#print axioms SafeNet.Props.C03.unpaid_only_updates
#print axioms SafeNet.Props.C03.existing_chunk_never_rewritten
#print axioms SafeNet.Props.C03.rejected_stores_nothing
#print axioms SafeNet.Props.C03.source_shape
#print axioms SafeNet.Props.C03.close_set_bounded
#print axioms SafeNet.Props.C03.payee_beyond_k_not_paid
#print axioms SafeNet.Props.C03.undecodable_id_not_paid
#print axioms SafeNet.Props.C03.any_schedule_put_is_paid_or_update
#print axioms SafeNet.Props.C03.every_new_key_is_a_put
#print axioms SafeNet.Props.C03.update_only_source_shape
#print axioms SafeNet.Props.C03.any_schedule_new_key_paid
#print axioms SafeNet.Props.C03.any_schedule_unpaid_creates_nothing
