import SafeNet.Proofs.ValidateData
import SafeNet.Proofs.ValidateWorld
import SafeNet.Model.AddrDerive
/-!
# C04 — every accepted record's address is derived from its own content or owner

Same model as C03 (`SafeNet.Model.Validate`).  `derivedKey content` is the key the delivered content
determines (chunk: hash of the bytes; register: hash of meta ++ owner; scratchpad / transaction: hash of
the owner key — abstract small integers here, computed with sha3 on the harness side); `d.rk` is the key
the record was presented under; `rwKey d` the key the validation reads and writes.
A replicated `Transaction` record is a vector whose entries carry their own owners, so it has no single
derived key: there the theorem says only entries whose owner key is the record key are stored.
`storePut` models the libp2p-facing `RecordStore::put`.
-/
namespace SafeNet.Props.C04
open SafeNet.Validate SafeNet.Gen.Validate

/-- the replicated transaction vector -/
def IsTxVector (d : Delivery) : Prop := d.client = false ∧ d.kind = .tx

/-- **On every path (client put, unpaid update, replication) every put is under the key the stored
content determines**: the put key is the presented key and the derived key of the delivered content; for a
replicated transaction vector, only entries whose owner key is that key contribute. -/
theorem stored_key_is_derived (d : Delivery) (s : Store) (k : Nat) (c : Content)
    (hW : Tok.W k c ∈ (validate d s).2) :
    k = d.rk ∧
    (¬ IsTxVector d → derivedKey d.content = some k) ∧
    (∀ t ∈ txValid d, 3 * t.owner + 1 = k) := by
  rw [validate_trace] at hW
  obtain ⟨hk, hw, _⟩ := W_mem_inv hW
  have h := imp_of_bool (tbl_put_needs_key_match d.client d.kind (obsOfAns d (seqAns d s))) hw
  simp only [Bool.and_eq_true, Bool.or_eq_true, Bool.not_eq_eq_eq_not, Bool.not_true, beq_iff_eq] at h
  have hkeys : k = d.rk ∧ (¬ IsTxVector d → derivedKey d.content = some k) := by
    by_cases hv : IsTxVector d
    · obtain ⟨hc, hkd⟩ := hv
      have : rwKey d = d.rk := by simp [rwKey, hc, hkd, route_repl_tx]
      exact ⟨by rw [hk, this], fun hn => absurd ⟨hc, hkd⟩ hn⟩
    · have hkm : (obsOfAns d (seqAns d s)).km = true := by
        rcases h.1 with h1 | h1
        · exact h1
        · exact absurd h1 hv
      obtain ⟨hd, hr⟩ := km_true_key hkm hv
      exact ⟨by rw [hk, hr], fun _ => by rw [hk, hr]; exact hd⟩
  refine ⟨hkeys.1, hkeys.2, ?_⟩
  intro t ht
  simp only [txValid, txForKey, txFiltersInvalid, txFiltersForeign, if_true] at ht
  rw [hk]
  cases hc : d.content <;> simp only [hc] at ht
  all_goals simp at ht
  exact ht.2.2

/-- **A record presented under any other key is rejected and nothing changes**: error result, no put. -/
theorem mismatch_rejected (d : Delivery) (s : Store)
    (hmis : derivedKey d.content ≠ some d.rk) (hv : ¬ IsTxVector d) :
    (validate d s).1 ≠ .ok ∧ ∀ k c, Tok.W k c ∉ (validate d s).2 := by
  have hkm : (obsOfAns d (seqAns d s)).km = false := by
    rw [obs_km]
    have hr : route d.client d.kind ≠ .txRepl := fun h => hv (route_txRepl h)
    revert hr
    generalize route d.client d.kind = b
    intro hr
    cases b <;> simp_all
  have hcond : (!(obsOfAns d (seqAns d s)).km && !(!d.client && d.kind == .tx)) = true := by
    rw [hkm]
    simp only [Bool.not_false, Bool.true_and, Bool.not_eq_eq_eq_not, Bool.not_true,
      Bool.and_eq_false_imp, Bool.not_eq_eq_eq_not, beq_eq_false_iff_ne, ne_eq]
    intro hc hk
    exact hv ⟨by simpa using hc, hk⟩
  have h := imp_of_bool (tbl_mismatch_rejected d.client d.kind (obsOfAns d (seqAns d s))) hcond
  simp only [Bool.and_eq_true, bne_iff_ne, ne_eq, Bool.not_eq_eq_eq_not, Bool.not_true] at h
  refine ⟨by rw [validate_res]; exact h.1, ?_⟩
  rw [validate_trace]
  exact no_W_of_not_hasW h.2

/-- **Records arriving from the network (kad path) are never readable before validation accepted them, and
oversized or unparseable ones are refused there**: `RecordStore::put` returns `ValueTooLarge` exactly when
`len ≥ max_value_bytes`, and emits no `UnverifiedRecord` event for an oversized record or one whose header
does not parse.

What the first conjunct is: "never readable before validation" is **not** derived from a model of the store here.
`storePutNeverStores` is a generated constant — the translator's reading of the body of `RecordStore::put`
(true iff it contains none of `put_verified(`, `records.insert(`, `records_cache.`, `fs::write`,
`records_by_distance.`) — and `storePut` therefore has no store output at all.  The behavioural content of the
clause is the harness's observation on the real `NodeRecordStore` (component `validate-keys`, `sput` lines):
`get`, `contains` and the address list are compared before and after every call (oracle
`C04:put-never-readable`).  The theorem pins the generated constant and the `storePut` equations, so that a
source change the translator reads differently breaks it.  (That `put_verified`, the only function that
stores, is reached only from the `PutLocalRecord` handler, i.e. after validation, is C01's model.)
The size clause for the other paths is `oversized_refused_every_path`. -/
theorem put_never_readable :
    storePutNeverStores = true ∧
    ∀ (maxBytes len : Nat) (hdr : Option Kind) (held : Held),
      ((storePut maxBytes len hdr held).1 = .tooLarge ↔ maxBytes ≤ len) ∧
      (maxBytes ≤ len → (storePut maxBytes len hdr held).2 = false) ∧
      (hdr = none → (storePut maxBytes len hdr held).2 = false) := by
  refine ⟨by decide, ?_⟩
  intro mx len hdr held
  have e1 : storePutRefusesAtLimit = true := by decide
  have e2 : storePutSilentOnBadHeader = true := by decide
  unfold storePut
  simp only [e1, e2, if_true]
  by_cases h : mx ≤ len
  · simp [h]
  · simp only [h, if_false]
    cases hdr with
    | none => simp
    | some k =>
      simp only
      split
      · simp
      · cases held <;> simp

/-- an accepted event is only ever for a parsed header below the size limit -/
theorem put_event_implies_parsed (maxBytes len : Nat) (hdr : Option Kind) (held : Held)
    (h : (storePut maxBytes len hdr held).2 = true) : len < maxBytes ∧ hdr.isSome = true := by
  have := put_never_readable.2 maxBytes len hdr held
  refine ⟨?_, ?_⟩
  · by_cases hl : maxBytes ≤ len
    · have := this.2.1 hl; simp_all
    · omega
  · cases hdr with
    | none => have := this.2.2 rfl; simp_all
    | some _ => rfl

/-- **Oversized records are refused on every path, each with the bound the code enforces there**
(`MAX_PACKET_SIZE` = 5 MiB; constants and comparators read off the source by the translator).
* Client upload / update and replication: both entry points of put validation (`validate_and_store_record`,
  `store_replicated_in_record`) compare `record.value.len()` with `MAX_PACKET_SIZE` before anything else
  (`validateSized = none`: an error and no command at all, so nothing is stored or replicated); below the limit
  the decision function `validate` applies unchanged.
* kad path: `RecordStore::put` with the configuration `build_node` gives the store
  (`max_value_bytes = MAX_PACKET_SIZE`) answers `ValueTooLarge` and emits no event; a kad message is itself
  limited to `MAX_PACKET_SIZE` (`set_max_packet_size`).
The node's own test is what bounds a *replicated* record: it arrives in a request-response `GetReplicatedRecord`
response, which libp2p's cbor codec limits to `cborResponseSizeMaximum` = 10 MiB — twice `MAX_PACKET_SIZE`
(`transport_does_not_bound_replication`) — and `put_verified` has no size test.  Before the repair recorded in
`known_findings.jsonl` a replicated chunk / scratchpad of 5 MiB … 10 MiB was accepted and stored (replayed:
`big r chunk 1000000`, `big r pad 4000000`). -/
theorem oversized_refused_every_path :
    (∀ (len : Nat) (d : Delivery) (s : Store), maxPacketSize ≤ len → validateSized len d s = none) ∧
    (∀ (len : Nat) (d : Delivery) (s : Store), len < maxPacketSize → validateSized len d s = some (validate d s)) ∧
    (∀ (len : Nat) (hdr : Option Kind) (held : Held), storeMaxValueBytes ≤ len →
      storePut storeMaxValueBytes len hdr held = (.tooLarge, false)) ∧
    storeMaxValueBytes = maxPacketSize ∧ kadMaxPacketSize = maxPacketSize := by
  have e1 : nodeSizeRefusesAtLimit = true := by decide
  have e2 : clientPathRefusesOversize = true := by decide
  have e3 : replPathRefusesOversize = true := by decide
  have e4 : storePutRefusesAtLimit = true := by decide
  refine ⟨?_, ?_, ?_, by decide, by decide⟩
  · intro len d s h
    have : sizeGate d.client len = true := by
      cases hc : d.client <;> simp [sizeGate, oversize, e1, e2, e3, h]
    simp [validateSized, this]
  · intro len d s h
    have : sizeGate d.client len = false := by
      have : ¬ maxPacketSize ≤ len := by omega
      cases hc : d.client <;> simp [sizeGate, oversize, e1, e2, e3, this]
    simp [validateSized, this]
  · intro len hdr held h
    simp [storePut, e4, h]

/-- the transport limits alone would let a replicated record of up to twice `MAX_PACKET_SIZE` through (the
request-response codec's limit on a response; requests, which carry no record, are limited to 1 MiB) -/
theorem transport_does_not_bound_replication :
    cborResponseSizeMaximum = 2 * maxPacketSize ∧ maxPacketSize < cborResponseSizeMaximum ∧
    cborRequestSizeMaximum < maxPacketSize := by decide

/-- **Under every schedule, about the validation that writes** (`World.run` over an arbitrary action list —
validations interleaved at their store reads, keys dropped at any time): every put an action emits for delivery
`d` is under the key `d` was presented under, which is the key its content determines (for a replicated
transaction vector: only entries whose owner key is that key contribute), and carries content of the delivered
kind.  So no interleaving can leave a record under a key its content does not derive. -/
theorem any_schedule_put_key_derived (s0 : Store) (pre : List Act) (a : Act)
    (d : Delivery) (k : Nat) (c : Content)
    (hput : (d, k, c) ∈ (World.run ⟨s0, []⟩ pre).putsOf a) :
    k = d.rk ∧ (¬ IsTxVector d → derivedKey d.content = some k) ∧
      (∀ t ∈ txValid d, 3 * t.owner + 1 = k) ∧ c.fam = kindFam d.kind := by
  obtain ⟨hk, hc, ⟨h1, h2⟩, _, _⟩ := put_justified s0 pre a d k c hput
  refine ⟨by rw [hk, h1], fun hv => by rw [hk, h1]; exact h2 hv, ?_, hc⟩
  intro t ht
  simp only [txValid, txForKey, txFiltersInvalid, txFiltersForeign, if_true] at ht
  rw [hk]
  cases hcn : d.content <;> simp only [hcn] at ht
  all_goals simp at ht
  exact ht.2.2

/-- **Under every schedule** of concurrent validations (`World.run` over an arbitrary action list, keys dropped
at any time), every key the node comes to hold is the record key of a started validation whose content
determines exactly that key (for a replicated transaction vector: whose entries are filtered to that key, see
`stored_key_is_derived`). -/
theorem any_schedule_keys_derived (s0 : Store) (acts : List Act) (k : Nat)
    (hnew : s0.get k = none) (hheld : (World.run ⟨s0, []⟩ acts).store.get k ≠ none) :
    ∃ d ∈ startedBy ⟨s0, []⟩ acts, d.rk = k ∧ (¬ IsTxVector d → derivedKey d.content = some k) := by
  rcases any_schedule_held_is_justified s0 acts k hheld with h | ⟨d, hd, hk, hko, _⟩
  · exact absurd hnew h
  · obtain ⟨h1, h2⟩ := hko
    refine ⟨d, hd, by rw [← h1, hk], fun hv => ?_⟩
    have := h2 hv
    rw [this, ← h1, hk]

/-- Corollary: started validations all presented under keys other than `k` never make `k` held. -/
theorem any_schedule_foreign_key_untouched (s0 : Store) (acts : List Act) (k : Nat)
    (hall : ∀ d ∈ startedBy ⟨s0, []⟩ acts, d.rk ≠ k) (hnew : s0.get k = none) :
    (World.run ⟨s0, []⟩ acts).store.get k = none := by
  by_cases h : (World.run ⟨s0, []⟩ acts).store.get k = none
  · exact h
  · obtain ⟨d, hd, hk, _⟩ := any_schedule_keys_derived s0 acts k hnew h
    exact absurd hk (hall d hd)

/-- **Addresses are recomputed from owner / content, never taken off the wire** (read off the struct
definitions and accessors by the translator): a `ScratchpadAddress` carries only the owner and hashes it; a
`RegisterAddress` carries meta + owner and hashes them; a `Transaction` has no address field and derives it
from its owner; a `Chunk` serialises only its bytes and rebuilds its address when decoded (so the names
stored inside `ChunkAddress` / `TransactionAddress` are never attacker-supplied). This is what makes the
model's `derivedKey` (a function of owner / content alone) the key the code compares with. -/
theorem addresses_recomputed :
    padAddressRecomputed = true ∧ regAddressRecomputed = true ∧ chunkAddressOffWire = true ∧
    txAddressRecomputed = true := by decide

/-! Non-vacuity -/
example : (validate ⟨true, .reg, 5, .reg 0 .good [⟨1, .v⟩, ⟨2, .v⟩], none⟩ [(2, .reg false [1]), (5, .reg false [1])]) =
    (.keyMismatch, []) := by decide
example : (validate ⟨false, .tx, 1, .txs [⟨0, 3, true⟩, ⟨1, 4, true⟩, ⟨0, 2, false⟩], none⟩ [(1, .txs [1, 2])]) =
    (.ok, [.G 1, .W 1 (.txs [1, 2, 3])]) := by decide
example : storePut 200 199 (some .chunk) .none = (.ok, true) := by decide
example : storePut 200 200 (some .chunk) .none = (.tooLarge, false) := by decide
example : storePut 200 10 (some .chunk) .chunk = (.ok, false) := by decide
example : storePut 200 10 (some .chunkp) .chunk = (.ok, true) := by decide
/-- a replicated chunk one byte below / at the limit -/
example : validateSized (maxPacketSize - 1) ⟨false, .chunk, 0, .chunk 0, none⟩ [] = some (.ok, [.H 0, .W 0 .chunk]) := by decide
example : validateSized maxPacketSize ⟨false, .chunk, 0, .chunk 0, none⟩ [] = none := by decide
/-- the union with the local set is tested before the put: nothing is put, the held set stays -/
example : validateSizedPut 3000000 (maxPacketSize + 512) ⟨false, .tx, 1, .txs [⟨0, 2, true⟩], none⟩ [(1, .txs [1])] =
    .refusedAtPut [.G 1] := by decide
example : validateSizedPut 3000000 (maxPacketSize - 512) ⟨false, .tx, 1, .txs [⟨0, 2, true⟩], none⟩ [(1, .txs [1])] =
    .done .ok [.G 1, .W 1 (.txs [1, 2])] := by decide

/-! ## The derivations themselves (`Model/AddrDerive`, content hash = SHA3-256 as defined in `Base/Sha3`;
tied to the real address types by component `addrderive`) -/
section Derive
open SafeNet.AddrDerive

/-- Every derived record key is a 32-byte SHA3-256 digest of exactly the bytes the property names: the chunk's bytes,
the owner key (scratchpad, transaction), the label followed by the owner key (register). -/
theorem derived_keys_are_content_hashes (value owner label : List Nat) :
    recordKey (chunkName value) = SafeNet.Sha3.hashBytes value ∧
    recordKey (scratchpadName owner) = SafeNet.Sha3.hashBytes owner ∧
    recordKey (transactionName owner) = SafeNet.Sha3.hashBytes owner ∧
    recordKey (registerName label owner) = SafeNet.Sha3.hashBytes (label ++ owner) ∧
    (recordKey (chunkName value)).length = 32 ∧ (recordKey (registerName label owner)).length = 32 :=
  ⟨rfl, rfl, rfl, rfl, SafeNet.Sha3.hashBytes_length _, SafeNet.Sha3.hashBytes_length _⟩

/-- A key determines what may be stored under it, unless the two contents in question are a SHA3-256 collision
(the hypothesis of each clause is about that pair only — a global "SHA3-256 is injective" is false of any function into
256 bits and would make the statement vacuous): two chunks under one key have equal bytes, two scratchpads /
transaction sets under one key the same owner, two registers under one key equal label and owner (labels are 32
bytes: the concatenation label ++ owner splits uniquely). -/
theorem key_determines_content :
    (∀ v v', (SafeNet.Sha3.hashBytes v = SafeNet.Sha3.hashBytes v' → v = v') →
      recordKey (chunkName v) = recordKey (chunkName v') → v = v') ∧
    (∀ o o', (SafeNet.Sha3.hashBytes o = SafeNet.Sha3.hashBytes o' → o = o') →
      recordKey (scratchpadName o) = recordKey (scratchpadName o') → o = o') ∧
    (∀ o o', (SafeNet.Sha3.hashBytes o = SafeNet.Sha3.hashBytes o' → o = o') →
      recordKey (transactionName o) = recordKey (transactionName o') → o = o') ∧
    (∀ l o l' o', l.length = 32 → l'.length = 32 →
      (SafeNet.Sha3.hashBytes (l ++ o) = SafeNet.Sha3.hashBytes (l' ++ o') → l ++ o = l' ++ o') →
      recordKey (registerName l o) = recordKey (registerName l' o') → l = l' ∧ o = o') := by
  refine ⟨fun v v' hp h => hp h, fun o o' hp h => hp h, fun o o' hp h => hp h, ?_⟩
  intro l o l' o' hl hl' hp h
  exact List.append_inj (hp h) (by rw [hl, hl'])

/-- non-vacuity of the register clause: a concrete pair with equal keys (the same register) -/
example : recordKey (registerName (List.replicate 32 7) [1, 2, 3]) = recordKey (registerName (List.replicate 32 7) [1, 2, 3]) ∧
    (List.replicate 32 7).length = 32 := ⟨rfl, by simp⟩

/-- Observed on the code (not a violation of the statement): a scratchpad and a transaction set of one owner are
addressed by the same key; a register of that owner is not (given collision-freedom, a 32-byte label in front). -/
theorem scratchpad_and_transactions_share_a_key (owner : List Nat) :
    recordKey (scratchpadName owner) = recordKey (transactionName owner) := rfl

/-- **Addresses carry no kind tag** (known finding K-f5, recorded under C07): the chunk whose BYTES are an owner's
public key has the record key of that owner's scratchpad and transaction set, and the chunk whose bytes are
`label ++ owner` has the key of that register — `to_record_key` keeps only the 32 name bytes.  C04's own clause "a
chunk is stored under the hash of its bytes" holds for such a chunk as for any other (`stored_key_is_derived`,
`squatting_chunk_is_under_the_hash_of_its_bytes`): what the coincidence breaks is C07's "highest version / union of
what was delivered" for that owner's records on a node where the chunk arrived first. -/
theorem chunk_can_share_an_owner_derived_key (owner label : List Nat) :
    recordKey (chunkName owner) = recordKey (scratchpadName owner) ∧
    recordKey (chunkName owner) = recordKey (transactionName owner) ∧
    recordKey (chunkName (label ++ owner)) = recordKey (registerName label owner) := ⟨rfl, rfl, rfl⟩

end Derive

/-! ## What the node PUTS is never oversized either

C04's size clause speaks of arriving records; the reason for it is that a record of `MAX_PACKET_SIZE` bytes or more
cannot travel (no peer accepts it by replication — `oversized_refused_every_path` — and kad cannot carry it).  The
record a store function BUILDS by merging with the local copy was not tested: a held 3.1 MB transaction set plus a
3.1 MB `TransactionWithPayment` with an expired quote (tolerated as an update: no payment at all) made the real node put
a 6.2 MB record (`bigm c 1000000`).  Repaired: the same test before `put_local_record` in both merging store
functions (two generated flags). -/

theorem kindFam_cases' (k : Kind) : kindFam k = 0 ∨ kindFam k = 1 ∨ kindFam k = 2 ∨ kindFam k = 3 := by
  cases k <;> simp [kindFam]

theorem hasPut_cutAtPut (toks : List Tok) : hasPut (cutAtPut toks) = false := by
  induction toks with
  | nil => rfl
  | cons t r ih => cases t <;> simp [cutAtPut, hasPut, ih]

/-- **Every record the node puts is below `MAX_PACKET_SIZE`**: `len` = length of the arriving record, `plen` = length
of the record its store function builds; a chunk / scratchpad put is the arriving content re-serialised without its
payment (`hre`), a transaction set / register put is the union with the local copy and is tested on its own. -/
theorem stored_record_never_oversized (len plen : Nat) (d : Delivery) (s : Store)
    (hre : kindFam d.kind ≤ 1 → plen ≤ len) :
    match validateSizedPut len plen d s with
    | .refused => True
    | .refusedAtPut toks => hasPut toks = false
    | .done _ toks => hasPut toks = true → plen < maxPacketSize := by
  have e1 : clientPathRefusesOversize = true := by decide
  have e2 : replPathRefusesOversize = true := by decide
  have e3 : nodeSizeRefusesAtLimit = true := by decide
  have e4 : txMergedPutRefusesOversize = true := by decide
  have e5 : regMergedPutRefusesOversize = true := by decide
  unfold validateSizedPut
  by_cases hg : sizeGate d.client len = true
  · simp [hg]
  · simp only [hg, Bool.false_eq_true, if_false]
    have hlen : len < maxPacketSize := by
      cases hc : d.client <;> simp [sizeGate, oversize, hc, e1, e2, e3] at hg <;> omega
    by_cases hp : (putGate d && oversize plen && hasPut (validate d s).2) = true
    · simp only [hp, if_true]
      exact hasPut_cutAtPut _
    · simp only [hp, Bool.false_eq_true, if_false]
      intro hput
      rcases kindFam_cases' d.kind with h | h | h | h
      · have := hre (by omega); omega
      · have := hre (by omega); omega
      · simp [putGate, h, e4, hput, oversize, e3] at hp; omega
      · simp [putGate, h, e5, hput, oversize, e3] at hp; omega

/-- In the validation model the chunk whose bytes are address preimage `n` (`DContent.chunkPre n`) is put under key `n`
and nowhere else, on both paths, whatever else derives key `n`. -/
theorem squatting_chunk_is_under_the_hash_of_its_bytes (client : Bool) (kind : Kind) (rk n : Nat) (pay : Option PayD)
    (s : Store) (k : Nat) (c : Content)
    (hW : Tok.W k c ∈ (validate ⟨client, kind, rk, .chunkPre n, pay⟩ s).2) : k = n ∧ rk = n ∧ c = .chunk := by
  have h := stored_key_is_derived ⟨client, kind, rk, .chunkPre n, pay⟩ s k c hW
  have hW' := hW
  rw [validate_trace] at hW'
  obtain ⟨_, hw, hwr⟩ := W_mem_inv hW'
  have hkey := imp_of_bool (tbl_put_needs_key_match client kind
    (obsOfAns ⟨client, kind, rk, .chunkPre n, pay⟩ (seqAns ⟨client, kind, rk, .chunkPre n, pay⟩ s))) hw
  simp only [Bool.and_eq_true] at hkey
  have hfam := parse_fam hkey.2
  have hnv : ¬ IsTxVector ⟨client, kind, rk, .chunkPre n, pay⟩ := by
    rintro ⟨_, hk⟩
    simp only at hk
    subst hk
    simp [contentFam, kindFam] at hfam
  have hd := h.2.1 hnv
  simp only [derivedKey, Option.some.injEq] at hd
  refine ⟨hd.symm, ?_, ?_⟩
  · have := h.1; simp only at this; omega
  · rcases hwr with ⟨_, e⟩ | ⟨_, e⟩ <;> simp [e, written]

end SafeNet.Props.C04

#print axioms SafeNet.Props.C04.stored_key_is_derived
#print axioms SafeNet.Props.C04.mismatch_rejected
#print axioms SafeNet.Props.C04.put_never_readable
#print axioms SafeNet.Props.C04.put_event_implies_parsed
#print axioms SafeNet.Props.C04.addresses_recomputed
#print axioms SafeNet.Props.C04.oversized_refused_every_path
#print axioms SafeNet.Props.C04.transport_does_not_bound_replication
#print axioms SafeNet.Props.C04.any_schedule_put_key_derived
#print axioms SafeNet.Props.C04.any_schedule_keys_derived
#print axioms SafeNet.Props.C04.any_schedule_foreign_key_untouched
#print axioms SafeNet.Props.C04.derived_keys_are_content_hashes
#print axioms SafeNet.Props.C04.key_determines_content
#print axioms SafeNet.Props.C04.scratchpad_and_transactions_share_a_key
#print axioms SafeNet.Props.C04.chunk_can_share_an_owner_derived_key
#print axioms SafeNet.Props.C04.squatting_chunk_is_under_the_hash_of_its_bytes
#print axioms SafeNet.Props.C04.stored_record_never_oversized
