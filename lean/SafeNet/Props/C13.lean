import SafeNet.Proofs.Quote
import SafeNet.Model.QuoteHist
import SafeNet.Model.QuoteDuty
import SafeNet.Model.QuoteFetch
import SafeNet.Model.QuoteFlow
/-!
# C13 — payment quotes are bound to their signer and to every signed field

Statements over `SafeNet.Model.Quote` (model of `ant-evm/src/data_payments.rs`), instantiated with the
part order, comparators and constants that `rs2lean` regenerates from the Rust source (`SafeNet.Gen.Quote`).
The signature scheme `S` is a *parameter* (`SigScheme`), ideal for keys of prime order (`S.strong`), identities `I` are
abstract; every theorem holds for all of them.  The clock is the parameter `now`.

Reading guide for the last clause of the property ("a later quote from the same node that reports less uptime or fewer
received payments than an earlier one is flagged as inconsistent"):
* `historical_flags` … `deliverAll_other_peers`, `duty_forwards_iff`, `duty_none_iff`, `around_same_time_iff` describe
  **the checker, once reached** (`quotes_verification` → `LocalSwarmCmd::QuoteVerification` → `verify_peer_quote` →
  `historical_verify`), driven on the real code by injecting the command / calling the hook (`quotehist`, `quoteduty`).
* No production code reaches it: nothing constructs `NetworkEvent::QuoteVerification` (regenerated fact
  `Gen.QuoteFetch.quoteVerificationDispatched = false`).  `LaterLesserQuoteFlagged` is the clause over the composed
  system client fetch → dispatch → checker; it is FALSE of today's code (`flagging_unreachable_witness`,
  `later_lesser_quote_not_flagged`; known finding K-q-flagging-unreachable) and holds exactly when the dispatch exists
  (`later_lesser_flagged_iff_dispatched`).
* Even when reached, the checker compares with the ONE remembered (newest) quote only: `LaterLesserThanAnyEarlierFlagged`
  is refuted by `lesser_than_older_unflagged_witness` (known finding K-n-only-newest-remembered);
  `out_of_sequence_with_newest_flagged` / `later_lesser_flagged_partial` are the `_partial` form.

Known finding K-w (weak keys): `altered_field_fails` needs `StrongKey`; `AlteredFieldFailsAnyKey` is refuted by
`weak_key_verifies_every_field_witness`.  Observation (non-canonical key encodings): `altered_key_fails` is up to
*decoding*; `OneSignedQuoteOneHashInput` is refuted by `noncanonical_key_other_hash_witness`.

Known finding K-i (recorded in `known_findings.jsonl`): the property text says the signature covers the
quote's *timestamp*; the code signs `as_secs()` only.  `TimestampFullyBound` is the full statement,
`subsecond_not_bound_witness` refutes it, `bytes_injective` is the `_partial` form (whole seconds are bound).
-/
namespace SafeNet.Props.C13
open SafeNet.MsgPack SafeNet.Quote SafeNet.Gen.Quote

/-! ## the signed bytes determine every signed field -/

/-- **bytes_injective.** Equal signing bytes ⇒ equal content address, equal whole seconds, equal quoting
metrics, equal rewards address (for quotes whose fields are in the ranges of the Rust types). -/
theorem bytes_injective (q q' : Quote) (hq : q.ok) (hq' : q'.ok) (h : q.sigBytes = q'.sigBytes) :
    q.content = q'.content ∧ q.secs = q'.secs ∧ q.metrics = q'.metrics ∧ q.rewards = q'.rewards := by
  rw [sigBytes_eq, sigBytes_eq] at h
  obtain ⟨hc, hr, hs, hm⟩ := hq
  obtain ⟨hc', hr', hs', hm'⟩ := hq'
  obtain ⟨e1, h⟩ := List.append_inj h (by rw [hc, hc'])
  obtain ⟨e2, h⟩ := List.append_inj h (by rw [toLE_length, toLE_length])
  have d1 := decode_encode q.metrics.toVal q.rewards (Metrics.toVal_wf _ hm)
  have d2 := decode_encode q'.metrics.toVal q'.rewards (Metrics.toVal_wf _ hm')
  rw [h, d2] at d1
  simp only [Option.some.injEq, Prod.mk.injEq] at d1
  have e3 : q.secs = q'.secs := by
    have := congrArg fromLE e2
    rwa [fromLE_toLE 8 _ (by simpa using hs), fromLE_toLE 8 _ (by simpa using hs')] at this
  exact ⟨e1, e3, (Metrics.toVal_inj _ _ d1.1).symm, d1.2.symm⟩

/-- contrapositive: changing any one signed field changes the signed bytes -/
theorem bytes_differ (q q' : Quote) (hq : q.ok) (hq' : q'.ok)
    (h : q.content ≠ q'.content ∨ q.secs ≠ q'.secs ∨ q.metrics ≠ q'.metrics ∨ q.rewards ≠ q'.rewards) :
    q.sigBytes ≠ q'.sigBytes := by
  intro e
  obtain ⟨a, b, c, d⟩ := bytes_injective q q' hq hq' e
  rcases h with h | h | h | h <;> contradiction

section
variable {Key Peer : Type} [DecidableEq Peer] (S : SigScheme Key) (I : Ids Key Peer)

/-! ## verification -/

/-- what `check_is_signed_by_claimed_peer` computes, for every key: the key field decodes to a key that hashes to the
claimed peer and the signature verifies under it over the quote's own signing bytes -/
theorem verify_iff_any_key (q : Quote) (p : Peer) :
    checkSigned S I q p = true ↔
      ∃ k, I.decodeKey q.pubKey = some k ∧ I.peerOf k = p ∧ S.verify k q.sigBytes q.signature = true := by
  unfold checkSigned
  cases hk : I.decodeKey q.pubKey with
  | none => simp
  | some k =>
    by_cases hp : I.peerOf k = p
    · simp [hp]
    · simp [hp]

/-- the key the quote carries (if it decodes) is of prime order — not one of the small-order points that
libp2p-identity also accepts as ed25519 public keys (K-w) -/
def StrongKey (q : Quote) : Prop := ∀ k, I.decodeKey q.pubKey = some k → S.strong k = true

/-- **verify_iff.** A quote carrying a prime-order key verifies for the claimed peer `p` iff its key field decodes to a
key `k`, `k` hashes to `p`, and the signature is `k`'s signature over exactly the quote's own signing bytes. -/
theorem verify_iff (q : Quote) (p : Peer) (hk : StrongKey S I q) :
    checkSigned S I q p = true ↔
      ∃ k, I.decodeKey q.pubKey = some k ∧ I.peerOf k = p ∧ q.signature = S.sign k q.sigBytes := by
  rw [verify_iff_any_key]
  constructor
  · rintro ⟨k, h1, h2, h3⟩
    exact ⟨k, h1, h2, (S.ideal k _ _ (hk k h1)).mp h3⟩
  · rintro ⟨k, h1, h2, h3⟩
    exact ⟨k, h1, h2, (S.ideal k _ _ (hk k h1)).mpr h3⟩

/-- **Altering a signed field.** If `q` verifies (for anyone), then a quote carrying the same
signature (under whatever prime-order key) but a different content address, whole-second timestamp, metrics or rewards
address verifies for no one. -/
theorem altered_field_fails (q q' : Quote) (p p' : Peer) (hq : q.ok) (hq' : q'.ok)
    (hk : StrongKey S I q) (hk' : StrongKey S I q')
    (hv : checkSigned S I q p = true) (hs : q'.signature = q.signature)
    (h : q.content ≠ q'.content ∨ q.secs ≠ q'.secs ∨ q.metrics ≠ q'.metrics ∨ q.rewards ≠ q'.rewards) :
    checkSigned S I q' p' = false := by
  apply Bool.eq_false_iff.mpr
  intro hv'
  obtain ⟨k, hk1, _, hsig⟩ := (verify_iff S I q p hk).mp hv
  obtain ⟨k', hk1', _, hsig'⟩ := (verify_iff S I q' p' hk').mp hv'
  rw [hs, hsig] at hsig'
  exact bytes_differ q q' hq hq' h (S.inj _ _ _ _ hsig').2

/-- **Altering the key.** Same fields and signature under a key field that decodes to a different (prime-order) key
(or does not decode) verifies for no one. "Different" is up to DECODING: see `noncanonical_key_same_verdict`. -/
theorem altered_key_fails (q q' : Quote) (p p' : Peer) (hk : StrongKey S I q) (hk' : StrongKey S I q')
    (hv : checkSigned S I q p = true) (hb : q'.sigBytes = q.sigBytes) (hs : q'.signature = q.signature)
    (h : I.decodeKey q'.pubKey ≠ I.decodeKey q.pubKey) :
    checkSigned S I q' p' = false := by
  apply Bool.eq_false_iff.mpr
  intro hv'
  obtain ⟨k, hk1, _, hsig⟩ := (verify_iff S I q p hk).mp hv
  obtain ⟨k', hk1', _, hsig'⟩ := (verify_iff S I q' p' hk').mp hv'
  rw [hs, hsig, hb] at hsig'
  have := (S.inj _ _ _ _ hsig').1
  rw [hk1, hk1', this] at h
  exact h rfl

/-- **Altering the claimed identity.** A quote verifies for at most one peer: the hash of its own key. -/
theorem claimed_identity_unique (q : Quote) (p p' : Peer)
    (hv : checkSigned S I q p = true) (h : p' ≠ p) : checkSigned S I q p' = false := by
  apply Bool.eq_false_iff.mpr
  intro hv'
  obtain ⟨k, hk1, hp, _⟩ := (verify_iff_any_key S I q p).mp hv
  obtain ⟨k', hk1', hp', _⟩ := (verify_iff_any_key S I q p').mp hv'
  rw [hk1] at hk1'
  cases hk1'
  exact h (hp'.symm.trans hp)

/-- a key field that does not decode never verifies -/
theorem undecodable_key_fails (q : Quote) (p : Peer) (h : I.decodeKey q.pubKey = none) :
    checkSigned S I q p = false := by
  simp [checkSigned, h]

/-! ## proofs of payment -/

/-- **proof_verify_for.** A proof verifies for a node iff the node is among the (decodable) payees and
every quote verifies for its own claimed payee; in particular an undecodable payee id fails the proof. -/
theorem proof_verify_for (pr : Proof) (self : Peer) :
    verifyFor S I pr self = true ↔
      self ∈ payees I pr ∧ ∀ e ∈ pr, ∃ peer, I.decodePeer e.1 = some peer ∧ checkSigned S I e.2 peer = true := by
  unfold verifyFor
  by_cases hm : self ∈ payees I pr
  · simp only [hm, not_true_eq_false, ↓reduceIte, List.all_eq_true, true_and]
    constructor
    · intro h e he
      have := h e he
      cases hd : I.decodePeer e.1 with
      | none => simp [hd] at this
      | some peer => simp only [hd] at this; exact ⟨peer, rfl, this⟩
    · intro h e he
      obtain ⟨peer, hd, hv⟩ := h e he
      simp [hd, hv]
  · simp [hm]

theorem proof_undecodable_payee_fails (pr : Proof) (self : Peer) (e : List Nat × Quote) (he : e ∈ pr)
    (hd : I.decodePeer e.1 = none) : verifyFor S I pr self = false := by
  apply Bool.eq_false_iff.mpr
  intro h
  obtain ⟨_, hall⟩ := (proof_verify_for S I pr self).mp h
  obtain ⟨peer, hp, _⟩ := hall e he
  rw [hd] at hp; cases hp

theorem proof_one_bad_quote_fails (pr : Proof) (self peer : Peer) (e : List Nat × Quote) (he : e ∈ pr)
    (hd : I.decodePeer e.1 = some peer) (hb : checkSigned S I e.2 peer = false) : verifyFor S I pr self = false := by
  apply Bool.eq_false_iff.mpr
  intro h
  obtain ⟨_, hall⟩ := (proof_verify_for S I pr self).mp h
  obtain ⟨peer', hp, hv⟩ := hall e he
  rw [hd] at hp; cases hp
  rw [hb] at hv; cases hv

omit [DecidableEq Peer] in
/-- `payees` are exactly the decodable claimed ids -/
theorem payees_spec (pr : Proof) (p : Peer) : p ∈ payees I pr ↔ ∃ e ∈ pr, I.decodePeer e.1 = some p := by
  simp [payees, List.mem_filterMap]

omit [DecidableEq Peer] in
theorem peerId_eq_some (q : Quote) (p : Peer) :
    Quote.peerId I q = some p ↔ ∃ k, I.decodeKey q.pubKey = some k ∧ I.peerOf k = p := by
  unfold Quote.peerId
  cases hk : I.decodeKey q.pubKey <;> simp

/-- `quotes_by_peer` returns exactly the quotes of the proof whose own key hashes to the peer -/
theorem quotes_by_peer_spec (pr : Proof) (p : Peer) (q : Quote) :
    q ∈ quotesByPeer I pr p ↔ (∃ e ∈ pr, e.2 = q) ∧ ∃ k, I.decodeKey q.pubKey = some k ∧ I.peerOf k = p := by
  rw [← peerId_eq_some]
  simp only [quotesByPeer, List.mem_filterMap]
  constructor
  · rintro ⟨e, he, h⟩
    by_cases hp : Quote.peerId I e.2 = some p
    · rw [if_pos hp] at h
      cases h
      exact ⟨⟨e, he, rfl⟩, hp⟩
    · rw [if_neg hp] at h; cases h
  · rintro ⟨⟨e, he, rfl⟩, hp⟩
    exact ⟨e, he, by rw [if_pos hp]⟩

end

/-! ## expiry and history -/

/-- **expired_iff.** Expired exactly when dated in the future or older than the validity window
(whole elapsed seconds `> QUOTE_EXPIRATION_SECS`), for every clock reading. -/
theorem expired_iff (ts now : Nat) :
    hasExpired ts now = true ↔ ts > now ∨ (now - ts) / nsPerSec > quoteExpirationSecs := by
  unfold hasExpired
  by_cases h : ts > now
  · simp [h, futureExpired]
  · simp only [h, ↓reduceIte, expiredCmp, decide_eq_true_eq, false_or]

/-- the window is one hour; in nanoseconds: expired iff `ts > now` or `now − ts ≥ 3601 s` -/
theorem expired_iff_ns (ts now : Nat) :
    hasExpired ts now = true ↔ ts > now ∨ now - ts ≥ 3601 * nsPerSec := by
  rw [expired_iff]
  have : quoteExpirationSecs = 3600 := rfl
  rw [this]
  unfold nsPerSec
  omega

theorem proof_expired_iff (tss : List Nat) (now : Nat) :
    proofExpired tss now = true ↔ ∃ ts ∈ tss, hasExpired ts now = true := by
  simp [proofExpired]

/-- **historical_flags.** If `b` is strictly later than `a` and reports less uptime or fewer received
payments, both `a.historical_verify(b)` and `b.historical_verify(a)` flag it (`false`), whatever the clock says. -/
theorem historical_flags (a b : Hist) (now : Nat) (hlater : a.ts < b.ts)
    (h : b.liveTime < a.liveTime ∨ b.paid < a.paid) :
    historicalVerify a b now = false ∧ historicalVerify b a now = false := by
  have n1 : isNewerThan a.ts b.ts = false := by simp [isNewerThan, newerCmp]; omega
  have n2 : isNewerThan b.ts a.ts = true := by simp [isNewerThan, newerCmp]; omega
  unfold historicalVerify
  simp only [n1, n2, Bool.false_eq_true, ↓reduceIte, liveOutOfSeq, paidOutOfSeq]
  rcases h with h | h
  · simp [h]
  · by_cases h' : b.liveTime < a.liveTime <;> simp [h, h']

/-- when the two claims are in sequence and both timestamps are in the past, the verdict is the
uptime/timestamp consistency check with `LIVE_TIME_MARGIN` -/
theorem historical_sync (a b : Hist) (now : Nat) (hlater : a.ts ≤ b.ts) (hpast : b.ts ≤ now)
    (h1 : a.liveTime ≤ b.liveTime) (h2 : a.paid ≤ b.paid) :
    historicalVerify a b now =
      !decide (b.liveTime - a.liveTime > ((now - a.ts) / nsPerSec - (now - b.ts) / nsPerSec) + liveTimeMargin) := by
  have n1 : isNewerThan a.ts b.ts = false := by simp [isNewerThan, newerCmp]; omega
  unfold historicalVerify
  simp only [n1, Bool.false_eq_true, ↓reduceIte, liveOutOfSeq, paidOutOfSeq, liveOutOfSync]
  have : ¬ b.liveTime < a.liveTime := by omega
  have : ¬ b.paid < a.paid := by omega
  have : ¬ a.ts > now := by omega
  have : ¬ b.ts > now := by omega
  simp [*]

/-! ## the use site: `SwarmDriver::verify_peer_quote` (quote history per peer, `NodeIssue::BadQuoting`) -/

section History
open SafeNet.QuoteHist

/-- for quotes with different timestamps `historical_verify` does not depend on which one is `self` -/
theorem historical_symm (a b : Hist) (now : Nat) (h : a.ts ≠ b.ts) :
    historicalVerify a b now = historicalVerify b a now := by
  rcases Nat.lt_or_gt_of_ne h with h | h
  · have n1 : isNewerThan a.ts b.ts = false := by simp [isNewerThan, newerCmp]; omega
    have n2 : isNewerThan b.ts a.ts = true := by simp [isNewerThan, newerCmp]; omega
    simp [historicalVerify, n1, n2]
  · have n1 : isNewerThan a.ts b.ts = true := by simp [isNewerThan, newerCmp]; omega
    have n2 : isNewerThan b.ts a.ts = false := by simp [isNewerThan, newerCmp]; omega
    simp [historicalVerify, n1, n2]

theorem deliver_first (q : Hist) (now : Nat) : deliver .empty q now = ⟨some q, false⟩ := rfl

theorem deliver_inconsistent (h q : Hist) (f : Bool) (now : Nat) (hinc : historicalVerify h q now = false) :
    (deliver ⟨some h, f⟩ q now).flagged = true := by
  simp [deliver, runChecks, historyChecks, hinc]

/-- **inconsistent_pair_flagged.** Two quotes of one peer (different timestamps) that are inconsistent per
`historical_verify`: whichever arrives first, the second arrival records the issue — also when the later-dated
quote was stored first and the earlier-dated one arrives afterwards. -/
theorem inconsistent_pair_flagged (a b : Hist) (now0 now : Nat) (hne : a.ts ≠ b.ts)
    (hinc : historicalVerify a b now = false) :
    (deliver (deliver .empty a now0) b now).flagged = true ∧
    (deliver (deliver .empty b now0) a now).flagged = true := by
  rw [deliver_first, deliver_first]
  exact ⟨deliver_inconsistent a b false now hinc,
    deliver_inconsistent b a false now (by rw [← historical_symm a b now hne]; exact hinc)⟩

/-- the property's clause at the use site: a later quote of the node reporting less uptime or fewer received
payments than an earlier one is flagged, in either arrival order, whatever the clock says -/
theorem later_lesser_flagged_any_order (a b : Hist) (now0 now : Nat) (hlater : a.ts < b.ts)
    (h : b.liveTime < a.liveTime ∨ b.paid < a.paid) :
    (deliver (deliver .empty a now0) b now).flagged = true ∧
    (deliver (deliver .empty b now0) a now).flagged = true :=
  inconsistent_pair_flagged a b now0 now (by omega) (historical_flags a b now hlater h).1

theorem deliver_flagged_mono (s : PeerState) (q : Hist) (now : Nat) (h : s.flagged = true) :
    (deliver s q now).flagged = true := by
  unfold deliver
  cases s.history with
  | none => exact h
  | some hq => simp only []; cases hr : runChecks hq q now historyChecks <;> simp [h]

/-- the remembered quote is one of the delivered quotes and no delivered quote is newer -/
def Newest (s : PeerState) (seen : List Hist) : Prop :=
  match s.history with
  | none => seen = []
  | some h => h ∈ seen ∧ ∀ q ∈ seen, q.ts ≤ h.ts

theorem deliver_newest (s : PeerState) (seen : List Hist) (q : Hist) (now : Nat) (hn : Newest s seen)
    (hf : (deliver s q now).flagged = false) : Newest (deliver s q now) (seen ++ [q]) := by
  unfold Newest at hn
  unfold deliver at hf ⊢
  cases hh : s.history with
  | none =>
    rw [hh] at hn; subst hn
    simp [Newest]
  | some h =>
    rw [hh] at hn
    obtain ⟨hm, hle⟩ := hn
    simp only [hh] at hf ⊢
    by_cases hv : historicalVerify h q now = true
    · by_cases hnw : isNewerThan h.ts q.ts = true
      · have : runChecks h q now historyChecks = .ignore := by simp [runChecks, historyChecks, hv, hnw]
        rw [this]
        have hgt : q.ts < h.ts := by simpa [isNewerThan, newerCmp] using hnw
        simp only [Newest, hh, List.mem_append, List.mem_singleton]
        exact ⟨Or.inl hm, fun x hx => by rcases hx with hx | rfl; exact hle x hx; omega⟩
      · have : runChecks h q now historyChecks = .store := by simp [runChecks, historyChecks, hv, hnw]
        rw [this]
        have hge : h.ts ≤ q.ts := by
          have : ¬ (q.ts < h.ts) := by simpa [isNewerThan, newerCmp] using hnw
          omega
        simp only [Newest, List.mem_append, List.mem_singleton]
        exact ⟨by simp, fun x hx => by rcases hx with hx | rfl; exact Nat.le_trans (hle x hx) hge; exact Nat.le_refl _⟩
    · have : runChecks h q now historyChecks = .flag := by simp [runChecks, historyChecks, hv]
      rw [this] at hf
      simp at hf

theorem run_newest (qs : List (Hist × Nat)) (s : PeerState) (seen : List Hist) (hn : Newest s seen)
    (hf : (run s qs).flagged = false) : Newest (run s qs) (seen ++ qs.map (·.1)) := by
  induction qs generalizing s seen with
  | nil => simpa [run] using hn
  | cons e rest ih =>
    obtain ⟨q, now⟩ := e
    simp only [run] at hf ⊢
    have hf1 : (deliver s q now).flagged = false := by
      cases hd : (deliver s q now).flagged with
      | false => rfl
      | true =>
        have hmono : ∀ (l : List (Hist × Nat)) (t : PeerState), t.flagged = true → (run t l).flagged = true := by
          intro l
          induction l with
          | nil => intro t ht; exact ht
          | cons e' l' ih' => intro t ht; exact ih' _ (deliver_flagged_mono t e'.1 e'.2 ht)
        rw [hmono rest _ hd] at hf; cases hf
    have := ih (deliver s q now) (seen ++ [q]) (deliver_newest s seen q now hn hf1) hf
    simpa [List.append_assoc] using this

/-- **history_keeps_newest.** After any batch of deliveries for one peer in which nothing was flagged, the remembered
quote is one of the delivered quotes and none of them is newer (out-of-order arrivals never replace a newer quote). -/
theorem history_keeps_newest (qs : List (Hist × Nat)) (hne : qs ≠ [])
    (hf : (run .empty qs).flagged = false) :
    ∃ h, (run .empty qs).history = some h ∧ h ∈ qs.map (·.1) ∧ ∀ q ∈ qs.map (·.1), q.ts ≤ h.ts := by
  have hn := run_newest qs .empty [] (by simp [Newest, PeerState.empty]) hf
  simp only [List.nil_append] at hn
  unfold Newest at hn
  cases hh : (run .empty qs).history with
  | none =>
    rw [hh] at hn
    cases qs with
    | nil => exact absurd rfl hne
    | cons _ _ => simp at hn
  | some h => rw [hh] at hn; exact ⟨h, rfl, hn.1, hn.2⟩

example : (deliver (deliver .empty ⟨200, 10, 10⟩ 0) ⟨100, 10, 12⟩ 1000).flagged = true := by decide
example : (run .empty [(⟨100, 10, 10⟩, 1000), (⟨300, 10, 10⟩, 1000), (⟨200, 10, 10⟩, 1000)]).history = some ⟨300, 10, 10⟩ := by decide

end History

/-! ## all histories, all peers -/

section HistoryAll
open SafeNet.QuoteHist

theorem run_flagged_mono (qs : List (Hist × Nat)) (s : PeerState) (h : s.flagged = true) :
    (run s qs).flagged = true := by
  induction qs generalizing s with
  | nil => exact h
  | cons e rest ih => exact ih _ (deliver_flagged_mono s e.1 e.2 h)

theorem run_append (a b : List (Hist × Nat)) (s : PeerState) : run s (a ++ b) = run (run s a) b := by
  induction a generalizing s with
  | nil => rfl
  | cons e rest ih => simp only [List.cons_append, run]; exact ih _

/-- **Any history.** Whatever was delivered before and whatever is delivered after: if at some point a quote
arrives that is inconsistent (per `historical_verify`) with the quote remembered at that moment, the peer ends up flagged. -/
theorem inconsistent_arrival_flagged (before after : List (Hist × Nat)) (q h : Hist) (now : Nat)
    (hh : (run .empty before).history = some h) (hinc : historicalVerify h q now = false) :
    (run .empty (before ++ (q, now) :: after)).flagged = true := by
  rw [run_append]
  simp only [run]
  apply run_flagged_mono
  have : run .empty before = ⟨some h, (run .empty before).flagged⟩ := by
    cases hr : run .empty before with
    | mk hi fl => rw [hr] at hh; simp only at hh; subst hh; rfl
  rw [this]
  exact deliver_inconsistent h q _ now hinc

/-- The oracle's statement as a theorem: in any history, a quote that is out of sequence with the NEWEST quote delivered
before it (different timestamps; the later-dated of the two claims less uptime or fewer payments) leaves the peer
flagged at the end — either because something was flagged earlier or because the newest quote is the one remembered. -/
theorem out_of_sequence_with_newest_flagged (before after : List (Hist × Nat)) (q newest : Hist) (now : Nat)
    (hmem : newest ∈ before.map (·.1)) (hmax : ∀ x ∈ before.map (·.1), x.ts ≤ newest.ts)
    (huniq : ∀ x ∈ before.map (·.1), x.ts = newest.ts → x = newest)
    (hne : q.ts ≠ newest.ts)
    (hseq : (newest.ts < q.ts ∧ (q.liveTime < newest.liveTime ∨ q.paid < newest.paid)) ∨
            (q.ts < newest.ts ∧ (newest.liveTime < q.liveTime ∨ newest.paid < q.paid))) :
    (run .empty (before ++ (q, now) :: after)).flagged = true := by
  by_cases hf : (run .empty before).flagged = true
  · rw [run_append]; exact run_flagged_mono _ _ hf
  · have hf' : (run .empty before).flagged = false := by simpa using hf
    have hne' : before ≠ [] := by intro e; subst e; simp at hmem
    obtain ⟨h, hh, hhm, hhmax⟩ := history_keeps_newest before hne' hf'
    have : h = newest := by
      have h1 := hmax h hhm
      have h2 := hhmax newest hmem
      exact huniq h hhm (by omega)
    subst this
    apply inconsistent_arrival_flagged before after q h now hh
    rcases hseq with ⟨hl, hc⟩ | ⟨hl, hc⟩
    · exact (historical_flags h q now hl hc).1
    · exact (historical_flags q h now hl hc).2

/-- Other peers' quotes never touch a peer's remembered quote or its flag. -/
theorem deliverAll_other_peers (st : State) (now : Nat) (batch : List (Nat × Hist)) (p : Nat)
    (h : ∀ e ∈ batch, e.1 ≠ p) : (deliverAll st now batch).get p = st.get p := by
  induction batch generalizing st with
  | nil => rfl
  | cons e rest ih =>
    obtain ⟨p', q⟩ := e
    have hp : p' ≠ p := h (p', q) (by simp)
    simp only [deliverAll]
    rw [ih _ (fun e he => h e (by simp [he]))]
    simp only [State.get, State.set, List.find?_cons]
    have : (p' == p) = false := by simpa using hp
    simp only [this]
    congr 1
    induction st with
    | nil => rfl
    | cons x xs ihx =>
      simp only [List.filter_cons]
      by_cases c : x.1 = p'
      · have c1 : (x.1 != p') = false := by simp [c]
        have c2 : (x.1 == p) = false := by simp [c, hp]
        simp only [c1, Bool.false_eq_true, ↓reduceIte, List.find?_cons, c2]
        exact ihx
      · have c1 : (x.1 != p') = true := by simp [c]
        simp only [c1, ↓reduceIte, List.find?_cons]
        cases (x.1 == p) <;> simp [ihx]
end HistoryAll

/-! ## node side: creating quotes, and what is passed on for historical verification (`ant-node/src/quote.rs`) -/

section Duty
open SafeNet.QuoteDuty
variable {Key Peer : Type} [DecidableEq Peer] (S : SigScheme Key) (I : Ids Key Peer)

/-- **created_quote_verifies.** The quote a node creates carries its key and a signature by it over exactly the given
content address, timestamp (whole seconds), metrics and rewards address: it verifies for the node's own peer id, and
for no other. -/
theorem created_quote_verifies (selfKey : Key) (keyBytes content : List Nat) (secs nanos : Nat) (m : Metrics)
    (rewards : List Nat) (hk : I.decodeKey keyBytes = some selfKey) (hs : S.strong selfKey = true) :
    checkSigned S I (createQuote S selfKey keyBytes content secs nanos m rewards) (I.peerOf selfKey) = true ∧
    ∀ p, p ≠ I.peerOf selfKey → checkSigned S I (createQuote S selfKey keyBytes content secs nanos m rewards) p = false := by
  have h1 : checkSigned S I (createQuote S selfKey keyBytes content secs nanos m rewards) (I.peerOf selfKey) = true := by
    rw [verify_iff_any_key]; exact ⟨selfKey, hk, rfl, (S.ideal _ _ _ hs).mpr rfl⟩
  exact ⟨h1, fun p hp => claimed_identity_unique S I _ _ p h1 hp⟩

/-- a freshly created quote passes the node's own `verify_quote_for_storecost` for the address it was created for -/
theorem created_quote_passes_storecost (selfKey : Key) (keyBytes content : List Nat) (secs nanos : Nat) (m : Metrics)
    (rewards : List Nat) (now : Nat) (hs : S.strong selfKey = true)
    (hfresh : hasExpired (createQuote S selfKey keyBytes content secs nanos m rewards).ts now = false) :
    verifyForStorecost S selfKey (createQuote S selfKey keyBytes content secs nanos m rewards) content now = true := by
  unfold verifyForStorecost
  rw [if_neg (fun h => h rfl), hfresh]
  simp only [Bool.false_eq_true, ↓reduceIte]
  exact (S.ideal _ _ _ hs).mpr rfl

/-- **duty_forwards_iff.** What `quotes_verification` hands on for historical verification is exactly: the listed quotes
of other peers, for the same content as the node's own quote, dated strictly less than 10 s from it, that verify for the
peer they are listed under. -/
theorem duty_forwards_iff (self : Peer) (selfKey : Key) (now : Nat) (quotes fwd : List (Entry Peer)) (me : Entry Peer)
    (hme : quotes.find? (fun e => decide (e.claimed = self)) = some me)
    (h : quotesVerification S I self selfKey now quotes = some fwd) (e : Entry Peer) :
    e ∈ fwd ↔ e ∈ quotes ∧ e.quote.content = me.quote.content ∧ e.claimed ≠ self ∧
      aroundSameTime e.quote.ts me.quote.ts = true ∧ checkSigned S I e.quote e.claimed = true := by
  unfold quotesVerification at h
  rw [hme] at h
  simp only at h
  split at h
  · simp only [Option.some.injEq] at h
    subst h
    simp [List.mem_filter, and_assoc]
  · cases h

/-- **duty_none_iff.** Nothing at all is handed on unless the node's own quote is listed, is for its own content
address, has not expired and carries the node's own signature. -/
theorem duty_none_iff (self : Peer) (selfKey : Key) (now : Nat) (quotes : List (Entry Peer))
    (hs : S.strong selfKey = true) :
    quotesVerification S I self selfKey now quotes = none ↔
      (∀ me, quotes.find? (fun e => decide (e.claimed = self)) = some me →
        hasExpired me.quote.ts now = true ∨ me.quote.signature ≠ S.sign selfKey me.quote.sigBytes) := by
  unfold quotesVerification
  cases hf : quotes.find? (fun e => decide (e.claimed = self)) with
  | none => simp
  | some me =>
    simp only [Option.some.injEq, forall_eq']
    unfold verifyForStorecost
    simp only [ne_eq, not_true_eq_false, ↓reduceIte]
    by_cases he : hasExpired me.quote.ts now = true
    · simp [he]
    · simp only [he, Bool.false_eq_true, ↓reduceIte, false_or]
      by_cases hv : S.verify selfKey me.quote.sigBytes me.quote.signature = true
      · have := (S.ideal _ _ _ hs).mp hv
        rw [if_pos hv]
        simp only [reduceCtorEq, false_iff]
        exact fun h => h this
      · have : me.quote.signature ≠ S.sign selfKey me.quote.sigBytes := fun e => hv ((S.ideal _ _ _ hs).mpr e)
        rw [if_neg hv]
        simp only [true_iff]
        exact this

/-- the window: strictly less than 10 s apart, in either direction -/
theorem around_same_time_iff (a b : Nat) :
    aroundSameTime a b = true ↔ a < b + 10 * nsPerSec ∧ b < a + 10 * nsPerSec := by
  unfold aroundSameTime quotesTimeGapNs
  by_cases h : a > b <;> simp [h] <;> omega

end Duty

/-! ## known finding K-i: the sub-second part of the timestamp is not signed -/

/-- The full reading of "signature over exactly the quote's … timestamp …": equal signing bytes force equal timestamps. -/
def TimestampFullyBound : Prop :=
  ∀ q q' : Quote, q.ok → q'.ok → q.sigBytes = q'.sigBytes → q.secs = q'.secs ∧ q.nanos = q'.nanos

def wq (nanos : Nat) : Quote :=
  { content := List.replicate 32 7, secs := 1700000000, nanos := nanos,
    metrics := { closeRecordsStored := 1, maxRecords := 2, receivedPaymentCount := 3, liveTime := 4,
                 networkDensity := none, networkSize := some 5 },
    rewards := List.replicate 20 9, pubKey := [1], signature := [2] }

theorem wq_ok (n : Nat) : (wq n).ok := by
  refine ⟨by simp [wq], by simp [wq], by simp [wq], ?_⟩
  simp [wq, Metrics.ok]

/-- **Witness (K-i).** Two quotes that differ only inside the same second have the same signing bytes
and the same hash input, hence verify alike for every scheme, key and claimed peer. -/
theorem subsecond_not_bound_witness :
    (wq 100).ts ≠ (wq 200).ts ∧ (wq 100).sigBytes = (wq 200).sigBytes ∧ (wq 100).hashInput = (wq 200).hashInput ∧
    ∀ {Key Peer : Type} [DecidableEq Peer] (S : SigScheme Key) (I : Ids Key Peer) (p : Peer),
      checkSigned S I (wq 100) p = checkSigned S I (wq 200) p := by
  have hb : (wq 100).sigBytes = (wq 200).sigBytes := by rw [sigBytes_eq, sigBytes_eq]; rfl
  refine ⟨by simp [Quote.ts, wq], hb, by rw [hashInput_eq, hashInput_eq, hb]; rfl, ?_⟩
  intro Key Peer _ S I p
  unfold checkSigned
  rw [hb]; rfl

theorem timestamp_not_fully_bound : ¬ TimestampFullyBound := by
  intro h
  have := (h (wq 100) (wq 200) (wq_ok _) (wq_ok _) subsecond_not_bound_witness.2.1).2
  simp [wq] at this

/-! ## non-vacuity -/

/-- a concrete ideal scheme: the signature is the pair (key, message) -/
def toyScheme : SigScheme Nat where
  sign k m := k :: m
  verify k m s := s == k :: m
  strong _ := true
  ideal := by intro k m s _; simp
  inj := by intro k m k' m' h; simpa using h

def toyIds : Ids Nat Nat where
  decodeKey | [k] => some k | _ => none
  peerOf k := k
  decodePeer | [p] => some p | _ => none

theorem toy_strong (q : Quote) : StrongKey toyScheme toyIds q := fun _ _ => rfl

def goodQuote : Quote := { wq 5 with pubKey := [3], signature := toyScheme.sign 3 (wq 5).sigBytes }

example : checkSigned toyScheme toyIds goodQuote 3 = true := by
  rw [verify_iff _ _ _ _ (toy_strong _)]; exact ⟨3, rfl, rfl, rfl⟩
example : checkSigned toyScheme toyIds goodQuote 4 = false :=
  claimed_identity_unique _ _ _ 3 4 (by rw [verify_iff _ _ _ _ (toy_strong _)]; exact ⟨3, rfl, rfl, rfl⟩) (by decide)
example : verifyFor toyScheme toyIds [([3], goodQuote)] 3 = true := by
  rw [proof_verify_for]
  refine ⟨by simp [payees, toyIds], ?_⟩
  intro e he
  simp only [List.mem_singleton] at he
  subst he
  exact ⟨3, rfl, by rw [verify_iff _ _ _ _ (toy_strong _)]; exact ⟨3, rfl, rfl, rfl⟩⟩
example : hasExpired 0 (3600 * nsPerSec + 999999999) = false := by decide
example : hasExpired 0 (3601 * nsPerSec) = true := by decide
example : hasExpired 1 0 = true := by decide
example : historicalVerify ⟨0, 5, 5⟩ ⟨10, 4, 5⟩ 100 = false := by decide
example : historicalVerify ⟨0, 5, 5⟩ ⟨10 * nsPerSec, 15, 5⟩ (20 * nsPerSec) = true := by decide
example : historicalVerify ⟨0, 5, 5⟩ ⟨10 * nsPerSec, 26, 5⟩ (20 * nsPerSec) = false := by decide

/-! ### Client side: the quotes `Network::get_store_quote_from_network` returns (`Model/QuoteFetch.lean`)

The returned `(peer, quote)` pairs become the `(payee, quote)` entries of a `ProofOfPayment`; which peer the fetch loop
passes to `check_is_signed_by_claimed_peer` is regenerated from `ant-networking/src/lib.rs` (`Gen/QuoteFetch.lean`). -/

section QuoteFetch
open SafeNet.Model.QuoteFetch

/-- A returned `(p, quote)` pair: `p` was found, asked (not ignored, not the client itself), answered with a quote, and
that quote carries `p`'s own key and a valid signature by it — whatever `peer_address` the response names, and whatever
the other peers answered. In particular a quote signed by another node is never attributed to the responder. -/
theorem fetched_quote_bound_to_responder (self : Nat) (found ignore : List Nat) (resp : Nat → Resp)
    (out : List Nat) (h : fetch self found ignore resp = .ok out) (p : Nat) (hp : p ∈ out) :
    p ∈ found ∧ p ≠ self ∧ p ∉ ignore ∧ ∃ q, resp p = .quote q ∧ signedBy p q.signer p = true := by
  unfold fetch at h
  simp only at h
  split at h
  · cases h
  · split at h
    · cases h
    · split at h
      · simp only [Except.ok.injEq] at h; subst h; cases hp
      · simp only [Except.ok.injEq] at h
        subst h
        rw [List.mem_filter, List.mem_filter] at hp
        obtain ⟨⟨htake, hign⟩, hacc⟩ := hp
        have hcl := List.mem_of_mem_take htake
        rw [List.mem_filter] at hcl
        refine ⟨hcl.1, by simpa using hcl.2, by simpa using hign, ?_⟩
        cases hr : resp p with
        | quote q =>
          refine ⟨q, rfl, ?_⟩
          simp only [hr, accepts, checkedAgainst, Gen.QuoteFetch.checkedPeer, Bool.and_eq_true] at hacc
          exact hacc.1
        | recordExists => simp [hr] at hacc
        | quoteErr => simp [hr] at hacc
        | failed => simp [hr] at hacc
        | unexpected => simp [hr] at hacc

/-- …so a replayed quote (signed by another peer `j ≠ p`) or a garbage signature is never returned for `p`. -/
theorem replayed_quote_not_attributed (self : Nat) (found ignore : List Nat) (resp : Nat → Resp)
    (out : List Nat) (h : fetch self found ignore resp = .ok out) (p j : Nat) (q : QuoteResp)
    (hq : resp p = .quote q) (hs : q.signer = .peer j) (hne : j ≠ p) : p ∉ out := by
  intro hp
  obtain ⟨_, _, _, q', hq', hsig⟩ := fetched_quote_bound_to_responder self found ignore resp out h p hp
  rw [hq] at hq'
  cases hq'
  rw [hs] at hsig
  simp [signedBy] at hsig
  exact hne hsig

/-- non-vacuity: an honest answer is returned, a replay under the victim's address is not -/
example : fetch 99 [0, 1, 2, 3, 4] [] (fun p =>
    if p = 1 then .quote ⟨.peer 3, .peer 3, true⟩ else .quote ⟨.self, .self, true⟩) = .ok [0, 2, 3, 4] := by rfl

end QuoteFetch

open SafeNet.QuoteDuty in
example : (quotesVerification toyScheme toyIds 3 3 (10 * nsPerSec)
    [⟨3, { wq 5 with secs := 5, pubKey := [3], signature := toyScheme.sign 3 ({ wq 5 with secs := 5 } : Quote).sigBytes }⟩,
     ⟨4, { wq 5 with secs := 7, pubKey := [4], signature := toyScheme.sign 4 ({ wq 5 with secs := 7 } : Quote).sigBytes }⟩]).map
      (fun l => l.map (·.claimed)) = some [4] := by decide
open SafeNet.QuoteDuty in
example : aroundSameTime (20 * nsPerSec) (10 * nsPerSec) = false ∧ aroundSameTime (20 * nsPerSec - 1) (10 * nsPerSec) = true := by decide
open SafeNet.QuoteHist in
example : (run .empty [(⟨100, 10, 10⟩, 1000), (⟨300, 12, 11⟩, 1000), (⟨200, 13, 10⟩, 1000)]).flagged = true := by decide

/-! ## The quote hash (`PaymentQuote::hash` = Keccak-256 of signing bytes ++ key ++ signature; Keccak-256 is defined
in `Base/Sha3`, tied to `evmlib::cryptography::hash` by the `qhash` lines of the correspondence run) -/

theorem quote_hash_is_keccak (q : Quote) :
    q.hash = SafeNet.Sha3.keccak256 (q.sigBytes ++ (q.pubKey ++ q.signature)) ∧ q.hash.length = 32 := by
  refine ⟨by rw [Quote.hash, hashInput_eq], SafeNet.Sha3.keccak256_length _⟩

/-- **The hash binds every signed field, the key and the signature** (what the payment contract is told was paid
for): if Keccak-256 does not collide on the two hash inputs, two quotes with equal hashes and keys of equal length
agree on content address, whole seconds, quoting metrics, rewards address, public key and signature. (The
sub-second part of the timestamp is not in the hash either — K-i.) -/
theorem quote_hash_binds (q q' : Quote) (hq : q.ok) (hq' : q'.ok) (hk : q.pubKey.length = q'.pubKey.length)
    (hinj : SafeNet.Sha3.keccak256 q.hashInput = SafeNet.Sha3.keccak256 q'.hashInput → q.hashInput = q'.hashInput)
    (h : q.hash = q'.hash) :
    q.content = q'.content ∧ q.secs = q'.secs ∧ q.metrics = q'.metrics ∧ q.rewards = q'.rewards ∧
    q.pubKey = q'.pubKey ∧ q.signature = q'.signature := by
  have h := hinj h
  rw [hashInput_eq, hashInput_eq, sigBytes_eq, sigBytes_eq] at h
  simp only [List.append_assoc] at h
  obtain ⟨hc, hr, hs, hm⟩ := hq
  obtain ⟨hc', hr', hs', hm'⟩ := hq'
  obtain ⟨e1, h⟩ := List.append_inj h (by rw [hc, hc'])
  obtain ⟨e2, h⟩ := List.append_inj h (by rw [toLE_length, toLE_length])
  have d1 := decode_encode q.metrics.toVal (q.rewards ++ (q.pubKey ++ q.signature)) (Metrics.toVal_wf _ hm)
  have d2 := decode_encode q'.metrics.toVal (q'.rewards ++ (q'.pubKey ++ q'.signature)) (Metrics.toVal_wf _ hm')
  rw [h, d2] at d1
  simp only [Option.some.injEq, Prod.mk.injEq] at d1
  have e3 : q.secs = q'.secs := by
    have := congrArg fromLE e2
    rwa [fromLE_toLE 8 _ (by simpa using hs), fromLE_toLE 8 _ (by simpa using hs')] at this
  obtain ⟨e4, h4⟩ := List.append_inj d1.2.symm (by rw [hr, hr'])
  obtain ⟨e5, e6⟩ := List.append_inj h4 hk
  exact ⟨e1, e3, (Metrics.toVal_inj _ _ d1.1).symm, e4, e5, e6⟩

/-! ## known finding K-w: small-order ed25519 keys (the scheme is ideal for prime-order keys only)

libp2p-identity 0.2.10 decodes the eight small-order points of edwards25519 as ed25519 public keys and verifies with
ed25519-dalek's non-strict `verify`; under the neutral element the pair `(R, S) = (neutral, 0)` satisfies the verification
equation for every message.  Component `quote`, tokens `W0` (that key / that signature) and `Q0` (its peer id):
`verify Q0 W0 W0 F F'` is `true` on the real code for every `F'`.  Nobody owns that identity (everyone can sign for it),
so no honest node's quote is affected; but "altering any one of these … makes verification fail" fails literally. -/

/-- `altered_field_fails` without the `StrongKey` hypotheses -/
def AlteredFieldFailsAnyKey : Prop :=
  ∀ {Key Peer : Type} [DecidableEq Peer] (S : SigScheme Key) (I : Ids Key Peer) (q q' : Quote) (p p' : Peer),
    q.ok → q'.ok → checkSigned S I q p = true → q'.signature = q.signature →
    (q.content ≠ q'.content ∨ q.secs ≠ q'.secs ∨ q.metrics ≠ q'.metrics ∨ q.rewards ≠ q'.rewards) →
    checkSigned S I q' p' = false

/-- a scheme with one weak key `0`: ideal for every other key, and under `0` the signature `[0]` verifies for every message -/
def weakScheme : SigScheme Nat where
  sign k m := k :: m
  verify k m s := if k = 0 then s == [0] else s == k :: m
  strong k := decide (k ≠ 0)
  ideal := by intro k m s hk; simp at hk; simp [hk]
  inj := by intro k m k' m' h; simpa using h

/-- **Witness (K-w).** Under the weak key one signature verifies for its peer whatever the content address, timestamp,
metrics and rewards address are. -/
theorem weak_key_verifies_every_field_witness (q : Quote) (h1 : q.pubKey = [0]) (h2 : q.signature = [0]) :
    checkSigned weakScheme toyIds q 0 = true := by
  simp [checkSigned, toyIds, weakScheme, h1, h2]

/-- one signature under the weak key, any whole-second timestamp -/
def weakQ (secs : Nat) : Quote := { wq 5 with secs := secs, pubKey := [0], signature := [0] }

theorem weakQ_ok (n : Nat) (h : n < 2 ^ 64) : (weakQ n).ok :=
  ⟨by simp [weakQ, wq], by simp [weakQ, wq], by simpa [weakQ, wq] using h, by simp [weakQ, wq, Metrics.ok]⟩

theorem altered_field_fails_needs_strong_key : ¬ AlteredFieldFailsAnyKey := by
  intro h
  have a := weak_key_verifies_every_field_witness (weakQ 7) rfl rfl
  have b := weak_key_verifies_every_field_witness (weakQ 8) rfl rfl
  have := h weakScheme toyIds (weakQ 7) (weakQ 8) 0 0 (weakQ_ok 7 (by decide)) (weakQ_ok 8 (by decide)) a rfl
    (Or.inr (Or.inl (by simp [weakQ])))
  rw [b] at this
  cases this

/-! ## observation: non-canonical encodings of the key (one signed quote, many hashes)

`PublicKey::try_decode_protobuf` skips unknown fields: the canonical 36 bytes followed by `18 00` decode to the same key.
The quote still verifies for the same peer (`noncanonical_key_same_verdict`) but `PaymentQuote::hash` covers the raw key
bytes, so it changes (`noncanonical_key_other_hash_witness`; component `quote`, op `kpair K<i> N<i> S<i> F` gives
`true true false` on the real code): whoever relays a quote can mint further hashes for it without the signer. -/

section
variable {Key Peer : Type} [DecidableEq Peer] (S : SigScheme Key) (I : Ids Key Peer)

/-- the verdict depends on the key field only through what it decodes to -/
theorem noncanonical_key_same_verdict (q q' : Quote) (p : Peer) (hb : q'.sigBytes = q.sigBytes)
    (hs : q'.signature = q.signature) (hd : I.decodeKey q'.pubKey = I.decodeKey q.pubKey) :
    checkSigned S I q' p = checkSigned S I q p := by
  unfold checkSigned
  rw [hd, hb, hs]
end

/-- "one signed quote, one hash": quotes that verify for the same peer with the same signed bytes and signature have the
same hash input -/
def OneSignedQuoteOneHashInput : Prop :=
  ∀ {Key Peer : Type} [DecidableEq Peer] (S : SigScheme Key) (I : Ids Key Peer) (q q' : Quote) (p : Peer),
    checkSigned S I q p = true → checkSigned S I q' p = true → q'.sigBytes = q.sigBytes → q'.signature = q.signature →
    q'.hashInput = q.hashInput

/-- key decoding that ignores a trailing unknown field, as `try_decode_protobuf` does -/
def laxIds : Ids Nat Nat where
  decodeKey | [k] => some k | [k, 0] => some k | _ => none
  peerOf k := k
  decodePeer | [p] => some p | _ => none

theorem noncanonical_key_other_hash_witness :
    checkSigned toyScheme laxIds goodQuote 3 = true ∧
    checkSigned toyScheme laxIds { goodQuote with pubKey := [3, 0] } 3 = true ∧
    ({ goodQuote with pubKey := [3, 0] } : Quote).hashInput ≠ goodQuote.hashInput := by
  have e1 : goodQuote.sigBytes = (wq 5).sigBytes := rfl
  have e2 : ({ goodQuote with pubKey := [3, 0] } : Quote).sigBytes = (wq 5).sigBytes := rfl
  refine ⟨?_, ?_, ?_⟩
  · exact (verify_iff_any_key _ _ _ _).mpr ⟨3, rfl, rfl, by rw [e1]; simp [toyScheme, goodQuote]⟩
  · exact (verify_iff_any_key _ _ _ _).mpr ⟨3, rfl, rfl, by rw [e2]; simp [toyScheme, goodQuote]⟩
  · rw [hashInput_eq, hashInput_eq]
    intro h
    have h2 : ({ goodQuote with pubKey := [3, 0] } : Quote).sigBytes = goodQuote.sigBytes := rfl
    rw [h2] at h
    have := List.append_cancel_left h
    have := congrArg List.length this
    simp [goodQuote] at this

theorem one_signed_quote_many_hash_inputs : ¬ OneSignedQuoteOneHashInput := by
  intro h
  obtain ⟨a, b, c⟩ := noncanonical_key_other_hash_witness
  exact c (h toyScheme laxIds goodQuote _ 3 a b rfl rfl)

/-! ## known finding K-n: only the newest quote is remembered

`quotes_history : BTreeMap<PeerId, PaymentQuote>` keeps ONE quote per peer (the newest that passed).  The text compares a
later quote with "an earlier one" — any earlier one. -/

section NewestOnly
open SafeNet.QuoteHist

/-- the clause as written, over everything one observer was handed for one peer: if some quote handed over is later-dated
than another one handed over and reports less uptime or fewer payments, the peer is flagged at the end -/
def LaterLesserThanAnyEarlierFlagged : Prop :=
  ∀ (qs : List (Hist × Nat)) (a b : Hist), a ∈ qs.map (·.1) → b ∈ qs.map (·.1) → a.ts < b.ts →
    (b.liveTime < a.liveTime ∨ b.paid < a.paid) → (run .empty qs).flagged = true

/-- **Witness (K-n).** q1 = (t100, live 10, paid 10), q2 = (t300, 12, 12), q3 = (t200, 11, 9): q3 is later than q1 and
reports fewer payments, but it is compared with the remembered q2 only, is consistent with it, and is dropped. -/
theorem lesser_than_older_unflagged_witness :
    (run .empty [(⟨100, 10, 10⟩, 1000), (⟨300, 12, 12⟩, 1000), (⟨200, 11, 9⟩, 1000)]).flagged = false ∧
    (run .empty [(⟨100, 10, 10⟩, 1000), (⟨300, 12, 12⟩, 1000), (⟨200, 11, 9⟩, 1000)]).history = some ⟨300, 12, 12⟩ := by
  decide

theorem later_lesser_than_any_earlier_not_flagged : ¬ LaterLesserThanAnyEarlierFlagged := by
  intro h
  have := h [(⟨100, 10, 10⟩, 1000), (⟨300, 12, 12⟩, 1000), (⟨200, 11, 9⟩, 1000)] ⟨100, 10, 10⟩ ⟨200, 11, 9⟩
    (by simp) (by simp) (by decide) (Or.inr (by decide))
  rw [lesser_than_older_unflagged_witness.1] at this
  cases this

/-- **`_partial` (named hypothesis: the earlier quote is the NEWEST one handed over before).** The clause in the text's
own words: `earlier` was handed over before `later`, nothing handed over before `later` is dated after `earlier`
(`hnewest`, with `huniq`: no second quote bearing the same timestamp), `later` is dated after it and reports less ⇒ flagged. -/
theorem later_lesser_flagged_partial (before after : List (Hist × Nat)) (earlier later : Hist) (now : Nat)
    (hmem : earlier ∈ before.map (·.1))
    (hnewest : ∀ x ∈ before.map (·.1), x.ts ≤ earlier.ts)
    (huniq : ∀ x ∈ before.map (·.1), x.ts = earlier.ts → x = earlier)
    (hlater : earlier.ts < later.ts) (hless : later.liveTime < earlier.liveTime ∨ later.paid < earlier.paid) :
    (run .empty (before ++ (later, now) :: after)).flagged = true :=
  out_of_sequence_with_newest_flagged before after later earlier now hmem hnewest huniq (by omega)
    (Or.inl ⟨hlater, hless⟩)

/-- non-vacuity of `later_lesser_flagged_partial`: its three list hypotheses are satisfiable and the conclusion is the computed one -/
example : (run .empty ([(⟨100, 10, 10⟩, 1000)] ++ ((⟨200, 9, 10⟩ : Hist), 1000) :: [])).flagged = true :=
  later_lesser_flagged_partial [(⟨100, 10, 10⟩, 1000)] [] ⟨100, 10, 10⟩ ⟨200, 9, 10⟩ 1000 (by simp)
    (by intro x hx; simp at hx; subst hx; exact Nat.le_refl _) (by intro x hx _; simp at hx; exact hx) (by decide) (Or.inl (by decide))
example : (run .empty [(⟨100, 10, 10⟩, 1000), (⟨200, 9, 10⟩, 1000)]).flagged = true := by decide

end NewestOnly

/-! ## known finding K-q: the checker is unreachable (composed system client fetch → dispatch → checker) -/

section Flow
open SafeNet.QuoteHist SafeNet.QuoteFlow

/-- **The clause over the running system.** A client fetches quotes twice; the node `p` answers `a` the first time and
the later-dated `b`, reporting less uptime or fewer received payments, the second time.  An observing close node (whose
duty filter passes both) ends up with a `BadQuoting` issue recorded for `p`. -/
def LaterLesserQuoteFlagged : Prop :=
  ∀ (p : Nat) (a b : Hist) (now0 now : Nat), a.ts < b.ts → (b.liveTime < a.liveTime ∨ b.paid < a.paid) →
    ((observe [] [⟨now0, [(p, a)]⟩, ⟨now, [(p, b)]⟩]).get p).flagged = true

theorem get_set (st : State) (p : Nat) (s : PeerState) : (st.set p s).get p = s := by
  simp [State.get, State.set]

/-- without the dispatch the observer's state never changes, whatever clients collect -/
theorem undispatched_observes_nothing (st : State) (rounds : List Round) : observeWith false st rounds = st := by
  induction rounds generalizing st with
  | nil => rfl
  | cons r rest ih => simp only [observeWith, relayed, Bool.false_eq_true, ↓reduceIte, deliverAll]; exact ih st

/-- the repaired shape, full strength: with the dispatch in place the clause holds (in either arrival order) -/
theorem later_lesser_flagged_once_dispatched (p : Nat) (a b : Hist) (now0 now : Nat) (hlater : a.ts < b.ts)
    (h : b.liveTime < a.liveTime ∨ b.paid < a.paid) :
    ((observeWith true [] [⟨now0, [(p, a)]⟩, ⟨now, [(p, b)]⟩]).get p).flagged = true ∧
    ((observeWith true [] [⟨now0, [(p, b)]⟩, ⟨now, [(p, a)]⟩]).get p).flagged = true := by
  have key := later_lesser_flagged_any_order a b now0 now hlater h
  simp only [observeWith, relayed, ↓reduceIte, deliverAll, get_set]
  exact key

/-- **Witness (K-q).** The node quotes (t100, live 10, paid 10) and later (t1100, live 10, paid 3); both rounds are
collected by a client; the observer's record of the node is still empty. -/
theorem flagging_unreachable_witness :
    (observe [] [⟨2000, [(1, ⟨100, 10, 10⟩)]⟩, ⟨3000, [(1, ⟨1100, 10, 3⟩)]⟩]).get 1 = .empty := by
  decide

/-- the clause holds exactly when some production code dispatches the event -/
theorem later_lesser_flagged_iff_dispatched :
    LaterLesserQuoteFlagged ↔ Gen.QuoteFetch.quoteVerificationDispatched = true := by
  unfold LaterLesserQuoteFlagged observe
  cases Gen.QuoteFetch.quoteVerificationDispatched with
  | true =>
    simp only [iff_true]
    intro p a b now0 now hl h
    exact (later_lesser_flagged_once_dispatched p a b now0 now hl h).1
  | false =>
    simp only [Bool.false_eq_true, iff_false]
    intro h
    have := h 1 ⟨100, 10, 10⟩ ⟨1100, 10, 3⟩ 2000 3000 (by decide) (Or.inr (by decide))
    rw [undispatched_observes_nothing] at this
    cases this

theorem later_lesser_quote_not_flagged : ¬ LaterLesserQuoteFlagged := by
  rw [later_lesser_flagged_iff_dispatched]
  decide

/-- what the `quotehist` / `quoteduty` components drive is the chain production code would run from the event on -/
theorem checker_chain_intact : Gen.QuoteFetch.checkerChainIntact = true := rfl

end Flow

/-! ## the arm a client's fetch reaches: `Query::GetStoreQuote` in `Node::handle_query` (component `quoteduty`, op `getquote`) -/

section GetStoreQuote
open SafeNet.QuoteDuty
variable {Key Peer : Type} [DecidableEq Peer] (S : SigScheme Key) (I : Ids Key Peer)

/-- **get_store_quote_reply.** Whatever address is asked about: if the node answers with a quote, the quote carries the
node's key and signature over the address's name (the all-zero name when the address has none: a peer id or a raw record
key), the metrics its store reported and the node's rewards address; it verifies for the node's own peer id and for no
other. The node answers `RecordExists` exactly when its store says the record is held, and fails only without metrics. -/
theorem get_store_quote_reply (selfKey : Key) (keyBytes : List Nat) (name : Option (List Nat)) (ans : MetricsAnswer)
    (secs nanos : Nat) (rewards : List Nat) (hk : I.decodeKey keyBytes = some selfKey) (hs : S.strong selfKey = true) :
    match getStoreQuote S selfKey keyBytes name ans secs nanos rewards with
    | .quote q => (∃ m, ans = .metrics m false ∧ q.metrics = m) ∧ q.content = name.getD zeroName ∧ q.rewards = rewards ∧
        q.secs = secs ∧ checkSigned S I q (I.peerOf selfKey) = true ∧ ∀ p, p ≠ I.peerOf selfKey → checkSigned S I q p = false
    | .recordExists => ∃ m, ans = .metrics m true
    | .failed => ans = .dropped := by
  cases ans with
  | dropped => simp [getStoreQuote]
  | metrics m st =>
    cases st with
    | true => simp [getStoreQuote]
    | false =>
      simp only [getStoreQuote]
      obtain ⟨h1, h2⟩ := created_quote_verifies S I selfKey keyBytes (name.getD zeroName) secs nanos m rewards hk hs
      exact ⟨⟨m, rfl, rfl⟩, rfl, rfl, rfl, h1, h2⟩

/-- observation: asked about a peer id or a raw record key, the node signs a quote for the all-zero name -/
theorem quote_for_nameless_address_is_for_zero (selfKey : Key) (keyBytes : List Nat) (m : Metrics) (secs nanos : Nat)
    (rewards : List Nat) :
    ∃ q, getStoreQuote S selfKey keyBytes none (.metrics m false) secs nanos rewards = .quote q ∧ q.content = zeroName :=
  ⟨_, rfl, rfl⟩

end GetStoreQuote

/-- non-vacuity of `get_store_quote_reply` (toy scheme, node key 3): a named address gets a quote for its name that verifies
for peer 3 and not for peer 4; a nameless one a quote for the zero name; a stored record `RecordExists`; no metrics `failed` -/
example : match SafeNet.QuoteDuty.getStoreQuote toyScheme 3 [3] (some (List.replicate 32 7)) (.metrics default false) 5 0 [] with
    | .quote q => q.content = List.replicate 32 7 ∧ checkSigned toyScheme toyIds q 3 = true ∧ checkSigned toyScheme toyIds q 4 = false
    | _ => False := by
  have h := get_store_quote_reply toyScheme toyIds 3 [3] (some (List.replicate 32 7)) (.metrics default false) 5 0 [] rfl rfl
  simp only [SafeNet.QuoteDuty.getStoreQuote] at h ⊢
  exact ⟨h.2.1, h.2.2.2.2.1, h.2.2.2.2.2 4 (by decide)⟩
example : (match SafeNet.QuoteDuty.getStoreQuote toyScheme 3 [3] none (.metrics default false) 5 0 [] with
    | .quote q => q.content | _ => []) = SafeNet.QuoteDuty.zeroName := rfl
example : (match SafeNet.QuoteDuty.getStoreQuote toyScheme 3 [3] none (.metrics default true) 5 0 [] with
    | .recordExists => true | _ => false) = true := rfl
example : (match SafeNet.QuoteDuty.getStoreQuote toyScheme 3 [3] none .dropped 5 0 [] with
    | .failed => true | _ => false) = true := rfl

/-! ## consequences of K-i for the checker, the expiry boundary, the two clock readings (observations) -/

/-- The unsigned sub-second part decides `is_newer_than`, hence which quote is "old" in `historical_verify`: two honest
quotes of one node from the same second (paid 5, then paid 6) are consistent; with the sub-second parts swapped — which
neither signature covers (`subsecond_not_bound_witness`) — the same two signed quotes are "inconsistent". -/
theorem subsecond_reorder_flips_verdict_witness :
    historicalVerify ⟨1700000000 * nsPerSec + 100, 10, 5⟩ ⟨1700000000 * nsPerSec + 200, 10, 6⟩ (1700000100 * nsPerSec) = true ∧
    historicalVerify ⟨1700000000 * nsPerSec + 200, 10, 5⟩ ⟨1700000000 * nsPerSec + 100, 10, 6⟩ (1700000100 * nsPerSec) = false := by
  decide

/-- "older than the validity window" in whole seconds: a quote aged 3600.999999999 s is not expired yet -/
theorem expiry_truncates_to_whole_seconds_witness :
    hasExpired 0 (3600 * nsPerSec + 999999999) = false ∧ hasExpired 0 (3601 * nsPerSec) = true := by decide

theorem historical_verify2_same (a b : Hist) (now : Nat) : historicalVerify2 a b now now = historicalVerify a b now := rfl

/-- the out-of-sequence clause does not depend on either clock reading -/
theorem historical_flags2 (a b : Hist) (now1 now2 : Nat) (hlater : a.ts < b.ts)
    (h : b.liveTime < a.liveTime ∨ b.paid < a.paid) :
    historicalVerify2 a b now1 now2 = false ∧ historicalVerify2 b a now1 now2 = false := by
  have n1 : isNewerThan a.ts b.ts = false := by simp [isNewerThan, newerCmp]; omega
  have n2 : isNewerThan b.ts a.ts = true := by simp [isNewerThan, newerCmp]; omega
  unfold historicalVerify2
  simp only [n1, n2, Bool.false_eq_true, ↓reduceIte, liveOutOfSeq, paidOutOfSeq]
  rcases h with h | h
  · simp [h]
  · by_cases h' : b.liveTime < a.liveTime <;> simp [h, h']

/-- `historical_verify` reads the clock twice; with the second reading less than a second after the first, the
whole-second difference of the two ages it compares with the uptime claim is the single-reading value or one less -/
theorem two_clock_reads_off_by_at_most_one (old new now1 now2 : Nat) (h1 : now1 ≤ now2) (h2 : now2 < now1 + nsPerSec)
    (ho : old ≤ now1) (hn : new ≤ now1) :
    (now1 - old) / nsPerSec - (now2 - new) / nsPerSec ≤ (now1 - old) / nsPerSec - (now1 - new) / nsPerSec ∧
    (now1 - old) / nsPerSec - (now1 - new) / nsPerSec ≤ (now1 - old) / nsPerSec - (now2 - new) / nsPerSec + 1 := by
  unfold nsPerSec at *
  omega

end SafeNet.Props.C13

#print axioms SafeNet.Props.C13.bytes_injective
#print axioms SafeNet.Props.C13.bytes_differ
#print axioms SafeNet.Props.C13.verify_iff_any_key
#print axioms SafeNet.Props.C13.verify_iff
#print axioms SafeNet.Props.C13.altered_field_fails
#print axioms SafeNet.Props.C13.altered_key_fails
#print axioms SafeNet.Props.C13.claimed_identity_unique
#print axioms SafeNet.Props.C13.undecodable_key_fails
#print axioms SafeNet.Props.C13.proof_verify_for
#print axioms SafeNet.Props.C13.proof_undecodable_payee_fails
#print axioms SafeNet.Props.C13.proof_one_bad_quote_fails
#print axioms SafeNet.Props.C13.payees_spec
#print axioms SafeNet.Props.C13.quotes_by_peer_spec
#print axioms SafeNet.Props.C13.expired_iff
#print axioms SafeNet.Props.C13.expired_iff_ns
#print axioms SafeNet.Props.C13.proof_expired_iff
#print axioms SafeNet.Props.C13.historical_flags
#print axioms SafeNet.Props.C13.historical_sync
#print axioms SafeNet.Props.C13.historical_symm
#print axioms SafeNet.Props.C13.inconsistent_pair_flagged
#print axioms SafeNet.Props.C13.later_lesser_flagged_any_order
#print axioms SafeNet.Props.C13.history_keeps_newest
#print axioms SafeNet.Props.C13.inconsistent_arrival_flagged
#print axioms SafeNet.Props.C13.out_of_sequence_with_newest_flagged
#print axioms SafeNet.Props.C13.deliverAll_other_peers
#print axioms SafeNet.Props.C13.created_quote_verifies
#print axioms SafeNet.Props.C13.created_quote_passes_storecost
#print axioms SafeNet.Props.C13.duty_forwards_iff
#print axioms SafeNet.Props.C13.duty_none_iff
#print axioms SafeNet.Props.C13.around_same_time_iff
#print axioms SafeNet.Props.C13.subsecond_not_bound_witness
#print axioms SafeNet.Props.C13.timestamp_not_fully_bound
#print axioms SafeNet.Props.C13.fetched_quote_bound_to_responder
#print axioms SafeNet.Props.C13.replayed_quote_not_attributed
#print axioms SafeNet.Props.C13.quote_hash_is_keccak
#print axioms SafeNet.Props.C13.quote_hash_binds
#print axioms SafeNet.Props.C13.weak_key_verifies_every_field_witness
#print axioms SafeNet.Props.C13.altered_field_fails_needs_strong_key
#print axioms SafeNet.Props.C13.noncanonical_key_same_verdict
#print axioms SafeNet.Props.C13.noncanonical_key_other_hash_witness
#print axioms SafeNet.Props.C13.one_signed_quote_many_hash_inputs
#print axioms SafeNet.Props.C13.lesser_than_older_unflagged_witness
#print axioms SafeNet.Props.C13.later_lesser_than_any_earlier_not_flagged
#print axioms SafeNet.Props.C13.later_lesser_flagged_partial
#print axioms SafeNet.Props.C13.undispatched_observes_nothing
#print axioms SafeNet.Props.C13.later_lesser_flagged_once_dispatched
#print axioms SafeNet.Props.C13.flagging_unreachable_witness
#print axioms SafeNet.Props.C13.later_lesser_flagged_iff_dispatched
#print axioms SafeNet.Props.C13.later_lesser_quote_not_flagged
#print axioms SafeNet.Props.C13.checker_chain_intact
#print axioms SafeNet.Props.C13.get_store_quote_reply
#print axioms SafeNet.Props.C13.quote_for_nameless_address_is_for_zero
#print axioms SafeNet.Props.C13.subsecond_reorder_flips_verdict_witness
#print axioms SafeNet.Props.C13.expiry_truncates_to_whole_seconds_witness
#print axioms SafeNet.Props.C13.historical_flags2
#print axioms SafeNet.Props.C13.two_clock_reads_off_by_at_most_one
