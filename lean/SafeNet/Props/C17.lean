import SafeNet.Proofs.Parsers
import SafeNet.Model.Amount
/-!
# C17 — parsers of untrusted text and bytes never crash; formatter output parses back

Statements only; helper lemmas live in `SafeNet.Proofs.Parsers`, `SafeNet.Base.Hex`.
Models: `SafeNet.Model.Parsers`, instantiated with the guards / slices / integer expressions /
checked-ness flags / constants that `rs2lean` regenerates from the Rust source (`SafeNet.Gen.Parsers`).

Every `no_panic_<routine>` has two parts: (a) the routine's source contains no panic site outside what
the model interprets (`…Sites = []`: no `unwrap`/`expect`/`panic!`/indexing/non-constant arithmetic),
(b) the model returns `ok` or `err`, never `panic`, for **all** inputs.  Third-party functions
(BLS key check, AEAD, UTF-8 validation, multiaddr / serde_json / rmp_serde parsers) are universally
quantified parameters.
-/
namespace SafeNet.Props.C17
open SafeNet.Panic SafeNet.Parsers SafeNet.Gen.Parsers SafeNet

/-! ## hex addresses -/

theorem no_panic_register_from_hex :
    regFromHexSites = [] ∧ ∀ (pkOk : Bytes → Bool) (s : Bytes), (regFromHex pkOk s).isPanic = false := by
  refine ⟨by decide, fun pkOk s => ?_⟩
  unfold regFromHex
  cases Hex.decode s with
  | none => rfl
  | some bytes =>
    have h := steps_no_panic regFromHexSteps (by decide) bytes
    simp only
    generalize runSteps bytes regFromHexSteps = r at h
    cases r with
    | panic p => simp [Res.isPanic] at h
    | err e => rfl
    | ok fs => split <;> first | rfl | (split <;> rfl) | simp_all [Res.isPanic]

/-- `from_hex (to_hex a) = a` for every register address (32-byte meta, valid 48-byte key). -/
theorem register_hex_roundtrip (pkOk : Bytes → Bool) (m owner : Bytes)
    (hm : m.length = xorNameLen) (ho : owner.length = pkSize)
    (hb : ∀ b ∈ m ++ owner, b < 256) (hpk : pkOk owner = true) :
    regFromHex pkOk (regToHex m owner) = .ok (m, owner) := by
  have hm' : m.length = 32 := hm
  have ho' : owner.length = 48 := ho
  unfold regFromHex regToHex
  rw [Hex.decode_encode _ hb]
  have hsteps : runSteps (m ++ owner) regFromHexSteps = .ok [m, owner] := by
    simp [regFromHexSteps, runSteps, Cmp.holds, sliceOpt?, slice?, hm', ho', List.take_of_length_le]
  simp [hsteps, hpk]

theorem no_panic_scratchpad_from_hex :
    scratchpadFromHexSites = [] ∧ scratchpadDelegatesToPk = true ∧
      ∀ (pkOk : Bytes → Bool) (s : Bytes), (scratchFromHex pkOk s).isPanic = false := by
  refine ⟨by decide, by decide, fun pkOk s => ?_⟩
  unfold scratchFromHex
  cases Hex.decode s with
  | none => rfl
  | some bytes => simp only; split <;> first | rfl | (split <;> rfl)

theorem scratchpad_hex_roundtrip (pkOk : Bytes → Bool) (owner : Bytes) (ho : owner.length = pkSize)
    (hb : ∀ b ∈ owner, b < 256) (hpk : pkOk owner = true) :
    scratchFromHex pkOk (scratchToHex owner) = .ok owner := by
  unfold scratchFromHex scratchToHex
  rw [Hex.decode_encode _ hb]
  simp [ho, hpk]

theorem no_panic_data_map_from_hex :
    dataMapFromHexSites = [] ∧ dataMapToHexSites = [] ∧ ∀ s : Bytes, (dataMapFromHex s).isPanic = false := by
  refine ⟨by decide, by decide, fun s => ?_⟩
  unfold dataMapFromHex
  cases Hex.decode s <;> rfl

theorem data_map_hex_roundtrip (b : Bytes) (hb : ∀ x ∈ b, x < 256) :
    dataMapFromHex (dataMapToHex b) = .ok b := by
  unfold dataMapFromHex dataMapToHex
  rw [Hex.decode_encode _ hb]

theorem no_panic_str_to_addr :
    strToAddrSites = [] ∧ ∀ s : Bytes, (strToAddr s).isPanic = false := by
  refine ⟨by decide, fun s => ?_⟩
  unfold strToAddr
  cases Hex.decode s with
  | none => rfl
  | some bytes => simp only; split <;> rfl

theorem addr_str_roundtrip (x : Bytes) (hx : x.length = xorNameLen) (hb : ∀ b ∈ x, b < 256) :
    strToAddr (addrToStr x) = .ok x := by
  unfold strToAddr addrToStr
  rw [Hex.decode_encode _ hb]
  simp [hx]

/-- What `str_to_addr` accepts is exactly the hex of 32 bytes (either case), and the value is those bytes. -/
theorem str_to_addr_sound (s x : Bytes) (h : strToAddr s = .ok x) :
    Hex.decode s = some x ∧ x.length = xorNameLen ∧ s.length = 2 * xorNameLen := by
  unfold strToAddr at h
  cases hd : Hex.decode s with
  | none => simp [hd] at h
  | some bytes =>
    simp only [hd] at h
    split at h
    · cases h
    · rename_i hl
      cases h
      have := Hex.decode_length s _ hd
      refine ⟨rfl, by omega, by omega⟩

/-! ## encrypted wallet key -/

theorem no_panic_decrypt_private_key :
    decryptSites = [] ∧
    ∀ (aead : Bytes → Bytes → Bytes → Bytes → Option Bytes) (utf8 : Bytes → Bool) (s pw : Bytes),
      (decryptKey aead utf8 s pw).isPanic = false := by
  refine ⟨by decide, fun aead utf8 s pw => ?_⟩
  have hc : decryptUtf8Checked = true := by decide
  unfold decryptKey
  cases Hex.decode s with
  | none => rfl
  | some bytes =>
    have h := steps_no_panic decryptSteps (by decide) bytes
    simp only
    generalize runSteps bytes decryptSteps = r at h
    cases r with
    | panic p => simp [Res.isPanic] at h
    | err e => rfl
    | ok fs =>
      split
      · simp_all [Res.isPanic]
      · rfl
      · split
        · rfl
        · simp only [hc, ↓reduceIte]; split <;> rfl
      · rfl

/-- Framing-level round trip: whatever the AEAD is, if opening what was sealed under the same salt,
nonce and password gives the key back, `decrypt_private_key (encrypt_private_key k) = k`. -/
theorem encrypt_decrypt_roundtrip
    (sealFn : Bytes → Bytes → Bytes → Bytes → Bytes) (aead : Bytes → Bytes → Bytes → Bytes → Option Bytes)
    (utf8 : Bytes → Bool) (salt nonce key pw : Bytes)
    (hs : salt.length = saltLength) (hn : nonce.length = nonceLength)
    (hb : ∀ b ∈ salt ++ nonce ++ sealFn salt nonce key pw, b < 256)
    (hopen : aead salt nonce (sealFn salt nonce key pw) pw = some key) (hutf : utf8 key = true) :
    decryptKey aead utf8 (encryptKey sealFn salt nonce key pw) pw = .ok key := by
  have hs' : salt.length = 8 := hs
  have hn' : nonce.length = 12 := hn
  unfold decryptKey encryptKey
  rw [Hex.decode_encode _ hb]
  generalize sealFn salt nonce key pw = ct at hopen
  have hsteps : runSteps (salt ++ nonce ++ ct) decryptSteps = .ok [salt, nonce, ct] := by
    have h1 : ¬ (8 + (12 + ct.length) < 20) := by omega
    have h2 : 20 ≤ 8 + (12 + ct.length) := by omega
    have h3 : 8 + (12 + ct.length) - 20 = ct.length := by omega
    have h4 : List.drop 20 salt = [] := List.drop_of_length_le (by omega)
    simp [decryptSteps, runSteps, Cmp.holds, sliceOpt?, slice?, hs', hn', h1, h2, h3, h4, List.take_of_length_le,
      List.drop_append, List.take_append]
  rw [List.append_assoc] at hsteps
  simp [hsteps, hopen, hutf]

/-- Anything shorter than salt + nonce is rejected (not sliced). -/
theorem decrypt_short_is_error (aead : Bytes → Bytes → Bytes → Bytes → Option Bytes) (utf8 : Bytes → Bool)
    (s pw bytes : Bytes) (hd : Hex.decode s = some bytes) (hl : bytes.length < saltLength + nonceLength) :
    decryptKey aead utf8 s pw = .err () := by
  have hl' : bytes.length < 20 := hl
  unfold decryptKey
  simp [hd, decryptSteps, runSteps, Cmp.holds, hl']

/-! ## record header -/

theorem no_panic_record_header_from_record :
    fromRecordSites = [] ∧ tryDeserializeSites = [] ∧ ∀ value : Bytes, (fromRecord value).isPanic = false := by
  refine ⟨by decide, by decide, fun value => ?_⟩
  unfold fromRecord
  have h := steps_no_panic fromRecordSteps (by decide) value
  generalize runSteps value fromRecordSteps = r at h
  cases r with
  | panic p => simp [Res.isPanic] at h
  | err e => rfl
  | ok fs => split <;> first | rfl | (split <;> rfl) | simp_all [Res.isPanic]

theorem record_header_short_is_error (value : Bytes) (h : value.length < recordHeaderSize + 1) :
    fromRecord value = .err () := by
  have h' : value.length < 3 := h
  unfold fromRecord
  simp [fromRecordSteps, runSteps, Cmp.holds, h']

/-- The header is decoded from exactly the first `SIZE + 1` bytes. -/
theorem record_header_window (value : Bytes) (h : recordHeaderSize + 1 ≤ value.length) :
    fromRecord value = match decodeHeader3 (value.take (recordHeaderSize + 1)) with
      | some t => .ok t
      | none => .err () := by
  have h' : 3 ≤ value.length := h
  have h3 : ¬ value.length < 3 := by omega
  unfold fromRecord
  simp [fromRecordSteps, runSteps, Cmp.holds, sliceOpt?, slice?, h3, h', recordHeaderSize]
  rfl

/-- Every tag a header decodes to is one of `RecordKind`'s integers. -/
theorem record_header_tag_known (value : Bytes) (t : Nat) (h : fromRecord value = .ok t) :
    ∃ name, (t, name) ∈ recordKindTags := by
  have key : ∀ w t, decodeHeader3 w = some t → ∃ name, (t, name) ∈ recordKindTags := by
    intro w t hw
    have tk : ∀ a, tagOk a = some t → ∃ name, (t, name) ∈ recordKindTags := by
      intro a ha
      unfold tagOk at ha
      split at ha
      · rename_i hany
        cases ha
        rw [List.any_eq_true] at hany
        obtain ⟨⟨x, name⟩, hmem, hx⟩ := hany
        simp only [beq_iff_eq] at hx
        subst hx
        exact ⟨name, hmem⟩
      · cases ha
    unfold decodeHeader3 at hw
    split at hw
    · repeat' split at hw
      all_goals first | exact tk _ hw | cases hw
    · cases hw
  unfold fromRecord at h
  split at h
  · cases h
  · cases h
  · split at h
    · rename_i hdec
      cases h
      exact key _ _ hdec
    · cases h
  · cases h

theorem no_panic_try_deserialize_record :
    deserializeRecordSites = [] ∧
    ∀ (α : Type) (dec : Bytes → Option α) (value : Bytes), (deserializeRecord dec value).isPanic = false := by
  refine ⟨by decide, fun α dec value => ?_⟩
  unfold deserializeRecord
  have h := steps_no_panic deserializeRecordSteps (by decide) value
  generalize runSteps value deserializeRecordSteps = r at h
  cases r with
  | panic p => simp [Res.isPanic] at h
  | err e => rfl
  | ok fs => split <;> first | rfl | (split <;> rfl) | simp_all [Res.isPanic]

/-- Prefix handling: nothing after the header is an error; otherwise the payload decoder sees
exactly the bytes after the `SIZE`-byte header. -/
theorem try_deserialize_record_prefix {α : Type} (dec : Bytes → Option α) (value : Bytes) :
    deserializeRecord dec value =
      if value.length ≤ recordHeaderSize then .err ()
      else match dec (value.drop recordHeaderSize) with
        | some v => .ok v
        | none => .err () := by
  unfold deserializeRecord
  by_cases h : value.length ≤ 2
  · simp [deserializeRecordSteps, runSteps, Cmp.holds, h, recordHeaderSize]
  · have h2 : 2 ≤ value.length := by omega
    simp [deserializeRecordSteps, runSteps, Cmp.holds, sliceOpt?, slice?, h, h2, recordHeaderSize, List.take_of_length_le]
    rfl

/-! ## ports -/

theorem uFromStr_lt {w : Nat} {s : Bytes} {v : Nat} (h : uFromStr w s = some v) : v < 2 ^ w := by
  unfold uFromStr at h
  split at h
  · cases h
  · split at h
    · cases h
    · split at h
      · cases h; assumption
      · cases h

theorem no_panic_port_range_parse :
    portRangeParseSites = [] ∧ ∀ s : Bytes, (portRangeParse s).isPanic = false := by
  refine ⟨by decide, fun s => ?_⟩
  unfold portRangeParse
  split
  · rfl
  · simp only [parsePartsReject, parsePartIndexes, parseOrderReject, Cmp.holds]
    generalize splitOn parseSplitChar s = parts
    match parts with
    | [] => rfl
    | [_] => rfl
    | [p0, p1] =>
      simp only [List.length_cons, List.length_nil]
      simp only [bne_self_eq_false, Bool.false_eq_true, ↓reduceIte, List.getD_cons_zero,
        List.getD_cons_succ, List.getElem?_cons_zero, List.getElem?_cons_succ]
      repeat' (first | rfl | split)
      all_goals (rename_i a _ _ b _; by_cases hab : a ≥ b <;> simp [hab, Res.isPanic])
    | _ :: _ :: _ :: rest =>
      have : ((rest.length + 1 + 1 + 1) != 2) = true := by
        simp only [bne_iff_ne, ne_eq]; omega
      simp [this, Res.isPanic]

/-- What `PortRange::parse` returns denotes ports: values fit `u16`, and a range is strictly increasing. -/
theorem port_range_parse_sound (s : Bytes) (r : PortRange) (h : portRangeParse s = .ok r) :
    match r with
    | .single p => p < 65536
    | .range a b => a < b ∧ b < 65536 := by
  unfold portRangeParse at h
  split at h
  · rename_i p hp
    cases h
    exact uFromStr_lt hp
  · simp only at h
    split at h
    · cases h
    · split at h
      · cases h
      · split at h
        · cases h
        · rename_i a ha
          split at h
          · cases h
          · split at h
            · cases h
            · rename_i b hb
              split at h
              · cases h
              · rename_i hord
                cases h
                have hb' := uFromStr_lt hb
                simp only [parseOrderReject, Cmp.holds, decide_eq_true_eq] at hord
                exact ⟨by omega, hb'⟩

/-- Ports of a `PortRange` are `u16` values. -/
def PortRange.wf : PortRange → Prop
  | .single p => p < 2 ^ portWidth
  | .range a b => a < 2 ^ portWidth ∧ b < 2 ^ portWidth

theorem no_panic_port_range_validate :
    validateSites = [] ∧
    ∀ (r : PortRange) (count : Nat), PortRange.wf r → (portRangeValidate r count).isPanic = false := by
  refine ⟨by decide, fun r count hw => ?_⟩
  cases r with
  | single p => unfold portRangeValidate; simp only; split <;> rfl
  | range a b =>
    have hw' : a < 65536 ∧ b < 65536 := hw
    unfold portRangeValidate
    have : validateCountExpr.eval [a, b] = .ok (b + 1 - a) := by
      have hb : b + 1 < 4294967296 := by omega
      simp [validateCountExpr, AExp.eval, uadd, saturatingSub, hb]
    simp only [this]
    split <;> rfl

/-- `validate` accepts exactly the true number of ports of the range (also for `0-65535`, 65536 ports,
which no `u16` count equals; a reversed range holds no ports). -/
theorem port_range_validate_exact (a b count : Nat) (ha : a < 65536) (hb : b < 65536) :
    portRangeValidate (.range a b) count = .ok () ↔ count = b + 1 - a := by
  unfold portRangeValidate
  have : validateCountExpr.eval [a, b] = .ok (b + 1 - a) := by
    have hb' : b + 1 < 4294967296 := by omega
    simp [validateCountExpr, AExp.eval, uadd, saturatingSub, hb']
  simp only [this]
  split
  · rename_i h; simp [h]
  · rename_i h; simp at h; simp [h]

theorem no_panic_increment_port_option :
    incrementSites = [] ∧ ∀ p : Option Nat, (incrementPort p).isPanic = false := by
  refine ⟨by decide, fun p => ?_⟩
  have hc : incrementChecked = true := by decide
  unfold incrementPort
  cases p with
  | none => rfl
  | some p => simp [hc, Res.isPanic]

/-- The increment is exact, and absent when there is no port above. -/
theorem increment_port_option_exact (p : Nat) :
    incrementPort (some p) = .ok (if p + 1 < 65536 then some (p + 1) else none) := by
  have hc : incrementChecked = true := by decide
  unfold incrementPort
  by_cases h : p + 1 < 65536 <;> simp [h, hc, checkedAdd, incrementWidth]

theorem no_panic_get_start_port :
    startPortSites = [] ∧ ∀ r : Option PortRange, ∃ v, startPort r = v :=
  ⟨by decide, fun r => ⟨_, rfl⟩⟩

/-! ## bootstrap addresses and cache -/

/-- The counter sum is computed without overflow for all `u32` counters, and is the true sum. -/
theorem failure_rate_total_exact (s f : Nat) (hs : s < 2 ^ counterWidth) (hf : f < 2 ^ counterWidth) :
    failureTotal s f = .ok (s + f) := by
  have hs' : s < 4294967296 := hs
  have hf' : f < 4294967296 := hf
  have : s + f < 18446744073709551616 := by omega
  simp [failureTotal, failureSumExpr, AExp.eval, uadd, this]

theorem mapKeys_ok : ∀ (l : List (Nat × Nat)),
    (∀ a ∈ l, a.1 < 2 ^ counterWidth ∧ a.2 < 2 ^ counterWidth) → ∃ ks, mapKeys l = .ok ks
  | [], _ => ⟨[], rfl⟩
  | (s, f) :: rest, h => by
    have hsf := h (s, f) (by simp)
    obtain ⟨ks, hks⟩ := mapKeys_ok rest (fun a ha => h a (by simp [ha]))
    simp only [mapKeys, failureKey, failure_rate_total_exact s f hsf.1 hsf.2, hks]
    exact ⟨_, rfl⟩

theorem no_panic_failure_rate :
    failureRateSites = [] ∧ leastFaultySites = [] ∧
    ∀ addrs : List (Nat × Nat), (∀ a ∈ addrs, a.1 < 2 ^ counterWidth ∧ a.2 < 2 ^ counterWidth) →
      (leastFaulty addrs).isPanic = false := by
  refine ⟨by decide, by decide, fun addrs h => ?_⟩
  obtain ⟨ks, hks⟩ := mapKeys_ok addrs h
  simp [leastFaulty, hks, Res.isPanic]

theorem cleanupPeer_ok (k : Nat) (addrs : List (Nat × Nat × Bool))
    (h : ∀ a ∈ addrs, a.1 < 2 ^ counterWidth ∧ a.2.1 < 2 ^ counterWidth) :
    ∃ alive, cleanupPeer k addrs = .ok alive := by
  unfold cleanupPeer
  simp only
  split
  · have : ∀ a ∈ (addrs.filter (fun a => isReliable a.1 a.2.1 && !a.2.2)).map (fun a => (a.1, a.2.1)),
        a.1 < 2 ^ counterWidth ∧ a.2 < 2 ^ counterWidth := by
      intro a ha
      simp only [List.mem_map, List.mem_filter] at ha
      obtain ⟨x, ⟨hx, _⟩, rfl⟩ := ha
      exact h x hx
    obtain ⟨ks, hks⟩ := mapKeys_ok _ this
    simp only [hks]
    exact ⟨_, rfl⟩
  · exact ⟨_, rfl⟩

theorem cleanupAll_ok (k : Nat) : ∀ (peers : List (List (Nat × Nat × Bool))),
    (∀ p ∈ peers, ∀ a ∈ p, a.1 < 2 ^ counterWidth ∧ a.2.1 < 2 ^ counterWidth) →
    ∃ n, cleanupAll k peers = .ok n
  | [], _ => ⟨0, rfl⟩
  | p :: ps, h => by
    obtain ⟨alive, ha⟩ := cleanupPeer_ok k p (h p (by simp))
    obtain ⟨n, hn⟩ := cleanupAll_ok k ps (fun q hq => h q (by simp [hq]))
    simp only [cleanupAll, ha, hn]
    exact ⟨_, rfl⟩

/-- Loading a cache file never panics, whatever `u32` counters the file holds (e.g. `u32::MAX` and 1). -/
theorem no_panic_load_cache_data :
    loadCacheSites = [] ∧ cleanupSites = [] ∧ removeOldestSites = [] ∧
    ∀ (k m : Nat) (parsed : Option (List (List (Nat × Nat × Bool)))),
      (∀ peers, parsed = some peers → ∀ p ∈ peers, ∀ a ∈ p, a.1 < 2 ^ counterWidth ∧ a.2.1 < 2 ^ counterWidth) →
      (loadCache k m parsed).isPanic = false := by
  refine ⟨by decide, by decide, by decide, fun k m parsed h => ?_⟩
  unfold loadCache
  cases parsed with
  | none => rfl
  | some peers =>
    obtain ⟨n, hn⟩ := cleanupAll_ok k peers (h peers rfl)
    simp [hn, Res.isPanic]

theorem no_panic_is_reliable (s f : Nat) : isReliable s f = decide (s ≥ f) := by
  simp [isReliable, reliableCmp, Cmp.holds]

/-! ## multiaddr, node registry, token amounts -/

/-- `craft_valid_multiaddr(_from_str)`: no panic site in the source; the repo logic after the
(abstract, total) multiaddr parser is a total function; a crafted address starts with an IPv4 part
and every position it names exists in the parsed address. -/
theorem no_panic_craft_valid_multiaddr :
    craftSites = [] ∧ craftFromStrSites = [] ∧
    ∀ (parsed : Option (List Proto)) (ig : Bool) (idx : List Nat), craftFromStr parsed ig = some idx →
      ∃ ps, parsed = some ps ∧ ∃ i rest, idx = i :: rest ∧ ps[i]? = some Proto.ip4 := by
  refine ⟨by decide, by decide, fun parsed ig idx h => ?_⟩
  cases parsed with
  | none => simp [craftFromStr] at h
  | some ps =>
    refine ⟨ps, rfl, ?_⟩
    simp only [craftFromStr, craft] at h
    split at h
    · cases h
    · rename_i ip hip
      have hip4 : ps[ip]? = some Proto.ip4 := by
        unfold findIdx at hip
        simp only at hip
        split at hip
        · rename_i hlt
          cases hip
          have := List.findIdx_getElem (w := hlt)
          simp only [beq_iff_eq] at this
          rw [List.getElem?_eq_getElem hlt, this]
        · cases hip
      split at h
      · cases h
      · split at h
        · cases h; exact ⟨ip, _, rfl, hip4⟩
        · split at h
          · cases h; exact ⟨ip, _, rfl, hip4⟩
          · cases h

theorem no_panic_node_registry_load :
    registryLoadSites = [] ∧ registryFromJsonSites = [] ∧
    ∀ (file : Option Bytes) (utf8 : Bool) (parsed : Option Nat), (registryLoad file utf8 parsed).isPanic = false := by
  refine ⟨by decide, by decide, fun file utf8 parsed => ?_⟩
  unfold registryLoad
  cases file with
  | none => simp only; split <;> rfl
  | some b =>
    simp only
    split
    · rfl
    · split
      · rfl
      · split <;> rfl

/-- `save` replaces the whole file: whatever the file held before, it holds exactly the new text after. -/
theorem registry_save_replaces_file :
    registrySaveSites = [] ∧ ∀ old new : Bytes, saveFile old new = new := by
  refine ⟨by decide, fun old new => ?_⟩
  have h : registrySaveTruncates = true := by decide
  simp [saveFile, h]

/-- `save(A) ; save(B) ; load` returns B (longer, equal or shorter than A): parsing the formatter's
output gives the value back also when the file already existed. -/
theorem registry_save_save_load_roundtrip (lenA lenB nodesB : Nat) (hB : 0 < lenB) :
    saveSaveLoad lenA lenB nodesB = (lenB, .ok nodesB) := by
  have h : registrySaveTruncates = true := by decide
  have he : registryEmptyIsDefault = true := by decide
  have hne : (List.replicate lenB 1).isEmpty = false := by
    cases lenB with
    | zero => omega
    | succ n => rfl
  simp [saveSaveLoad, saveFile, h, registryLoad, hne]

/-! ## wallets folder (ant-cli wallet/fs.rs), log format / destination -/

/-- `get_wallet_files` / `filter_wallet_file_extension` / `list_wallets` / `select_wallet_address` /
`load_private_key`: no panic site in the source (no slicing by byte offset, no unwrap); the listing is
a total function of the directory entries and lists only UTF-8 names whose text, with the extension
removed, is an address (40 hex digits, optional `0x`). -/
theorem no_panic_wallet_files :
    walletFilterSites = [] ∧ filterUsesReplace = true ∧ walletFilesSites = [] ∧ walletListSites = [] ∧
    walletSelectAddressSites = [] ∧ selectSingleGuarded = true ∧ walletLoadKeySites = [] ∧
    ∀ (names : List (Bytes × Bool)) (i : Nat), i ∈ walletFiles names →
      ∃ n, names[i]? = some (n, true) ∧ isAddressHex (filterWalletExt n) = true := by
  refine ⟨by decide, by decide, by decide, by decide, by decide, by decide, by decide, fun names i h => ?_⟩
  unfold walletFiles at h
  simp only [List.mem_filter, List.mem_range] at h
  obtain ⟨_, h2⟩ := h
  split at h2
  · rename_i n utf8 hn
    simp only [Bool.and_eq_true] at h2
    obtain ⟨hu, hl⟩ := h2
    subst hu
    exact ⟨n, hn, hl⟩
  · cases h2

theorem no_panic_wallet_selection :
    walletSelectionSites = [] ∧ ∀ (input : Bytes) (files : List Bytes), (walletSelection input files).isPanic = false := by
  refine ⟨by decide, fun input files => ?_⟩
  unfold walletSelection
  cases uFromStr 64 input with
  | none => rfl
  | some idx =>
    simp only [selectLowReject, selectHighReject, selectIndexExpr, Cmp.holds, AExp.eval, usub]
    by_cases h1 : idx < 1
    · simp [h1, Res.isPanic]
    · by_cases h2 : idx > files.length
      · simp [h2, Res.isPanic]
      · have h3 : 1 ≤ idx := by omega
        have h4 : idx - 1 < files.length := by omega
        simp [h1, h2, h3, List.getElem?_eq_getElem h4, Res.isPanic]

theorem no_panic_load_private_key (plainExists encExists utf8 : Bool) (content : Bytes)
    (decrypt : Bytes → Res Unit Bytes) (hd : ∀ s, (decrypt s).isPanic = false) :
    (loadPrivateKey plainExists encExists content utf8 decrypt).isPanic = false := by
  unfold loadPrivateKey
  simp only
  split
  · rfl
  · split
    · rfl
    · split
      · exact hd content
      · rfl

/-- `load_wallet_from_address`: the only panic site of the source is the `expect` on the EVM network
taken from the environment (configuration, assumed set); whatever a wallet file holds — garbage, empty,
non-UTF-8, a key or not — the result is a wallet or an error. -/
theorem no_panic_load_wallet :
    walletLoadFromAddressSites = ["expect"] ∧ loadWalletEnvExpected = true ∧ loadWalletKeyChecked = true ∧
    ∀ (plainExists encExists utf8 : Bool) (content : Bytes) (decrypt : Bytes → Res Unit Bytes)
      (keyOk : Bytes → Option Bytes), (∀ s, (decrypt s).isPanic = false) →
      (loadWallet plainExists encExists content utf8 decrypt keyOk).isPanic = false := by
  refine ⟨by decide, by decide, by decide, fun plainExists encExists utf8 content decrypt keyOk hd => ?_⟩
  have hk : loadWalletKeyChecked = true := by decide
  have h := no_panic_load_private_key plainExists encExists utf8 content decrypt hd
  unfold loadWallet
  generalize loadPrivateKey plainExists encExists content utf8 decrypt = r at h
  cases r with
  | panic p => simp [Res.isPanic] at h
  | err e => rfl
  | ok key =>
    simp only
    split
    · rfl
    · simp [hk, Res.isPanic]

/-- A file that does not hold a private key never yields a wallet. -/
theorem load_wallet_rejects_non_keys (plainExists encExists utf8 : Bool) (content : Bytes)
    (decrypt : Bytes → Res Unit Bytes) (keyOk : Bytes → Option Bytes) (a : Bytes)
    (h : loadWallet plainExists encExists content utf8 decrypt keyOk = .ok a) :
    ∃ key, loadPrivateKey plainExists encExists content utf8 decrypt = .ok key ∧ keyOk key = some a := by
  unfold loadWallet at h
  cases hr : loadPrivateKey plainExists encExists content utf8 decrypt with
  | panic p => simp [hr] at h
  | err e => simp [hr] at h
  | ok key =>
    simp only [hr] at h
    split at h
    · rename_i addr hk
      cases h
      exact ⟨key, rfl, hk⟩
    · split at h <;> cases h

theorem no_panic_log_parsers :
    logFormatSites = [] ∧ logDestSites = [] ∧
    ∀ s : Bytes, (∃ n, logFormatParse s = some n ∧ n ∈ logFormatLiterals) ∨ logFormatParse s = none := by
  refine ⟨by decide, by decide, fun s => ?_⟩
  unfold logFormatParse
  cases h : logFormatLiterals.find? fun l => bytesOf l == s with
  | none => exact Or.inr rfl
  | some n => exact Or.inl ⟨n, rfl, List.mem_of_find?_eq_some h⟩

/-- `AttoTokens::from_str` (model, round trip and soundness: C16): a value or an error for every
string, with both overflow-prone steps going through checked arithmetic. -/
theorem no_panic_atto_tokens_from_str :
    Gen.Amount.unitsMulChecked = true ∧ Gen.Amount.finalAddChecked = true ∧
    ∀ s : List Nat, (∃ n, Amount.parse s = .ok n) ∨ (∃ e, Amount.parse s = .error e) := by
  refine ⟨by decide, by decide, fun s => ?_⟩
  cases h : Amount.parse s with
  | error e => exact Or.inr ⟨e, rfl⟩
  | ok n => exact Or.inl ⟨n, rfl⟩

/-! ## non-vacuity: the models accept and reject, and the former defects' inputs are errors now -/

example : regFromHex (fun _ => true) [] = .err () := by decide
example : regFromHex (fun _ => true) (List.replicate 62 48) = .err () := by decide
example : (regFromHex (fun _ => true) (List.replicate 160 48)).isOk = true := by decide
example : decryptKey (fun _ _ _ _ => none) (fun _ => true) (List.replicate 14 48) [] = .err () := by decide
example : decryptKey (fun _ _ ct _ => some ct) (fun _ => false) (List.replicate 40 48) [] = .err () := by decide
example : portRangeParse [48, 45, 54, 53, 53, 51, 53] = .ok (.range 0 65535) := by decide
example : portRangeValidate (.range 0 65535) 65535 = .err () := by decide
example : portRangeValidate (.range 1 65535) 65535 = .ok () := by decide
example : incrementPort (some 65535) = .ok none := by decide
example : leastFaulty [(4294967295, 1)] = .ok (some 0) := by decide
example : loadCache 1 10 (some [[(4294967295, 1, false), (4294967295, 1, false)]]) = .ok 1 := by decide
example : fromRecord [0x91, 3, 0] = .ok 3 := by decide
example : fromRecord [0x91, 3] = .err () := by decide
example : craft [.p2p, .ip4, .udp, .quic, .p2p] false = some [1, 2, 3, 0] := by decide
example : walletListed (48 :: 120 :: List.replicate 40 97) = true := by decide
example : walletListed (List.replicate 40 70) = true := by decide
example : walletListed (48 :: 120 :: List.replicate 40 97 ++ walletExt) = true := by decide
example : walletListed [46, 68, 83, 95, 83, 116, 111, 114, 101] = false := by decide
example : walletListed (48 :: 120 :: List.replicate 39 97) = false := by decide
example : walletFiles [([110, 111, 116, 101, 115], true), (48 :: 120 :: List.replicate 40 97, true),
    (48 :: 120 :: List.replicate 40 98, false)] = [1] := by decide
example : walletSelection [48] [[1]] = .err () := by decide
example : walletSelection [49] [48 :: 120 :: 97 :: walletExt] = .ok [48, 120, 97] := by decide

end SafeNet.Props.C17

#print axioms SafeNet.Props.C17.no_panic_register_from_hex
#print axioms SafeNet.Props.C17.register_hex_roundtrip
#print axioms SafeNet.Props.C17.no_panic_scratchpad_from_hex
#print axioms SafeNet.Props.C17.scratchpad_hex_roundtrip
#print axioms SafeNet.Props.C17.no_panic_data_map_from_hex
#print axioms SafeNet.Props.C17.data_map_hex_roundtrip
#print axioms SafeNet.Props.C17.no_panic_str_to_addr
#print axioms SafeNet.Props.C17.addr_str_roundtrip
#print axioms SafeNet.Props.C17.str_to_addr_sound
#print axioms SafeNet.Props.C17.no_panic_decrypt_private_key
#print axioms SafeNet.Props.C17.encrypt_decrypt_roundtrip
#print axioms SafeNet.Props.C17.decrypt_short_is_error
#print axioms SafeNet.Props.C17.no_panic_record_header_from_record
#print axioms SafeNet.Props.C17.record_header_short_is_error
#print axioms SafeNet.Props.C17.record_header_window
#print axioms SafeNet.Props.C17.record_header_tag_known
#print axioms SafeNet.Props.C17.no_panic_try_deserialize_record
#print axioms SafeNet.Props.C17.try_deserialize_record_prefix
#print axioms SafeNet.Props.C17.no_panic_port_range_parse
#print axioms SafeNet.Props.C17.port_range_parse_sound
#print axioms SafeNet.Props.C17.no_panic_port_range_validate
#print axioms SafeNet.Props.C17.port_range_validate_exact
#print axioms SafeNet.Props.C17.no_panic_increment_port_option
#print axioms SafeNet.Props.C17.increment_port_option_exact
#print axioms SafeNet.Props.C17.no_panic_get_start_port
#print axioms SafeNet.Props.C17.failure_rate_total_exact
#print axioms SafeNet.Props.C17.no_panic_failure_rate
#print axioms SafeNet.Props.C17.no_panic_load_cache_data
#print axioms SafeNet.Props.C17.no_panic_is_reliable
#print axioms SafeNet.Props.C17.no_panic_craft_valid_multiaddr
#print axioms SafeNet.Props.C17.no_panic_node_registry_load
#print axioms SafeNet.Props.C17.no_panic_atto_tokens_from_str
#print axioms SafeNet.Props.C17.no_panic_wallet_files
#print axioms SafeNet.Props.C17.no_panic_wallet_selection
#print axioms SafeNet.Props.C17.no_panic_load_private_key
#print axioms SafeNet.Props.C17.no_panic_load_wallet
#print axioms SafeNet.Props.C17.load_wallet_rejects_non_keys
#print axioms SafeNet.Props.C17.no_panic_log_parsers
#print axioms SafeNet.Props.C17.registry_save_replaces_file
#print axioms SafeNet.Props.C17.registry_save_save_load_roundtrip
