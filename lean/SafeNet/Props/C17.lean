import SafeNet.Proofs.Parsers
import SafeNet.Proofs.ParsersExt
import SafeNet.Proofs.ParsersR6
import SafeNet.Proofs.Amount
/-!
# C17 — parsers of untrusted text and bytes never crash; formatter output parses back

Statements only; helper lemmas live in `SafeNet.Proofs.Parsers`, `SafeNet.Base.Hex`.
Models: `SafeNet.Model.Parsers`, instantiated with the guards / slices / integer expressions /
checked-ness flags / constants that `rs2lean` regenerates from the Rust source (`SafeNet.Gen.Parsers`).

Every `no_panic_<routine>` has two parts: (a) the routine's source contains no panic site outside what
the model interprets (`…Sites = []`), (b) the model returns `ok` or `err`, never `panic`, for **all** inputs.
Third-party functions (BLS key check, AEAD, UTF-8 validation, multiaddr / URL / address / serde_json / rmp_serde
parsers, regex matching, `std::path`'s component parser) are universally quantified parameters.

What (a) means exactly.  `…Sites` is the output of a *syntactic* scan of the one function body (rs2lean,
`harness/rs2lean/src/parsers.rs`, `Sites`): method calls named `unwrap`/`expect`/`unwrap_err`/`expect_err`/
`unwrap_unchecked`, `copy_from_slice`/`clone_from_slice`, `split_at(_mut)`/`split_off`, `swap`/`swap_remove`/`remove`/
`drain`, `rotate_left/right`, `chunks(_exact)`/`windows`/`step_by`, `pow`/`abs`/`div_euclid`/`rem_euclid`/
`next_power_of_two`, `from_utf8_unchecked`, `borrow_mut`; the macros `panic!`/`unreachable!`/`assert*!`/`debug_assert*!`/
`todo!`/`unimplemented!`; every index expression `x[..]` (also inside closures); every non-constant `+ - * / % << >>`
and their assignment forms (whatever the operand types: also `Duration`/`SystemTime`/`Instant` arithmetic).  Macro
arguments are scanned too: parsed as an expression list where they are one (`format!`-like macros, `eyre!`, `vec![a, b]`),
otherwise scanned token by token (index groups, listed method names after `.`, binary operators, nested macros) —
an over-approximation.  A rule that *models* a reported site (a slice whose bounds it emits, a `split_at` the model
interprets, an arithmetic expression it translates, a `remove` whose receiver it finds declared as a `HashMap`)
removes exactly that site and says so in the generated file.  NOT seen by the scan, hence trusted: panics inside
callees (a callee in /repo is covered only if it has its own `…Sites` definition — the ones named in this file; all
others are third-party or std), panicking methods that are not in the list above (the scan has no types: e.g.
`Vec::insert`, `String::insert`, `RefCell::borrow`, `Index` impls behind method calls such as `BTreeMap`'s `[]` are
caught only as index expressions), panics produced by trait impls invoked implicitly (`Display`/`Debug`/`Drop`/`Deref`,
operator overloading that is not one of the arithmetic operators), integer casts (`as` never panics but truncates),
and allocation failure / stack overflow.  The differential runs (every routine under `catch_unwind`, with a
TRACE-level subscriber that formats every log argument) are what covers those.
-/
namespace SafeNet.Props.C17
open SafeNet.Panic SafeNet.Parsers SafeNet.Gen.Parsers SafeNet

/-! ## hex addresses -/

theorem no_panic_register_from_hex :
    regFromHexSites = [] ∧ ∀ (pkOk : Bytes → Bool) (s : Bytes), (regFromHex pkOk s).isPanic = false := by
  refine ⟨by decide, fun pkOk s => ?_⟩
  unfold regFromHex
  cases Hex.decode s with
  | none => rfl
  | some bytes =>
    have h := steps_no_panic regFromHexSteps (by decide) bytes
    simp only
    generalize runSteps bytes regFromHexSteps = r at h
    cases r with
    | panic p => simp [Res.isPanic] at h
    | err e => rfl
    | ok fs => split <;> first | rfl | (split <;> rfl) | simp_all [Res.isPanic]

/-- `from_hex (to_hex a) = a` for every register address (32-byte meta, valid 48-byte key). -/
theorem register_hex_roundtrip (pkOk : Bytes → Bool) (m owner : Bytes)
    (hm : m.length = xorNameLen) (ho : owner.length = pkSize)
    (hb : ∀ b ∈ m ++ owner, b < 256) (hpk : pkOk owner = true) :
    regFromHex pkOk (regToHex m owner) = .ok (m, owner) := by
  have hm' : m.length = 32 := hm
  have ho' : owner.length = 48 := ho
  unfold regFromHex regToHex
  rw [Hex.decode_encode _ hb]
  have hsteps : runSteps (m ++ owner) regFromHexSteps = .ok [m, owner] := by
    simp [regFromHexSteps, runSteps, Cmp.holds, sliceOpt?, slice?, hm', ho', List.take_of_length_le]
  simp [hsteps, hpk]

theorem no_panic_scratchpad_from_hex :
    scratchpadFromHexSites = [] ∧ scratchpadDelegatesToPk = true ∧
      ∀ (pkOk : Bytes → Bool) (s : Bytes), (scratchFromHex pkOk s).isPanic = false := by
  refine ⟨by decide, by decide, fun pkOk s => ?_⟩
  unfold scratchFromHex
  cases Hex.decode s with
  | none => rfl
  | some bytes => simp only; split <;> first | rfl | (split <;> rfl)

theorem scratchpad_hex_roundtrip (pkOk : Bytes → Bool) (owner : Bytes) (ho : owner.length = pkSize)
    (hb : ∀ b ∈ owner, b < 256) (hpk : pkOk owner = true) :
    scratchFromHex pkOk (scratchToHex owner) = .ok owner := by
  unfold scratchFromHex scratchToHex
  rw [Hex.decode_encode _ hb]
  simp [ho, hpk]

theorem no_panic_data_map_from_hex :
    dataMapFromHexSites = [] ∧ dataMapToHexSites = [] ∧ ∀ s : Bytes, (dataMapFromHex s).isPanic = false := by
  refine ⟨by decide, by decide, fun s => ?_⟩
  unfold dataMapFromHex
  cases Hex.decode s <;> rfl

theorem data_map_hex_roundtrip (b : Bytes) (hb : ∀ x ∈ b, x < 256) :
    dataMapFromHex (dataMapToHex b) = .ok b := by
  unfold dataMapFromHex dataMapToHex
  rw [Hex.decode_encode _ hb]

theorem no_panic_str_to_addr :
    strToAddrSites = [] ∧ ∀ s : Bytes, (strToAddr s).isPanic = false := by
  refine ⟨by decide, fun s => ?_⟩
  unfold strToAddr
  cases Hex.decode s with
  | none => rfl
  | some bytes => simp only; split <;> rfl

theorem addr_str_roundtrip (x : Bytes) (hx : x.length = xorNameLen) (hb : ∀ b ∈ x, b < 256) :
    strToAddr (addrToStr x) = .ok x := by
  unfold strToAddr addrToStr
  rw [Hex.decode_encode _ hb]
  simp [hx]

/-- What `str_to_addr` accepts is exactly the hex of 32 bytes (either case), and the value is those bytes. -/
theorem str_to_addr_sound (s x : Bytes) (h : strToAddr s = .ok x) :
    Hex.decode s = some x ∧ x.length = xorNameLen ∧ s.length = 2 * xorNameLen := by
  unfold strToAddr at h
  cases hd : Hex.decode s with
  | none => simp [hd] at h
  | some bytes =>
    simp only [hd] at h
    split at h
    · cases h
    · rename_i hl
      cases h
      have := Hex.decode_length s _ hd
      refine ⟨rfl, by omega, by omega⟩

/-! ## encrypted wallet key -/

theorem no_panic_decrypt_private_key :
    decryptSites = [] ∧
    ∀ (aead : Bytes → Bytes → Bytes → Bytes → Option Bytes) (utf8 : Bytes → Bool) (s pw : Bytes),
      (decryptKey aead utf8 s pw).isPanic = false := by
  refine ⟨by decide, fun aead utf8 s pw => ?_⟩
  have hc : decryptUtf8Checked = true := by decide
  unfold decryptKey
  cases Hex.decode s with
  | none => rfl
  | some bytes =>
    have h := steps_no_panic decryptSteps (by decide) bytes
    simp only
    generalize runSteps bytes decryptSteps = r at h
    cases r with
    | panic p => simp [Res.isPanic] at h
    | err e => rfl
    | ok fs =>
      split
      · simp_all [Res.isPanic]
      · rfl
      · split
        · rfl
        · simp only [hc, ↓reduceIte]; split <;> rfl
      · rfl

/-- Framing-level round trip: whatever the AEAD is, if opening what was sealed under the same salt,
nonce and password gives the key back, `decrypt_private_key (encrypt_private_key k) = k`. -/
theorem encrypt_decrypt_roundtrip
    (sealFn : Bytes → Bytes → Bytes → Bytes → Bytes) (aead : Bytes → Bytes → Bytes → Bytes → Option Bytes)
    (utf8 : Bytes → Bool) (salt nonce key pw : Bytes)
    (hs : salt.length = saltLength) (hn : nonce.length = nonceLength)
    (hb : ∀ b ∈ salt ++ nonce ++ sealFn salt nonce key pw, b < 256)
    (hopen : aead salt nonce (sealFn salt nonce key pw) pw = some key) (hutf : utf8 key = true) :
    decryptKey aead utf8 (encryptKey sealFn salt nonce key pw) pw = .ok key := by
  have hs' : salt.length = 8 := hs
  have hn' : nonce.length = 12 := hn
  unfold decryptKey encryptKey
  rw [Hex.decode_encode _ hb]
  generalize sealFn salt nonce key pw = ct at hopen
  have hsteps : runSteps (salt ++ nonce ++ ct) decryptSteps = .ok [salt, nonce, ct] := by
    have h1 : ¬ (8 + (12 + ct.length) < 20) := by omega
    have h2 : 20 ≤ 8 + (12 + ct.length) := by omega
    have h3 : 8 + (12 + ct.length) - 20 = ct.length := by omega
    have h4 : List.drop 20 salt = [] := List.drop_of_length_le (by omega)
    simp [decryptSteps, runSteps, Cmp.holds, sliceOpt?, slice?, hs', hn', h1, h2, h3, h4, List.take_of_length_le,
      List.drop_append, List.take_append]
  rw [List.append_assoc] at hsteps
  simp [hsteps, hopen, hutf]

/-- Anything shorter than salt + nonce is rejected (not sliced). -/
theorem decrypt_short_is_error (aead : Bytes → Bytes → Bytes → Bytes → Option Bytes) (utf8 : Bytes → Bool)
    (s pw bytes : Bytes) (hd : Hex.decode s = some bytes) (hl : bytes.length < saltLength + nonceLength) :
    decryptKey aead utf8 s pw = .err () := by
  have hl' : bytes.length < 20 := hl
  unfold decryptKey
  simp [hd, decryptSteps, runSteps, Cmp.holds, hl']

/-! ## record header -/

theorem no_panic_record_header_from_record :
    fromRecordSites = [] ∧ tryDeserializeSites = [] ∧ ∀ value : Bytes, (fromRecord value).isPanic = false := by
  refine ⟨by decide, by decide, fun value => ?_⟩
  unfold fromRecord
  have h := steps_no_panic fromRecordSteps (by decide) value
  generalize runSteps value fromRecordSteps = r at h
  cases r with
  | panic p => simp [Res.isPanic] at h
  | err e => rfl
  | ok fs => split <;> first | rfl | (split <;> rfl) | simp_all [Res.isPanic]

theorem record_header_short_is_error (value : Bytes) (h : value.length < recordHeaderSize + 1) :
    fromRecord value = .err () := by
  have h' : value.length < 3 := h
  unfold fromRecord
  simp [fromRecordSteps, runSteps, Cmp.holds, h']

/-- The header is decoded from exactly the first `SIZE + 1` bytes. -/
theorem record_header_window (value : Bytes) (h : recordHeaderSize + 1 ≤ value.length) :
    fromRecord value = match decodeHeader3 (value.take (recordHeaderSize + 1)) with
      | some t => .ok t
      | none => .err () := by
  have h' : 3 ≤ value.length := h
  have h3 : ¬ value.length < 3 := by omega
  unfold fromRecord
  simp [fromRecordSteps, runSteps, Cmp.holds, sliceOpt?, slice?, h3, h', recordHeaderSize]
  rfl

/-- Every tag a header decodes to is one of `RecordKind`'s integers. -/
theorem record_header_tag_known (value : Bytes) (t : Nat) (h : fromRecord value = .ok t) :
    ∃ name, (t, name) ∈ recordKindTags := by
  have key : ∀ w t, decodeHeader3 w = some t → ∃ name, (t, name) ∈ recordKindTags := by
    intro w t hw
    have tk : ∀ a, tagOk a = some t → ∃ name, (t, name) ∈ recordKindTags := by
      intro a ha
      unfold tagOk at ha
      split at ha
      · rename_i hany
        cases ha
        rw [List.any_eq_true] at hany
        obtain ⟨⟨x, name⟩, hmem, hx⟩ := hany
        simp only [beq_iff_eq] at hx
        subst hx
        exact ⟨name, hmem⟩
      · cases ha
    unfold decodeHeader3 at hw
    split at hw
    · repeat' split at hw
      all_goals first | exact tk _ hw | cases hw
    · cases hw
  unfold fromRecord at h
  split at h
  · cases h
  · cases h
  · split at h
    · rename_i hdec
      cases h
      exact key _ _ hdec
    · cases h
  · cases h

theorem no_panic_try_deserialize_record :
    deserializeRecordSites = [] ∧
    ∀ (α : Type) (dec : Bytes → Option α) (value : Bytes), (deserializeRecord dec value).isPanic = false := by
  refine ⟨by decide, fun α dec value => ?_⟩
  unfold deserializeRecord
  have h := steps_no_panic deserializeRecordSteps (by decide) value
  generalize runSteps value deserializeRecordSteps = r at h
  cases r with
  | panic p => simp [Res.isPanic] at h
  | err e => rfl
  | ok fs => split <;> first | rfl | (split <;> rfl) | simp_all [Res.isPanic]

/-- Prefix handling: nothing after the header is an error; otherwise the payload decoder sees
exactly the bytes after the `SIZE`-byte header. -/
theorem try_deserialize_record_prefix {α : Type} (dec : Bytes → Option α) (value : Bytes) :
    deserializeRecord dec value =
      if value.length ≤ recordHeaderSize then .err ()
      else match dec (value.drop recordHeaderSize) with
        | some v => .ok v
        | none => .err () := by
  unfold deserializeRecord
  by_cases h : value.length ≤ 2
  · simp [deserializeRecordSteps, runSteps, Cmp.holds, h, recordHeaderSize]
  · have h2 : 2 ≤ value.length := by omega
    simp [deserializeRecordSteps, runSteps, Cmp.holds, sliceOpt?, slice?, h, h2, recordHeaderSize, List.take_of_length_le]
    rfl

/-! ## ports -/

theorem uFromStr_lt {w : Nat} {s : Bytes} {v : Nat} (h : uFromStr w s = some v) : v < 2 ^ w := by
  unfold uFromStr at h
  split at h
  · cases h
  · split at h
    · cases h
    · split at h
      · cases h; assumption
      · cases h

theorem no_panic_port_range_parse :
    portRangeParseSites = [] ∧ ∀ s : Bytes, (portRangeParse s).isPanic = false := by
  refine ⟨by decide, fun s => ?_⟩
  unfold portRangeParse
  split
  · rfl
  · simp only [parsePartsReject, parsePartIndexes, parseOrderReject, Cmp.holds]
    generalize splitOn parseSplitChar s = parts
    match parts with
    | [] => rfl
    | [_] => rfl
    | [p0, p1] =>
      simp only [List.length_cons, List.length_nil]
      simp only [bne_self_eq_false, Bool.false_eq_true, ↓reduceIte, List.getD_cons_zero,
        List.getD_cons_succ, List.getElem?_cons_zero, List.getElem?_cons_succ]
      repeat' (first | rfl | split)
      all_goals (rename_i a _ _ b _; by_cases hab : a ≥ b <;> simp [hab, Res.isPanic])
    | _ :: _ :: _ :: rest =>
      have : ((rest.length + 1 + 1 + 1) != 2) = true := by
        simp only [bne_iff_ne, ne_eq]; omega
      simp [this, Res.isPanic]

/-- What `PortRange::parse` returns denotes ports: values fit `u16`, and a range is strictly increasing. -/
theorem port_range_parse_sound (s : Bytes) (r : PortRange) (h : portRangeParse s = .ok r) :
    match r with
    | .single p => p < 65536
    | .range a b => a < b ∧ b < 65536 := by
  unfold portRangeParse at h
  split at h
  · rename_i p hp
    cases h
    exact uFromStr_lt hp
  · simp only at h
    split at h
    · cases h
    · split at h
      · cases h
      · split at h
        · cases h
        · rename_i a ha
          split at h
          · cases h
          · split at h
            · cases h
            · rename_i b hb
              split at h
              · cases h
              · rename_i hord
                cases h
                have hb' := uFromStr_lt hb
                simp only [parseOrderReject, Cmp.holds, decide_eq_true_eq] at hord
                exact ⟨by omega, hb'⟩

/-- Ports of a `PortRange` are `u16` values. -/
def PortRange.wf : PortRange → Prop
  | .single p => p < 2 ^ portWidth
  | .range a b => a < 2 ^ portWidth ∧ b < 2 ^ portWidth

theorem no_panic_port_range_validate :
    validateSites = [] ∧
    ∀ (r : PortRange) (count : Nat), PortRange.wf r → (portRangeValidate r count).isPanic = false := by
  refine ⟨by decide, fun r count hw => ?_⟩
  cases r with
  | single p => unfold portRangeValidate; simp only; split <;> rfl
  | range a b =>
    have hw' : a < 65536 ∧ b < 65536 := hw
    unfold portRangeValidate
    have : validateCountExpr.eval [a, b] = .ok (b + 1 - a) := by
      have hb : b + 1 < 4294967296 := by omega
      simp [validateCountExpr, AExp.eval, uadd, saturatingSub, hb]
    simp only [this]
    split <;> rfl

/-- `validate` accepts exactly the true number of ports of the range (also for `0-65535`, 65536 ports,
which no `u16` count equals; a reversed range holds no ports). -/
theorem port_range_validate_exact (a b count : Nat) (ha : a < 65536) (hb : b < 65536) :
    portRangeValidate (.range a b) count = .ok () ↔ count = b + 1 - a := by
  unfold portRangeValidate
  have : validateCountExpr.eval [a, b] = .ok (b + 1 - a) := by
    have hb' : b + 1 < 4294967296 := by omega
    simp [validateCountExpr, AExp.eval, uadd, saturatingSub, hb']
  simp only [this]
  split
  · rename_i h; simp [h]
  · rename_i h; simp at h; simp [h]

theorem no_panic_increment_port_option :
    incrementSites = [] ∧ ∀ p : Option Nat, (incrementPort p).isPanic = false := by
  refine ⟨by decide, fun p => ?_⟩
  have hc : incrementChecked = true := by decide
  unfold incrementPort
  cases p with
  | none => rfl
  | some p => simp [hc, Res.isPanic]

/-- The increment is exact, and absent when there is no port above. -/
theorem increment_port_option_exact (p : Nat) :
    incrementPort (some p) = .ok (if p + 1 < 65536 then some (p + 1) else none) := by
  have hc : incrementChecked = true := by decide
  unfold incrementPort
  by_cases h : p + 1 < 65536 <;> simp [h, hc, checkedAdd, incrementWidth]

/-- `get_start_port_if_applicable`: no panic site, and a total function by construction (a `match` on the optional
range); the port it returns is the first port of the range given. -/
theorem no_panic_get_start_port :
    startPortSites = [] ∧
    ∀ (r : Option PortRange) (p : Nat), startPort r = some p ↔
      (r = some (.single p) ∨ ∃ b, r = some (.range p b)) := by
  refine ⟨by decide, fun r p => ?_⟩
  cases r with
  | none => simp [startPort]
  | some rr =>
    cases rr with
    | single q => simp [startPort]
    | range a b => simp [startPort]

/-! ## bootstrap addresses and cache -/

/-- The counter sum is computed without overflow for all `u32` counters, and is the true sum. -/
theorem failure_rate_total_exact (s f : Nat) (hs : s < 2 ^ counterWidth) (hf : f < 2 ^ counterWidth) :
    failureTotal s f = .ok (s + f) := by
  have hs' : s < 4294967296 := hs
  have hf' : f < 4294967296 := hf
  have : s + f < 18446744073709551616 := by omega
  simp [failureTotal, failureSumExpr, AExp.eval, uadd, this]

theorem mapKeys_ok : ∀ (l : List (Nat × Nat)),
    (∀ a ∈ l, a.1 < 2 ^ counterWidth ∧ a.2 < 2 ^ counterWidth) → ∃ ks, mapKeys l = .ok ks
  | [], _ => ⟨[], rfl⟩
  | (s, f) :: rest, h => by
    have hsf := h (s, f) (by simp)
    obtain ⟨ks, hks⟩ := mapKeys_ok rest (fun a ha => h a (by simp [ha]))
    simp only [mapKeys, failureKey, failure_rate_total_exact s f hsf.1 hsf.2, hks]
    exact ⟨_, rfl⟩

theorem no_panic_failure_rate :
    failureRateSites = [] ∧ leastFaultySites = [] ∧
    ∀ addrs : List (Nat × Nat), (∀ a ∈ addrs, a.1 < 2 ^ counterWidth ∧ a.2 < 2 ^ counterWidth) →
      (leastFaulty addrs).isPanic = false := by
  refine ⟨by decide, by decide, fun addrs h => ?_⟩
  obtain ⟨ks, hks⟩ := mapKeys_ok addrs h
  simp [leastFaulty, hks, Res.isPanic]

theorem cleanupPeer_ok (k : Nat) (addrs : List (Nat × Nat × Bool))
    (h : ∀ a ∈ addrs, a.1 < 2 ^ counterWidth ∧ a.2.1 < 2 ^ counterWidth) :
    ∃ alive, cleanupPeer k addrs = .ok alive := by
  unfold cleanupPeer
  simp only
  split
  · have : ∀ a ∈ (addrs.filter (fun a => isReliable a.1 a.2.1 && !a.2.2)).map (fun a => (a.1, a.2.1)),
        a.1 < 2 ^ counterWidth ∧ a.2 < 2 ^ counterWidth := by
      intro a ha
      simp only [List.mem_map, List.mem_filter] at ha
      obtain ⟨x, ⟨hx, _⟩, rfl⟩ := ha
      exact h x hx
    obtain ⟨ks, hks⟩ := mapKeys_ok _ this
    simp only [hks]
    exact ⟨_, rfl⟩
  · exact ⟨_, rfl⟩

theorem cleanupAll_ok (k : Nat) : ∀ (peers : List (List (Nat × Nat × Bool))),
    (∀ p ∈ peers, ∀ a ∈ p, a.1 < 2 ^ counterWidth ∧ a.2.1 < 2 ^ counterWidth) →
    ∃ n, cleanupAll k peers = .ok n
  | [], _ => ⟨0, rfl⟩
  | p :: ps, h => by
    obtain ⟨alive, ha⟩ := cleanupPeer_ok k p (h p (by simp))
    obtain ⟨n, hn⟩ := cleanupAll_ok k ps (fun q hq => h q (by simp [hq]))
    simp only [cleanupAll, ha, hn]
    exact ⟨_, rfl⟩

/-- Loading a cache file never panics, whatever `u32` counters the file holds (e.g. `u32::MAX` and 1). -/
theorem no_panic_load_cache_data :
    loadCacheSites = [] ∧ cleanupSites = [] ∧ removeOldestSites = [] ∧
    ∀ (k m : Nat) (parsed : Option (List (List (Nat × Nat × Bool)))),
      (∀ peers, parsed = some peers → ∀ p ∈ peers, ∀ a ∈ p, a.1 < 2 ^ counterWidth ∧ a.2.1 < 2 ^ counterWidth) →
      (loadCache k m parsed).isPanic = false := by
  refine ⟨by decide, by decide, by decide, fun k m parsed h => ?_⟩
  unfold loadCache
  cases parsed with
  | none => rfl
  | some peers =>
    obtain ⟨n, hn⟩ := cleanupAll_ok k peers (h peers rfl)
    simp [hn, Res.isPanic]

/-- The other routines of ant-bootstrap that consume the counters and addresses a cache file / `ANT_PEERS` supplied
have no panic site of their own: `is_reliable` is the bare comparison the source spells (no arithmetic),
`get_sorted_addrs` sorts by `failure_rate() as u64` (`no_panic_failure_rate`), `BootstrapAddr::sync` adds with
`saturating_add`, `update_status` with `checked_add` (both shapes checked by the translator),
`BootstrapAddresses::sync`, `PeersArgs::get_bootstrap_addr` / `get_addrs`.  (Round 6: this used to restate the
definition of `isReliable` only.) -/
theorem no_panic_is_reliable :
    isReliableSites = [] ∧ sortedAddrsSites = [] ∧ bootstrapAddrSyncSites = [] ∧ updateStatusSites = [] ∧
    bootstrapAddressesSyncSites = [] ∧ getBootstrapAddrSites = [] ∧ getAddrsSites = [] ∧
    ∀ s f : Nat, isReliable s f = decide (s ≥ f) := by
  refine ⟨by decide, by decide, by decide, by decide, by decide, by decide, by decide, fun s f => ?_⟩
  simp [isReliable, reliableCmp, Cmp.holds]

/-! ## multiaddr, node registry, token amounts -/

/-- `craft_valid_multiaddr(_from_str)`: no panic site in the source; the repo logic after the
(abstract, total) multiaddr parser is a total function; a crafted address starts with an IPv4 part
and every position it names exists in the parsed address. -/
theorem no_panic_craft_valid_multiaddr :
    craftSites = [] ∧ craftFromStrSites = [] ∧
    ∀ (parsed : Option (List Proto)) (ig : Bool) (idx : List Nat), craftFromStr parsed ig = some idx →
      ∃ ps, parsed = some ps ∧ ∃ i rest, idx = i :: rest ∧ ps[i]? = some Proto.ip4 := by
  refine ⟨by decide, by decide, fun parsed ig idx h => ?_⟩
  cases parsed with
  | none => simp [craftFromStr] at h
  | some ps =>
    refine ⟨ps, rfl, ?_⟩
    simp only [craftFromStr, craft] at h
    split at h
    · cases h
    · rename_i ip hip
      have hip4 : ps[ip]? = some Proto.ip4 := by
        unfold findIdx at hip
        simp only at hip
        split at hip
        · rename_i hlt
          cases hip
          have := List.findIdx_getElem (w := hlt)
          simp only [beq_iff_eq] at this
          rw [List.getElem?_eq_getElem hlt, this]
        · cases hip
      split at h
      · cases h
      · split at h
        · cases h; exact ⟨ip, _, rfl, hip4⟩
        · split at h
          · cases h; exact ⟨ip, _, rfl, hip4⟩
          · cases h

theorem no_panic_node_registry_load :
    registryLoadSites = [] ∧ registryFromJsonSites = [] ∧
    ∀ (file : Option Bytes) (utf8 : Bool) (parsed : Option Nat), (registryLoad file utf8 parsed).isPanic = false := by
  refine ⟨by decide, by decide, fun file utf8 parsed => ?_⟩
  unfold registryLoad
  cases file with
  | none => simp only; split <;> rfl
  | some b =>
    simp only
    split
    · rfl
    · split
      · rfl
      · split <;> rfl

/-- `save` replaces the whole file: whatever the file held before, it holds exactly the new text after. -/
theorem registry_save_replaces_file :
    registrySaveSites = [] ∧ ∀ old new : Bytes, saveFile old new = new := by
  refine ⟨by decide, fun old new => ?_⟩
  have h : registrySaveTruncates = true := by decide
  simp [saveFile, h]

/-- `save(A) ; save(B) ; load` on one path, at the level of FILE CONTENT: after the second save the file holds exactly
B's text (whatever its length relative to A's), so loading parses B's text and nothing else.  The JSON codec itself
is NOT modelled here — `nodesB`, what parsing B's text gives, is a parameter (serde_json is abstract): that
`from_json(to_string(B)) = B` is established on the real code by the harness oracle only (op `regsave`: the loaded
registry re-serialises to the same text), not by this theorem. -/
theorem registry_save_save_load_roundtrip (lenA lenB nodesB : Nat) (hB : 0 < lenB) :
    saveSaveLoad lenA lenB nodesB = (lenB, .ok nodesB) := by
  have h : registrySaveTruncates = true := by decide
  have he : registryEmptyIsDefault = true := by decide
  have hne : (List.replicate lenB 1).isEmpty = false := by
    cases lenB with
    | zero => omega
    | succ n => rfl
  simp [saveSaveLoad, saveFile, h, registryLoad, hne]

/-! ## wallets folder (ant-cli wallet/fs.rs), log format / destination -/

/-- `get_wallet_files` / `filter_wallet_file_extension` / `list_wallets` / `select_wallet_address` /
`load_private_key`: no panic site in the source (no slicing by byte offset, no unwrap); the listing is
a total function of the directory entries and lists only UTF-8 names whose text, with the extension
removed, is an address (40 hex digits, optional `0x`). -/
theorem no_panic_wallet_files :
    walletFilterSites = [] ∧ filterUsesReplace = true ∧ walletFilesSites = [] ∧ walletListSites = [] ∧
    walletSelectAddressSites = [] ∧ selectSingleGuarded = true ∧ walletLoadKeySites = [] ∧
    ∀ (names : List (Bytes × Bool)) (i : Nat), i ∈ walletFiles names →
      ∃ n, names[i]? = some (n, true) ∧ isAddressHex (filterWalletExt n) = true := by
  refine ⟨by decide, by decide, by decide, by decide, by decide, by decide, by decide, fun names i h => ?_⟩
  unfold walletFiles at h
  simp only [List.mem_filter, List.mem_range] at h
  obtain ⟨_, h2⟩ := h
  split at h2
  · rename_i n utf8 hn
    simp only [Bool.and_eq_true] at h2
    obtain ⟨hu, hl⟩ := h2
    subst hu
    exact ⟨n, hn, hl⟩
  · cases h2

theorem no_panic_wallet_selection :
    walletSelectionSites = [] ∧ ∀ (input : Bytes) (files : List Bytes), (walletSelection input files).isPanic = false := by
  refine ⟨by decide, fun input files => ?_⟩
  unfold walletSelection
  cases uFromStr 64 input with
  | none => rfl
  | some idx =>
    simp only [selectLowReject, selectHighReject, selectIndexExpr, Cmp.holds, AExp.eval, usub]
    by_cases h1 : idx < 1
    · simp [h1, Res.isPanic]
    · by_cases h2 : idx > files.length
      · simp [h2, Res.isPanic]
      · have h3 : 1 ≤ idx := by omega
        have h4 : idx - 1 < files.length := by omega
        simp [h1, h2, h3, List.getElem?_eq_getElem h4, Res.isPanic]

theorem no_panic_load_private_key (plainExists encExists utf8 : Bool) (content : Bytes)
    (decrypt : Bytes → Res Unit Bytes) (hd : ∀ s, (decrypt s).isPanic = false) :
    (loadPrivateKey plainExists encExists content utf8 decrypt).isPanic = false := by
  unfold loadPrivateKey
  simp only
  split
  · rfl
  · split
    · rfl
    · split
      · exact hd content
      · rfl

/-- `load_wallet_from_address`: no panic site left in the source (the EVM network read from the environment
and the key read from the file are both mapped to errors); whatever a wallet file holds — garbage, empty,
non-UTF-8, a key or not — the result is a wallet or an error. -/
theorem no_panic_load_wallet :
    walletLoadFromAddressSites = [] ∧ loadWalletEnvExpected = false ∧ loadWalletKeyChecked = true ∧
    ∀ (plainExists encExists utf8 : Bool) (content : Bytes) (decrypt : Bytes → Res Unit Bytes)
      (keyOk : Bytes → Option Bytes), (∀ s, (decrypt s).isPanic = false) →
      (loadWallet plainExists encExists content utf8 decrypt keyOk).isPanic = false := by
  refine ⟨by decide, by decide, by decide, fun plainExists encExists utf8 content decrypt keyOk hd => ?_⟩
  have hk : loadWalletKeyChecked = true := by decide
  have h := no_panic_load_private_key plainExists encExists utf8 content decrypt hd
  unfold loadWallet
  generalize loadPrivateKey plainExists encExists content utf8 decrypt = r at h
  cases r with
  | panic p => simp [Res.isPanic] at h
  | err e => rfl
  | ok key =>
    simp only
    split
    · rfl
    · simp [hk, Res.isPanic]

/-- A file that does not hold a private key never yields a wallet. -/
theorem load_wallet_rejects_non_keys (plainExists encExists utf8 : Bool) (content : Bytes)
    (decrypt : Bytes → Res Unit Bytes) (keyOk : Bytes → Option Bytes) (a : Bytes)
    (h : loadWallet plainExists encExists content utf8 decrypt keyOk = .ok a) :
    ∃ key, loadPrivateKey plainExists encExists content utf8 decrypt = .ok key ∧ keyOk key = some a := by
  unfold loadWallet at h
  cases hr : loadPrivateKey plainExists encExists content utf8 decrypt with
  | panic p => simp [hr] at h
  | err e => simp [hr] at h
  | ok key =>
    simp only [hr] at h
    split at h
    · rename_i addr hk
      cases h
      exact ⟨key, rfl, hk⟩
    · split at h <;> cases h

/-- `LogFormat::parse_from_str` / `LogOutputDest::parse_from_str`: no panic site; the format parser accepts exactly
the literals of its `match` (sound and complete), everything else is an error; the destination parser is total
(a literal, or the text taken as a path). -/
theorem no_panic_log_parsers :
    logFormatSites = [] ∧ logDestSites = [] ∧
    (∀ (s : Bytes) (n : String), logFormatParse s = some n → n ∈ logFormatLiterals ∧ bytesOf n = s) ∧
    (∀ s : Bytes, logFormatParse s = none → ∀ l ∈ logFormatLiterals, bytesOf l ≠ s) := by
  refine ⟨by decide, by decide, fun s n h => ?_, fun s h l hl heq => ?_⟩
  · unfold logFormatParse at h
    have := List.find?_some h
    exact ⟨List.mem_of_find?_eq_some h, by simpa using this⟩
  · unfold logFormatParse at h
    rw [List.find?_eq_none] at h
    exact absurd (by simp [heq]) (h l hl)

/-! ## token amounts -/

/-- The one unchecked step of `AttoTokens::from_str` — `parsed_remainder * 10.pow(18 - len)` on `ruint` integers,
whose `*` and `pow` wrap silently — stays in range: it is only reached after `18.checked_sub(len)` succeeded, the
remainder text is `len` decimal digits, so the product is below `10^18`. -/
theorem atto_remainder_scale_in_range (fs : List Nat) (pr : Nat) (hd : Amount.isDecimal fs = true)
    (hp : Amount.uintFromStr (Amount.trimEnd0 fs) = some pr)
    (hl : ¬ Gen.Amount.powConv < (Amount.trimEnd0 fs).length) :
    10 ^ (Gen.Amount.powConv - (Amount.trimEnd0 fs).length) < Amount.U256 ∧
    pr * 10 ^ (Gen.Amount.powConv - (Amount.trimEnd0 fs).length) < 10 ^ 18 := by
  obtain ⟨ds, hds, rfl⟩ := Amount.isDecimal_exists hd
  rw [Amount.trimEnd0_toChars] at hp hl ⊢
  have hdt := hds.trim
  rw [Amount.uintFromStr_digits _ hdt] at hp
  rw [Amount.toChars_length] at hl ⊢
  have hlen : (Dec.trimTrailingZeros ds).length ≤ 18 := by
    have : Gen.Amount.powConv = 18 := rfl
    omega
  have hpr : pr < 10 ^ (Dec.trimTrailingZeros ds).length := by
    split at hp
    · cases hp; exact Amount.ofDigits_lt hdt
    · cases hp
  have h18 : (10 : Nat) ^ 18 < Amount.U256 := by unfold Amount.U256; simp
  have hpow : (10 : Nat) ^ (Gen.Amount.powConv - (Dec.trimTrailingZeros ds).length) ≤ 10 ^ 18 :=
    Nat.pow_le_pow_right (by omega) (by have : Gen.Amount.powConv = 18 := rfl; omega)
  refine ⟨by omega, ?_⟩
  have : Gen.Amount.powConv = 18 := rfl
  rw [this]
  exact Amount.scaled_lt hpr hlen

theorem attoUnits_ok (units : Nat) : ∃ o, attoUnits units = .ok o := by
  have hm : Gen.Amount.unitsMulChecked = true := by decide
  unfold attoUnits
  rw [if_pos hm]
  exact ⟨_, rfl⟩

theorem attoScale_ok (pr len : Nat) (h1 : 10 ^ (Gen.Amount.powConv - len) < Amount.U256)
    (h2 : pr * 10 ^ (Gen.Amount.powConv - len) < 10 ^ 18) : ∃ r, attoScale pr len = .ok r := by
  have h3 : pr * 10 ^ (Gen.Amount.powConv - len) < 2 ^ 256 := by
    have : (10 : Nat) ^ 18 < 2 ^ 256 := by simp
    omega
  unfold attoScale
  rw [if_pos h1]
  unfold umul
  rw [if_pos h3]
  exact ⟨_, rfl⟩

theorem attoSum_no_panic (conv rem : Nat) : (attoSum conv rem).isPanic = false := by
  have ha : Gen.Amount.finalAddChecked = true := by decide
  unfold attoSum
  rw [if_pos ha]
  split <;> rfl

theorem attoRemainder_no_panic (o : Option Nat) (f : Option Bytes) : (attoRemainder (.ok o) f).isPanic = false := by
  cases o with
  | none => rfl
  | some conv =>
    unfold attoRemainder
    simp only
    split
    · rfl
    · rename_i hdec
      -- the limit on the fraction as written (C16's repair, flag `fracLenCheckedUntrimmed`): an error either way
      split
      · rfl
      · split
        · rfl
        · cases hp : Amount.uintFromStr (Amount.trimEnd0 (f.getD [])) with
          | none => rfl
          | some pr =>
            simp only
            split
            · rfl
            · rename_i hl
              have hdec' : Amount.isDecimal (f.getD []) = true := by simpa using hdec
              obtain ⟨h1, h2⟩ := atto_remainder_scale_in_range (f.getD []) pr hdec' hp hl
              obtain ⟨r, hr⟩ := attoScale_ok pr _ h1 h2
              rw [hr]
              exact attoSum_no_panic conv r

/-- `AttoTokens::from_str`: a value or an error for every string.  The two overflow-prone steps that are checked in
the source return `ExcessiveValue`; the unchecked `parsed_remainder * 10.pow(..)` (wrapping on `ruint` integers) is
in range whenever it is reached — `attoFromStr` evaluates it with overflow detection and never reports one. -/
theorem no_panic_atto_tokens_from_str :
    attoFromStrSites = [] ∧ attoRemainderScaleGuarded = true ∧
    Gen.Amount.unitsMulChecked = true ∧ Gen.Amount.finalAddChecked = true ∧
    ∀ s : Bytes, (attoFromStr s).isPanic = false := by
  refine ⟨by decide, by decide, by decide, by decide, fun s => ?_⟩
  unfold attoFromStr
  rcases Amount.splitDot s with ⟨u, f⟩
  simp only
  split
  · rfl
  · cases hu : Amount.uintFromStr u with
    | none => rfl
    | some units =>
      obtain ⟨o, ho⟩ := attoUnits_ok units
      show (attoRemainder (attoUnits units) f).isPanic = false
      rw [ho]
      exact attoRemainder_no_panic o f

/-! ## non-vacuity: the models accept and reject, and the former defects' inputs are errors now -/

example : regFromHex (fun _ => true) [] = .err () := by decide
example : regFromHex (fun _ => true) (List.replicate 62 48) = .err () := by decide
example : (regFromHex (fun _ => true) (List.replicate 160 48)).isOk = true := by decide
example : decryptKey (fun _ _ _ _ => none) (fun _ => true) (List.replicate 14 48) [] = .err () := by decide
example : decryptKey (fun _ _ ct _ => some ct) (fun _ => false) (List.replicate 40 48) [] = .err () := by decide
example : portRangeParse [48, 45, 54, 53, 53, 51, 53] = .ok (.range 0 65535) := by decide
example : portRangeValidate (.range 0 65535) 65535 = .err () := by decide
example : portRangeValidate (.range 1 65535) 65535 = .ok () := by decide
example : incrementPort (some 65535) = .ok none := by decide
example : leastFaulty [(4294967295, 1)] = .ok (some 0) := by decide
example : loadCache 1 10 (some [[(4294967295, 1, false), (4294967295, 1, false)]]) = .ok 1 := by decide
example : fromRecord [0x91, 3, 0] = .ok 3 := by decide
example : fromRecord [0x91, 3] = .err () := by decide
example : craft [.p2p, .ip4, .udp, .quic, .p2p] false = some [1, 2, 3, 0] := by decide
example : walletListed (48 :: 120 :: List.replicate 40 97) = true := by decide
example : walletListed (List.replicate 40 70) = true := by decide
example : walletListed (48 :: 120 :: List.replicate 40 97 ++ walletExt) = true := by decide
example : walletListed [46, 68, 83, 95, 83, 116, 111, 114, 101] = false := by decide
example : walletListed (48 :: 120 :: List.replicate 39 97) = false := by decide
example : walletFiles [([110, 111, 116, 101, 115], true), (48 :: 120 :: List.replicate 40 97, true),
    (48 :: 120 :: List.replicate 40 98, false)] = [1] := by decide
example : walletSelection [48] [[1]] = .err () := by decide
example : walletSelection [49] [48 :: 120 :: 97 :: walletExt] = .ok [48, 120, 97] := by decide

/-! ## coverage round 2: program output, environment, config and user-data files, HTTP responses, log files, paths -/

/-- `get_bin_version`: whatever a program prints for `--version` — nothing, blanks only, a `v` as the last
character, non-UTF-8 — the result is a version token or an error.  The slice `first_line[v_pos + 1..]` starts
right after an ASCII character found in the line (`versionSliceSkip = 1`). -/
theorem no_panic_get_bin_version :
    binVersionSites = [] ∧ versionSliceSkip = 1 ∧ versionFindChar < 128 ∧
    ∀ (out : Bytes) (utf8 : Bool), (utf8 = true → noContAfterAscii out = true) →
      (binVersion out utf8).isPanic = false := by
  refine ⟨by decide, by decide, by decide, fun out utf8 hu => ?_⟩
  unfold binVersion
  cases utf8 with
  | false => rfl
  | true =>
    have hn := hu rfl
    simp only [Bool.not_true, Bool.false_eq_true, ↓reduceIte]
    cases hl : firstLine out with
    | none => rfl
    | some line =>
      -- the first line is a prefix of the output (possibly minus a final CR): the well-formedness carries over
      have hline : noContAfterAscii line = true := by
        unfold firstLine at hl
        split at hl
        · cases hl
        · split at hl
          · cases hl; exact hn
          · rename_i i _
            have htake : ∀ (n : Nat) (s : Bytes), noContAfterAscii s = true → noContAfterAscii (s.take n) = true := by
              intro n
              induction n with
              | zero => intro s _; simp [noContAfterAscii]
              | succ k ih =>
                intro s hs
                match s with
                | [] => simp [noContAfterAscii]
                | [a] => simp [noContAfterAscii]
                | a :: b :: rest =>
                  have h2 := ih (b :: rest) (noCont_tail hs)
                  cases k with
                  | zero => simp [noContAfterAscii]
                  | succ k' =>
                    simp only [List.take_succ_cons] at h2 ⊢
                    simp only [noContAfterAscii, Bool.and_eq_true] at hs ⊢
                    exact ⟨hs.1, h2⟩
            have hdl : ∀ (s : Bytes), noContAfterAscii s = true → noContAfterAscii s.dropLast = true := by
              intro s hs
              rw [List.dropLast_eq_take]
              exact htake _ s hs
            simp only at hl
            split at hl
            · rename_i l' hs
              cases hl
              unfold stripSuffixByte at hs
              split at hs
              · split at hs
                · cases hs; exact hdl _ (htake i out hn)
                · cases hs
              · cases hs
            · cases hl; exact htake i out hn
      simp only
      cases hf : findByte versionFindChar line with
      | none => simp only; split <;> rfl
      | some p =>
        have hs := findByte_spec versionFindChar line p hf
        have hb := boundary_after_ascii_byte line p versionFindChar hs.2 (by decide) hline
        have hsl : strSliceFrom line (p + versionSliceSkip) = .ok (line.drop (p + 1)) :=
          strSliceFrom_ok_of_boundary line (p + 1) (by omega) hb
        simp only [hsl]
        split <;> rfl

/-- `parse_environment_variables` (antctl `--env KEY=VALUE`): never panics (the two `parts[i]` accesses come
after the part-count check), and accepts exactly the texts with a `=`: the key is what precedes the first one. -/
theorem no_panic_parse_environment_variables :
    envVarSites = [] ∧ ∀ s : Bytes, (parseEnvVar s).isPanic = false := by
  refine ⟨by decide, fun s => ?_⟩
  unfold parseEnvVar
  simp only [envSplitN, envSplitChar, envPartsReject, envPartIndexes, Cmp.holds, splitN]
  cases findByte 61 s with
  | none => rfl
  | some i => rfl

theorem parse_environment_variables_exact (s : Bytes) :
    parseEnvVar s = match findByte 61 s with
      | none => .err ()
      | some i => .ok (s.take i, s.drop (i + 1)) := by
  unfold parseEnvVar
  simp only [envSplitN, envSplitChar, envPartsReject, envPartIndexes, Cmp.holds, splitN]
  cases findByte 61 s with
  | none => rfl
  | some i => rfl

/-- `get_logging_targets` (the text of `ANT_LOG`, and of the node RPC's log-level request): a list of targets
or an error for every string. -/
theorem no_panic_get_logging_targets :
    logTargetsSites = [] ∧ logLevelSites = [] ∧ ∀ s : Bytes, (loggingTargets s).isPanic = false := by
  refine ⟨by decide, by decide, fun s => ?_⟩
  have item : ∀ i, (logItem i).isPanic = false := by
    intro i
    unfold logItem
    split
    · rfl
    · simp only; split <;> rfl
  have items : ∀ l, (logItems l).isPanic = false := by
    intro l
    induction l with
    | nil => rfl
    | cons i rest ih =>
      have hi := item i
      simp only [logItems]
      generalize logItem i = r at hi
      cases r with
      | panic p => simp [Res.isPanic] at hi
      | err e => rfl
      | ok t =>
        simp only
        generalize logItems rest = r2 at ih
        cases r2 with
        | panic p => simp [Res.isPanic] at ih
        | err e => rfl
        | ok ts => rfl
  exact items _

/-! ### the launchpad's config file: key bindings and styles -/

theorem extractModifiers_ok : ∀ (fuel : Nat) (s : Bytes) (m : Nat), noContAfterAscii s = true →
    ∃ r, extractModifiersFuel fuel s m = .ok r
  | 0, s, m, _ => ⟨_, rfl⟩
  | fuel + 1, s, m, hn => by
    simp only [extractModifiersFuel]
    cases hf : keyModPrefixes.find? (fun p => isPrefix p.1 s) with
    | none => exact ⟨_, rfl⟩
    | some e =>
      obtain ⟨pre, off, bit⟩ := e
      have hmem := List.mem_of_find?_eq_some hf
      have hpre : isPrefix pre s = true := by simpa using List.find?_some hf
      -- the slice offset written in the source is the length of the matched (non-empty, ASCII) literal
      have hall : ∀ e ∈ keyModPrefixes, e.2.1 = e.1.length ∧ e.1 ≠ [] ∧ ∀ x ∈ e.1, x < 128 := by decide
      obtain ⟨hoff, hne, hascii⟩ := hall _ hmem
      simp only at hoff hne hascii
      have hb := boundary_after_ascii_prefix pre s hne hascii hpre hn
      have hsl : strSliceFrom s off = .ok (s.drop off) := by
        rw [hoff]
        exact strSliceFrom_ok_of_boundary s pre.length (isPrefix_length pre s hpre) hb
      simp only [hsl]
      exact extractModifiers_ok fuel (s.drop off) (m ||| bit) (noCont_drop off s hn)

theorem parseKeyCode_no_panic (raw : Bytes) (mods : Nat) : (parseKeyCode raw mods).isPanic = false := by
  have hg : keyCharUnwrapGuarded = true := by decide
  unfold parseKeyCode
  split
  · rfl
  · split
    · simp [hg, Res.isPanic]
    · rfl

theorem parseKeyEvent_no_panic (raw : Bytes) (hn : noContAfterAscii raw = true) : (parseKeyEvent raw).isPanic = false := by
  unfold parseKeyEvent extractModifiers
  obtain ⟨r, hr⟩ := extractModifiers_ok ((raw.map asciiLower).length + 1) (raw.map asciiLower) 0 (noCont_lower raw hn)
  simp only [hr]
  exact parseKeyCode_no_panic _ _

theorem parseKeyEvents_no_panic : ∀ (l : List Bytes), (∀ s ∈ l, noContAfterAscii s = true) →
    (parseKeyEvents l).isPanic = false
  | [], _ => rfl
  | s :: rest, h => by
    have hs := parseKeyEvent_no_panic s (h s (by simp))
    have ih := parseKeyEvents_no_panic rest (fun x hx => h x (by simp [hx]))
    simp only [parseKeyEvents]
    generalize parseKeyEvent s = r at hs
    cases r with
    | panic p => simp [Res.isPanic] at hs
    | err e => rfl
    | ok k =>
      simp only
      generalize parseKeyEvents rest = r2 at ih
      cases r2 with
      | panic p => simp [Res.isPanic] at ih
      | err e => rfl
      | ok ks => rfl

/-- `parse_key_sequence` (a key-binding string of the launchpad's config file): a list of keys or an error, for
every well-formed string.  No panic site is left in the four routines: the `[n..]` slices of `extract_modifiers`
start right after the matched ASCII prefix (offsets = literal lengths), the `unwrap` of the one-character arm is
guarded.  (`noContAfterAscii` holds of every valid UTF-8 string — the `&str` invariant.) -/
theorem no_panic_parse_key_sequence :
    keySequenceSites = [] ∧ keyEventSites = [] ∧ keyModifierSites = [] ∧ keyCodeSites = [] ∧
    keyCharUnwrapGuarded = true ∧ (∀ e ∈ keyModPrefixes, e.2.1 = e.1.length) ∧
    ∀ raw : Bytes, noContAfterAscii raw = true → (parseKeySequence raw).isPanic = false := by
  refine ⟨by decide, by decide, by decide, by decide, by decide, by decide, fun raw hw => ?_⟩
  unfold parseKeySequence
  split
  · rfl
  · apply parseKeyEvents_no_panic
    intro seq hseq
    simp only [List.mem_map] at hseq
    obtain ⟨piece, hpiece, rfl⟩ := hseq
    -- the text that is split is a piece of the input, every part is a piece of it, stripping keeps pieces
    have hraw1 : Sub (if (!containsSub [62, 60] raw) = true then
        (stripPrefixByte 62 ((stripPrefixByte 60 raw).getD raw)).getD ((stripPrefixByte 60 raw).getD raw) else raw) raw := by
      split
      · have h1 : Sub ((stripPrefixByte 60 raw).getD raw) raw := by
          cases h : stripPrefixByte 60 raw with
          | none => exact Sub.refl _
          | some r => exact stripPrefixByte_sub h
        have h2 : Sub ((stripPrefixByte 62 ((stripPrefixByte 60 raw).getD raw)).getD ((stripPrefixByte 60 raw).getD raw))
            ((stripPrefixByte 60 raw).getD raw) := by
          cases h : stripPrefixByte 62 ((stripPrefixByte 60 raw).getD raw) with
          | none => exact Sub.refl _
          | some r => exact stripPrefixByte_sub h
        exact Sub.trans h2 h1
      · exact Sub.refl _
    have hp : Sub piece raw := Sub.trans (splitOnSub_sub _ _ piece hpiece) hraw1
    have : Sub (match stripPrefixByte 60 piece with
        | some s => s
        | none => match stripSuffixByte 62 piece with
          | some s => s
          | none => piece) piece := by
      split
      · rename_i s h; exact stripPrefixByte_sub h
      · split
        · rename_i s h; exact stripSuffixByte_sub h
        · exact Sub.refl _
    exact noCont_sub (Sub.trans this hp) hw

theorem parseColor_ok (s : Bytes) : ∃ c, parseColor s = .ok c := by
  have hg : grayAddChecked = true := by decide
  have hi : rgbIndexChecked = true := by decide
  have ha : rgbArithChecked = true := by decide
  have hd : ∀ (t : Bytes) (i : Nat), ∃ d, rgbDigit t i = .ok d := by
    intro t i
    unfold rgbDigit
    split
    · exact ⟨_, rfl⟩
    · simp [hi]
  unfold parseColor
  simp only
  split
  · exact ⟨_, rfl⟩
  · split
    · exact ⟨_, rfl⟩
    · split
      · first | exact ⟨_, rfl⟩ | (simp only [hg, ↓reduceIte]; exact ⟨_, rfl⟩)
      · split
        · obtain ⟨r, hr⟩ := hd (trimEnd (trimStart s)) 3
          obtain ⟨g, hgr⟩ := hd (trimEnd (trimStart s)) 4
          obtain ⟨b, hb⟩ := hd (trimEnd (trimStart s)) 5
          simp only [hr, hgr, hb, rgbIndex, ha, ↓reduceIte]
          exact ⟨_, rfl⟩
        · exact ⟨_, rfl⟩

/-- `parse_style` (a style string of the launchpad's config file) returns a style for every string: the split
position is a byte offset of the line itself (`to_ascii_lowercase` keeps offsets) at an ASCII `o`/`O` or the end,
`232 + n`, `16 + r*36 + g*6 + b` are checked, the digits of `rgbRGB` are read with `get`. -/
theorem no_panic_parse_style :
    parseStyleSites = [] ∧ processColorSites = [] ∧ parseColorSites = [] ∧ stylesDeserializeSites = [] ∧
    styleFindAsciiLower = true ∧ grayAddChecked = true ∧ rgbIndexChecked = true ∧ rgbArithChecked = true ∧
    ∀ line : Bytes, (parseStyle line).isPanic = false := by
  refine ⟨by decide, by decide, by decide, by decide, by decide, by decide, by decide, by decide, fun line => ?_⟩
  unfold parseStyle
  have hsplit : ∃ r, strSplitAt line ((findSub sOn (line.map asciiLower)).getD line.length) = .ok r := by
    cases hf : findSub sOn (line.map asciiLower) with
    | none => simp [strSplitAt, isBoundary]
    | some i =>
      have hs := findSub_spec sOn (line.map asciiLower) i (by decide) hf
      have hlt : i < line.length := by simpa using hs.1
      -- the lower-cased line holds `o` at `i`, so the line holds `o` or `O` there: not a continuation byte
      have hb : isBoundary line i = true := by
        have h1 : (line.map asciiLower).drop i = (line.drop i).map asciiLower := by simp [List.map_drop]
        have hp := hs.2
        rw [h1] at hp
        have hd : line.drop i = line[i] :: line.drop (i + 1) := (List.drop_eq_getElem_cons hlt)
        rw [hd] at hp
        simp only [sOn, List.map_cons, isPrefix, Bool.and_eq_true, beq_iff_eq] at hp
        have ho : asciiLower line[i] = 111 := hp.1.symm
        have hlt128 : line[i] < 128 := by
          have := (asciiLower_lt line[i]).mp (by omega)
          exact this
        simp only [isBoundary, List.getElem?_eq_getElem hlt, isCont]
        have : ¬ (128 ≤ line[i]) := by omega
        simp [this]
      simp [strSplitAt, hb, Nat.le_of_lt hlt]
  obtain ⟨⟨fgs, bgs⟩, hr⟩ := hsplit
  simp only [hr]
  obtain ⟨f, hf⟩ := parseColor_ok (processColorString fgs).1
  obtain ⟨b, hb⟩ := parseColor_ok (processColorString (replaceAll sOn [] bgs)).1
  simp only [hf, hb]
  rfl

theorem keyBindingsOf_no_panic : ∀ (l : List Bytes), (∀ k ∈ l, (parseKeySequence k).isPanic = false) →
    (keyBindingsOf l).isPanic = false
  | [], _ => rfl
  | k :: rest, h => by
    have hc : keyBindingsChecked = true := by decide
    have hk := h k (by simp)
    have ih := keyBindingsOf_no_panic rest (fun x hx => h x (by simp [hx]))
    simp only [keyBindingsOf]
    generalize parseKeySequence k = r at hk
    cases r with
    | panic p => simp [Res.isPanic] at hk
    | err e => simp [hc, Res.isPanic]
    | ok v => exact ih

theorem parseStyles_no_panic : ∀ (l : List Bytes), (parseStyles l).isPanic = false
  | [] => rfl
  | s :: rest => by
    have hs := no_panic_parse_style.2.2.2.2.2.2.2.2 s
    simp only [parseStyles]
    generalize parseStyle s = r at hs
    cases r with
    | panic p => simp [Res.isPanic] at hs
    | err e => rfl
    | ok v => exact parseStyles_no_panic rest

/-- `Config::new()` of the launchpad on any config file: a configuration or an error.  An unparsable key string
is a deserialisation error (`KeyBindings::deserialize` no longer unwraps). -/
theorem no_panic_launchpad_config :
    keyBindingsSites = [] ∧ keyBindingsChecked = true ∧ appDataLoadSites = [] ∧
    ∀ parsed : Option (List Bytes × List Bytes),
      (∀ ks ss, parsed = some (ks, ss) → ∀ k ∈ ks, noContAfterAscii k = true) →
      (launchpadConfig parsed).isPanic = false := by
  refine ⟨by decide, by decide, by decide, fun parsed hw => ?_⟩
  unfold launchpadConfig
  cases parsed with
  | none => rfl
  | some p =>
    obtain ⟨ks, ss⟩ := p
    have hk := keyBindingsOf_no_panic ks (fun k hk => no_panic_parse_key_sequence.2.2.2.2.2.2 k (hw ks ss rfl k hk))
    simp only
    generalize keyBindingsOf ks = r at hk
    cases r with
    | panic p => simp [Res.isPanic] at hk
    | err e => rfl
    | ok v => exact parseStyles_no_panic ss

/-- A config file with a key string that does not parse is rejected, not loaded. -/
theorem launchpad_config_rejects_unparsable_key (ks ss : List Bytes) (k : Bytes) (hk : k ∈ ks)
    (hbad : parseKeySequence k = .err ()) (hpre : ∀ k' ∈ ks, (parseKeySequence k').isPanic = false) :
    (launchpadConfig (some (ks, ss))).isOk = false := by
  have hc : keyBindingsChecked = true := by decide
  have key : ∀ l : List Bytes, k ∈ l → (∀ k' ∈ l, (parseKeySequence k').isPanic = false) → keyBindingsOf l = .err () := by
    intro l
    induction l with
    | nil => intro h; simp at h
    | cons a rest ih =>
      intro hm hp
      simp only [keyBindingsOf]
      have ha := hp a (by simp)
      cases hr : parseKeySequence a with
      | panic p => simp [hr, Res.isPanic] at ha
      | err e => simp [hc]
      | ok v =>
        simp only
        rcases List.mem_cons.mp hm with rfl | hm'
        · simp [hbad] at hr
        · exact ih hm' (fun x hx => hp x (by simp [hx]))
  unfold launchpadConfig
  simp [key ks hk hpre, Res.isOk]

/-- `AppData::load` (the launchpad's app_data.json): no panic site; a missing file is the default, anything else
is serde_json's verdict. -/
theorem no_panic_app_data_load :
    appDataLoadSites = [] ∧ ∀ e p : Bool, (appDataLoad e p).isPanic = false := by
  refine ⟨by decide, fun e p => ?_⟩
  cases e <;> cases p <;> rfl

/-! ### `ANT_PEERS`, network contacts -/

/-- `read_bootstrap_addr_from_env` (the `ANT_PEERS` variable): no panic site; the result is a total function of the
items' parses, and every address returned was crafted from an item the multiaddr parser accepted (a peer id is
required). -/
theorem no_panic_ant_peers :
    antPeersSites = [] ∧
    ∀ (items : Option (List (Option (List Proto)))) (tags : List String), tags ∈ antPeers items →
      ∃ is ps, items = some is ∧ some ps ∈ is ∧ craftTags (some ps) false = some tags := by
  refine ⟨by decide, fun items tags h => ?_⟩
  cases items with
  | none => simp [antPeers] at h
  | some is =>
    simp only [antPeers, List.mem_filterMap] at h
    obtain ⟨p, hp, hc⟩ := h
    cases p with
    | none => simp [craftTags] at hc
    | some ps => exact ⟨is, ps, rfl, hp, hc⟩

theorem countLeastFaulty_no_panic : ∀ (peers : List (List (Nat × Nat))),
    (∀ p ∈ peers, ∀ a ∈ p, a.1 < 2 ^ counterWidth ∧ a.2 < 2 ^ counterWidth) →
    (countLeastFaulty peers).isPanic = false
  | [], _ => rfl
  | p :: rest, h => by
    have hp := no_panic_failure_rate.2.2 p (h p (by simp))
    have ih := countLeastFaulty_no_panic rest (fun q hq => h q (by simp [hq]))
    simp only [countLeastFaulty]
    generalize leastFaulty p = r at hp
    cases r with
    | panic e => simp [Res.isPanic] at hp
    | err e => rfl
    | ok v =>
      simp only
      generalize countLeastFaulty rest = r2 at ih
      cases r2 with
      | panic e => simp [Res.isPanic] at ih
      | err e => rfl
      | ok n => rfl

/-- `ContactsFetcher::try_parse_response` (the body of a network-contacts HTTP response — a cache JSON or one
multiaddr per line): a list of addresses, never a panic, whatever `u32` counters a JSON body carries. -/
theorem no_panic_contacts_parse :
    contactsParseSites = [] ∧
    ∀ (body : ContactsBody) (ig : Bool),
      (∀ vm peers, body = .json vm peers → ∀ p ∈ peers, ∀ a ∈ p, a.1 < 2 ^ counterWidth ∧ a.2 < 2 ^ counterWidth) →
      (contactsParse body ig).isPanic = false := by
  refine ⟨by decide, fun body ig h => ?_⟩
  unfold contactsParse
  cases body with
  | json vm peers =>
    simp only
    split
    · rfl
    · exact countLeastFaulty_no_panic peers (h vm peers rfl)
  | lines ls => rfl

/-! ### the custom EVM network -/

/-- `get_evm_network_from_env` with the three custom-network variables set, and `local_evm_network_from_csv`:
a malformed URL or address — in a variable or in the CSV file — is an error (both go through `try_new`). -/
theorem no_panic_evm_network_from_env :
    evmEnvSites = [] ∧ evmCsvSites = [] ∧ evmTryNewSites = [] ∧ evmEnvChecked = true ∧ evmCsvChecked = true ∧
    (∀ u t p : Bool, (evmFromEnv u t p).isPanic = false) ∧
    ∀ (utf8 : Bool) (parts : List (Bool × Bool)), (evmFromCsv utf8 parts).isPanic = false := by
  have he : evmEnvChecked = true := by decide
  have hc : evmCsvChecked = true := by decide
  have key : ∀ u t p : Bool, (customNetwork true u t p).isPanic = false := by
    intro u t p; cases u <;> cases t <;> cases p <;> rfl
  refine ⟨by decide, by decide, by decide, he, hc, fun u t p => ?_, fun utf8 parts => ?_⟩
  · unfold evmFromEnv; rw [he]; exact key u t p
  · unfold evmFromCsv
    split
    · rfl
    · split
      · rfl
      · split
        · rw [hc]; exact key _ _ _
        · rfl

/-- The full statement for the `evm-custom` sub-command arguments of antnode / antctl. -/
def NewCustomNeverPanics : Prop := ∀ u t p : Bool, (evmNewCustom u t p).isPanic = false

/-- It is FALSE of the current code: `Network::new_custom` goes through `CustomNetwork::new`, which `expect`s the
URL and both addresses (known finding K-u: `antnode … evm-custom --rpc-url x …` panics). -/
theorem new_custom_panics_on_malformed : ¬ NewCustomNeverPanics := by
  intro h
  have := h false true true
  simp [evmNewCustom, customNetwork, newCustomChecked, Res.isPanic] at this

/-- The same `CustomNetwork::new` has a second public door, `evmlib::utils::get_evm_network` (what the wasm bindings
call with the three texts typed on a web page): K-u covers both. -/
theorem get_evm_network_panics_on_malformed :
    getEvmNetworkSites = [] ∧ evmGetNetwork false true true = .panic .unwrap ∧ evmGetNetwork true false true = .panic .unwrap := by
  refine ⟨by decide, by decide, by decide⟩

/-- What does hold: well-formed arguments never panic (either door). -/
theorem no_panic_new_custom_partial : evmNewCustom true true true = .ok () ∧ evmGetNetwork true true true = .ok () := by
  simp [evmNewCustom, evmGetNetwork, customNetwork]

/-! ### nat-detection, the metrics tool -/

theorem no_panic_nat_peer_addr :
    natPeerSites = [] ∧ ∀ s m : Bool, (natPeerAddr s m).isPanic = false := by
  refine ⟨by decide, fun s m => ?_⟩
  cases s <;> cases m <;> rfl

/-- `get_metric_servers` (node log files): a "Metrics server on …" line whose URL does not parse is an error. -/
theorem no_panic_metric_servers :
    metricsSites = [] ∧ metricsUrlChecked = true ∧ ∀ ls : List LogLine, (metricServers ls).isPanic = false := by
  have hc : metricsUrlChecked = true := by decide
  refine ⟨by decide, hc, fun ls => ?_⟩
  have key : ∀ (l : List LogLine) (p u : Bool), (metricsScan l p u).isPanic = false := by
    intro l
    induction l with
    | nil => intro p u; rfl
    | cons x rest ih =>
      intro p u
      obtain ⟨n, uo⟩ := x
      simp only [metricsScan]
      split
      · rfl
      · cases uo with
        | none => exact ih _ _
        | some b =>
          cases b with
          | false => simp [hc, Res.isPanic]
          | true => exact ih _ _
  exact key ls false false

/-! ### ant-cli: register signing key, local user data, wallet export -/

theorem no_panic_register_signing_key :
    regKeySites = [] ∧ regKeyParseSites = [] ∧
    ∀ (src : Option Bytes) (utf8 keyOk : Bool), (registerSigningKey src utf8 keyOk).isPanic = false := by
  refine ⟨by decide, by decide, fun src utf8 keyOk => ?_⟩
  cases src with
  | none => rfl
  | some b => cases utf8 <;> cases keyOk <;> rfl

/-- The local user-data folders of ant-cli (registers, public and private file archives): whatever files a folder
holds — stray names, non-UTF-8 names, truncated JSON — listing it returns a map or an error. -/
theorem no_panic_local_user_data :
    userDataRegistersSites = [] ∧ userDataPublicSites = [] ∧ userDataPrivateSites = [] ∧ userDataPrivateAccessSites = [] ∧
    (∀ names : List (Bytes × Bool × Bool), (localRegisters names).isPanic = false) ∧
    (∀ names : List (Bytes × Bool), (localPublicArchives names).isPanic = false) ∧
    (∀ files : List (Option Bytes), (localPrivateArchives files).isPanic = false) := by
  refine ⟨by decide, by decide, by decide, by decide, fun names => ?_, fun names => ?_, fun files => ?_⟩
  · unfold localRegisters
    have hnone : (names.any fun n => n.2.1 && (regFromHex (fun _ => n.2.2) n.1).isPanic) = false := by
      rw [List.any_eq_false]
      intro n _
      simp [no_panic_register_from_hex.2 (fun _ => n.2.2) n.1]
    simp only [hnone, Bool.false_eq_true, ↓reduceIte]
    split <;> rfl
  · unfold localPublicArchives
    split <;> rfl
  · have one : ∀ f, (localPrivateAccess f).isPanic = false := by
      intro f
      cases f with
      | none => rfl
      | some s => exact no_panic_data_map_from_hex.2.2 s
    have all : ∀ l, (privateAccessAll l).isPanic = false := by
      intro l
      induction l with
      | nil => rfl
      | cons f rest ih =>
        have hf := one f
        simp only [privateAccessAll]
        generalize localPrivateAccess f = r at hf
        cases r with
        | panic p => simp [Res.isPanic] at hf
        | err e => rfl
        | ok a =>
          simp only
          generalize privateAccessAll rest = r2 at ih
          cases r2 with
          | panic p => simp [Res.isPanic] at ih
          | err e => rfl
          | ok as => rfl
    unfold localPrivateArchives
    have h := all files
    generalize privateAccessAll files = r at h
    cases r with
    | panic p => simp [Res.isPanic] at h
    | err e => rfl
    | ok as => rfl

/-- `wallet export`: a wallet file that does not hold a private key is reported as an error. -/
theorem no_panic_wallet_export :
    walletExportSites = [] ∧ walletExportKeyChecked = true ∧
    ∀ (plainExists encExists utf8 : Bool) (content : Bytes) (decrypt : Bytes → Res Unit Bytes) (keyOk : Bytes → Bool),
      (∀ s, (decrypt s).isPanic = false) →
      (walletExport plainExists encExists content utf8 decrypt keyOk).isPanic = false := by
  have hk : walletExportKeyChecked = true := by decide
  refine ⟨by decide, hk, fun plainExists encExists utf8 content decrypt keyOk hd => ?_⟩
  have h := no_panic_load_private_key plainExists encExists utf8 content decrypt hd
  unfold walletExport
  generalize loadPrivateKey plainExists encExists content utf8 decrypt = r at h
  cases r with
  | panic p => simp [Res.isPanic] at h
  | err e => rfl
  | ok key =>
    simp only
    split
    · rfl
    · simp [hk, Res.isPanic]

/-! ### autonomi: relative path of an uploaded file -/

theorem stripPrefixComps_append : ∀ (a b : List Comp), stripPrefixComps a (a ++ b) = some b
  | [], b => by simp [stripPrefixComps]
  | x :: xs, b => by simp [stripPrefixComps, stripPrefixComps_append xs b]

theorem stripPrefixComps_dropLast (d rest : List Comp) : stripPrefixComps d.dropLast (d ++ rest) = some (d.drop (d.length - 1) ++ rest) := by
  have h : d ++ rest = d.dropLast ++ (d.drop (d.length - 1) ++ rest) := by
    rw [← List.append_assoc]
    congr 1
    rw [List.dropLast_eq_take]
    exact (List.take_append_drop _ _).symm
  rw [h]
  exact stripPrefixComps_append _ _

/-- `get_relative_file_path_from_abs_file_and_folder_path`: for a file found by walking the folder the user named
(so the file's components start with the folder's) — including the folders `.`, `..`, `/`, `x/..` — the result is a
path, never a panic; it ends with the file's components below the folder.  The `expect` left in the source is the one
on `strip_prefix`, discharged by that precondition. -/
theorem no_panic_relative_file_path :
    relPathSites = ["expect"] ∧ relPathFileNameChecked = true ∧
    ∀ (folder rest : List Comp) (isFile : Bool),
      (relativeFilePath (folder ++ rest) folder isFile).isPanic = false ∧
      (isFile = false → ∃ pre, relativeFilePath (folder ++ rest) folder isFile = .ok (pre ++ rest)) := by
  have hc : relPathFileNameChecked = true := by decide
  refine ⟨by decide, hc, fun folder rest isFile => ?_⟩
  unfold relativeFilePath
  simp only [hc, Bool.not_true, Bool.false_and, Bool.false_eq_true, ↓reduceIte]
  cases isFile with
  | true =>
    refine ⟨?_, fun h => by cases h⟩
    simp only [↓reduceIte]
    split <;> rfl
  | false =>
    simp only [Bool.false_eq_true, ↓reduceIte]
    have hstrip : ∃ pre, stripPrefixComps ((pathParent folder).getD []) (folder ++ rest) = some (pre ++ rest) := by
      unfold pathParent
      split
      · exact ⟨folder, by simp [stripPrefixComps]⟩
      · exact ⟨folder, by simp [stripPrefixComps]⟩
      · exact ⟨_, by simpa [List.append_assoc] using stripPrefixComps_dropLast folder rest⟩
    obtain ⟨pre, hp⟩ := hstrip
    simp only [hp]
    exact ⟨rfl, fun _ => ⟨pre, rfl⟩⟩

/-! ### MessagePack decoders of user data -/

/-- `UserData` / `PublicArchive` / `PrivateArchive::from_bytes` (vault and archive content fetched from the
network) and `NodeEvent::from_bytes`: nothing but the `rmp_serde` call, whose error is returned. -/
theorem no_panic_msgpack_decoders :
    userDataFromBytesSites = [] ∧ publicArchiveFromBytesSites = [] ∧ privateArchiveFromBytesSites = [] ∧
    nodeEventFromBytesSites = [] ∧ ∀ d : Bool, (mpDecode d).isPanic = false := by
  refine ⟨by decide, by decide, by decide, by decide, fun d => ?_⟩
  cases d <;> rfl

/-! ### non-vacuity for the round-2 models; the former defects' inputs are values or errors now -/

example : binVersion [97, 110, 116, 110, 111, 100, 101, 32, 118, 48, 46, 49, 46, 50, 10] true = .ok [48, 46, 49, 46, 50] := by decide
example : binVersion [118] true = .err () := by decide
example : binVersion [] true = .err () := by decide
example : parseEnvVar [97, 61, 98, 61, 99] = .ok ([97], [98, 61, 99]) := by decide
example : parseEnvVar [97] = .err () := by decide
example : (loggingTargets [97, 108, 108, 44, 120, 61, 73, 78, 70, 79]).isOk = true := by decide
example : loggingTargets [120, 61, 111, 102, 102] = .err () := by decide
example : parseKeySequence [60, 67, 116, 114, 108, 45, 99, 62] = .ok [("c99", 2)] := by decide
example : parseKeySequence [60, 113, 113, 62] = .err () := by decide
example : parseStyle [103, 114, 97, 121, 50, 52] = .ok (none, none, 0) := by decide
example : parseStyle [114, 103, 98] = .ok (some 16, none, 0) := by decide
example : parseStyle [114, 103, 98, 55, 48, 48] = .ok (none, none, 0) := by decide
example : parseStyle [114, 103, 98, 49, 50, 51] = .ok (some 67, none, 0) := by decide
example : parseStyle [114, 101, 100, 32, 111, 110, 32, 98, 108, 117, 101] = .ok (some 1, some 4, 0) := by decide
example : launchpadConfig (some ([[60, 113, 113, 62]], [])) = .err () := by decide
example : evmFromEnv false true true = .err () := by decide
example : evmFromCsv true [(false, false), (false, false), (false, false), (false, false)] = .err () := by decide
example : metricServers [(false, some false)] = .err () := by decide
example : metricServers [(true, none), (false, some true)] = .ok 1 := by decide
example : relativeFilePath [.cur, .normal [97]] [.cur] false = .ok [.cur, .normal [97]] := by decide
example : relativeFilePath [.root, .normal [97], .normal [98]] [.root, .normal [97]] false = .ok [.normal [97], .normal [98]] := by decide

/-! ## Round 6: the consumers of accepted values

A value its parser accepts goes on into arithmetic, indexing or an `unwrap` (`SafeNet.Model.ParsersR6`).  Each model
takes the shape flag explicitly (`…With`): the `no_panic_*` theorem is about the shape `rs2lean` reads from the
source today, the `*_panicked_before` theorem is the concrete input on the shape before the repair. -/

/-- A data map (decoded from a chunk anyone can store, or from the text the user pastes) never panics the download:
`fetch_from_data_map` refuses a map with fewer than three chunks or a stored index ≥ the chunk count before it
fetches anything, and for every map it lets through none of `self_encryption`'s three unchecked index expressions
(`chunk_hashes[index]`, `[n_1]`, `[n_2]`) nor the `len - 1` / `len - 2` of `get_n_1_n_2` can fail — for every
number of levels, every fetch outcome and every verdict of the (abstract) cryptography. -/
theorem no_panic_data_map_fetch :
    fetchFromDataMapSites = [] ∧ fetchFromDataMapChunkSites = [] ∧ dataMapGuarded = true ∧
    (∀ idxs : List Nat, dataMapWellFormed idxs = true → seDecryptSites idxs = .ok ()) ∧
    ∀ levels : List (Option MapLevel), (dataMapFetch levels).isPanic = false := by
  have hg : dataMapGuarded = true := by decide
  have hmin : dataMapMinChunks = 3 := by decide
  have hwf : ∀ idxs : List Nat, dataMapWellFormed idxs = true → seDecryptSites idxs = .ok () := by
    intro idxs h
    unfold dataMapWellFormed at h
    simp only [hmin, Bool.and_eq_true, decide_eq_true_eq, List.all_eq_true] at h
    unfold seDecryptSites
    split
    · exact seDecryptSitesGo_ok h.1 idxs h.2
    · rfl
  refine ⟨by decide, by decide, hg, hwf, fun levels => ?_⟩
  unfold dataMapFetch
  rw [hg]
  induction levels with
  | nil => rfl
  | cons l rest ih =>
    cases l with
    | none => rfl
    | some l =>
      unfold dataMapFetchWith
      by_cases hw : dataMapWellFormed l.idxs = true
      · simp only [hw, Bool.not_true, Bool.and_false, Bool.false_eq_true, ↓reduceIte, hwf l.idxs hw]
        split
        · rfl
        · split
          · rfl
          · split
            · exact ih
            · rfl
      · simp [hw, Res.isPanic]

/-- The check refuses nothing the encryptor produces: `n ≥ 3` chunks numbered `0 … n-1` in any order pass. -/
theorem data_map_guard_accepts_genuine (idxs : List Nat) (h3 : 3 ≤ idxs.length) (h : ∀ i ∈ idxs, i < idxs.length) :
    dataMapWellFormed idxs = true := by
  have hmin : dataMapMinChunks = 3 := by decide
  unfold dataMapWellFormed
  simp only [hmin, Bool.and_eq_true, decide_eq_true_eq, List.all_eq_true]
  exact ⟨h3, h⟩

/-- Before the repair (`fixed:` in known_findings.jsonl): a one-chunk data map underflowed `total - 2`, an index past
the end indexed out of bounds — in `data_get` / `data_get_public` / `ant file download`, on bytes an attacker stored. -/
theorem data_map_panicked_before :
    dataMapFetchWith false [some ⟨false, [0], true, false⟩] = .panic .overflow ∧
    dataMapFetchWith false [some ⟨false, [0, 1, 5], true, false⟩] = .panic .sliceIndex ∧
    dataMapFetchWith false [some ⟨true, [1], true, true⟩] = .panic .sliceIndex := by
  refine ⟨by decide, by decide, by decide⟩

/-- `add_node` numbers the new services in `u16` from the highest number recorded in the registry file: for every
recorded number and every `--count` the result is the list of numbers or an error — none of `current + count`,
`current + 1` and the `number += 1` after the last service overflows. -/
theorem no_panic_add_node_numbering :
    addNodeSites = [] ∧ addNumberingGuarded = true ∧ nodeNumberWidth = 16 ∧
    ∀ current count : Nat, current < 2 ^ 16 → count < 2 ^ 16 → (addNumbering current count).isPanic = false := by
  have hg : addNumberingGuarded = true := by decide
  have hw : nodeNumberWidth = 16 := by decide
  refine ⟨by decide, hg, hw, fun current count _ _ => ?_⟩
  unfold addNumbering addNumberingWith
  simp only [hg, hw, Bool.true_and]
  by_cases h : current + count + 1 < 2 ^ 16
  · have h1 : current + count < 2 ^ 16 := by omega
    have h2 : current + 1 < 2 ^ 16 := by omega
    have hl := numberLoop_ok 16 (count + 1) (current + 1) (current + count) h (by omega)
    simp [checkedAdd, uadd, h, h1, h2, hl, Res.isPanic]
  · by_cases h1 : current + count < 2 ^ 16
    · simp [checkedAdd, h, h1, Res.isPanic]
    · simp [checkedAdd, h1, Res.isPanic]

/-- …and it is exact: within the range the new services get `current + 1 … current + count`; a request that would
reach past number 65534 is refused (65535 is never handed out: the loop's final `+= 1` needs one more). -/
theorem add_node_numbering_exact (current count : Nat) :
    addNumbering current count =
      if current + count + 1 < 2 ^ 16 then .ok (List.range' (current + 1) count) else .err () := by
  have hg : addNumberingGuarded = true := by decide
  have hw : nodeNumberWidth = 16 := by decide
  unfold addNumbering addNumberingWith
  simp only [hg, hw, Bool.true_and]
  by_cases h : current + count + 1 < 2 ^ 16
  · have h1 : current + count < 2 ^ 16 := by omega
    have h2 : current + 1 < 2 ^ 16 := by omega
    have hl := numberLoop_ok 16 (count + 1) (current + 1) (current + count) h (by omega)
    have hc : current + count + 1 - (current + 1) = count := by omega
    simp [checkedAdd, uadd, h, h1, h2, hl, hc]
  · by_cases h1 : current + count < 2 ^ 16
    · simp [checkedAdd, h, h1]
    · simp [checkedAdd, h, h1]

/-- Before the repair: a registry file recording service number 65535 (or 65534: the `+= 1` after the last service),
or `--count 65535` on a registry that is not empty, overflowed `u16`. -/
theorem add_node_numbering_panicked_before :
    addNumberingWith false 65535 1 = .panic .overflow ∧ addNumberingWith false 65534 1 = .panic .overflow ∧
    addNumberingWith false 1 65535 = .panic .overflow ∧ addNumberingWith false 65535 0 = .panic .overflow := by
  refine ⟨by decide, by decide, by decide, by decide⟩

/-- The metrics tool: every URL `get_metric_servers` accepts — with an explicit port, on its scheme's default port
(`http://127.0.0.1:80/metrics`: `port()` is `None`), or with no port at all — gives a Prometheus configuration. -/
theorem no_panic_prometheus_config :
    promConfigSites = [] ∧ lastNCharsSites = [] ∧ promPortChecked = true ∧
    ∀ u : UrlPort, (promConfig u).isPanic = false := by
  refine ⟨by decide, by decide, by decide, fun u => ?_⟩
  cases u <;> decide

theorem prometheus_config_panicked_before :
    promConfigWith false .dflt = .panic .unwrap ∧ promConfigWith false .absent = .panic .unwrap := by
  refine ⟨by decide, by decide⟩

/-- ant-logging: for all `--max-log-files` / `--max-archived-log-files` values (`usize`, also read back from the
registry) the total handed to the file rotater is `min (archived + plain) usize::MAX`, never an overflow. -/
theorem no_panic_log_file_limits :
    fmtLayerSites = [] ∧ logFilesAddSaturating = true ∧
    ∀ u c : Option Nat, ∃ unc total, logFileLimits u c = .ok (unc, total) ∧
      (∀ cv, c = some cv → total = min (cv + unc) (2 ^ 64 - 1)) := by
  have hs : logFilesAddSaturating = true := by decide
  refine ⟨by decide, hs, fun u c => ?_⟩
  unfold logFileLimits logFileLimitsWith
  cases c with
  | none => exact ⟨_, _, rfl, fun cv h => by cases h⟩
  | some cv =>
    simp only [hs, ↓reduceIte]
    refine ⟨_, _, rfl, fun cv' h => ?_⟩
    cases h
    unfold saturatingAdd
    split <;> omega

theorem log_file_limits_panicked_before :
    logFileLimitsWith false (some (2 ^ 64 - 1)) (some 1) = .error .overflow ∧
    logFileLimitsWith false none (some (2 ^ 64 - 1)) = .error .overflow := by
  refine ⟨rfl, rfl⟩

/-- `antctl local kill` on a registry file whose faucet entry has `"pid":null`, and `antctl upgrade` on any registry:
a value, not a panic.  `upgrade` has two index expressions: `nodes[0]` in the `debug!` (now `first()`), and
`node_registry.nodes[index]` in the loop over `get_services_for_ops`' result — modelled: the translator checks that
every index pushed there is a `position` in that same list and that the list is not resized before the loop
(`upgradeIndexFromPosition`), and for every registry, every selection (service names, peer ids, or all) each such
index is below the length. -/
theorem no_panic_registry_consumers :
    killNetworkSites = [] ∧ faucetPidChecked = true ∧ upgradeSites = [] ∧ servicesForOpsSites = [] ∧
    upgradeFirstNodeChecked = true ∧ upgradeIndexFromPosition = true ∧
    (∀ f : Option (Option Nat), (killFaucet f).isPanic = false) ∧ (∀ n : Nat, (upgradeFirstNode n).isPanic = false) ∧
    ∀ (α : Type) (nodes : List α) (skip : Bool) (preds : List (α → Bool)),
      (upgradeSelect nodes skip preds).isPanic = false := by
  refine ⟨by decide, by decide, by decide, by decide, by decide, by decide, fun f => ?_, fun n => ?_,
    fun α nodes skip preds => ?_⟩
  · match f with
    | none => rfl
    | some (some _) => rfl
    | some none => decide
  · unfold upgradeFirstNode upgradeFirstNodeWith
    have : upgradeFirstNodeChecked = true := by decide
    simp [this, Res.isPanic]
  · unfold upgradeSelect
    cases h : servicesForOps nodes skip preds with
    | none => rfl
    | some idxs => simp [servicesForOps_lt nodes skip preds idxs h, Res.isPanic]

example : upgradeSelect [10, 20, 30] false [(· == 30), (· == 10)] = .ok () := by decide
example : servicesForOps [10, 20, 30] false [(· == 30), (· == 10)] = some [2, 0] := by decide
example : upgradeSelect [10, 20] false [(· == 30)] = .err () := by decide
example : upgradeIndexSites 2 [2] = .error .sliceIndex := rfl

theorem registry_consumers_panicked_before :
    killFaucetWith false (some none) = .panic .unwrap ∧ upgradeFirstNodeWith false 0 = .panic .sliceIndex := by
  refine ⟨by decide, by decide⟩

/-- The round-trip clause for `LogOutputDest` (`Display` / `parse_from_str`), full statement. -/
def LogDestRoundTrips : Prop := ∀ d : LogDest, logDestRoundTrip d = some d

/-- It is FALSE as worded: `Stderr` prints `stderr`, which parses as the directory `stderr` (the parser has no such
keyword), and the directories `stdout` / `data-dir` print a keyword.  `Display` only feeds the start-up message
(`antnode` prints where it logs); nothing parses it back — recorded as a declared exception, not a defect. -/
theorem log_dest_display_not_parsed_back :
    ¬ LogDestRoundTrips ∧ logDestRoundTrip .stderr = some (.path [115, 116, 100, 101, 114, 114]) ∧
    logDestRoundTrip (.path [115, 116, 100, 111, 117, 116]) = some .stdout ∧
    logDestRoundTrip (.path [100, 97, 116, 97, 45, 100, 105, 114]) = none := by
  refine ⟨fun h => ?_, by decide, by decide, by decide⟩
  have := h .stderr
  revert this
  decide

/-- What does hold: `Stdout`, and every directory that is not a keyword of the parser, parse back to themselves. -/
theorem log_dest_roundtrip_partial :
    logDestDisplaySites = [] ∧ logDestRoundTrip .stdout = some .stdout ∧
    ∀ p : Bytes, (∀ k ∈ logDestKeywordBytes, k.1 ≠ p) → logDestRoundTrip (.path p) = some (.path p) := by
  refine ⟨by decide, by decide, fun p h => ?_⟩
  have : logDestKeywordBytes.find? (fun k => k.1 == p) = none := by
    rw [List.find?_eq_none]
    intro k hk
    simpa using h k hk
  simp [logDestRoundTrip, logDestDisplay, logDestParseValue, this]

example : dataMapFetch [some ⟨false, [0, 1, 2], true, true⟩] = .ok () := by decide
example : dataMapFetch [some ⟨false, [2, 0, 1], true, false⟩] = .err () := by decide
example : dataMapFetch [some ⟨false, [0], true, false⟩] = .err () := by decide
example : dataMapFetch [some ⟨true, [0, 1, 2], true, true⟩, some ⟨false, [0, 1, 2, 3], true, true⟩] = .ok () := by decide
example : addNumbering 0 3 = .ok [1, 2, 3] := by decide
example : addNumbering 65530 4 = .ok [65531, 65532, 65533, 65534] := by decide
example : addNumbering 65530 5 = .err () := by decide
example : promConfig .dflt = .ok 1 := by decide
example : promConfig .bad = .err () := by decide
example : logFileLimits (some (2 ^ 64 - 1)) (some 1) = .ok (2 ^ 64 - 1, 2 ^ 64 - 1) := rfl
example : logFileLimits none none = .ok (10, 1000) := rfl

end SafeNet.Props.C17

#print axioms SafeNet.Props.C17.no_panic_register_from_hex
#print axioms SafeNet.Props.C17.register_hex_roundtrip
#print axioms SafeNet.Props.C17.no_panic_scratchpad_from_hex
#print axioms SafeNet.Props.C17.scratchpad_hex_roundtrip
#print axioms SafeNet.Props.C17.no_panic_data_map_from_hex
#print axioms SafeNet.Props.C17.data_map_hex_roundtrip
#print axioms SafeNet.Props.C17.no_panic_str_to_addr
#print axioms SafeNet.Props.C17.addr_str_roundtrip
#print axioms SafeNet.Props.C17.str_to_addr_sound
#print axioms SafeNet.Props.C17.no_panic_decrypt_private_key
#print axioms SafeNet.Props.C17.encrypt_decrypt_roundtrip
#print axioms SafeNet.Props.C17.decrypt_short_is_error
#print axioms SafeNet.Props.C17.no_panic_record_header_from_record
#print axioms SafeNet.Props.C17.record_header_short_is_error
#print axioms SafeNet.Props.C17.record_header_window
#print axioms SafeNet.Props.C17.record_header_tag_known
#print axioms SafeNet.Props.C17.no_panic_try_deserialize_record
#print axioms SafeNet.Props.C17.try_deserialize_record_prefix
#print axioms SafeNet.Props.C17.no_panic_port_range_parse
#print axioms SafeNet.Props.C17.port_range_parse_sound
#print axioms SafeNet.Props.C17.no_panic_port_range_validate
#print axioms SafeNet.Props.C17.port_range_validate_exact
#print axioms SafeNet.Props.C17.no_panic_increment_port_option
#print axioms SafeNet.Props.C17.increment_port_option_exact
#print axioms SafeNet.Props.C17.no_panic_get_start_port
#print axioms SafeNet.Props.C17.failure_rate_total_exact
#print axioms SafeNet.Props.C17.no_panic_failure_rate
#print axioms SafeNet.Props.C17.no_panic_load_cache_data
#print axioms SafeNet.Props.C17.no_panic_is_reliable
#print axioms SafeNet.Props.C17.no_panic_craft_valid_multiaddr
#print axioms SafeNet.Props.C17.no_panic_node_registry_load
#print axioms SafeNet.Props.C17.no_panic_atto_tokens_from_str
#print axioms SafeNet.Props.C17.no_panic_wallet_files
#print axioms SafeNet.Props.C17.no_panic_wallet_selection
#print axioms SafeNet.Props.C17.no_panic_load_private_key
#print axioms SafeNet.Props.C17.no_panic_load_wallet
#print axioms SafeNet.Props.C17.load_wallet_rejects_non_keys
#print axioms SafeNet.Props.C17.no_panic_log_parsers
#print axioms SafeNet.Props.C17.registry_save_replaces_file
#print axioms SafeNet.Props.C17.registry_save_save_load_roundtrip
#print axioms SafeNet.Props.C17.no_panic_get_bin_version
#print axioms SafeNet.Props.C17.no_panic_parse_environment_variables
#print axioms SafeNet.Props.C17.parse_environment_variables_exact
#print axioms SafeNet.Props.C17.no_panic_get_logging_targets
#print axioms SafeNet.Props.C17.no_panic_parse_key_sequence
#print axioms SafeNet.Props.C17.no_panic_parse_style
#print axioms SafeNet.Props.C17.no_panic_launchpad_config
#print axioms SafeNet.Props.C17.launchpad_config_rejects_unparsable_key
#print axioms SafeNet.Props.C17.no_panic_app_data_load
#print axioms SafeNet.Props.C17.no_panic_ant_peers
#print axioms SafeNet.Props.C17.no_panic_contacts_parse
#print axioms SafeNet.Props.C17.no_panic_evm_network_from_env
#print axioms SafeNet.Props.C17.new_custom_panics_on_malformed
#print axioms SafeNet.Props.C17.get_evm_network_panics_on_malformed
#print axioms SafeNet.Props.C17.no_panic_new_custom_partial
#print axioms SafeNet.Props.C17.no_panic_nat_peer_addr
#print axioms SafeNet.Props.C17.no_panic_metric_servers
#print axioms SafeNet.Props.C17.no_panic_register_signing_key
#print axioms SafeNet.Props.C17.no_panic_local_user_data
#print axioms SafeNet.Props.C17.no_panic_wallet_export
#print axioms SafeNet.Props.C17.no_panic_relative_file_path
#print axioms SafeNet.Props.C17.no_panic_msgpack_decoders
#print axioms SafeNet.Props.C17.atto_remainder_scale_in_range
#print axioms SafeNet.Props.C17.no_panic_data_map_fetch
#print axioms SafeNet.Props.C17.data_map_guard_accepts_genuine
#print axioms SafeNet.Props.C17.data_map_panicked_before
#print axioms SafeNet.Props.C17.no_panic_add_node_numbering
#print axioms SafeNet.Props.C17.add_node_numbering_exact
#print axioms SafeNet.Props.C17.add_node_numbering_panicked_before
#print axioms SafeNet.Props.C17.no_panic_prometheus_config
#print axioms SafeNet.Props.C17.prometheus_config_panicked_before
#print axioms SafeNet.Props.C17.no_panic_log_file_limits
#print axioms SafeNet.Props.C17.log_file_limits_panicked_before
#print axioms SafeNet.Props.C17.log_dest_display_not_parsed_back
#print axioms SafeNet.Props.C17.log_dest_roundtrip_partial
#print axioms SafeNet.Props.C17.no_panic_registry_consumers
#print axioms SafeNet.Props.C17.registry_consumers_panicked_before
