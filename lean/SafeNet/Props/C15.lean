import SafeNet.Proofs.ClientRead
import SafeNet.Proofs.SelfEnc
/-!
C15 — client reads are authenticated against the requested address.
Statements are over the model of `chunk_get` / `data_get_public` / `get_vault_from_network` in
`Model/ClientRead.lean`, whose check flags are regenerated from the Rust source (`Gen/ClientRead.lean`): removing the
address comparison or the owner/signature checks changes the terms below and the proofs stop checking.
The reply is whatever the swarm driver answers to `GetNetworkRecord` (a record, a split with any result map in any
iteration order, or an error), i.e. every set of replies an adversarial set of holders can cause.
-/
namespace SafeNet.Props.C15
open SafeNet.Model.SelfEnc SafeNet.Model.ClientRead SafeNet.Proofs.ClientRead SafeNet.Proofs.SelfEnc

variable {B DM : Type}

/-- the records a reply hands to the client code -/
def received : Reply B → List (Rec B)
  | .ok r => [r]
  | .err (.split m) => m
  | .err _ => []

/-- owned by the requested key and validly signed -/
def Authentic (key : Nat) (p : Pad) : Prop := p.owner = key ∧ p.valid = true

/-! ### chunk_authentic -/

/-- An `Ok` chunk hashes to the requested address (and carries it as its address), and its content is one of the
received records' bodies. -/
theorem chunk_authentic (S : SE B DM) (addr : Nat) (reply : Reply B) (c : Chunk B)
    (h : chunkGet S addr reply = .ok c) :
    S.hash c.value = addr ∧ c.address = addr := by
  unfold chunkGet at h
  split at h
  · cases h
  · split at h
    · cases h
    · split at h
      · cases h
      · split at h
        · rename_i value _
          simp only [Gen.ClientRead.chunkGetComparesAddress, Bool.true_and] at h
          split at h
          · cases h
          · rename_i hne
            simp only [Except.ok.injEq] at h
            subst h
            simp only [bne_iff_ne, ne_eq, Decidable.not_not] at hne
            exact ⟨hne, hne⟩
        · cases h

/-- …and it was received under a `Chunk` header (wrong kinds are refused). -/
theorem chunk_kind_checked (S : SE B DM) (addr : Nat) (reply : Reply B) (c : Chunk B)
    (h : chunkGet S addr reply = .ok c) :
    ∃ r, netGet reply = .ok r ∧ headerOf r = some .chunk ∧ r.body = .chunk c.value := by
  unfold chunkGet at h
  split at h
  · cases h
  · rename_i record hnet
    split at h
    · cases h
    · rename_i kind hk
      split at h
      · cases h
      · rename_i hkind
        split at h
        · rename_i value hb
          dsimp only at h
          split at h
          · cases h
          · simp only [Except.ok.injEq] at h
            subst h
            refine ⟨record, hnet, ?_, hb⟩
            simp only [Gen.ClientRead.chunkGetChecksKind, Bool.true_and, bne_iff_ne, ne_eq, Decidable.not_not] at hkind
            rw [hk, hkind]
        · cases h

/-! ### data_authentic -/

/-- A successful public data read used a data-map chunk that hashes to the requested address, and every chunk any
round of the fetch loop used hashes to the address the (authentic) data map names for it. -/
theorem data_authentic (S : SE B DM) (replies : Nat → Reply B) (fuel : Nat) (codes : List (List Nat)) (addr : Nat)
    (d : B) (h : dataGetPublic S replies fuel codes addr = .ok d) :
    ∃ m : Chunk B, chunkGet S addr (replies addr) = .ok m ∧ S.hash m.value = addr ∧
      fetchFromDataMapChunk S (fun a => chunkGet S a (replies a)) fuel codes m.value = .ok d ∧
      ∀ a c, chunkGet S a (replies a) = .ok c → S.hash c.value = a := by
  unfold dataGetPublic at h
  split at h
  · cases h
  · rename_i m hm
    exact ⟨m, hm, (chunk_authentic S addr _ m hm).1, h, fun a c hc => (chunk_authentic S a _ c hc).1⟩

/-- Holders cannot substitute content: with a collision-free hash, any two successful public reads of the same
address return the same data — whatever the two sets of holders replied, in whatever orders the fetches completed,
through however many data-map levels. (So a read either fails or returns what an honest network returns.) -/
theorem data_unforgeable (S : SE B DM) (L : Laws S) (replies replies' : Nat → Reply B) (fuel fuel' : Nat)
    (codes codes' : List (List Nat)) (addr : Nat) (d d' : B)
    (h : dataGetPublic S replies fuel codes addr = .ok d) (h' : dataGetPublic S replies' fuel' codes' addr = .ok d') :
    d = d' := by
  obtain ⟨m, hm, hmh, hf, _⟩ := data_authentic S replies fuel codes addr d h
  obtain ⟨m', hm', hmh', hf', _⟩ := data_authentic S replies' fuel' codes' addr d' h'
  have hmm : m.value = m'.value := L.hash_inj _ _ (hmh.trans hmh'.symm)
  rw [← hmm] at hf'
  refine fetch_chunk_agree S L _ _ ?_ fuel fuel' codes codes' m.value d d' hf hf'
  intro a c c' hc hc'
  exact L.hash_inj _ _ (((chunk_authentic S a _ c hc).1).trans ((chunk_authentic S a _ c' hc').1).symm)

/-! ### vault_authentic -/

theorem okAccepts_iff (key : Nat) (p : Pad) : okAccepts key p = true ↔ Authentic key p := by
  simp [okAccepts, Authentic, Gen.ClientRead.vaultOkChecksOwner, Gen.ClientRead.vaultOkChecksValid]

theorem splitAccepts_iff (key : Nat) (p : Pad) : splitAccepts key p = true ↔ Authentic key p := by
  simp [splitAccepts, Authentic, Gen.ClientRead.vaultSplitChecksOwner, Gen.ClientRead.vaultSplitChecksValid]

/-- A returned pad is owned by the requested key, validly signed, is one of the received versions, and no validly
signed version of the owner that was received as a scratchpad record has a higher counter. -/
theorem vault_authentic (key : Nat) (reply : Reply B) (p : Pad) (h : getVault key reply = .ok p) :
    Authentic key p ∧ (∃ r ∈ received reply, padOf r = some p) ∧
      ∀ r ∈ received reply, headerOf r = some .scratchpad → ∀ q, padOf r = some q → Authentic key q → q.ctr ≤ p.ctr := by
  unfold getVault at h
  split at h
  · -- the network layer handed up one record
    rename_i record hnet
    split at h
    · cases h
    · rename_i p' hp'
      split at h
      · rename_i hacc
        simp only [Except.ok.injEq] at h
        subst h
        have hauth := (okAccepts_iff key p').1 hacc
        -- where did the record come from?
        cases reply with
        | ok r =>
          simp only [netGet, Except.ok.injEq] at hnet
          subst hnet
          refine ⟨hauth, ⟨r, by simp [received], hp'⟩, ?_⟩
          intro x hx _ q hq _
          simp only [received, List.mem_singleton] at hx
          subst hx
          rw [hp'] at hq; cases hq; exact Nat.le_refl _
        | err e =>
          cases e with
          | split m =>
            simp only [netGet] at hnet
            split at hnet
            · rename_i r' hsplit
              simp only [Except.ok.injEq] at hnet
              subst hnet
              obtain ⟨p0, hr, _, hfrom, hbound⟩ := handleSplit_spec m r' hsplit
              subst hr
              simp only [padOf, Option.some.injEq] at hp'
              subst hp'
              refine ⟨hauth, ?_, ?_⟩
              · simpa [received] using hfrom
              · intro x hx hxh q hq hqa
                exact hbound x (by simpa [received] using hx) hxh q hq hqa.2
            · cases hnet
          | notFound => simp [netGet] at hnet
          | timeout => simp [netGet] at hnet
          | kindMismatch => simp [netGet] at hnet
          | notEnoughCopies => simp [netGet] at hnet
          | doesNotMatch => simp [netGet] at hnet
      · cases h
  · -- the split error reached the client: it selects among the received versions itself
    rename_i m hnet
    have hrep : reply = .err (.split m) := by
      cases reply with
      | ok r => simp [netGet] at hnet
      | err e =>
        cases e with
        | split m' =>
          simp only [netGet] at hnet
          split at hnet
          · cases hnet
          · simp only [Except.error.injEq, NetErr.split.injEq] at hnet
            rw [hnet]
        | notFound => simp [netGet] at hnet
        | timeout => simp [netGet] at hnet
        | kindMismatch => simp [netGet] at hnet
        | notEnoughCopies => simp [netGet] at hnet
        | doesNotMatch => simp [netGet] at hnet
    subst hrep
    split at h
    · split at h
      · rename_i p' rest hsel
        simp only [latestPads, Gen.ClientRead.vaultSplitFiltersBeforeMax, ↓reduceIte] at hsel
        simp only [Except.ok.injEq] at h
        subst h
        have hmem : p' ∈ ((m.filterMap padOf).filter (splitAccepts key)).filter
            (fun p => p.ctr == maxCtr ((m.filterMap padOf).filter (splitAccepts key))) := by
          rw [hsel]; exact List.mem_cons_self
        rw [List.mem_filter] at hmem
        obtain ⟨hin, hmax⟩ := hmem
        rw [List.mem_filter, List.mem_filterMap] at hin
        obtain ⟨⟨x, hx, hxp⟩, hacc⟩ := hin
        refine ⟨(splitAccepts_iff key p').1 hacc, ⟨x, by simpa [received] using hx, hxp⟩, ?_⟩
        intro y hy _ q hq hqa
        have hqin : q ∈ (m.filterMap padOf).filter (splitAccepts key) := by
          rw [List.mem_filter, List.mem_filterMap]
          exact ⟨⟨y, by simpa [received] using hy, hq⟩, (splitAccepts_iff key q).2 hqa⟩
        have := maxCtr_ge _ q hqin
        simp only [beq_iff_eq] at hmax
        omega
      · cases h
    · cases h
  · cases h

/-! ### vault_returns_authentic_max — forged and foreign versions are discarded, they do not decide the outcome -/

/-- When the network layer hands the vault read one record that is a version owned by the requested key with a valid
signature, that version is returned. -/
theorem vault_returns_authentic_single (key : Nat) (reply : Reply B) (r : Rec B) (p : Pad)
    (hnet : netGet reply = .ok r) (hp : padOf r = some p) (hauth : Authentic key p) :
    getVault key reply = .ok p := by
  unfold getVault
  rw [hnet]
  simp only [hp, (okAccepts_iff key p).2 hauth, ↓reduceIte]

/-- When the split reaches the vault read and the map holds at least one version owned by the requested key with a
valid signature — next to whatever unsigned, wrongly signed, foreign or undecodable entries, with whatever counters —
the read succeeds with such a version of the highest counter among them. -/
theorem vault_returns_authentic_max (key : Nat) (reply : Reply B) (m : List (Rec B))
    (hnet : netGet reply = .error (.split m))
    (hex : ∃ r ∈ m, ∃ q, padOf r = some q ∧ Authentic key q) :
    ∃ p, getVault key reply = .ok p ∧ Authentic key p ∧ (∃ r ∈ m, padOf r = some p) ∧
      ∀ r ∈ m, ∀ q, padOf r = some q → Authentic key q → q.ctr ≤ p.ctr := by
  obtain ⟨r0, hr0, q0, hq0, hq0a⟩ := hex
  -- the authentic versions, and one of the highest counter among them
  have hq0in : q0 ∈ (m.filterMap padOf).filter (splitAccepts key) := by
    rw [List.mem_filter, List.mem_filterMap]
    exact ⟨⟨r0, hr0, hq0⟩, (splitAccepts_iff key q0).2 hq0a⟩
  obtain ⟨qm, hqm, hqmc⟩ := maxCtr_attained _ q0 hq0in
  have hne : latestPads key m ≠ [] := by
    simp only [latestPads, Gen.ClientRead.vaultSplitFiltersBeforeMax, ↓reduceIte]
    intro hnil
    have : qm ∈ ((m.filterMap padOf).filter (splitAccepts key)).filter
        (fun p => p.ctr == maxCtr ((m.filterMap padOf).filter (splitAccepts key))) := by
      rw [List.mem_filter]; exact ⟨hqm, by simp [hqmc]⟩
    rw [hnil] at this; cases this
  cases hl : latestPads key m with
  | nil => exact absurd hl hne
  | cons p rest =>
    have hres : getVault key reply = .ok p := by
      unfold getVault
      rw [hnet]
      simp only [Gen.ClientRead.vaultSplitDropsUndeserialisable, Bool.true_or, ↓reduceIte, hl]
    obtain ⟨ha, _, _⟩ := vault_authentic key reply p hres
    have hmem : p ∈ latestPads key m := by rw [hl]; exact List.mem_cons_self
    simp only [latestPads, Gen.ClientRead.vaultSplitFiltersBeforeMax, ↓reduceIte] at hmem
    rw [List.mem_filter] at hmem
    obtain ⟨hin, hmax⟩ := hmem
    rw [List.mem_filter, List.mem_filterMap] at hin
    obtain ⟨⟨x, hx, hxp⟩, _⟩ := hin
    refine ⟨p, hres, ha, ⟨x, hx, hxp⟩, ?_⟩
    intro y hy q hq hqa
    have hqin : q ∈ (m.filterMap padOf).filter (splitAccepts key) := by
      rw [List.mem_filter, List.mem_filterMap]
      exact ⟨⟨y, hy, hq⟩, (splitAccepts_iff key q).2 hqa⟩
    have := maxCtr_ge _ q hqin
    simp only [beq_iff_eq] at hmax
    omega

/-! ### no_authentic_no_data -/

/-- No received record carries content that hashes to the requested address ⇒ the chunk read fails. -/
theorem no_authentic_no_chunk (S : SE B DM) (addr : Nat) (reply : Reply B)
    (hno : ∀ r ∈ received reply, ∀ v, r.body = .chunk v → S.hash v ≠ addr) :
    ∃ e, chunkGet S addr reply = .error e := by
  cases hres : chunkGet S addr reply with
  | error e => exact ⟨e, rfl⟩
  | ok c =>
    exfalso
    obtain ⟨r, hnet, _, hbody⟩ := chunk_kind_checked S addr reply c hres
    have hhash := (chunk_authentic S addr reply c hres).1
    cases reply with
    | ok r0 =>
      simp only [netGet, Except.ok.injEq] at hnet
      subst hnet
      exact hno r0 (by simp [received]) c.value hbody hhash
    | err e =>
      cases e with
      | split m =>
        simp only [netGet] at hnet
        split at hnet
        · rename_i r' hsplit
          simp only [Except.ok.injEq] at hnet
          subst hnet
          obtain ⟨p0, hr, _⟩ := handleSplit_spec m r' hsplit
          subst hr
          cases hbody
        · cases hnet
      | notFound => simp [netGet] at hnet
      | timeout => simp [netGet] at hnet
      | kindMismatch => simp [netGet] at hnet
      | notEnoughCopies => simp [netGet] at hnet
      | doesNotMatch => simp [netGet] at hnet

/-- No received version is owned by the requested key and validly signed ⇒ the vault read fails. -/
theorem no_authentic_no_vault (key : Nat) (reply : Reply B)
    (hno : ∀ r ∈ received reply, ∀ q, padOf r = some q → ¬ Authentic key q) :
    ∃ e, getVault key reply = .error e := by
  cases hres : getVault key reply with
  | error e => exact ⟨e, rfl⟩
  | ok p =>
    exfalso
    obtain ⟨hauth, ⟨r, hr, hp⟩, _⟩ := vault_authentic key reply p hres
    exact hno r hr p hp hauth

/-- If the data-map chunk cannot be authenticated the public data read fails (no unauthenticated data). -/
theorem no_authentic_no_data (S : SE B DM) (replies : Nat → Reply B) (fuel : Nat) (codes : List (List Nat)) (addr : Nat)
    (hno : ∀ r ∈ received (replies addr), ∀ v, r.body = .chunk v → S.hash v ≠ addr) :
    ∃ e, dataGetPublic S replies fuel codes addr = .error e := by
  obtain ⟨e, he⟩ := no_authentic_no_chunk S addr (replies addr) hno
  exact ⟨e, by simp [dataGetPublic, he]⟩

/-! ### Non-vacuity: authentic replies are accepted, the adversarial ones of F-k / F-l are refused -/

section Examples
open SafeNet.Model.ClientRead

/-- toy instance: byte strings are numbers, the hash is the identity -/
def toy : SE Nat Nat where
  len _ := 0
  hash b := b
  enc _ := none
  infos _ := []
  dec _ _ := none
  wrap _ d := d
  unwrap _ := none
  bin b := b
  unbin _ := none

example : (chunkGet toy 7 (.ok ⟨some .chunk, .chunk 7⟩)).toOption.map (·.value) = some 7 := by decide
example : (chunkGet toy 7 (.ok ⟨some .chunk, .chunk 8⟩)).toOption.map (·.value) = none := by decide
example : (chunkGet toy 7 (.ok ⟨some .scratchpad, .chunk 7⟩)).toOption.map (·.value) = none := by decide

def good : Pad := { owner := 0, ctr := 3, valid := true, ver := 0 }
def newer : Pad := { owner := 0, ctr := 4, valid := true, ver := 1 }
def foreign : Pad := { owner := 1, ctr := 9, valid := true, ver := 1 }
def unsigned : Pad := { owner := 0, ctr := 9, valid := false, ver := 1 }

example : getVault (B := Nat) 0 (.ok ⟨some .scratchpad, .pad good⟩) = .ok good := rfl
example : getVault (B := Nat) 0 (.ok ⟨some .scratchpad, .pad foreign⟩) = .error .invalid := rfl
example : getVault (B := Nat) 0 (.ok ⟨some .scratchpad, .pad unsigned⟩) = .error .invalid := rfl
example : getVault (B := Nat) 0 (.err (.split [⟨some .scratchpad, .pad good⟩, ⟨some .scratchpad, .pad newer⟩])) = .ok newer := rfl
example : getVault (B := Nat) 0 (.err (.split [⟨some .scratchpad, .pad good⟩, ⟨some .scratchpad, .pad unsigned⟩])) = .ok good := rfl
example : getVault (B := Nat) 0 (.err (.split [⟨some .chunk, .junk⟩, ⟨some .scratchpad, .pad good⟩, ⟨some .scratchpad, .pad foreign⟩]))
    = .ok good := rfl
/-- a forged higher-counter version next to the authentic one does not turn the read into `Missing` -/
example : getVault (B := Nat) 0 (.err (.split [⟨some .chunk, .junk⟩, ⟨some .scratchpad, .pad good⟩, ⟨some .scratchpad, .pad unsigned⟩]))
    = .ok good := rfl
example : getVault (B := Nat) 0 (.err (.split [⟨some .scratchpad, .pad unsigned⟩, ⟨some .scratchpad, .pad foreign⟩]))
    = .error .invalid := rfl

end Examples

end SafeNet.Props.C15

#print axioms SafeNet.Props.C15.chunk_authentic
#print axioms SafeNet.Props.C15.chunk_kind_checked
#print axioms SafeNet.Props.C15.data_authentic
#print axioms SafeNet.Props.C15.data_unforgeable
#print axioms SafeNet.Props.C15.vault_authentic
#print axioms SafeNet.Props.C15.vault_returns_authentic_single
#print axioms SafeNet.Props.C15.vault_returns_authentic_max
#print axioms SafeNet.Props.C15.no_authentic_no_chunk
#print axioms SafeNet.Props.C15.no_authentic_no_vault
#print axioms SafeNet.Props.C15.no_authentic_no_data
