import SafeNet.Proofs.ClientRead
import SafeNet.Proofs.SelfEnc
/-!
C15 — client reads are authenticated against the requested address.
Statements are over the model of `chunk_get` / `data_get_public` / `get_vault_from_network` in
`Model/ClientRead.lean`, whose check flags are regenerated from the Rust source (`Gen/ClientRead.lean`): removing the
address comparison or the owner/signature checks changes the terms below and the proofs stop checking.
The reply is whatever the swarm driver answers to `GetNetworkRecord` (a record, a split with any result map in any
iteration order, or an error), i.e. every set of replies an adversarial set of holders can cause.
`padKey owner` is the record key the scratchpad of `owner` lives under (the hash of its address); the network layer's
split handling compares it with the key being read (`Gen.ClientRead.netSplitChecksPadKey`, regenerated from
`ant-networking/src/lib.rs`).
-/
namespace SafeNet.Props.C15
open SafeNet.Model.SelfEnc SafeNet.Model.ClientRead SafeNet.Proofs.ClientRead SafeNet.Proofs.SelfEnc

variable {B DM : Type}

/-- the records a reply hands to the client code -/
def received : Reply B → List (Rec B)
  | .ok r => [r]
  | .err (.split m) => m
  | .err _ => []

/-- owned by the requested key and validly signed -/
def Authentic (key : Nat) (p : Pad) : Prop := p.owner = key ∧ p.valid = true

/-! ### chunk_authentic -/

/-- An `Ok` chunk hashes to the requested address (and carries it as its address), and its content is one of the
received records' bodies. -/
theorem chunk_authentic (S : SE B DM) (padKey : Nat → Nat) (addr : Nat) (reply : Reply B) (c : Chunk B)
    (h : chunkGet S padKey addr reply = .ok c) :
    S.hash c.value = addr ∧ c.address = addr := by
  unfold chunkGet at h
  split at h
  · cases h
  · split at h
    · cases h
    · split at h
      · cases h
      · split at h
        · rename_i value _
          simp only [Gen.ClientRead.chunkGetComparesAddress, Bool.true_and] at h
          split at h
          · cases h
          · rename_i hne
            simp only [Except.ok.injEq] at h
            subst h
            simp only [bne_iff_ne, ne_eq, Decidable.not_not] at hne
            exact ⟨hne, hne⟩
        · cases h

/-- …and it was received under a `Chunk` header (wrong kinds are refused). -/
theorem chunk_kind_checked (S : SE B DM) (padKey : Nat → Nat) (addr : Nat) (reply : Reply B) (c : Chunk B)
    (h : chunkGet S padKey addr reply = .ok c) :
    ∃ r, netGet Gen.ClientRead.netSplitChecksPadKey padKey addr reply = .ok r ∧ headerOf r = some .chunk ∧ r.body = .chunk c.value := by
  unfold chunkGet at h
  split at h
  · cases h
  · rename_i record hnet
    split at h
    · cases h
    · rename_i kind hk
      split at h
      · cases h
      · rename_i hkind
        split at h
        · rename_i value hb
          dsimp only at h
          split at h
          · cases h
          · simp only [Except.ok.injEq] at h
            subst h
            refine ⟨record, hnet, ?_, hb⟩
            simp only [Gen.ClientRead.chunkGetChecksKind, Bool.true_and, bne_iff_ne, ne_eq, Decidable.not_not] at hkind
            rw [hk, hkind]
        · cases h

/-! ### data_authentic -/

/-- A successful public data read used a data-map chunk that hashes to the requested address, and every chunk any
round of the fetch loop used hashes to the address the (authentic) data map names for it. -/
theorem data_authentic (S : SE B DM) (padKey : Nat → Nat) (replies : Nat → Reply B) (fuel : Nat) (codes : List (List Nat))
    (addr : Nat) (d : B) (h : dataGetPublic S padKey replies fuel codes addr = .ok d) :
    ∃ m : Chunk B, chunkGet S padKey addr (replies addr) = .ok m ∧ S.hash m.value = addr ∧
      fetchFromDataMapChunk S (fun a => chunkGet S padKey a (replies a)) fuel codes m.value = .ok d ∧
      ∀ a c, chunkGet S padKey a (replies a) = .ok c → S.hash c.value = a := by
  unfold dataGetPublic at h
  split at h
  · cases h
  · rename_i m hm
    exact ⟨m, hm, (chunk_authentic S padKey addr _ m hm).1, h, fun a c hc => (chunk_authentic S padKey a _ c hc).1⟩

/-- a successful chunk read returns the body of one of the received records -/
theorem chunk_from_received (S : SE B DM) (padKey : Nat → Nat) (addr : Nat) (reply : Reply B) (c : Chunk B)
    (h : chunkGet S padKey addr reply = .ok c) : ∃ r ∈ received reply, r.body = .chunk c.value := by
  obtain ⟨r, hnet, _, hbody⟩ := chunk_kind_checked S padKey addr reply c h
  cases reply with
  | ok r0 =>
    simp only [netGet, netGetWith, Except.ok.injEq] at hnet
    subst hnet
    exact ⟨r0, by simp [received], hbody⟩
  | err e =>
    cases e with
    | split m =>
      simp only [netGet, netGetWith] at hnet
      split at hnet
      · rename_i r' hsplit
        simp only [Except.ok.injEq] at hnet
        subst hnet
        rcases handleSplit_spec _ _ padKey addr m r' hsplit with ⟨⟨_, hnc, _⟩, _⟩ | ⟨p0, hr, _⟩
        · exact absurd hbody (hnc _)
        · subst hr
          cases hbody
      · cases hnet
    | notFound => simp [netGet, netGetWith] at hnet
    | timeout => simp [netGet, netGetWith] at hnet
    | kindMismatch => simp [netGet, netGetWith] at hnet
    | notEnoughCopies => simp [netGet, netGetWith] at hnet
    | doesNotMatch => simp [netGet, netGetWith] at hnet

/-- chunk content some holder of this reply set offers (under whatever key) -/
def Offered (replies : Nat → Reply B) (v : B) : Prop := ∃ a, ∃ r ∈ received (replies a), r.body = .chunk v

/-- Holders cannot substitute content: any two successful public reads of the same address return the same data —
whatever the two sets of holders replied, in whatever orders the fetches completed, through however many data-map
levels — unless the holders can exhibit a hash collision: all that is asked of the hash is that no two different chunk
contents *among those the two reply sets offer* have the same hash (a hypothesis on the byte strings at hand, which a
real hash can satisfy; no global injectivity). So a read either fails or returns what an honest network returns. -/
theorem data_unforgeable (S : SE B DM) (L : Laws S) (padKey : Nat → Nat) (replies replies' : Nat → Reply B)
    (fuel fuel' : Nat) (codes codes' : List (List Nat)) (addr : Nat) (d d' : B)
    (hcf : ∀ v v', Offered replies v → Offered replies' v' → S.hash v = S.hash v' → v = v')
    (h : dataGetPublic S padKey replies fuel codes addr = .ok d)
    (h' : dataGetPublic S padKey replies' fuel' codes' addr = .ok d') :
    d = d' := by
  obtain ⟨m, hm, hmh, hf, _⟩ := data_authentic S padKey replies fuel codes addr d h
  obtain ⟨m', hm', hmh', hf', _⟩ := data_authentic S padKey replies' fuel' codes' addr d' h'
  have hmm : m.value = m'.value :=
    hcf _ _ ⟨addr, chunk_from_received S padKey addr _ m hm⟩ ⟨addr, chunk_from_received S padKey addr _ m' hm'⟩
      (hmh.trans hmh'.symm)
  rw [← hmm] at hf'
  refine fetch_chunk_agree S L _ _ ?_ fuel fuel' codes codes' m.value d d' hf hf'
  intro a c c' hc hc'
  exact hcf _ _ ⟨a, chunk_from_received S padKey a _ c hc⟩ ⟨a, chunk_from_received S padKey a _ c' hc'⟩
    (((chunk_authentic S padKey a _ c hc).1).trans ((chunk_authentic S padKey a _ c' hc').1).symm)

/-! ### vault_authentic -/

theorem okAccepts_iff (key : Nat) (p : Pad) : okAccepts key p = true ↔ Authentic key p := by
  simp [okAccepts, Authentic, Gen.ClientRead.vaultOkChecksOwner, Gen.ClientRead.vaultOkChecksValid]

theorem splitAccepts_iff (key : Nat) (p : Pad) : splitAccepts key p = true ↔ Authentic key p := by
  simp [splitAccepts, Authentic, Gen.ClientRead.vaultSplitChecksOwner, Gen.ClientRead.vaultSplitChecksValid]

/-- `q` was received as a version of a scratchpad: in a record under a `Scratchpad` header whose body decodes as a
scratchpad. (A scratchpad body behind a header of another kind is a malformed record, not a version: the network
layer's split handling skips it once the kind is fixed, and no node stores it under a scratchpad key.) -/
def ReceivedVersion (reply : Reply B) (q : Pad) : Prop :=
  ∃ r ∈ received reply, headerOf r = some .scratchpad ∧ padOf r = some q

/-- The split arm of the vault read on its own: the latest of the authentic versions in the map. -/
theorem latestPads_spec (key : Nat) (m : List (Rec B)) (p : Pad) (rest : List Pad) (hsel : latestPads key m = p :: rest) :
    Authentic key p ∧ (∃ r ∈ m, padOf r = some p) ∧
      ∀ r ∈ m, ∀ q, padOf r = some q → Authentic key q → q.ctr ≤ p.ctr := by
  simp only [latestPads, Gen.ClientRead.vaultSplitFiltersBeforeMax, ↓reduceIte] at hsel
  have hmem : p ∈ ((m.filterMap padOf).filter (splitAccepts key)).filter
      (fun p => p.ctr == maxCtr ((m.filterMap padOf).filter (splitAccepts key))) := by
    rw [hsel]; exact List.mem_cons_self
  rw [List.mem_filter] at hmem
  obtain ⟨hin, hmax⟩ := hmem
  rw [List.mem_filter, List.mem_filterMap] at hin
  obtain ⟨⟨x, hx, hxp⟩, hacc⟩ := hin
  refine ⟨(splitAccepts_iff key p).1 hacc, ⟨x, hx, hxp⟩, ?_⟩
  intro y hy q hq hqa
  have hqin : q ∈ (m.filterMap padOf).filter (splitAccepts key) := by
    rw [List.mem_filter, List.mem_filterMap]
    exact ⟨⟨y, hy, hq⟩, (splitAccepts_iff key q).2 hqa⟩
  have := maxCtr_ge _ q hqin
  simp only [beq_iff_eq] at hmax
  omega

/-- …and it is non-empty as soon as the map holds one authentic version. -/
theorem latestPads_ne_nil (key : Nat) (m : List (Rec B)) (hex : ∃ r ∈ m, ∃ q, padOf r = some q ∧ Authentic key q) :
    latestPads key m ≠ [] := by
  obtain ⟨r0, hr0, q0, hq0, hq0a⟩ := hex
  have hq0in : q0 ∈ (m.filterMap padOf).filter (splitAccepts key) := by
    rw [List.mem_filter, List.mem_filterMap]
    exact ⟨⟨r0, hr0, hq0⟩, (splitAccepts_iff key q0).2 hq0a⟩
  obtain ⟨qm, hqm, hqmc⟩ := maxCtr_attained _ q0 hq0in
  simp only [latestPads, Gen.ClientRead.vaultSplitFiltersBeforeMax, ↓reduceIte]
  intro hnil
  have : qm ∈ ((m.filterMap padOf).filter (splitAccepts key)).filter
      (fun p => p.ctr == maxCtr ((m.filterMap padOf).filter (splitAccepts key))) := by
    rw [List.mem_filter]; exact ⟨hqm, by simp [hqmc]⟩
  rw [hnil] at this; cases this

/-- `vault_authentic` for the network layer with and without the address checks of its split handling (scratchpad arm:
`chk`, register arm: `regChk`). -/
theorem vault_authentic_any (chk regChk : Bool) (padKey : Nat → Nat) (key : Nat) (reply : Reply B) (p : Pad)
    (h : getVaultWith2 chk regChk padKey key reply = .ok p) :
    Authentic key p ∧ (∃ r ∈ received reply, padOf r = some p) ∧
      ∀ q, ReceivedVersion reply q → Authentic key q → q.ctr ≤ p.ctr := by
  unfold getVaultWith2 at h
  split at h
  · -- the network layer handed up one record
    rename_i record hnet
    split at h
    · cases h
    · rename_i p' hp'
      split at h
      · rename_i hacc
        simp only [Except.ok.injEq] at h
        subst h
        have hauth := (okAccepts_iff key p').1 hacc
        -- where did the record come from?
        cases reply with
        | ok r =>
          simp only [netGetWith, Except.ok.injEq] at hnet
          subst hnet
          refine ⟨hauth, ⟨r, by simp [received], hp'⟩, ?_⟩
          rintro q ⟨x, hx, _, hq⟩ _
          simp only [received, List.mem_singleton] at hx
          subst hx
          rw [hp'] at hq; cases hq; exact Nat.le_refl _
        | err e =>
          cases e with
          | split m =>
            simp only [netGetWith] at hnet
            split at hnet
            · rename_i r' hsplit
              simp only [Except.ok.injEq] at hnet
              subst hnet
              rcases handleSplit_spec chk regChk padKey (padKey key) m r' hsplit with
                ⟨⟨hnp, _⟩, _⟩ | ⟨p0, hr, _, _, ⟨x, hxm, _, hxp⟩, hbound⟩
              · -- a transaction / register answer is no scratchpad
                rw [hnp] at hp'; cases hp'
              · subst hr
                simp only [padOf, Option.some.injEq] at hp'
                subst hp'
                refine ⟨hauth, ⟨x, by simpa [received] using hxm, hxp⟩, ?_⟩
                rintro q ⟨y, hy, hyh, hq⟩ hqa
                refine hbound y (by simpa [received] using hy) hyh q hq hqa.2 ?_
                -- an authentic version lives at the requested key, so the address check lets it through
                simp [passes, hqa.1]
            · cases hnet
          | notFound => simp [netGetWith] at hnet
          | timeout => simp [netGetWith] at hnet
          | kindMismatch => simp [netGetWith] at hnet
          | notEnoughCopies => simp [netGetWith] at hnet
          | doesNotMatch => simp [netGetWith] at hnet
      · cases h
  · -- the split error reached the client: it selects among the received versions itself
    rename_i m hnet
    have hrep : reply = .err (.split m) := by
      cases reply with
      | ok r => simp [netGetWith] at hnet
      | err e =>
        cases e with
        | split m' =>
          simp only [netGetWith] at hnet
          split at hnet
          · cases hnet
          · simp only [Except.error.injEq, NetErr.split.injEq] at hnet
            rw [hnet]
        | notFound => simp [netGetWith] at hnet
        | timeout => simp [netGetWith] at hnet
        | kindMismatch => simp [netGetWith] at hnet
        | notEnoughCopies => simp [netGetWith] at hnet
        | doesNotMatch => simp [netGetWith] at hnet
    subst hrep
    split at h
    · split at h
      · rename_i p' rest hsel
        simp only [Except.ok.injEq] at h
        subst h
        obtain ⟨ha, hfrom, hmax⟩ := latestPads_spec key m p' rest hsel
        refine ⟨ha, by simpa [received] using hfrom, ?_⟩
        rintro q ⟨y, hy, _, hq⟩ hqa
        exact hmax y (by simpa [received] using hy) q hq hqa
      · cases h
    · cases h
  · cases h

/-- A returned pad is owned by the requested key, validly signed, is one of the received versions, and no validly
signed version of the owner that was received as a scratchpad record (`ReceivedVersion`: under a `Scratchpad` header —
"highest counter among those received" is about scratchpad records, see there) has a higher counter.
SCOPE: owner, signature (`is_valid()`: over counter ‖ hash of the encrypted data), counter and data. The CONTENT TYPE
`fetch_and_decrypt_vault` returns next to the data (`pad.data_encoding()`) is NOT covered: it is outside the signature
and whoever answers chooses it (`vault_content_type_holder_controlled`, known finding K-k-content-type-unsigned). -/
theorem vault_authentic (padKey : Nat → Nat) (key : Nat) (reply : Reply B) (p : Pad)
    (h : getVault padKey key reply = .ok p) :
    Authentic key p ∧ (∃ r ∈ received reply, padOf r = some p) ∧
      ∀ q, ReceivedVersion reply q → Authentic key q → q.ctr ≤ p.ctr :=
  vault_authentic_any _ _ padKey key reply p h

/-! ### The content type of a vault is not authenticated (K-f4 of C07, seen from the read) -/

/-- the content type delivered is the one the owner gave the pad when signing it -/
def ContentTypeAsWritten (p : Pad) : Prop := p.enc = p.encOwner

/-- as one would read "validly signed by it": what the vault read returns — data AND content type — is the owner's -/
def VaultContentTypeAuthentic (B : Type) : Prop :=
  ∀ (padKey : Nat → Nat) (key : Nat) (reply : Reply B) (p : Pad), getVault padKey key reply = .ok p → ContentTypeAsWritten p

/-- Whoever answers the read chooses the content type: for every authentic pad and EVERY value `e`, the same pad with
`data_encoding := e` is returned with content type `e` (the signature does not cover the field; no check looks at it). -/
theorem vault_content_type_holder_controlled (padKey : Nat → Nat) (key : Nat) (hdr : Option Kind) (p : Pad) (e : Nat)
    (hauth : Authentic key p) :
    getVault (B := B) padKey key (.ok ⟨hdr, .pad { p with enc := e }⟩) = .ok { p with enc := e } ∧
    contentTypeOf { p with enc := e } = e := by
  refine ⟨?_, rfl⟩
  have ha : Authentic key { p with enc := e } := hauth
  unfold getVault getVaultWith getVaultWith2
  simp only [netGetWith, padOf, (okAccepts_iff key _).2 ha, ↓reduceIte]

/-- FALSE of the code: the owner wrote content type 7, a holder answers with the same signed pad and content type 9 -/
theorem vault_content_type_forged_witness : ¬ VaultContentTypeAuthentic Nat := by
  intro h
  have := h id 0 (.ok ⟨some .scratchpad, .pad { owner := 0, ctr := 3, valid := true, ver := 0, enc := 9, encOwner := 7 }⟩)
    { owner := 0, ctr := 3, valid := true, ver := 0, enc := 9, encOwner := 7 } rfl
  exact absurd this (by simp [ContentTypeAsWritten])

/-- What holds instead: if no holder tampered with the content type of an authentic version it received, the returned
content type is the owner's. -/
theorem vault_content_type_partial (padKey : Nat → Nat) (key : Nat) (reply : Reply B) (p : Pad)
    (huntampered : ∀ r ∈ received reply, ∀ q, padOf r = some q → Authentic key q → ContentTypeAsWritten q)
    (h : getVault padKey key reply = .ok p) : ContentTypeAsWritten p := by
  obtain ⟨ha, ⟨r, hr, hp⟩, _⟩ := vault_authentic padKey key reply p h
  exact huntampered r hr p hp ha

/-! ### vault_returns_authentic_max — forged and foreign versions are discarded, they do not decide the outcome -/

/-- When the network layer hands the vault read one record that is a version owned by the requested key with a valid
signature, that version is returned. -/
theorem vault_returns_authentic_single (padKey : Nat → Nat) (key : Nat) (r : Rec B) (p : Pad)
    (hp : padOf r = some p) (hauth : Authentic key p) :
    getVault padKey key (.ok r) = .ok p := by
  unfold getVault getVaultWith getVaultWith2
  simp only [netGetWith, hp, (okAccepts_iff key p).2 hauth, ↓reduceIte]

/-- no pad in the map is foreign and yet lives at the requested record key (no collision of scratchpad addresses among
the pads at hand) -/
def PadKeysDistinct (padKey : Nat → Nat) (key : Nat) (m : List (Rec B)) : Prop :=
  ∀ r ∈ m, ∀ q, padOf r = some q → padKey q.owner = padKey key → q.owner = key

/-- no register among the replies lives at the vault's record key (register and scratchpad addresses are hashes of
different things; a register at a scratchpad key would be a collision) -/
def NoRegAtKey (rkey : Nat) (m : List (Rec B)) : Prop := ∀ r ∈ m, ∀ g, regOf r = some g → g.key ≠ rkey

/-- the first parsable header (in visiting order = content-hash order) says `Transaction` and the records under that
header carry more than one transaction: `handle_split_record_error` then answers with a `Transaction` record, whatever
else was received (nothing about a transaction is checked there: no signature, no address) -/
def TxDictates (m : List (Rec B)) : Prop := firstKind m = some .transaction ∧ (unionTxs m).length > 1

/-- "Unsigned or foreign versions are discarded" / "wrong kind", at full strength, for a network layer whose split
handling does (`chk`, `regChk`) or does not compare scratchpad / register addresses with the key being read: whenever the
result map of a split read holds a version owned by the requested key with a valid signature — next to whatever
unsigned, wrongly signed, FOREIGN or undecodable entries, records of OTHER KINDS (registers, transactions, chunks), with
whatever counters, in whatever order, under whatever headers — the read succeeds with an authentic version whose counter
is the highest among the authentic versions received. -/
def SplitReturnsAuthenticMax (B : Type) (chk regChk : Bool) : Prop :=
  ∀ (padKey : Nat → Nat) (key : Nat) (m : List (Rec B)), PadKeysDistinct padKey key m → NoRegAtKey (padKey key) m →
    (∃ r ∈ m, ∃ q, padOf r = some q ∧ Authentic key q) →
    ∃ p, getVaultWith2 chk regChk padKey key (.err (.split m)) = .ok p ∧ Authentic key p ∧ (∃ r ∈ m, padOf r = some p) ∧
      ∀ q, ReceivedVersion (.err (.split m)) q → Authentic key q → q.ctr ≤ p.ctr

/-- the same, except for split maps in which a `Transaction` record dictates the kind (`TxDictates`) -/
def SplitReturnsAuthenticMaxUnlessTx (B : Type) (chk regChk : Bool) : Prop :=
  ∀ (padKey : Nat → Nat) (key : Nat) (m : List (Rec B)), PadKeysDistinct padKey key m → NoRegAtKey (padKey key) m →
    ¬ TxDictates m →
    (∃ r ∈ m, ∃ q, padOf r = some q ∧ Authentic key q) →
    ∃ p, getVaultWith2 chk regChk padKey key (.err (.split m)) = .ok p ∧ Authentic key p ∧ (∃ r ∈ m, padOf r = some p) ∧
      ∀ q, ReceivedVersion (.err (.split m)) q → Authentic key q → q.ctr ≤ p.ctr

def good : Pad := { owner := 0, ctr := 3, valid := true, ver := 0 }
def newer : Pad := { owner := 0, ctr := 4, valid := true, ver := 1 }
def foreign : Pad := { owner := 1, ctr := 9, valid := true, ver := 1 }
def unsigned : Pad := { owner := 0, ctr := 9, valid := false, ver := 1 }
/-- somebody else's validly signed register, living at its own key 5 -/
def foreignReg : Reg := { key := 5, valid := true, id := 0 }

/-- FALSE of the code as it was (scratchpad arm without the address check): a validly signed pad of ANOTHER owner with a
higher counter wins inside `handle_split_record_error`, the client's own owner filter then refuses it and the whole
read fails although an authentic version was received. Reproduced on the real code: `vault 0 sp=s:P0.3.v.0,s:P1.9.v.1`
gave `err invalid` (now `ok 0.3.0`; replayable, it is in the harness corpus and found again by the model search when
the check is removed). -/
theorem split_foreign_pad_hides_authentic_witness : ¬ SplitReturnsAuthenticMaxUnlessTx Nat false true := by
  intro h
  obtain ⟨p, hp, _⟩ := h id 0 [⟨some .scratchpad, .pad good⟩, ⟨some .scratchpad, .pad foreign⟩]
    (by
      intro r hr q hq hk
      simp only [List.mem_cons, List.not_mem_nil, or_false] at hr
      rcases hr with rfl | rfl <;> (simp only [padOf, Option.some.injEq] at hq; subst hq; exact hk))
    (by
      intro r hr g hg
      simp only [List.mem_cons, List.not_mem_nil, or_false] at hr
      rcases hr with rfl | rfl <;> simp [regOf] at hg)
    (by intro ht; exact absurd ht.1 (by decide))
    ⟨_, List.mem_cons_self, good, rfl, rfl, rfl⟩
  have hval : getVaultWith2 (B := Nat) false true id 0
      (.err (.split [⟨some .scratchpad, .pad good⟩, ⟨some .scratchpad, .pad foreign⟩])) = .error .invalid := rfl
  rw [hval] at hp
  cases hp

/-- FALSE of the code as it was (register arm without the address check): ONE holder answers the vault key with somebody
else's validly signed REGISTER; its content hash sorts first, so it dictates the kind, the pads the majority returned are
skipped, the register is collected and returned as the record of the scratchpad key, and the vault read fails. -/
theorem split_foreign_register_hides_authentic_witness : ¬ SplitReturnsAuthenticMaxUnlessTx Nat true false := by
  intro h
  obtain ⟨p, hp, _⟩ := h id 0 [⟨some .register, .reg foreignReg⟩, ⟨some .scratchpad, .pad good⟩]
    (by
      intro r hr q hq hk
      simp only [List.mem_cons, List.not_mem_nil, or_false] at hr
      rcases hr with rfl | rfl
      · simp [padOf] at hq
      · simp only [padOf, Option.some.injEq] at hq; subst hq; exact hk)
    (by
      intro r hr g hg
      simp only [List.mem_cons, List.not_mem_nil, or_false] at hr
      rcases hr with rfl | rfl
      · simp only [regOf, Option.some.injEq] at hg; subst hg; decide
      · simp [regOf] at hg)
    (by intro ht; exact absurd ht.1 (by decide))
    ⟨_, List.mem_cons_of_mem _ List.mem_cons_self, good, rfl, rfl, rfl⟩
  have hval : getVaultWith2 (B := Nat) true false id 0
      (.err (.split [⟨some .register, .reg foreignReg⟩, ⟨some .scratchpad, .pad good⟩])) = .error .invalid := rfl
  rw [hval] at hp
  cases hp

/-- FALSE of the code as it is, both address checks in place (known finding K-k-wrongkind-tx-dictates): ONE holder
answers the vault key with a `Transaction` record holding two transactions (anything that decodes: nothing is verified);
its content hash sorts first, it dictates the kind, the pads are skipped, the two transactions are "accumulated" and
returned as the record of the scratchpad key, and the vault read fails although the authentic pad was received. -/
theorem split_tx_record_hides_authentic_witness : ¬ SplitReturnsAuthenticMax Nat true true := by
  intro h
  obtain ⟨p, hp, _⟩ := h id 0 [⟨some .transaction, .txs [1, 2]⟩, ⟨some .scratchpad, .pad good⟩]
    (by
      intro r hr q hq hk
      simp only [List.mem_cons, List.not_mem_nil, or_false] at hr
      rcases hr with rfl | rfl
      · simp [padOf] at hq
      · simp only [padOf, Option.some.injEq] at hq; subst hq; exact hk)
    (by
      intro r hr g hg
      simp only [List.mem_cons, List.not_mem_nil, or_false] at hr
      rcases hr with rfl | rfl <;> simp [regOf] at hg)
    ⟨_, List.mem_cons_of_mem _ List.mem_cons_self, good, rfl, rfl, rfl⟩
  have hval : getVaultWith2 (B := Nat) true true id 0
      (.err (.split [⟨some .transaction, .txs [1, 2]⟩, ⟨some .scratchpad, .pad good⟩])) = .error .invalid := rfl
  rw [hval] at hp
  cases hp

/-- With both address checks in the network layer's split handling the clause holds for every split map in which no
`Transaction` record dictates the kind. -/
theorem split_returns_authentic_max_checked : SplitReturnsAuthenticMaxUnlessTx B true true := by
  intro padKey key m hcf hnr hnt hex
  have key_step : ∃ p, getVaultWith2 true true padKey key (.err (.split m)) = .ok p := by
    unfold getVaultWith2
    simp only [netGetWith]
    cases hs : handleSplit true true padKey (padKey key) m with
    | some r =>
      rcases handleSplit_spec true true padKey (padKey key) m r hs with
        ⟨_, ⟨hk, hlen⟩ | ⟨_, x, hxm, g, hxg, hgk⟩⟩ | ⟨p0, hr, hv, hpass, ⟨x, hxm, _, hxp⟩, _⟩
      · exact absurd ⟨hk, hlen⟩ hnt
      · exact absurd (hgk rfl) (hnr x hxm g hxg)
      · -- the network layer reduced the split to one pad: it lives at the requested key, so it is the owner's
        subst hr
        have hown : p0.owner = key := hcf x hxm p0 hxp (by simpa [passes] using hpass)
        refine ⟨p0, ?_⟩
        simp only [padOf, (okAccepts_iff key p0).2 ⟨hown, hv⟩, ↓reduceIte]
    | none =>
      -- the split reached the client, whose filter keeps the authentic versions
      simp only [Gen.ClientRead.vaultSplitDropsUndeserialisable, Bool.true_or, ↓reduceIte]
      cases hl : latestPads key m with
      | nil => exact absurd hl (latestPads_ne_nil key m hex)
      | cons p rest => exact ⟨p, rfl⟩
  obtain ⟨p, hp⟩ := key_step
  obtain ⟨ha, hfrom, hmax⟩ := vault_authentic_any true true padKey key _ p hp
  exact ⟨p, hp, ha, by simpa [received] using hfrom, hmax⟩

/-- The three repairs are in the source: the flags regenerated from `ant-networking/src/lib.rs` (scratchpad arm, register
arm of `handle_split_record_error`) and `ant-networking/src/event/kad.rs` (transaction union only for all-transaction
splits) are pinned here by `rfl` — reverting any of the repairs breaks this theorem and the unconditional corollaries
below. -/
theorem split_flags_as_repaired :
    Gen.ClientRead.netSplitChecksPadKey = true ∧ Gen.ClientRead.netSplitRegChecksKey = true ∧
      Gen.ClientRead.netAccMergeNeedsAllTx = true := ⟨rfl, rfl, rfl⟩

/-- The clause for any tree in which the flags say both address checks are there (kept for the record of which repair
each conclusion needs). -/
theorem vault_returns_authentic_max_of_flags (padKey : Nat → Nat) (key : Nat) (m : List (Rec B))
    (hpadflag : Gen.ClientRead.netSplitChecksPadKey = true) (hregflag : Gen.ClientRead.netSplitRegChecksKey = true)
    (hcf : PadKeysDistinct padKey key m) (hnr : NoRegAtKey (padKey key) m) (hnt : ¬ TxDictates m)
    (hex : ∃ r ∈ m, ∃ q, padOf r = some q ∧ Authentic key q) :
    ∃ p, getVault padKey key (.err (.split m)) = .ok p ∧ Authentic key p ∧ (∃ r ∈ m, padOf r = some p) ∧
      ∀ q, ReceivedVersion (.err (.split m)) q → Authentic key q → q.ctr ≤ p.ctr := by
  unfold getVault getVaultWith
  rw [hpadflag, hregflag]
  exact split_returns_authentic_max_checked padKey key m hcf hnr hnt hex

/-- The clause for the code as it is (flags pinned by `split_flags_as_repaired`, no flag hypothesis). -/
theorem vault_returns_authentic_max (padKey : Nat → Nat) (key : Nat) (m : List (Rec B))
    (hcf : PadKeysDistinct padKey key m) (hnr : NoRegAtKey (padKey key) m) (hnt : ¬ TxDictates m)
    (hex : ∃ r ∈ m, ∃ q, padOf r = some q ∧ Authentic key q) :
    ∃ p, getVault padKey key (.err (.split m)) = .ok p ∧ Authentic key p ∧ (∃ r ∈ m, padOf r = some p) ∧
      ∀ q, ReceivedVersion (.err (.split m)) q → Authentic key q → q.ctr ≤ p.ctr :=
  vault_returns_authentic_max_of_flags padKey key m split_flags_as_repaired.1 split_flags_as_repaired.2.1 hcf hnr hnt hex

/-! ### From the holders' replies to the client: the swarm driver's split branch in between -/

/-- a split map that holds a scratchpad is not "all transactions" -/
theorem kadSplitReply_of_pad (m : List (Rec B)) (hex : ∃ r ∈ m, ∃ q, padOf r = some q) :
    kadSplitReply true m = .err (.split m) := by
  obtain ⟨r, hr, q, hq⟩ := hex
  have hnot : m.all (fun r => (txsOf r).isSome) = false := by
    rw [List.all_eq_false]
    refine ⟨r, hr, ?_⟩
    have : txsOf r = none := by
      unfold padOf at hq
      unfold txsOf
      split at hq
      · split <;> simp_all
      · cases hq
    simp [this]
  simp [kadSplitReply, hnot]

/-- FALSE of the swarm driver as it was (`accMergeNeedsAllTx = false`): the quorum is reached for the authentic pad while
ONE holder has answered with a transaction record; the driver answers the caller `Ok(the transactions)` and silently
drops the pad, the vault read fails. -/
theorem kad_union_drops_authentic_witness :
    getVaultWith2 (B := Nat) true true id 0 (kadSplitReply false [⟨some .scratchpad, .pad good⟩, ⟨some .transaction, .txs [1]⟩])
      = .error .invalid := rfl

/-- One holder's wrong-kind reply does not make a vault read fail (PARTIAL: hypothesis `¬ TxDictates`, see
`split_tx_record_hides_authentic_witness`): the versions the swarm driver holds when the quorum is reached include an
authentic pad of the requested key; next to it, whatever registers (validly signed, of other addresses), transaction
records, chunks, forged and foreign pads one or more holders sent. With the three repairs in the tree (flags regenerated
from lib.rs / event/kad.rs) the driver hands the whole split up, the split handling does not let a foreign register or
pad win, and the read returns an authentic version of the highest counter. -/
theorem vault_read_survives_wrong_kind_reply_partial (padKey : Nat → Nat) (key : Nat) (m : List (Rec B))
    (hcf : PadKeysDistinct padKey key m) (hnr : NoRegAtKey (padKey key) m) (hnt : ¬ TxDictates m)
    (hex : ∃ r ∈ m, ∃ q, padOf r = some q ∧ Authentic key q) :
    ∃ p, getVault padKey key (kadSplitReply Gen.ClientRead.netAccMergeNeedsAllTx m) = .ok p ∧ Authentic key p ∧
      (∃ r ∈ m, padOf r = some p) ∧
      ∀ q, ReceivedVersion (.err (.split m)) q → Authentic key q → q.ctr ≤ p.ctr := by
  rw [split_flags_as_repaired.2.2, kadSplitReply_of_pad m (by obtain ⟨r, hr, q, hq, _⟩ := hex; exact ⟨r, hr, q, hq⟩)]
  exact vault_returns_authentic_max padKey key m hcf hnr hnt hex

/-- non-vacuity of the hypotheses and the conclusion: ONE holder's foreign validly signed register, sorting first, next to
two authentic versions — the newer authentic version is read -/
example : ∃ p, getVault (B := Nat) id 0 (kadSplitReply Gen.ClientRead.netAccMergeNeedsAllTx
      [⟨some .register, .reg foreignReg⟩, ⟨some .scratchpad, .pad good⟩, ⟨some .scratchpad, .pad newer⟩]) = .ok p ∧ p = newer := by
  obtain ⟨p, hp, _, _, hmax⟩ := vault_read_survives_wrong_kind_reply_partial (B := Nat) id 0
    [⟨some .register, .reg foreignReg⟩, ⟨some .scratchpad, .pad good⟩, ⟨some .scratchpad, .pad newer⟩]
    (by
      intro r hr q hq hk
      simp only [List.mem_cons, List.not_mem_nil, or_false] at hr
      rcases hr with rfl | rfl | rfl
      · simp [padOf] at hq
      · simp only [padOf, Option.some.injEq] at hq; subst hq; exact hk
      · simp only [padOf, Option.some.injEq] at hq; subst hq; exact hk)
    (by
      intro r hr g hg
      simp only [List.mem_cons, List.not_mem_nil, or_false] at hr
      rcases hr with rfl | rfl | rfl
      · simp only [regOf, Option.some.injEq] at hg; subst hg; decide
      · simp [regOf] at hg
      · simp [regOf] at hg)
    (by intro ht; exact absurd ht.1 (by decide))
    ⟨_, List.mem_cons_of_mem _ List.mem_cons_self, good, rfl, rfl, rfl⟩
  exact ⟨newer, rfl, rfl⟩

/-! ### The write path's read (`get_or_create_scratchpad`): a failed read is not "no vault yet" -/

/-- the vault read fails with the network's `RecordNotFound` only when that is what the network layer answered -/
theorem vault_not_found_only_from_not_found (padKey : Nat → Nat) (key : Nat) (reply : Reply B)
    (h : getVault padKey key reply = .error (.network "nf")) : reply = .err .notFound := by
  unfold getVault getVaultWith getVaultWith2 at h
  cases reply with
  | ok r =>
    simp only [netGetWith] at h
    split at h
    · cases h
    · split at h <;> cases h
  | err e =>
    cases e with
    | notFound => rfl
    | split m =>
      simp only [netGetWith] at h
      cases hs : handleSplit Gen.ClientRead.netSplitChecksPadKey Gen.ClientRead.netSplitRegChecksKey padKey (padKey key) m with
      | some r =>
        simp only [hs] at h
        split at h
        · cases h
        · split at h <;> cases h
      | none =>
        simp only [hs] at h
        split at h
        · split at h <;> cases h
        · cases h
    | timeout => simp [netGetWith, netErrClass] at h
    | kindMismatch => simp [netGetWith, netErrClass] at h
    | notEnoughCopies => simp [netGetWith, netErrClass] at h
    | doesNotMatch => simp [netGetWith, netErrClass] at h

/-- Repaired shape: the write path starts a NEW vault (counter 0, paid for again) only when the network said there is
no record at the vault's address. A time-out, too few copies, a forged or foreign pad at the address fail the write
instead of silently starting over (holders of a newer version would refuse the new counter-1 version: the user's write
was lost and paid for). -/
theorem vault_write_starts_over_only_when_not_found (padKey : Nat → Nat) (key : Nat) (reply : Reply B)
    (h : getOrCreateWith true padKey key reply = .fresh) : reply = .err .notFound := by
  unfold getOrCreateWith at h
  split at h
  · cases h
  · rename_i e he
    simp only [Bool.not_true, Bool.false_eq_true, ↓reduceIte] at h
    split at h
    · rename_i cls
      split at h
      · rename_i hc
        subst hc
        exact vault_not_found_only_from_not_found padKey key reply he
      · cases h
    · cases h

/-- … and what it continues is an authentic version, of the highest counter among those received -/
theorem vault_write_continues_authentic (onlyNf : Bool) (padKey : Nat → Nat) (key : Nat) (reply : Reply B) (p : Pad)
    (h : getOrCreateWith onlyNf padKey key reply = .existing p) :
    Authentic key p ∧ ∀ q, ReceivedVersion reply q → Authentic key q → q.ctr ≤ p.ctr := by
  unfold getOrCreateWith at h
  split at h
  · rename_i p' hp
    simp only [WriteStart.existing.injEq] at h
    subst h
    obtain ⟨ha, _, hmax⟩ := vault_authentic padKey key reply p' hp
    exact ⟨ha, hmax⟩
  · split at h
    · cases h
    · split at h
      · split at h <;> cases h
      · cases h

/-- the code as it is: the flag regenerated from autonomi/src/client/vault.rs says the repair is there (removing it
breaks this proof) -/
theorem vault_write_fresh_only_when_not_found (padKey : Nat → Nat) (key : Nat) (reply : Reply B)
    (h : getOrCreate padKey key reply = .fresh) : reply = .err .notFound := by
  have hflag : Gen.ClientRead.vaultWriteCreatesOnlyOnNotFound = true := rfl
  unfold getOrCreate at h
  rw [hflag] at h
  exact vault_write_starts_over_only_when_not_found padKey key reply h

/-- FALSE of the code as it was: a time-out of the read, or a forged pad at the address, started a new vault -/
theorem vault_write_started_over_on_any_error_witness :
    getOrCreateWith (B := Nat) false id 0 (.err .timeout) = .fresh ∧
    getOrCreateWith (B := Nat) false id 0 (.ok ⟨some .scratchpad, .pad unsigned⟩) = .fresh ∧
    getOrCreateWith (B := Nat) true id 0 (.err .timeout) = .error "to" ∧
    getOrCreateWith (B := Nat) true id 0 (.err .notFound) = .fresh := by
  refine ⟨rfl, rfl, rfl, rfl⟩

/-! ### no_authentic_no_data -/

/-- No received record carries content that hashes to the requested address ⇒ the chunk read fails. -/
theorem no_authentic_no_chunk (S : SE B DM) (padKey : Nat → Nat) (addr : Nat) (reply : Reply B)
    (hno : ∀ r ∈ received reply, ∀ v, r.body = .chunk v → S.hash v ≠ addr) :
    ∃ e, chunkGet S padKey addr reply = .error e := by
  cases hres : chunkGet S padKey addr reply with
  | error e => exact ⟨e, rfl⟩
  | ok c =>
    exfalso
    obtain ⟨r, hr, hbody⟩ := chunk_from_received S padKey addr reply c hres
    exact hno r hr c.value hbody (chunk_authentic S padKey addr reply c hres).1

/-- No received version is owned by the requested key and validly signed ⇒ the vault read fails. -/
theorem no_authentic_no_vault (padKey : Nat → Nat) (key : Nat) (reply : Reply B)
    (hno : ∀ r ∈ received reply, ∀ q, padOf r = some q → ¬ Authentic key q) :
    ∃ e, getVault padKey key reply = .error e := by
  cases hres : getVault padKey key reply with
  | error e => exact ⟨e, rfl⟩
  | ok p =>
    exfalso
    obtain ⟨hauth, ⟨r, hr, hp⟩, _⟩ := vault_authentic padKey key reply p hres
    exact hno r hr p hp hauth

/-- If the data-map chunk cannot be authenticated the public data read fails (no unauthenticated data). -/
theorem no_authentic_no_data (S : SE B DM) (padKey : Nat → Nat) (replies : Nat → Reply B) (fuel : Nat)
    (codes : List (List Nat)) (addr : Nat)
    (hno : ∀ r ∈ received (replies addr), ∀ v, r.body = .chunk v → S.hash v ≠ addr) :
    ∃ e, dataGetPublic S padKey replies fuel codes addr = .error e := by
  obtain ⟨e, he⟩ := no_authentic_no_chunk S padKey addr (replies addr) hno
  exact ⟨e, by simp [dataGetPublic, he]⟩

/-! ### Non-vacuity: authentic replies are accepted, the adversarial ones of F-k / F-l are refused -/

section Examples
open SafeNet.Model.ClientRead

/-- toy instance: byte strings are numbers, the hash is the identity -/
def toy : SE Nat Nat where
  len _ := 0
  hash b := b
  enc _ := none
  infos _ := []
  dec _ _ := none
  wrap _ d := d
  unwrap _ := none
  bin b := b
  unbin _ := none

example : (chunkGet toy id 7 (.ok ⟨some .chunk, .chunk 7⟩)).toOption.map (·.value) = some 7 := by decide
example : (chunkGet toy id 7 (.ok ⟨some .chunk, .chunk 8⟩)).toOption.map (·.value) = none := by decide
example : (chunkGet toy id 7 (.ok ⟨some .scratchpad, .chunk 7⟩)).toOption.map (·.value) = none := by decide

example : getVault (B := Nat) id 0 (.ok ⟨some .scratchpad, .pad good⟩) = .ok good := rfl
example : getVault (B := Nat) id 0 (.ok ⟨some .scratchpad, .pad foreign⟩) = .error .invalid := rfl
example : getVault (B := Nat) id 0 (.ok ⟨some .scratchpad, .pad unsigned⟩) = .error .invalid := rfl
example : getVault (B := Nat) id 0 (.err (.split [⟨some .scratchpad, .pad good⟩, ⟨some .scratchpad, .pad newer⟩])) = .ok newer := rfl
example : getVault (B := Nat) id 0 (.err (.split [⟨some .scratchpad, .pad good⟩, ⟨some .scratchpad, .pad unsigned⟩])) = .ok good := rfl
example : getVault (B := Nat) id 0 (.err (.split [⟨some .chunk, .junk⟩, ⟨some .scratchpad, .pad good⟩, ⟨some .scratchpad, .pad foreign⟩]))
    = .ok good := rfl
/-- a forged higher-counter version next to the authentic one does not turn the read into `Missing` -/
example : getVault (B := Nat) id 0 (.err (.split [⟨some .chunk, .junk⟩, ⟨some .scratchpad, .pad good⟩, ⟨some .scratchpad, .pad unsigned⟩]))
    = .ok good := rfl
example : getVault (B := Nat) id 0 (.err (.split [⟨some .scratchpad, .pad unsigned⟩, ⟨some .scratchpad, .pad foreign⟩]))
    = .error .missing := rfl
/-- the foreign higher-counter pad no longer hides the authentic one (it did: `getVaultWith false`) -/
example : getVault (B := Nat) id 0 (.err (.split [⟨some .scratchpad, .pad good⟩, ⟨some .scratchpad, .pad foreign⟩])) = .ok good := rfl
example : getVaultWith2 (B := Nat) false true id 0 (.err (.split [⟨some .scratchpad, .pad good⟩, ⟨some .scratchpad, .pad foreign⟩]))
    = .error .invalid := rfl
/-- a foreign register (one holder) next to the authentic pad: rejected by the key check, the split goes up, the pad is read -/
example : getVaultWith2 (B := Nat) true true id 0 (.err (.split [⟨some .register, .reg foreignReg⟩, ⟨some .scratchpad, .pad good⟩]))
    = .ok good := rfl
example : getVault (B := Nat) id 0 (.err (.split [⟨some .scratchpad, .pad foreign⟩, ⟨some .scratchpad, .pad newer⟩, ⟨some .scratchpad, .pad good⟩]))
    = .ok newer := rfl

end Examples

end SafeNet.Props.C15

#print axioms SafeNet.Props.C15.chunk_authentic
#print axioms SafeNet.Props.C15.chunk_kind_checked
#print axioms SafeNet.Props.C15.data_authentic
#print axioms SafeNet.Props.C15.data_unforgeable
#print axioms SafeNet.Props.C15.vault_authentic
#print axioms SafeNet.Props.C15.vault_returns_authentic_single
#print axioms SafeNet.Props.C15.vault_returns_authentic_max
#print axioms SafeNet.Props.C15.split_flags_as_repaired
#print axioms SafeNet.Props.C15.vault_returns_authentic_max_of_flags
#print axioms SafeNet.Props.C15.vault_read_survives_wrong_kind_reply_partial
#print axioms SafeNet.Props.C15.split_foreign_register_hides_authentic_witness
#print axioms SafeNet.Props.C15.split_tx_record_hides_authentic_witness
#print axioms SafeNet.Props.C15.kad_union_drops_authentic_witness
#print axioms SafeNet.Props.C15.vault_content_type_holder_controlled
#print axioms SafeNet.Props.C15.vault_content_type_forged_witness
#print axioms SafeNet.Props.C15.vault_content_type_partial
#print axioms SafeNet.Props.C15.vault_write_starts_over_only_when_not_found
#print axioms SafeNet.Props.C15.vault_write_continues_authentic
#print axioms SafeNet.Props.C15.vault_write_fresh_only_when_not_found
#print axioms SafeNet.Props.C15.vault_write_started_over_on_any_error_witness
#print axioms SafeNet.Props.C15.split_returns_authentic_max_checked
#print axioms SafeNet.Props.C15.split_foreign_pad_hides_authentic_witness
#print axioms SafeNet.Props.C15.vault_authentic_any
#print axioms SafeNet.Props.C15.chunk_from_received
#print axioms SafeNet.Props.C15.no_authentic_no_chunk
#print axioms SafeNet.Props.C15.no_authentic_no_vault
#print axioms SafeNet.Props.C15.no_authentic_no_data
