import SafeNet.Proofs.ClientRead
import SafeNet.Proofs.SelfEnc
/-!
C15 — client reads are authenticated against the requested address.
Statements are over the model of `chunk_get` / `data_get_public` / `get_vault_from_network` in
`Model/ClientRead.lean`, whose check flags are regenerated from the Rust source (`Gen/ClientRead.lean`): removing the
address comparison or the owner/signature checks changes the terms below and the proofs stop checking.
The reply is whatever the swarm driver answers to `GetNetworkRecord` (a record, a split with any result map in any
iteration order, or an error), i.e. every set of replies an adversarial set of holders can cause.
`padKey owner` is the record key the scratchpad of `owner` lives under (the hash of its address); the network layer's
split handling compares it with the key being read (`Gen.ClientRead.netSplitChecksPadKey`, regenerated from
`ant-networking/src/lib.rs`).
-/
namespace SafeNet.Props.C15
open SafeNet.Model.SelfEnc SafeNet.Model.ClientRead SafeNet.Proofs.ClientRead SafeNet.Proofs.SelfEnc

variable {B DM : Type}

/-- the records a reply hands to the client code -/
def received : Reply B → List (Rec B)
  | .ok r => [r]
  | .err (.split m) => m
  | .err _ => []

/-- owned by the requested key and validly signed -/
def Authentic (key : Nat) (p : Pad) : Prop := p.owner = key ∧ p.valid = true

/-! ### chunk_authentic -/

/-- An `Ok` chunk hashes to the requested address (and carries it as its address), and its content is one of the
received records' bodies. -/
theorem chunk_authentic (S : SE B DM) (padKey : Nat → Nat) (addr : Nat) (reply : Reply B) (c : Chunk B)
    (h : chunkGet S padKey addr reply = .ok c) :
    S.hash c.value = addr ∧ c.address = addr := by
  unfold chunkGet at h
  split at h
  · cases h
  · split at h
    · cases h
    · split at h
      · cases h
      · split at h
        · rename_i value _
          simp only [Gen.ClientRead.chunkGetComparesAddress, Bool.true_and] at h
          split at h
          · cases h
          · rename_i hne
            simp only [Except.ok.injEq] at h
            subst h
            simp only [bne_iff_ne, ne_eq, Decidable.not_not] at hne
            exact ⟨hne, hne⟩
        · cases h

/-- …and it was received under a `Chunk` header (wrong kinds are refused). -/
theorem chunk_kind_checked (S : SE B DM) (padKey : Nat → Nat) (addr : Nat) (reply : Reply B) (c : Chunk B)
    (h : chunkGet S padKey addr reply = .ok c) :
    ∃ r, netGet Gen.ClientRead.netSplitChecksPadKey padKey addr reply = .ok r ∧ headerOf r = some .chunk ∧ r.body = .chunk c.value := by
  unfold chunkGet at h
  split at h
  · cases h
  · rename_i record hnet
    split at h
    · cases h
    · rename_i kind hk
      split at h
      · cases h
      · rename_i hkind
        split at h
        · rename_i value hb
          dsimp only at h
          split at h
          · cases h
          · simp only [Except.ok.injEq] at h
            subst h
            refine ⟨record, hnet, ?_, hb⟩
            simp only [Gen.ClientRead.chunkGetChecksKind, Bool.true_and, bne_iff_ne, ne_eq, Decidable.not_not] at hkind
            rw [hk, hkind]
        · cases h

/-! ### data_authentic -/

/-- A successful public data read used a data-map chunk that hashes to the requested address, and every chunk any
round of the fetch loop used hashes to the address the (authentic) data map names for it. -/
theorem data_authentic (S : SE B DM) (padKey : Nat → Nat) (replies : Nat → Reply B) (fuel : Nat) (codes : List (List Nat))
    (addr : Nat) (d : B) (h : dataGetPublic S padKey replies fuel codes addr = .ok d) :
    ∃ m : Chunk B, chunkGet S padKey addr (replies addr) = .ok m ∧ S.hash m.value = addr ∧
      fetchFromDataMapChunk S (fun a => chunkGet S padKey a (replies a)) fuel codes m.value = .ok d ∧
      ∀ a c, chunkGet S padKey a (replies a) = .ok c → S.hash c.value = a := by
  unfold dataGetPublic at h
  split at h
  · cases h
  · rename_i m hm
    exact ⟨m, hm, (chunk_authentic S padKey addr _ m hm).1, h, fun a c hc => (chunk_authentic S padKey a _ c hc).1⟩

/-- a successful chunk read returns the body of one of the received records -/
theorem chunk_from_received (S : SE B DM) (padKey : Nat → Nat) (addr : Nat) (reply : Reply B) (c : Chunk B)
    (h : chunkGet S padKey addr reply = .ok c) : ∃ r ∈ received reply, r.body = .chunk c.value := by
  obtain ⟨r, hnet, _, hbody⟩ := chunk_kind_checked S padKey addr reply c h
  cases reply with
  | ok r0 =>
    simp only [netGet, Except.ok.injEq] at hnet
    subst hnet
    exact ⟨r0, by simp [received], hbody⟩
  | err e =>
    cases e with
    | split m =>
      simp only [netGet] at hnet
      split at hnet
      · rename_i r' hsplit
        simp only [Except.ok.injEq] at hnet
        subst hnet
        obtain ⟨p0, hr, _⟩ := handleSplit_spec _ padKey addr m r' hsplit
        subst hr
        cases hbody
      · cases hnet
    | notFound => simp [netGet] at hnet
    | timeout => simp [netGet] at hnet
    | kindMismatch => simp [netGet] at hnet
    | notEnoughCopies => simp [netGet] at hnet
    | doesNotMatch => simp [netGet] at hnet

/-- chunk content some holder of this reply set offers (under whatever key) -/
def Offered (replies : Nat → Reply B) (v : B) : Prop := ∃ a, ∃ r ∈ received (replies a), r.body = .chunk v

/-- Holders cannot substitute content: any two successful public reads of the same address return the same data —
whatever the two sets of holders replied, in whatever orders the fetches completed, through however many data-map
levels — unless the holders can exhibit a hash collision: all that is asked of the hash is that no two different chunk
contents *among those the two reply sets offer* have the same hash (a hypothesis on the byte strings at hand, which a
real hash can satisfy; no global injectivity). So a read either fails or returns what an honest network returns. -/
theorem data_unforgeable (S : SE B DM) (L : Laws S) (padKey : Nat → Nat) (replies replies' : Nat → Reply B)
    (fuel fuel' : Nat) (codes codes' : List (List Nat)) (addr : Nat) (d d' : B)
    (hcf : ∀ v v', Offered replies v → Offered replies' v' → S.hash v = S.hash v' → v = v')
    (h : dataGetPublic S padKey replies fuel codes addr = .ok d)
    (h' : dataGetPublic S padKey replies' fuel' codes' addr = .ok d') :
    d = d' := by
  obtain ⟨m, hm, hmh, hf, _⟩ := data_authentic S padKey replies fuel codes addr d h
  obtain ⟨m', hm', hmh', hf', _⟩ := data_authentic S padKey replies' fuel' codes' addr d' h'
  have hmm : m.value = m'.value :=
    hcf _ _ ⟨addr, chunk_from_received S padKey addr _ m hm⟩ ⟨addr, chunk_from_received S padKey addr _ m' hm'⟩
      (hmh.trans hmh'.symm)
  rw [← hmm] at hf'
  refine fetch_chunk_agree S L _ _ ?_ fuel fuel' codes codes' m.value d d' hf hf'
  intro a c c' hc hc'
  exact hcf _ _ ⟨a, chunk_from_received S padKey a _ c hc⟩ ⟨a, chunk_from_received S padKey a _ c' hc'⟩
    (((chunk_authentic S padKey a _ c hc).1).trans ((chunk_authentic S padKey a _ c' hc').1).symm)

/-! ### vault_authentic -/

theorem okAccepts_iff (key : Nat) (p : Pad) : okAccepts key p = true ↔ Authentic key p := by
  simp [okAccepts, Authentic, Gen.ClientRead.vaultOkChecksOwner, Gen.ClientRead.vaultOkChecksValid]

theorem splitAccepts_iff (key : Nat) (p : Pad) : splitAccepts key p = true ↔ Authentic key p := by
  simp [splitAccepts, Authentic, Gen.ClientRead.vaultSplitChecksOwner, Gen.ClientRead.vaultSplitChecksValid]

/-- `q` was received as a version of a scratchpad: in a record under a `Scratchpad` header whose body decodes as a
scratchpad. (A scratchpad body behind a header of another kind is a malformed record, not a version: the network
layer's split handling skips it once the kind is fixed, and no node stores it under a scratchpad key.) -/
def ReceivedVersion (reply : Reply B) (q : Pad) : Prop :=
  ∃ r ∈ received reply, headerOf r = some .scratchpad ∧ padOf r = some q

/-- The split arm of the vault read on its own: the latest of the authentic versions in the map. -/
theorem latestPads_spec (key : Nat) (m : List (Rec B)) (p : Pad) (rest : List Pad) (hsel : latestPads key m = p :: rest) :
    Authentic key p ∧ (∃ r ∈ m, padOf r = some p) ∧
      ∀ r ∈ m, ∀ q, padOf r = some q → Authentic key q → q.ctr ≤ p.ctr := by
  simp only [latestPads, Gen.ClientRead.vaultSplitFiltersBeforeMax, ↓reduceIte] at hsel
  have hmem : p ∈ ((m.filterMap padOf).filter (splitAccepts key)).filter
      (fun p => p.ctr == maxCtr ((m.filterMap padOf).filter (splitAccepts key))) := by
    rw [hsel]; exact List.mem_cons_self
  rw [List.mem_filter] at hmem
  obtain ⟨hin, hmax⟩ := hmem
  rw [List.mem_filter, List.mem_filterMap] at hin
  obtain ⟨⟨x, hx, hxp⟩, hacc⟩ := hin
  refine ⟨(splitAccepts_iff key p).1 hacc, ⟨x, hx, hxp⟩, ?_⟩
  intro y hy q hq hqa
  have hqin : q ∈ (m.filterMap padOf).filter (splitAccepts key) := by
    rw [List.mem_filter, List.mem_filterMap]
    exact ⟨⟨y, hy, hq⟩, (splitAccepts_iff key q).2 hqa⟩
  have := maxCtr_ge _ q hqin
  simp only [beq_iff_eq] at hmax
  omega

/-- …and it is non-empty as soon as the map holds one authentic version. -/
theorem latestPads_ne_nil (key : Nat) (m : List (Rec B)) (hex : ∃ r ∈ m, ∃ q, padOf r = some q ∧ Authentic key q) :
    latestPads key m ≠ [] := by
  obtain ⟨r0, hr0, q0, hq0, hq0a⟩ := hex
  have hq0in : q0 ∈ (m.filterMap padOf).filter (splitAccepts key) := by
    rw [List.mem_filter, List.mem_filterMap]
    exact ⟨⟨r0, hr0, hq0⟩, (splitAccepts_iff key q0).2 hq0a⟩
  obtain ⟨qm, hqm, hqmc⟩ := maxCtr_attained _ q0 hq0in
  simp only [latestPads, Gen.ClientRead.vaultSplitFiltersBeforeMax, ↓reduceIte]
  intro hnil
  have : qm ∈ ((m.filterMap padOf).filter (splitAccepts key)).filter
      (fun p => p.ctr == maxCtr ((m.filterMap padOf).filter (splitAccepts key))) := by
    rw [List.mem_filter]; exact ⟨hqm, by simp [hqmc]⟩
  rw [hnil] at this; cases this

/-- `vault_authentic` for the network layer with and without the address check of its split handling. -/
theorem vault_authentic_any (chk : Bool) (padKey : Nat → Nat) (key : Nat) (reply : Reply B) (p : Pad)
    (h : getVaultWith chk padKey key reply = .ok p) :
    Authentic key p ∧ (∃ r ∈ received reply, padOf r = some p) ∧
      ∀ q, ReceivedVersion reply q → Authentic key q → q.ctr ≤ p.ctr := by
  unfold getVaultWith at h
  split at h
  · -- the network layer handed up one record
    rename_i record hnet
    split at h
    · cases h
    · rename_i p' hp'
      split at h
      · rename_i hacc
        simp only [Except.ok.injEq] at h
        subst h
        have hauth := (okAccepts_iff key p').1 hacc
        -- where did the record come from?
        cases reply with
        | ok r =>
          simp only [netGet, Except.ok.injEq] at hnet
          subst hnet
          refine ⟨hauth, ⟨r, by simp [received], hp'⟩, ?_⟩
          rintro q ⟨x, hx, _, hq⟩ _
          simp only [received, List.mem_singleton] at hx
          subst hx
          rw [hp'] at hq; cases hq; exact Nat.le_refl _
        | err e =>
          cases e with
          | split m =>
            simp only [netGet] at hnet
            split at hnet
            · rename_i r' hsplit
              simp only [Except.ok.injEq] at hnet
              subst hnet
              obtain ⟨p0, hr, _, _, ⟨x, hxm, _, hxp⟩, hbound⟩ := handleSplit_spec chk padKey (padKey key) m r' hsplit
              subst hr
              simp only [padOf, Option.some.injEq] at hp'
              subst hp'
              refine ⟨hauth, ⟨x, by simpa [received] using hxm, hxp⟩, ?_⟩
              rintro q ⟨y, hy, hyh, hq⟩ hqa
              refine hbound y (by simpa [received] using hy) hyh q hq hqa.2 ?_
              -- an authentic version lives at the requested key, so the address check lets it through
              simp [passes, hqa.1]
            · cases hnet
          | notFound => simp [netGet] at hnet
          | timeout => simp [netGet] at hnet
          | kindMismatch => simp [netGet] at hnet
          | notEnoughCopies => simp [netGet] at hnet
          | doesNotMatch => simp [netGet] at hnet
      · cases h
  · -- the split error reached the client: it selects among the received versions itself
    rename_i m hnet
    have hrep : reply = .err (.split m) := by
      cases reply with
      | ok r => simp [netGet] at hnet
      | err e =>
        cases e with
        | split m' =>
          simp only [netGet] at hnet
          split at hnet
          · cases hnet
          · simp only [Except.error.injEq, NetErr.split.injEq] at hnet
            rw [hnet]
        | notFound => simp [netGet] at hnet
        | timeout => simp [netGet] at hnet
        | kindMismatch => simp [netGet] at hnet
        | notEnoughCopies => simp [netGet] at hnet
        | doesNotMatch => simp [netGet] at hnet
    subst hrep
    split at h
    · split at h
      · rename_i p' rest hsel
        simp only [Except.ok.injEq] at h
        subst h
        obtain ⟨ha, hfrom, hmax⟩ := latestPads_spec key m p' rest hsel
        refine ⟨ha, by simpa [received] using hfrom, ?_⟩
        rintro q ⟨y, hy, _, hq⟩ hqa
        exact hmax y (by simpa [received] using hy) q hq hqa
      · cases h
    · cases h
  · cases h

/-- A returned pad is owned by the requested key, validly signed, is one of the received versions, and no validly
signed version of the owner that was received as a scratchpad record (`ReceivedVersion`: under a `Scratchpad` header —
"highest counter among those received" is about scratchpad records, see there) has a higher counter. -/
theorem vault_authentic (padKey : Nat → Nat) (key : Nat) (reply : Reply B) (p : Pad)
    (h : getVault padKey key reply = .ok p) :
    Authentic key p ∧ (∃ r ∈ received reply, padOf r = some p) ∧
      ∀ q, ReceivedVersion reply q → Authentic key q → q.ctr ≤ p.ctr :=
  vault_authentic_any _ padKey key reply p h

/-! ### vault_returns_authentic_max — forged and foreign versions are discarded, they do not decide the outcome -/

/-- When the network layer hands the vault read one record that is a version owned by the requested key with a valid
signature, that version is returned. -/
theorem vault_returns_authentic_single (padKey : Nat → Nat) (key : Nat) (r : Rec B) (p : Pad)
    (hp : padOf r = some p) (hauth : Authentic key p) :
    getVault padKey key (.ok r) = .ok p := by
  unfold getVault getVaultWith
  simp only [netGet, hp, (okAccepts_iff key p).2 hauth, ↓reduceIte]

/-- no pad in the map is foreign and yet lives at the requested record key (no collision of scratchpad addresses among
the pads at hand) -/
def PadKeysDistinct (padKey : Nat → Nat) (key : Nat) (m : List (Rec B)) : Prop :=
  ∀ r ∈ m, ∀ q, padOf r = some q → padKey q.owner = padKey key → q.owner = key

/-- "Unsigned or foreign versions are discarded", at full strength, for a network layer whose split handling does
(`chk`) or does not compare pad addresses: whenever the result map of a split read holds a version owned by the
requested key with a valid signature — next to whatever unsigned, wrongly signed, FOREIGN or undecodable entries, with
whatever counters, in whatever iteration order, under whatever headers — the read succeeds with an authentic version
whose counter is the highest among the authentic versions received. -/
def SplitReturnsAuthenticMax (B : Type) (chk : Bool) : Prop :=
  ∀ (padKey : Nat → Nat) (key : Nat) (m : List (Rec B)), PadKeysDistinct padKey key m →
    (∃ r ∈ m, ∃ q, padOf r = some q ∧ Authentic key q) →
    ∃ p, getVaultWith chk padKey key (.err (.split m)) = .ok p ∧ Authentic key p ∧ (∃ r ∈ m, padOf r = some p) ∧
      ∀ q, ReceivedVersion (.err (.split m)) q → Authentic key q → q.ctr ≤ p.ctr

def good : Pad := { owner := 0, ctr := 3, valid := true, ver := 0 }
def newer : Pad := { owner := 0, ctr := 4, valid := true, ver := 1 }
def foreign : Pad := { owner := 1, ctr := 9, valid := true, ver := 1 }
def unsigned : Pad := { owner := 0, ctr := 9, valid := false, ver := 1 }

/-- FALSE of the code as it was (network layer without the address check): a validly signed pad of ANOTHER owner with a
higher counter wins inside `handle_split_record_error`, the client's own owner filter then refuses it and the whole
read fails although an authentic version was received. Reproduced on the real code: `vault 0 sp=s:P0.3.v.0,s:P1.9.v.1`
gave `err invalid` (now `ok 0.3.0`; replayable, it is in the harness corpus and found again by the model search when
the check is removed). -/
theorem split_foreign_pad_hides_authentic_witness : ¬ SplitReturnsAuthenticMax Nat false := by
  intro h
  obtain ⟨p, hp, _⟩ := h id 0 [⟨some .scratchpad, .pad good⟩, ⟨some .scratchpad, .pad foreign⟩]
    (by
      intro r hr q hq hk
      simp only [List.mem_cons, List.not_mem_nil, or_false] at hr
      rcases hr with rfl | rfl <;> (simp only [padOf, Option.some.injEq] at hq; subst hq; exact hk))
    ⟨_, List.mem_cons_self, good, rfl, rfl, rfl⟩
  have hval : getVaultWith (B := Nat) false id 0
      (.err (.split [⟨some .scratchpad, .pad good⟩, ⟨some .scratchpad, .pad foreign⟩])) = .error .invalid := rfl
  rw [hval] at hp
  cases hp

/-- With the address check in the network layer's split handling the clause holds. -/
theorem split_returns_authentic_max_checked : SplitReturnsAuthenticMax B true := by
  intro padKey key m hcf hex
  have key_step : ∃ p, getVaultWith true padKey key (.err (.split m)) = .ok p := by
    unfold getVaultWith
    simp only [netGet]
    cases hs : handleSplit true padKey (padKey key) m with
    | some r =>
      -- the network layer reduced the split to one pad: it lives at the requested key, so it is the owner's
      obtain ⟨p0, hr, hv, hpass, ⟨x, hxm, _, hxp⟩, _⟩ := handleSplit_spec true padKey (padKey key) m r hs
      subst hr
      have hown : p0.owner = key := hcf x hxm p0 hxp (by simpa [passes] using hpass)
      refine ⟨p0, ?_⟩
      simp only [padOf, (okAccepts_iff key p0).2 ⟨hown, hv⟩, ↓reduceIte]
    | none =>
      -- the split reached the client, whose filter keeps the authentic versions
      simp only [Gen.ClientRead.vaultSplitDropsUndeserialisable, Bool.true_or, ↓reduceIte]
      cases hl : latestPads key m with
      | nil => exact absurd hl (latestPads_ne_nil key m hex)
      | cons p rest => exact ⟨p, rfl⟩
  obtain ⟨p, hp⟩ := key_step
  obtain ⟨ha, hfrom, hmax⟩ := vault_authentic_any true padKey key _ p hp
  exact ⟨p, hp, ha, by simpa [received] using hfrom, hmax⟩

/-- The clause for the code as it is: the flag regenerated from `ant-networking/src/lib.rs` says the check is there. -/
theorem vault_returns_authentic_max (padKey : Nat → Nat) (key : Nat) (m : List (Rec B))
    (hcf : PadKeysDistinct padKey key m) (hex : ∃ r ∈ m, ∃ q, padOf r = some q ∧ Authentic key q) :
    ∃ p, getVault padKey key (.err (.split m)) = .ok p ∧ Authentic key p ∧ (∃ r ∈ m, padOf r = some p) ∧
      ∀ q, ReceivedVersion (.err (.split m)) q → Authentic key q → q.ctr ≤ p.ctr := by
  have hflag : Gen.ClientRead.netSplitChecksPadKey = true := rfl
  unfold getVault
  rw [hflag]
  exact split_returns_authentic_max_checked padKey key m hcf hex

/-! ### no_authentic_no_data -/

/-- No received record carries content that hashes to the requested address ⇒ the chunk read fails. -/
theorem no_authentic_no_chunk (S : SE B DM) (padKey : Nat → Nat) (addr : Nat) (reply : Reply B)
    (hno : ∀ r ∈ received reply, ∀ v, r.body = .chunk v → S.hash v ≠ addr) :
    ∃ e, chunkGet S padKey addr reply = .error e := by
  cases hres : chunkGet S padKey addr reply with
  | error e => exact ⟨e, rfl⟩
  | ok c =>
    exfalso
    obtain ⟨r, hr, hbody⟩ := chunk_from_received S padKey addr reply c hres
    exact hno r hr c.value hbody (chunk_authentic S padKey addr reply c hres).1

/-- No received version is owned by the requested key and validly signed ⇒ the vault read fails. -/
theorem no_authentic_no_vault (padKey : Nat → Nat) (key : Nat) (reply : Reply B)
    (hno : ∀ r ∈ received reply, ∀ q, padOf r = some q → ¬ Authentic key q) :
    ∃ e, getVault padKey key reply = .error e := by
  cases hres : getVault padKey key reply with
  | error e => exact ⟨e, rfl⟩
  | ok p =>
    exfalso
    obtain ⟨hauth, ⟨r, hr, hp⟩, _⟩ := vault_authentic padKey key reply p hres
    exact hno r hr p hp hauth

/-- If the data-map chunk cannot be authenticated the public data read fails (no unauthenticated data). -/
theorem no_authentic_no_data (S : SE B DM) (padKey : Nat → Nat) (replies : Nat → Reply B) (fuel : Nat)
    (codes : List (List Nat)) (addr : Nat)
    (hno : ∀ r ∈ received (replies addr), ∀ v, r.body = .chunk v → S.hash v ≠ addr) :
    ∃ e, dataGetPublic S padKey replies fuel codes addr = .error e := by
  obtain ⟨e, he⟩ := no_authentic_no_chunk S padKey addr (replies addr) hno
  exact ⟨e, by simp [dataGetPublic, he]⟩

/-! ### Non-vacuity: authentic replies are accepted, the adversarial ones of F-k / F-l are refused -/

section Examples
open SafeNet.Model.ClientRead

/-- toy instance: byte strings are numbers, the hash is the identity -/
def toy : SE Nat Nat where
  len _ := 0
  hash b := b
  enc _ := none
  infos _ := []
  dec _ _ := none
  wrap _ d := d
  unwrap _ := none
  bin b := b
  unbin _ := none

example : (chunkGet toy id 7 (.ok ⟨some .chunk, .chunk 7⟩)).toOption.map (·.value) = some 7 := by decide
example : (chunkGet toy id 7 (.ok ⟨some .chunk, .chunk 8⟩)).toOption.map (·.value) = none := by decide
example : (chunkGet toy id 7 (.ok ⟨some .scratchpad, .chunk 7⟩)).toOption.map (·.value) = none := by decide

example : getVault (B := Nat) id 0 (.ok ⟨some .scratchpad, .pad good⟩) = .ok good := rfl
example : getVault (B := Nat) id 0 (.ok ⟨some .scratchpad, .pad foreign⟩) = .error .invalid := rfl
example : getVault (B := Nat) id 0 (.ok ⟨some .scratchpad, .pad unsigned⟩) = .error .invalid := rfl
example : getVault (B := Nat) id 0 (.err (.split [⟨some .scratchpad, .pad good⟩, ⟨some .scratchpad, .pad newer⟩])) = .ok newer := rfl
example : getVault (B := Nat) id 0 (.err (.split [⟨some .scratchpad, .pad good⟩, ⟨some .scratchpad, .pad unsigned⟩])) = .ok good := rfl
example : getVault (B := Nat) id 0 (.err (.split [⟨some .chunk, .junk⟩, ⟨some .scratchpad, .pad good⟩, ⟨some .scratchpad, .pad foreign⟩]))
    = .ok good := rfl
/-- a forged higher-counter version next to the authentic one does not turn the read into `Missing` -/
example : getVault (B := Nat) id 0 (.err (.split [⟨some .chunk, .junk⟩, ⟨some .scratchpad, .pad good⟩, ⟨some .scratchpad, .pad unsigned⟩]))
    = .ok good := rfl
example : getVault (B := Nat) id 0 (.err (.split [⟨some .scratchpad, .pad unsigned⟩, ⟨some .scratchpad, .pad foreign⟩]))
    = .error .missing := rfl
/-- the foreign higher-counter pad no longer hides the authentic one (it did: `getVaultWith false`) -/
example : getVault (B := Nat) id 0 (.err (.split [⟨some .scratchpad, .pad good⟩, ⟨some .scratchpad, .pad foreign⟩])) = .ok good := rfl
example : getVaultWith (B := Nat) false id 0 (.err (.split [⟨some .scratchpad, .pad good⟩, ⟨some .scratchpad, .pad foreign⟩]))
    = .error .invalid := rfl
example : getVault (B := Nat) id 0 (.err (.split [⟨some .scratchpad, .pad foreign⟩, ⟨some .scratchpad, .pad newer⟩, ⟨some .scratchpad, .pad good⟩]))
    = .ok newer := rfl

end Examples

end SafeNet.Props.C15

#print axioms SafeNet.Props.C15.chunk_authentic
#print axioms SafeNet.Props.C15.chunk_kind_checked
#print axioms SafeNet.Props.C15.data_authentic
#print axioms SafeNet.Props.C15.data_unforgeable
#print axioms SafeNet.Props.C15.vault_authentic
#print axioms SafeNet.Props.C15.vault_returns_authentic_single
#print axioms SafeNet.Props.C15.vault_returns_authentic_max
#print axioms SafeNet.Props.C15.split_returns_authentic_max_checked
#print axioms SafeNet.Props.C15.split_foreign_pad_hides_authentic_witness
#print axioms SafeNet.Props.C15.vault_authentic_any
#print axioms SafeNet.Props.C15.chunk_from_received
#print axioms SafeNet.Props.C15.no_authentic_no_chunk
#print axioms SafeNet.Props.C15.no_authentic_no_vault
#print axioms SafeNet.Props.C15.no_authentic_no_data
