import SafeNet.Proofs.Register
import SafeNet.Proofs.MerkleReg
import SafeNet.Model.ClientRegister
import SafeNet.Model.RegisterDigest
/-!
# C06 — register replicas converge and accept only authorised writes

Model: `SafeNet.Model.Register` (`SignedRegister::{verify, add_op, merge, verified_merge}`,
`Register::check_register_op`) instantiated with the limits, comparators and check-presence flags that
`rs2lean` regenerates from `ant-registers/src/register.rs` (`SafeNet.Gen.Register`).
A `BTreeSet<RegisterOp>` is a duplicate-free list observed through membership: `SetEq`.
-/
namespace SafeNet.Props.C06
open SafeNet.Register SafeNet.Gen.Register

/-! ## Merge is commutative, associative, idempotent (on the op sets); unequal bases are rejected symmetrically -/

theorem merge_ok_iff (a b : SReg) : (∃ r, merge a b = .ok r) ↔ mergeable a.base b.base = true := by
  unfold merge
  simp only [mergeChecksBase, Bool.true_and]
  by_cases h : mergeable a.base b.base = true <;> simp [h]

theorem merge_ops {a b r : SReg} (h : merge a b = .ok r) : r.ops = unionOps a.ops b.ops ∧ r.base = a.base := by
  unfold merge at h
  split at h
  · cases h
  · injection h with h; subst h; exact ⟨rfl, rfl⟩

/-- `a.merge(b)` succeeds iff `b.merge(a)` does (different base registers are rejected both ways). -/
theorem merge_rejects_symm (a b : SReg) : (∃ r, merge a b = .ok r) ↔ (∃ r, merge b a = .ok r) := by
  rw [merge_ok_iff, merge_ok_iff, mergeable_symm]

theorem diff_base_rejected (a b : SReg) (h : mergeable a.base b.base = false) :
    merge a b = .error .differentBase ∧ verifiedMerge a b = .error .differentBase := by
  unfold merge verifiedMerge
  simp [mergeChecksBase, vmergeChecksBase, h]

theorem merge_comm {a b ra rb : SReg} (h₁ : merge a b = .ok ra) (h₂ : merge b a = .ok rb) :
    SetEq ra.ops rb.ops := by
  intro x
  rw [(merge_ops h₁).1, (merge_ops h₂).1, mem_unionOps, mem_unionOps]
  exact Or.comm

theorem merge_assoc {a b c ab abc bc abc' : SReg}
    (h₁ : merge a b = .ok ab) (h₂ : merge ab c = .ok abc)
    (h₃ : merge b c = .ok bc) (h₄ : merge a bc = .ok abc') : SetEq abc.ops abc'.ops := by
  intro x
  rw [(merge_ops h₂).1, (merge_ops h₁).1, (merge_ops h₄).1, (merge_ops h₃).1]
  simp only [mem_unionOps]
  exact or_assoc

theorem merge_idem (a : SReg) : merge a a = .ok a := by
  unfold merge
  simp only [mergeChecksBase, Bool.true_and, mergeable_refl]
  simp [unionOps_of_subset (s := a.ops) (t := a.ops) (fun _ h => h)]

/-- Merging what was already merged changes nothing (duplication of deliveries is harmless). -/
theorem merge_absorb {a b r : SReg} (h : merge a b = .ok r) : merge r b = .ok r := by
  have ⟨ho, hb⟩ := merge_ops h
  have hm : mergeable r.base b.base = true := by rw [hb]; exact (merge_ok_iff a b).mp ⟨r, h⟩
  unfold merge
  have : unionOps r.ops b.ops = r.ops :=
    unionOps_of_subset (fun x hx => by rw [ho, mem_unionOps]; exact Or.inr hx)
  simp only [mergeChecksBase, Bool.true_and, hm, this, Bool.not_true, Bool.false_eq_true, ↓reduceIte]

/-! ## Same set of delivered operations ⇒ same state, in any order and with any duplication -/

/-- Deliver ops one by one through `add_op`, ignoring refusals (what a replica does with incoming ops). -/
def deliver (r : SReg) : List Op → SReg
  | [] => r
  | op :: rest =>
    match addOp r op with
    | .ok r' => deliver r' rest
    | .error _ => deliver r rest

/-- `add_op` below the entry limit accepts exactly the statically valid ops. -/
theorem addOp_below_limit (r : SReg) (op : Op) (hlt : r.ops.length < maxNumEntries) :
    (Valid r.base op → addOp r op = .ok { r with ops := insertOp r.ops op }) ∧
    (¬ Valid r.base op → ∃ e, addOp r op = .error e) := by
  unfold addOp
  have hc : addOpCountCmp.rejects r.ops.length maxNumEntries = false := by
    simp [addOpCountCmp, Cmp.rejects]; omega
  simp only [hc, Bool.false_eq_true, ↓reduceIte]
  simp only [addOpSizeCmp, Cmp.rejects, addOpChecksOp, ↓reduceIte]
  constructor
  · intro ⟨h1, h2, h3⟩
    have : checkOp r.base op = .ok () := (checkOp_ok_iff _ _).mpr ⟨h1, h2⟩
    have hs : ¬ op.size > maxEntrySize := by omega
    simp [hs, this]
  · intro hv
    by_cases hs : op.size > maxEntrySize
    · simp [hs]
    · cases hck : checkOp r.base op with
      | error e => simp [hs]
      | ok u =>
        exfalso
        have := (checkOp_ok_iff _ _).mp (by cases u; exact hck)
        exact hv ⟨this.1, this.2, by omega⟩

theorem deliver_base (r : SReg) (l : List Op) : (deliver r l).base = r.base := by
  induction l generalizing r with
  | nil => rfl
  | cons op rest ih =>
    unfold deliver
    cases h : addOp r op with
    | error e => exact ih r
    | ok r' =>
      simp only
      rw [ih r']
      unfold addOp at h
      split at h; · cases h
      split at h; · cases h
      split at h
      · cases h
      · injection h with h; subst h; rfl

/-- Below the limit, the delivered state holds exactly the initial ops plus the valid delivered ones. -/
theorem deliver_mem (r : SReg) (l : List Op) (hlt : r.ops.length + l.length < maxNumEntries) (x : Op) :
    x ∈ (deliver r l).ops ↔ x ∈ r.ops ∨ (x ∈ l ∧ Valid r.base x) := by
  induction l generalizing r with
  | nil => simp [deliver]
  | cons op rest ih =>
    simp only [List.length_cons] at hlt
    have hb := addOp_below_limit r op (by omega)
    unfold deliver
    by_cases hv : Valid r.base op
    · rw [hb.1 hv]
      simp only
      have hl := length_insertOp_le r.ops op
      rw [ih _ (by simp only; omega)]
      simp only [mem_insertOp, List.mem_cons]
      constructor
      · rintro ((h | rfl) | ⟨h, hv'⟩)
        · exact Or.inl h
        · exact Or.inr ⟨Or.inl rfl, hv⟩
        · exact Or.inr ⟨Or.inr h, hv'⟩
      · rintro (h | ⟨rfl | h, hv'⟩)
        · exact Or.inl (Or.inl h)
        · exact Or.inl (Or.inr rfl)
        · exact Or.inr ⟨h, hv'⟩
    · obtain ⟨e, he⟩ := hb.2 hv
      rw [he]
      simp only
      rw [ih _ (by omega)]
      simp only [List.mem_cons]
      constructor
      · rintro (h | ⟨h, hv'⟩)
        · exact Or.inl h
        · exact Or.inr ⟨Or.inr h, hv'⟩
      · rintro (h | ⟨rfl | h, hv'⟩)
        · exact Or.inl h
        · exact absurd hv' hv
        · exact Or.inr ⟨h, hv'⟩

/-- **Convergence** (below the entry limit): replicas of one register that were delivered the same *set* of
operations — in any order, with any duplication — hold identical op sets. -/
theorem same_ops_same_state_partial (r : SReg) (l₁ l₂ : List Op)
    (hsame : ∀ x, x ∈ l₁ ↔ x ∈ l₂)
    (h₁ : r.ops.length + l₁.length < maxNumEntries) (h₂ : r.ops.length + l₂.length < maxNumEntries) :
    SetEq (deliver r l₁).ops (deliver r l₂).ops := by
  intro x
  rw [deliver_mem r l₁ h₁, deliver_mem r l₂ h₂, hsame x]

/-! ## Only authorised writes enter a replica -/

theorem addOp_sound {r r' : SReg} {op : Op} (h : addOp r op = .ok r')
    (hall : ∀ x ∈ r.ops, Valid r.base x) : r'.base = r.base ∧ ∀ x ∈ r'.ops, Valid r'.base x := by
  unfold addOp at h
  split at h; · cases h
  rename_i hcount
  split at h; · cases h
  rename_i hsize
  simp only [addOpChecksOp, ↓reduceIte] at h
  cases hck : checkOp r.base op with
  | error e => rw [hck] at h; cases h
  | ok u =>
    rw [hck] at h
    injection h with h; subst h
    refine ⟨rfl, ?_⟩
    intro x hx
    simp only [mem_insertOp] at hx
    rcases hx with hx | rfl
    · exact hall x hx
    · have := (checkOp_ok_iff _ _).mp (by cases u; exact hck)
      simp only [addOpSizeCmp, Cmp.rejects, decide_eq_true_eq] at hsize
      exact ⟨this.1, this.2, by omega⟩

/-- An op rejected statically never enters: wrong register, unpermitted signer, forged signature, oversized. -/
theorem addOp_rejects_invalid (r : SReg) (op : Op) (hv : ¬ Valid r.base op) : ∃ e, addOp r op = .error e := by
  cases h : addOp r op with
  | error e => exact ⟨e, rfl⟩
  | ok r' =>
    exfalso
    unfold addOp at h
    split at h; · cases h
    split at h; · cases h
    rename_i hsize
    simp only [addOpChecksOp, ↓reduceIte] at h
    cases hck : checkOp r.base op with
    | error e => rw [hck] at h; cases h
    | ok u =>
      have := (checkOp_ok_iff _ _).mp (by cases u; exact hck)
      simp only [addOpSizeCmp, Cmp.rejects, decide_eq_true_eq] at hsize
      exact hv ⟨this.1, this.2, by omega⟩

theorem verify_ok_all_valid {r : SReg} (h : verify r = .ok ()) :
    r.ownerSigOk = true ∧ r.ops.length ≤ maxNumEntries ∧ ∀ x ∈ r.ops, Valid r.base x := by
  unfold verify at h
  split at h; · cases h
  rename_i hc
  split at h; · cases h
  rename_i hs
  simp only [verifyCountCmp, Cmp.rejects, decide_eq_true_eq] at hc
  simp only [verifyChecksOwnerSig, Bool.true_and, Bool.not_eq_true', Bool.not_eq_false] at hs
  exact ⟨by cases h' : r.ownerSigOk <;> simp_all, by omega, (firstErr_ok_iff _ _).mp h⟩

theorem valid_of_mergeable {a b : Base} (h : mergeable a b = true) {x : Op} (hv : Valid b x) : Valid a x := by
  obtain ⟨h1, _, h3⟩ := (mergeable_iff a b).mp h
  unfold Valid at *
  rw [h1, h3]; exact hv

theorem verifiedMerge_sound {r o r' : SReg} (h : verifiedMerge r o = .ok r')
    (hall : ∀ x ∈ r.ops, Valid r.base x) : r'.base = r.base ∧ ∀ x ∈ r'.ops, Valid r'.base x := by
  unfold verifiedMerge at h
  split at h; · cases h
  rename_i hm
  simp only [vmergeChecksBase, Bool.true_and, Bool.not_eq_true', Bool.not_eq_false] at hm
  have hm' : mergeable r.base o.base = true := by cases h' : mergeable r.base o.base <;> simp_all
  simp only [vmergeVerifiesOther, ↓reduceIte] at h
  cases hv : verify o with
  | error e => rw [hv] at h; cases h
  | ok u =>
    rw [hv] at h
    injection h with h; subst h
    refine ⟨rfl, ?_⟩
    intro x hx
    simp only [mem_unionOps] at hx
    rcases hx with hx | hx
    · exact hall x hx
    · exact valid_of_mergeable hm' ((verify_ok_all_valid (by cases u; exact hv)).2.2 x hx)

/-- States a replica can reach from an owner-signed empty register through accepted `add_op`s and
accepted `verified_merge`s. -/
inductive Reach : SReg → Prop
  | init (b : Base) : Reach { base := b, ownerSigOk := true, ops := [] }
  | add {r r' : SReg} (op : Op) : Reach r → addOp r op = .ok r' → Reach r'
  | vmerge {r o r' : SReg} : Reach r → verifiedMerge r o = .ok r' → Reach r'

/-- **Authorisation**: every op in every reachable replica targets this register, is within the size
limit, and (unless the register is open to anyone) comes from a permitted signer with a valid signature. -/
theorem reach_all_valid {r : SReg} (h : Reach r) :
    r.ownerSigOk = true ∧ ∀ x ∈ r.ops, Valid r.base x := by
  induction h with
  | init b => exact ⟨rfl, by simp⟩
  | add op _ hadd ih =>
    refine ⟨?_, (addOp_sound hadd ih.2).2⟩
    unfold addOp at hadd
    split at hadd; · cases hadd
    split at hadd; · cases hadd
    split at hadd
    · cases hadd
    · injection hadd with h; subst h; exact ih.1
  | vmerge _ hm ih =>
    refine ⟨?_, (verifiedMerge_sound hm ih.2).2⟩
    unfold verifiedMerge at hm
    split at hm; · cases hm
    split at hm
    · cases hm
    · injection hm with h; subst h; exact ih.1

/-! ### The two unverified public entry points, as the tree calls them

`SignedRegister::merge` and `SignedRegister::new(.., ops)` check no operation. `rs2lean` lists every call of
either outside ant-registers (`Gen.Register.mergeCallSites`, `signedNewCallSites`) with whether the call has the
safe shape: each register handed to `merge` passed `verify()` first; `new` is given the empty op set. -/

/-- Every production call of `merge` verifies the registers it merges first. -/
theorem merge_call_sites_verify_first : mergeCallSites.all (·.2) = true := by decide

/-- Every production call of `SignedRegister::new` starts from the empty op set (`Reach.init`). -/
theorem signed_new_call_sites_empty : signedNewCallSites.all (·.2) = true := by decide

/-- `merge` of a register that passed `verify` is `verified_merge` of it. -/
theorem merge_of_verified_eq (r o : SReg) (hv : verify o = .ok ()) : merge r o = verifiedMerge r o := by
  unfold merge verifiedMerge
  simp [mergeChecksBase, vmergeChecksBase, vmergeVerifiesOther, hv]

/-- **`Reach` is closed under `merge` as it is called** (verify first, then merge): the call shape of
`mergeCallSites` adds no way into a replica beyond `verified_merge`. -/
theorem reach_merge_of_verified {r o r' : SReg} (hr : Reach r) (hv : verify o = .ok ())
    (hm : merge r o = .ok r') : Reach r' :=
  Reach.vmerge hr (by rw [← merge_of_verified_eq r o hv]; exact hm)

/-- …and without that precondition it is not: `merge` imports a forged op (why the call-site table matters). -/
theorem merge_unverified_imports_invalid_witness :
    let b : Base := { addr := 1, owner := 1, perms := .writers [1] }
    let bad : Op := { addr := 1, node := 9, children := [], size := 1, source := 2, sig := 7, sigOk := false }
    let r : SReg := { base := b, ownerSigOk := true, ops := [] }
    let o : SReg := { base := b, ownerSigOk := true, ops := [bad] }
    (∃ r', merge r o = .ok r' ∧ bad ∈ r'.ops) ∧ ¬ Valid b bad := by
  refine ⟨⟨_, rfl, by simp [unionOps, insertOp]⟩, ?_⟩
  intro h
  have := h.2.1
  simp [Perms.canWrite] at this

/-- **Reachable ⇒ verifiable** (within the entry limit): any state a replica reaches through accepted
operations and verified merges, holding at most `MAX_REG_NUM_ENTRIES` ops, passes `verify` everywhere. -/
theorem reachable_verifies_partial {r : SReg} (h : Reach r) (hlen : r.ops.length ≤ maxNumEntries) :
    verify r = .ok () := by
  obtain ⟨hs, hall⟩ := reach_all_valid h
  unfold verify
  have hc : verifyCountCmp.rejects r.ops.length maxNumEntries = false := by
    simp [verifyCountCmp, Cmp.rejects]; omega
  simp only [hc, verifyChecksOwnerSig, hs, Bool.not_true, Bool.and_false, Bool.false_eq_true, ↓reduceIte]
  exact (firstErr_ok_iff _ _).mpr hall

/-- `add_op` alone never leaves the verifiable region: it refuses once `MAX_REG_NUM_ENTRIES` ops are held. -/
theorem addOp_keeps_limit {r r' : SReg} {op : Op} (h : addOp r op = .ok r')
    (_hlen : r.ops.length ≤ maxNumEntries) : r'.ops.length ≤ maxNumEntries := by
  unfold addOp at h
  split at h; · cases h
  rename_i hc
  simp only [addOpCountCmp, Cmp.rejects, decide_eq_true_eq] at hc
  split at h; · cases h
  split at h
  · cases h
  · injection h with h; subst h
    have := length_insertOp_le r.ops op
    simp only; omega

/-- The full statement "every reachable state verifies" — FALSE of the current code, see the witness. -/
def ReachableVerifies : Prop := ∀ r, Reach r → verify r = .ok ()

/-- Known finding K-e: merges are not limited. A reachable replica holding the maximum, merged (verified)
with a reachable one-op replica holding a different op, reaches a state that `verify` rejects. -/
theorem merge_exceeds_limit_witness (r o : SReg) (x : Op)
    (hr : Reach r) (hfull : r.ops.length = maxNumEntries)
    (ho : verify o = .ok ()) (hm : mergeable r.base o.base = true) (hox : o.ops = [x]) (hx : x ∉ r.ops) :
    ∃ r', verifiedMerge r o = .ok r' ∧ Reach r' ∧ verify r' = .error (.tooManyEntries (maxNumEntries + 1)) := by
  have hvm : verifiedMerge r o = .ok { r with ops := unionOps r.ops o.ops } := by
    unfold verifiedMerge
    simp [vmergeChecksBase, vmergeVerifiesOther, hm, ho]
  refine ⟨_, hvm, Reach.vmerge hr hvm, ?_⟩
  have hlen : (unionOps r.ops o.ops).length = maxNumEntries + 1 := by
    rw [hox]; simp [unionOps, insertOp, hx, hfull]
  unfold verify
  simp [verifyCountCmp, Cmp.rejects, hlen]

/-! ## Across the entry limit: a concrete reachable replica holding `MAX_REG_NUM_ENTRIES` ops

`fillReg n`: the register `openBase` (anyone may write) after `n` accepted `add_op`s of `n` distinct ops. The
construction is generic in the generated constant `Gen.Register.maxNumEntries` (no small stand-in limit, no large
`decide`): every lemma is an induction. -/

def fillOp (addr k : Nat) : Op :=
  { addr := addr, node := k, children := [], size := 0, source := 0, sig := 0, sigOk := true }

def fillOps (addr n : Nat) : List Op := (List.range n).map (fillOp addr)

def openBase : Base := { addr := 1, owner := 1, perms := .anyone }

def fillReg (n : Nat) : SReg := { base := openBase, ownerSigOk := true, ops := fillOps 1 n }

theorem length_fillOps (a n : Nat) : (fillOps a n).length = n := by simp [fillOps]

theorem fillOps_succ (a n : Nat) : fillOps a (n + 1) = fillOps a n ++ [fillOp a n] := by
  simp [fillOps, List.range_succ]

theorem fillOp_not_mem {a n k : Nat} (h : n ≤ k) : fillOp a k ∉ fillOps a n := by
  intro hm
  obtain ⟨j, hj, e⟩ := List.mem_map.1 hm
  have : j = k := by
    have := congrArg Op.node e
    simpa [fillOp] using this
  subst this
  have := List.mem_range.1 hj
  omega

theorem fillOps_zero (a : Nat) : fillOps a 0 = [] := rfl

-- from here on `fillOps` is used through the four lemmas above only (keeps unification from unfolding
-- `List.range MAX_REG_NUM_ENTRIES`)
attribute [local irreducible] fillOps

theorem valid_fillOp (k : Nat) : Valid openBase (fillOp 1 k) :=
  ⟨rfl, Or.inl rfl, by simp [fillOp]⟩

theorem addOp_fillReg {n : Nat} (h : n < maxNumEntries) : addOp (fillReg n) (fillOp 1 n) = .ok (fillReg (n + 1)) := by
  have hb := (addOp_below_limit (fillReg n) (fillOp 1 n) (by simp [fillReg, length_fillOps]; exact h)).1 (valid_fillOp n)
  rw [hb]
  simp only [fillReg, fillOps_succ, insertOp, fillOp_not_mem (Nat.le_refl n), if_false]

/-- `fillReg n` is reachable through accepted `add_op`s alone, up to and including the limit. -/
theorem reach_fillReg (n : Nat) (h : n ≤ maxNumEntries) : Reach (fillReg n) := by
  induction n with
  | zero =>
    have e : fillReg 0 = { base := openBase, ownerSigOk := true, ops := [] } := by simp [fillReg, fillOps_zero]
    rw [e]; exact Reach.init openBase
  | succ n ih => exact Reach.add (fillOp 1 n) (ih (by omega)) (addOp_fillReg (by omega))

/-- a full replica refuses every further `add_op` -/
theorem addOp_full (r : SReg) (op : Op) (h : r.ops.length = maxNumEntries) :
    addOp r op = .error (.tooManyEntries r.ops.length) := by
  unfold addOp
  simp [addOpCountCmp, Cmp.rejects, h]

/-- the one-op replica of the same register holding op number `k` -/
def oneOpReg (k : Nat) : SReg := { base := openBase, ownerSigOk := true, ops := [fillOp 1 k] }

theorem reach_oneOpReg (k : Nat) : Reach (oneOpReg k) := by
  refine Reach.add (fillOp 1 k) (Reach.init openBase) ?_
  have hb := (addOp_below_limit { base := openBase, ownerSigOk := true, ops := [] } (fillOp 1 k)
    (by simp [maxNumEntries])).1 (valid_fillOp k)
  rw [hb]
  simp [oneOpReg, insertOp]

/-- **Witness K-e, instantiated.** There *are* reachable replicas `r` (holding exactly `MAX_REG_NUM_ENTRIES` ops,
accepted one by one by `add_op`, itself passing `verify`) and `o` (one accepted op, passing `verify`) of one register
such that `r.verified_merge(o)` succeeds and leaves `r` in a state that `verify` rejects with
`TooManyEntries(MAX_REG_NUM_ENTRIES + 1)`. -/
theorem merge_exceeds_limit_instance :
    ∃ r o r', Reach r ∧ r.ops.length = maxNumEntries ∧ verify r = .ok () ∧ Reach o ∧ verify o = .ok () ∧
      verifiedMerge r o = .ok r' ∧ Reach r' ∧ verify r' = .error (.tooManyEntries (maxNumEntries + 1)) := by
  have hr : Reach (fillReg maxNumEntries) := reach_fillReg _ (Nat.le_refl _)
  have hlen : (fillReg maxNumEntries).ops.length = maxNumEntries := by simp [fillReg, length_fillOps]
  have ho : Reach (oneOpReg maxNumEntries) := reach_oneOpReg _
  have hvo : verify (oneOpReg maxNumEntries) = .ok () :=
    reachable_verifies_partial ho (by simp [oneOpReg, maxNumEntries])
  have hx : fillOp 1 maxNumEntries ∉ (fillReg maxNumEntries).ops :=
    fillOp_not_mem (a := 1) (n := maxNumEntries) (k := maxNumEntries) (Nat.le_refl _)
  obtain ⟨r', h1, h2, h3⟩ := merge_exceeds_limit_witness (fillReg maxNumEntries) (oneOpReg maxNumEntries)
    (fillOp 1 maxNumEntries) hr hlen hvo (mergeable_refl _) rfl hx
  exact ⟨_, _, r', hr, hlen, reachable_verifies_partial hr (by omega), ho, hvo, h1, h2, h3⟩

/-- **The full statement is false of the current code** (known finding K-e). -/
theorem not_reachableVerifies : ¬ ReachableVerifies := by
  intro h
  obtain ⟨_, _, r', _, _, _, _, _, _, hr', hv⟩ := merge_exceeds_limit_instance
  rw [h r' hr'] at hv
  cases hv

/-- The full statement "replicas that have received the same set of valid operations, in any order and with any
duplication, hold identical operation sets" for deliveries through `add_op` — with no bound on the number of
operations. FALSE of the current code across `MAX_REG_NUM_ENTRIES`, see the witness. -/
def SameOpsSameState : Prop :=
  ∀ (r : SReg) (l₁ l₂ : List Op), Reach r → (∀ x, x ∈ l₁ ↔ x ∈ l₂) → SetEq (deliver r l₁).ops (deliver r l₂).ops

theorem deliver_pair_at_limit (r : SReg) (a b : Op) (hlen : r.ops.length + 1 = maxNumEntries)
    (ha : Valid r.base a) (har : a ∉ r.ops) : (deliver r [a, b]).ops = r.ops ++ [a] := by
  have h1 := (addOp_below_limit r a (by omega)).1 ha
  have hfull : ({ r with ops := insertOp r.ops a } : SReg).ops.length = maxNumEntries := by
    simp [insertOp, har]; omega
  have h2 := addOp_full { r with ops := insertOp r.ops a } b hfull
  simp only [deliver, h1, h2]
  simp [insertOp, har]

/-- **Witness (K-e, delivery order across the limit).** A replica one op short of the limit is offered the same two
valid new ops in the two possible orders: whichever comes first is accepted, the other is refused with
`TooManyEntries` — the two replicas have received the same set of valid operations and hold different op sets. -/
theorem deliver_diverges_across_limit (r : SReg) (a b : Op) (hlen : r.ops.length + 1 = maxNumEntries)
    (ha : Valid r.base a) (hb : Valid r.base b) (hab : a ≠ b) (har : a ∉ r.ops) (hbr : b ∉ r.ops) :
    (a ∈ (deliver r [a, b]).ops ∧ b ∉ (deliver r [a, b]).ops) ∧
    (b ∈ (deliver r [b, a]).ops ∧ a ∉ (deliver r [b, a]).ops) := by
  rw [deliver_pair_at_limit r a b hlen ha har, deliver_pair_at_limit r b a hlen hb hbr]
  refine ⟨⟨by simp, ?_⟩, ⟨by simp, ?_⟩⟩
  · simp only [List.mem_append, List.mem_singleton, not_or]; exact ⟨hbr, fun e => hab e.symm⟩
  · simp only [List.mem_append, List.mem_singleton, not_or]; exact ⟨har, hab⟩

/-- … instantiated on the reachable replica `fillReg (MAX_REG_NUM_ENTRIES - 1)`. -/
theorem same_ops_diverge_witness :
    ∃ r a b, Reach r ∧ Valid r.base a ∧ Valid r.base b ∧
      (∀ x, x ∈ [a, b] ↔ x ∈ [b, a]) ∧ a ∈ (deliver r [a, b]).ops ∧ a ∉ (deliver r [b, a]).ops := by
  have hpos : maxNumEntries - 1 + 1 = maxNumEntries := by simp [maxNumEntries]
  have hne : fillOp 1 maxNumEntries ≠ fillOp 1 (maxNumEntries + 1) := by
    intro e
    have := congrArg Op.node e
    simp [fillOp] at this
  have ha : fillOp 1 maxNumEntries ∉ (fillReg (maxNumEntries - 1)).ops :=
    fillOp_not_mem (a := 1) (n := maxNumEntries - 1) (k := maxNumEntries) (by omega)
  have hb : fillOp 1 (maxNumEntries + 1) ∉ (fillReg (maxNumEntries - 1)).ops :=
    fillOp_not_mem (a := 1) (n := maxNumEntries - 1) (k := maxNumEntries + 1) (by omega)
  have hl : (fillReg (maxNumEntries - 1)).ops.length + 1 = maxNumEntries := by
    show (fillOps 1 (maxNumEntries - 1)).length + 1 = maxNumEntries
    rw [length_fillOps]; exact hpos
  have hd := deliver_diverges_across_limit (fillReg (maxNumEntries - 1)) (fillOp 1 maxNumEntries)
    (fillOp 1 (maxNumEntries + 1)) hl (valid_fillOp _) (valid_fillOp _) hne ha hb
  exact ⟨_, _, _, reach_fillReg _ (by omega), valid_fillOp _, valid_fillOp _,
    fun x => by simp [or_comm], hd.1.1, hd.2.2⟩

theorem not_sameOpsSameState : ¬ SameOpsSameState := by
  intro h
  obtain ⟨r, a, b, hr, _, _, hs, hin, hout⟩ := same_ops_diverge_witness
  exact hout ((h r [a, b] [b, a] hr hs a).1 hin)

/-! ## Non-vacuity -/

def base0 : Base := { addr := 1, owner := 1, perms := .writers [1, 2] }
def opA : Op := { addr := 1, node := 10, children := [], size := 32, source := 2, sig := 0, sigOk := true }
def opForged : Op := { opA with sig := 7, sigOk := false }
def opForeign : Op := { opA with addr := 2 }
def opOutsider : Op := { opA with source := 3 }

example : Valid base0 opA := ⟨rfl, Or.inr ⟨rfl, rfl⟩, by decide⟩
example : addOp { base := base0, ownerSigOk := true, ops := [] } opA
    = .ok { base := base0, ownerSigOk := true, ops := [opA] } := by rfl
example : addOp { base := base0, ownerSigOk := true, ops := [] } opForged = .error .invalidSignature := by rfl
example : addOp { base := base0, ownerSigOk := true, ops := [] } opForeign = .error .addrMismatch := by rfl
example : addOp { base := base0, ownerSigOk := true, ops := [] } opOutsider = .error .accessDenied := by rfl
example : Reach { base := base0, ownerSigOk := true, ops := [opA] } :=
  Reach.add opA (Reach.init base0) (by rfl)

end SafeNet.Props.C06

#print axioms SafeNet.Props.C06.merge_rejects_symm
#print axioms SafeNet.Props.C06.diff_base_rejected
#print axioms SafeNet.Props.C06.merge_comm
#print axioms SafeNet.Props.C06.merge_assoc
#print axioms SafeNet.Props.C06.merge_idem
#print axioms SafeNet.Props.C06.merge_absorb
#print axioms SafeNet.Props.C06.same_ops_same_state_partial
#print axioms SafeNet.Props.C06.addOp_sound
#print axioms SafeNet.Props.C06.addOp_rejects_invalid
#print axioms SafeNet.Props.C06.verifiedMerge_sound
#print axioms SafeNet.Props.C06.reach_all_valid
#print axioms SafeNet.Props.C06.reachable_verifies_partial
#print axioms SafeNet.Props.C06.addOp_keeps_limit
#print axioms SafeNet.Props.C06.merge_exceeds_limit_witness
#print axioms SafeNet.Props.C06.reach_fillReg
#print axioms SafeNet.Props.C06.merge_exceeds_limit_instance
#print axioms SafeNet.Props.C06.not_reachableVerifies
#print axioms SafeNet.Props.C06.deliver_diverges_across_limit
#print axioms SafeNet.Props.C06.same_ops_diverge_witness
#print axioms SafeNet.Props.C06.not_sameOpsSameState

/-!
# C06, CRDT part — `MerkleReg` replicas that received the same set of nodes are identical observably

Model: `SafeNet.Model.MerkleReg` (`crdts-7.3.2` `MerkleReg::{apply, merge, read}`; tied to the real crate by
the correspondence run on `read()`/`size()`). A node is identified with its hash: the only hypothesis is
hash consistency of the delivered nodes (two delivered nodes with the same hash are the same node — SHA3
collision-freedom). `StateEquiv s t`: same dag members, same orphan members, same root hashes, same
`dag.len() + orphans.len()` (what `size()` reports).
-/
namespace SafeNet.Props.C06
open SafeNet.MerkleReg

/-- **Order- and duplication-independence of `apply`.** Two replicas that applied node lists with the same
members (any order, any repetition) hold the same dag, the same orphans, the same roots and the same size. -/
theorem crdt_apply_order_independent (l₁ l₂ : List Node)
    (hsame : ∀ n, n ∈ l₁ ↔ n ∈ l₂)
    (hcons : ∀ n ∈ l₁, ∀ m ∈ l₁, n.hash = m.hash → n = m) :
    StateEquiv (l₁.foldl MerkleReg.apply {}) (l₂.foldl MerkleReg.apply {}) := by
  exact equiv_of_inv (inv_of_list l₁ hcons) (inv_of_list l₂ (HC.congr hsame hcons)) hsame

/-- The part of `crdt_apply_order_independent` about the operation sets and `size()` only. -/
theorem crdt_apply_order_independent_dag (l₁ l₂ : List Node)
    (hsame : ∀ n, n ∈ l₁ ↔ n ∈ l₂)
    (hcons : ∀ n ∈ l₁, ∀ m ∈ l₁, n.hash = m.hash → n = m) :
    let s₁ := l₁.foldl MerkleReg.apply {}
    let s₂ := l₂.foldl MerkleReg.apply {}
    (∀ n, n ∈ s₁.dag ↔ n ∈ s₂.dag) ∧ (∀ n, n ∈ s₁.orphans ↔ n ∈ s₂.orphans) ∧
      s₁.dag.length + s₁.orphans.length = s₂.dag.length + s₂.orphans.length :=
  have e := crdt_apply_order_independent l₁ l₂ hsame hcons
  ⟨e.dag, e.orphans, e.size⟩

/-- **Identical current values**: `read()` returns the same set of hashes on both replicas. -/
theorem crdt_read_order_independent (l₁ l₂ : List Node)
    (hsame : ∀ n, n ∈ l₁ ↔ n ∈ l₂)
    (hcons : ∀ n ∈ l₁, ∀ m ∈ l₁, n.hash = m.hash → n = m) :
    ∀ h, h ∈ read (l₁.foldl MerkleReg.apply {}) ↔ h ∈ read (l₂.foldl MerkleReg.apply {}) :=
  (crdt_apply_order_independent l₁ l₂ hsame hcons).read

/-- **What the state is**, as a function of the set of delivered nodes only: the dag holds the delivered
nodes whose whole ancestry was delivered (`InDag`, a least fixpoint: `inDag_unfold`), the orphans are the
other delivered nodes, and `read()` returns the hashes of dag nodes that no dag node names as a child. -/
theorem crdt_state_characterisation (l : List Node)
    (hcons : ∀ n ∈ l, ∀ m ∈ l, n.hash = m.hash → n = m) :
    let s := l.foldl MerkleReg.apply {}
    (∀ n, n ∈ s.dag ↔ InDag l n) ∧ (∀ n, n ∈ s.orphans ↔ n ∈ l ∧ ¬ InDag l n) ∧
    (∀ h, h ∈ read s ↔ (∃ x, InDag l x ∧ x.hash = h) ∧ ¬ ∃ p, InDag l p ∧ h ∈ p.children) ∧
    (s.dag ++ s.orphans).Nodup := by
  have i : Inv l (l.foldl MerkleReg.apply {}) := inv_of_list l hcons
  exact ⟨i.mem_dag, i.mem_orphans, i.mem_read, i.nodup.nodup⟩

/-- **Merge converges**: merging two replicas in either direction gives equivalent states, and both equal
(observably) the state of a replica that applied every node itself. -/
theorem crdt_merge_converges (l₁ l₂ : List Node)
    (hcons : ∀ n ∈ l₁ ++ l₂, ∀ m ∈ l₁ ++ l₂, n.hash = m.hash → n = m) :
    let a := l₁.foldl MerkleReg.apply {}
    let b := l₂.foldl MerkleReg.apply {}
    StateEquiv (MerkleReg.merge a b) (MerkleReg.merge b a) ∧
      StateEquiv (MerkleReg.merge a b) ((l₁ ++ l₂).foldl MerkleReg.apply {}) := by
  intro a b
  have hc : HC (l₁ ++ l₂) := hcons
  have hc' : HC (l₂ ++ l₁) := hc.congr (fun x => by simp [or_comm])
  have ia : Inv l₁ a := inv_of_list l₁ (hc.sub (fun x hx => List.mem_append_left _ hx))
  have ib : Inv l₂ b := inv_of_list l₂ (hc.sub (fun x hx => List.mem_append_right _ hx))
  have iall : Inv (l₁ ++ l₂) ((l₁ ++ l₂).foldl MerkleReg.apply {}) := inv_of_list _ hc
  exact ⟨equiv_of_inv (inv_merge ia ib hc') (inv_merge ib ia hc) (fun x => by simp [or_comm]),
    equiv_of_inv (inv_merge ia ib hc') iall (fun x => by simp [or_comm])⟩

theorem crdt_merge_read_converges (l₁ l₂ : List Node)
    (hcons : ∀ n ∈ l₁ ++ l₂, ∀ m ∈ l₁ ++ l₂, n.hash = m.hash → n = m) :
    let a := l₁.foldl MerkleReg.apply {}
    let b := l₂.foldl MerkleReg.apply {}
    ∀ h, h ∈ read (MerkleReg.merge a b) ↔ h ∈ read (MerkleReg.merge b a) :=
  (crdt_merge_converges l₁ l₂ hcons).1.read

/-- **General form**: any two replicas reached from the empty register through any interleaving of `apply`s
and `merge`s with other reachable replicas (`MerkleReg.Reach R s`, `R` the nodes received, with repetitions), having
received the same set of hash-consistent nodes, are equivalent and `read` the same values. -/
theorem crdt_reachable_converge {R₁ R₂ : List Node} {s₁ s₂ : MReg}
    (r₁ : MerkleReg.Reach R₁ s₁) (r₂ : MerkleReg.Reach R₂ s₂) (hsame : ∀ n, n ∈ R₁ ↔ n ∈ R₂)
    (hcons : ∀ n ∈ R₁, ∀ m ∈ R₁, n.hash = m.hash → n = m) :
    StateEquiv s₁ s₂ ∧ ∀ h, h ∈ read s₁ ↔ h ∈ read s₂ :=
  have e := equiv_of_inv (reach_inv r₁ hcons) (reach_inv r₂ (HC.congr hsame hcons)) hsame
  ⟨e, e.read⟩

/-- Merging a replica into itself (or re-merging what was merged) changes nothing observable. -/
theorem crdt_merge_idem {R : List Node} {s : MReg} (r : MerkleReg.Reach R s)
    (hcons : ∀ n ∈ R, ∀ m ∈ R, n.hash = m.hash → n = m) : StateEquiv (MerkleReg.merge s s) s :=
  (crdt_reachable_converge (MerkleReg.Reach.merge r r) r (fun n => by simp) (HC.congr (fun n => by simp) hcons)).1

/-! ## Equal op sets present identical current values (the two models connected)

A replica's op set (`SafeNet.Register`, a `BTreeSet<RegisterOp>`) and the CRDT that presents its current value
(`SafeNet.MerkleReg`) are tied as the code ties them: the client builds the `RegisterCrdt` of a fetched replica by
applying every op of `signed_reg.ops()` (`autonomi::client::registers::register_get`; `Register::merge`/`update` keep
the two in step the same way), and `RegisterCrdt::apply_op` hands the op's `crdt_op` node to `MerkleReg::apply`. -/

/-- the CRDT node a register op carries (`RegisterOp::crdt_op`: hash, children; the value is part of the hash) -/
def nodeOf (op : SafeNet.Register.Op) : Node := { hash := op.node, children := op.children }

/-- the CRDT state of a replica holding `ops`: every op applied, in the order the set lists them (the list order
stands for the `BTreeSet` order — any order gives an equivalent state, see below) -/
def crdtOf (ops : List SafeNet.Register.Op) : MReg := (ops.map nodeOf).foldl MerkleReg.apply {}

/-- hash consistency of the ops of a replica: the node hash determines the node (SHA3 collision-freedom) -/
def NodeConsistent (ops : List SafeNet.Register.Op) : Prop :=
  ∀ x ∈ ops, ∀ y ∈ ops, x.node = y.node → x.children = y.children

theorem crdtOf_equiv (a b : List SafeNet.Register.Op) (h : SafeNet.Register.SetEq a b) (hc : NodeConsistent a) :
    StateEquiv (crdtOf a) (crdtOf b) := by
  apply crdt_apply_order_independent
  · intro n
    simp only [List.mem_map]
    constructor
    · rintro ⟨x, hx, e⟩; exact ⟨x, (h x).1 hx, e⟩
    · rintro ⟨x, hx, e⟩; exact ⟨x, (h x).2 hx, e⟩
  · intro n hn m hm hnm
    obtain ⟨x, hx, ex⟩ := List.mem_map.1 hn
    obtain ⟨y, hy, ey⟩ := List.mem_map.1 hm
    subst ex; subst ey
    simp only [nodeOf] at hnm ⊢
    rw [hnm, hc x hx y hy hnm]

/-- **Identical op sets ⇒ identical current values.** Two replicas whose op sets are equal (`SetEq`: in any order
of arrival, with any duplication — lists stand for sets) present the same `read()`: the same set of current entry
hashes; and the same CRDT state altogether (dag, orphans, roots, size). -/
theorem same_ops_same_read (a b : List SafeNet.Register.Op) (h : SafeNet.Register.SetEq a b) (hc : NodeConsistent a) :
    ∀ v, v ∈ read (crdtOf a) ↔ v ∈ read (crdtOf b) :=
  (crdtOf_equiv a b h hc).read

/-- **Convergence, end to end** (below the entry limit): replicas of one register that were delivered the same set
of operations through `add_op` — in any order, with any duplication — hold identical op sets *and* present identical
current values. -/
theorem same_deliveries_same_values_partial (r : SafeNet.Register.SReg) (l₁ l₂ : List SafeNet.Register.Op)
    (hsame : ∀ x, x ∈ l₁ ↔ x ∈ l₂)
    (h₁ : r.ops.length + l₁.length < SafeNet.Gen.Register.maxNumEntries)
    (h₂ : r.ops.length + l₂.length < SafeNet.Gen.Register.maxNumEntries)
    (hc : NodeConsistent (deliver r l₁).ops) :
    SafeNet.Register.SetEq (deliver r l₁).ops (deliver r l₂).ops ∧
    ∀ v, v ∈ read (crdtOf (deliver r l₁).ops) ↔ v ∈ read (crdtOf (deliver r l₂).ops) :=
  have e := same_ops_same_state_partial r l₁ l₂ hsame h₁ h₂
  ⟨e, same_ops_same_read _ _ e hc⟩

/-- Replicas merged in either order present identical current values. -/
theorem merge_comm_same_read {a b ra rb : SafeNet.Register.SReg}
    (h₁ : SafeNet.Register.merge a b = .ok ra) (h₂ : SafeNet.Register.merge b a = .ok rb)
    (hc : NodeConsistent ra.ops) : ∀ v, v ∈ read (crdtOf ra.ops) ↔ v ∈ read (crdtOf rb.ops) :=
  same_ops_same_read _ _ (merge_comm h₁ h₂) hc

-- two replicas holding the same three ops in different list orders (one chain, delivered child-last to the second)
example :
    let o1 : SafeNet.Register.Op := { addr := 1, node := 1, children := [], size := 1, source := 1, sig := 0, sigOk := true }
    let o2 : SafeNet.Register.Op := { o1 with node := 2, children := [1] }
    let o3 : SafeNet.Register.Op := { o1 with node := 3, children := [2] }
    read (crdtOf [o1, o2, o3]) = [3] ∧ read (crdtOf [o3, o2, o1]) = [3] := by decide

/-! ## The client's two views of one register (autonomi `Register { signed_reg, crdt_reg }`)

`values()` reads the CRDT half; `register_create` / `register_update` serialise, upload and pay for the signed half.
`write_atop` is the only production caller of `add_op`. -/

open SafeNet.ClientRegister in
/-- Client registers as the client builds them: `Register::new`, a fetched register (`register_get`), and any number
of `write_atop`s of any op (any entry, any signing key). -/
inductive ClientReach : CReg → Prop
  | new (b : SafeNet.Register.Base) : ClientReach (CReg.empty b)
  | fetched (s : SafeNet.Register.SReg) : ClientReach (ofSigned s)
  | write {c : CReg} (op : SafeNet.Register.Op) : ClientReach c →
      ClientReach (writeOpWith SafeNet.Gen.Register.clientWritePropagates c op).1

open SafeNet.ClientRegister in
theorem nodeOf_eq_opNode : nodeOf = opNode := rfl

open SafeNet.ClientRegister in
theorem addOp_ops {r r' : SafeNet.Register.SReg} {op : SafeNet.Register.Op}
    (h : SafeNet.Register.addOp r op = .ok r') : r'.ops = SafeNet.Register.insertOp r.ops op := by
  unfold SafeNet.Register.addOp at h
  split at h; · cases h
  split at h; · cases h
  split at h
  · cases h
  · injection h with h; subst h; rfl

open SafeNet.ClientRegister in
/-- the CRDT half has received exactly the nodes of the ops the signed half holds -/
theorem client_reach_nodes {c : CReg} (h : ClientReach c) :
    ∃ R, MerkleReg.Reach R c.crdt ∧ ∀ n, n ∈ R ↔ n ∈ c.signed.ops.map opNode := by
  induction h with
  | new b => exact ⟨[], MerkleReg.Reach.init, by simp [CReg.empty]⟩
  | fetched s =>
    refine ⟨(s.ops.map opNode).reverse ++ [], MerkleReg.reach_foldl _ MerkleReg.Reach.init, ?_⟩
    intro n; simp [ofSigned]
  | write op _ ih =>
    obtain ⟨R, hr, hm⟩ := ih
    rename_i c _
    unfold writeOpWith
    have hp : SafeNet.Gen.Register.clientWritePropagates = true := by decide
    cases ha : SafeNet.Register.addOp c.signed op with
    | ok s' =>
      refine ⟨opNode op :: R, MerkleReg.Reach.apply _ hr, ?_⟩
      intro n
      simp only [List.mem_cons, hm, addOp_ops ha, List.mem_map, SafeNet.Register.mem_insertOp]
      constructor
      · rintro (rfl | ⟨x, hx, rfl⟩)
        · exact ⟨op, Or.inr rfl, rfl⟩
        · exact ⟨x, Or.inl hx, rfl⟩
      · rintro ⟨x, hx | rfl, rfl⟩
        · exact Or.inr ⟨x, hx, rfl⟩
        · exact Or.inl rfl
    | error e =>
      simp only [hp, ↓reduceIte]
      exact ⟨R, hr, hm⟩

open SafeNet.ClientRegister in
/-- **The client's two views agree.** Whatever was written through `write_atop` — accepted or refused (entry over
`MAX_REG_ENTRY_SIZE`, signer outside the writers, entry cap reached) — the CRDT half that `values()` reads is the
CRDT of the op set of the signed half that is uploaded: same dag, same orphans, same current values. -/
theorem client_register_views_agree {c : CReg} (h : ClientReach c) (hc : NodeConsistent c.signed.ops) :
    StateEquiv c.crdt (crdtOf c.signed.ops) ∧ ∀ v, v ∈ read c.crdt ↔ v ∈ read (crdtOf c.signed.ops) := by
  obtain ⟨R, hr, hm⟩ := client_reach_nodes h
  have hR : ∀ n ∈ R, ∀ m ∈ R, n.hash = m.hash → n = m := by
    intro n hn m hm' hnm
    obtain ⟨x, hx, ex⟩ := List.mem_map.1 ((hm n).1 hn)
    obtain ⟨y, hy, ey⟩ := List.mem_map.1 ((hm m).1 hm')
    subst ex; subst ey
    simp only [opNode] at hnm ⊢
    rw [hnm, hc x hx y hy hnm]
  have r₂ : MerkleReg.Reach ((c.signed.ops.map nodeOf).reverse ++ []) (crdtOf c.signed.ops) :=
    MerkleReg.reach_foldl _ MerkleReg.Reach.init
  exact crdt_reachable_converge hr r₂ (fun n => by rw [hm n, nodeOf_eq_opNode]; simp) hR

open SafeNet.ClientRegister in
/-- A refused write changes neither half and is reported; an accepted one is held by the signed half. -/
theorem client_write_outcome (c : CReg) (op : SafeNet.Register.Op) :
    (∀ e, (writeOpWith SafeNet.Gen.Register.clientWritePropagates c op).2 = .error e →
        (writeOpWith SafeNet.Gen.Register.clientWritePropagates c op).1 = c ∧ SafeNet.Register.addOp c.signed op = .error e) ∧
    ((writeOpWith SafeNet.Gen.Register.clientWritePropagates c op).2 = .ok () →
        op ∈ (writeOpWith SafeNet.Gen.Register.clientWritePropagates c op).1.signed.ops) := by
  have hp : SafeNet.Gen.Register.clientWritePropagates = true := by decide
  unfold writeOpWith
  cases ha : SafeNet.Register.addOp c.signed op with
  | ok s' =>
    refine ⟨fun e h => (nomatch h), fun _ => ?_⟩
    simp [addOp_ops ha, SafeNet.Register.mem_insertOp]
  | error e =>
    simp only [hp, ↓reduceIte]
    refine ⟨fun e' h => ?_, fun h => (nomatch h)⟩
    injection h with h
    subst h
    simp

open SafeNet.ClientRegister in
/-- Witness for the shape before the repair (`let _ = self.signed_reg.add_op(op)` after the entry was applied to the
CRDT half): key 2 is not a writer; `write_atop` returns Ok, `values()` shows entry 7, the signed register that
`register_update` uploads (and pays for) holds nothing. -/
theorem client_views_diverge_witness :
    let c := CReg.empty (newBase 1 1 (.writers []))
    let r := writeOpWith false c (mkOp c 7 16 2)
    r.2 = .ok () ∧ read r.1.crdt = [7] ∧ r.1.signed.ops = [] ∧ read (crdtOf r.1.signed.ops) = [] := by
  refine ⟨rfl, by decide, rfl, by decide⟩

/-! ## What is signed: a platform-dependent 64-bit digest (a limit of the code, stated — not a theorem about validity)

`RegisterOp::new` signs `DefaultHasher` (unkeyed SipHash-1-3, 64 bit) of the stream below, exported with
`to_ne_bytes`. The model's one-Boolean-per-op signature treats that digest as injective and the same on every
platform; neither holds: -/

open SafeNet.RegisterDigest in
/-- The stream hashed on a 32-bit target is never the stream hashed on a 64-bit target, whatever the op: four
`usize` length prefixes of 4 resp. 8 bytes. An op signed by a wasm32 client carries a signature over a different
digest than the one a 64-bit node recomputes. -/
theorem digest_layout_width_dependent_witness (l₁ l₂ : Bool) (m o n s : List Nat) :
    digestInput 4 l₁ m o n s ≠ digestInput 8 l₂ m o n s := by
  intro h
  have hl := congrArg List.length h
  have u : ∀ w l k, (usizeBytes w l k).length = w := by
    intro w l k; unfold usizeBytes; cases l <;> simp
  simp only [digestInput, sliceHash, List.length_append, u] at hl
  omega

open SafeNet.RegisterDigest in
/-- …and on one width the byte order of the target shows in the prefixes (32 = `20 00 00 00 00 00 00 00` vs
`00 00 00 00 00 00 00 20`). -/
theorem digest_layout_endian_dependent_witness :
    digestInput 8 true [1] [2] [3] [4] ≠ digestInput 8 false [1] [2] [3] [4] := by decide

/-! ## Non-vacuity (CRDT part) -/

def n1 : Node := { hash := 1, children := [] }
def n2 : Node := { hash := 2, children := [1] }
def n3 : Node := { hash := 3, children := [2] }
def n4 : Node := { hash := 4, children := [1] }

/-- A 3-node chain delivered child-last (two orphans drained by the last delivery) vs child-first. -/
example : read ([n3, n2, n1].foldl MerkleReg.apply {}) = [3] ∧
    read ([n1, n2, n3].foldl MerkleReg.apply {}) = [3] := by decide
example : ([n3, n2].foldl MerkleReg.apply {}).orphans = [n3, n2] ∧
    ([n3, n2, n1].foldl MerkleReg.apply {}).dag = [n1, n2, n3] := by decide
/-- Two concurrent branches, with duplication and different orders: same two current values. -/
example : read ([n4, n3, n3, n2, n1, n4].foldl MerkleReg.apply {}) = [4, 3] ∧
    read ([n1, n4, n2, n1, n3].foldl MerkleReg.apply {}) = [4, 3] := by decide
example : read (MerkleReg.merge ([n3, n2].foldl MerkleReg.apply {}) ([n1, n4].foldl MerkleReg.apply {}))
    = [3, 4] := by decide
example : InDag [n3, n2, n1] n3 :=
  ⟨by simp, fun c hc => by
    have : c = 2 := by simpa [n3] using hc
    subst this
    exact Grounded.mk n2 (by simp) (fun c hc => by
      have : c = 1 := by simpa [n2] using hc
      subst this
      exact Grounded.mk n1 (by simp) (fun c hc => by simp [n1] at hc))⟩
/-- The hash-consistency hypothesis is needed: with two different nodes under one hash the first one wins. -/
example : read ([n2, ⟨2, []⟩].foldl MerkleReg.apply {}) ≠ read ([⟨2, []⟩, n2].foldl MerkleReg.apply {}) := by
  decide

end SafeNet.Props.C06

#print axioms SafeNet.Props.C06.crdt_apply_order_independent
#print axioms SafeNet.Props.C06.crdt_apply_order_independent_dag
#print axioms SafeNet.Props.C06.crdt_read_order_independent
#print axioms SafeNet.Props.C06.crdt_state_characterisation
#print axioms SafeNet.Props.C06.crdt_merge_converges
#print axioms SafeNet.Props.C06.crdt_merge_read_converges
#print axioms SafeNet.Props.C06.crdt_reachable_converge
#print axioms SafeNet.Props.C06.crdt_merge_idem
#print axioms SafeNet.Props.C06.crdtOf_equiv
#print axioms SafeNet.Props.C06.same_ops_same_read
#print axioms SafeNet.Props.C06.same_deliveries_same_values_partial
#print axioms SafeNet.Props.C06.merge_comm_same_read
#print axioms SafeNet.Props.C06.digest_layout_width_dependent_witness
#print axioms SafeNet.Props.C06.digest_layout_endian_dependent_witness
#print axioms SafeNet.Props.C06.client_register_views_agree
#print axioms SafeNet.Props.C06.client_write_outcome
#print axioms SafeNet.Props.C06.client_views_diverge_witness
#print axioms SafeNet.Props.C06.merge_call_sites_verify_first
#print axioms SafeNet.Props.C06.signed_new_call_sites_empty
#print axioms SafeNet.Props.C06.reach_merge_of_verified
#print axioms SafeNet.Props.C06.merge_unverified_imports_invalid_witness
