import SafeNet.Proofs.Register
import SafeNet.Proofs.MerkleReg
/-!
# C06 — register replicas converge and accept only authorised writes

Model: `SafeNet.Model.Register` (`SignedRegister::{verify, add_op, merge, verified_merge}`,
`Register::check_register_op`) instantiated with the limits, comparators and check-presence flags that
`rs2lean` regenerates from `ant-registers/src/register.rs` (`SafeNet.Gen.Register`).
A `BTreeSet<RegisterOp>` is a duplicate-free list observed through membership: `SetEq`.
-/
namespace SafeNet.Props.C06
open SafeNet.Register SafeNet.Gen.Register

/-! ## Merge is commutative, associative, idempotent (on the op sets); unequal bases are rejected symmetrically -/

theorem merge_ok_iff (a b : SReg) : (∃ r, merge a b = .ok r) ↔ mergeable a.base b.base = true := by
  unfold merge
  simp only [mergeChecksBase, Bool.true_and]
  by_cases h : mergeable a.base b.base = true <;> simp [h]

theorem merge_ops {a b r : SReg} (h : merge a b = .ok r) : r.ops = unionOps a.ops b.ops ∧ r.base = a.base := by
  unfold merge at h
  split at h
  · cases h
  · injection h with h; subst h; exact ⟨rfl, rfl⟩

/-- `a.merge(b)` succeeds iff `b.merge(a)` does (different base registers are rejected both ways). -/
theorem merge_rejects_symm (a b : SReg) : (∃ r, merge a b = .ok r) ↔ (∃ r, merge b a = .ok r) := by
  rw [merge_ok_iff, merge_ok_iff, mergeable_symm]

theorem diff_base_rejected (a b : SReg) (h : mergeable a.base b.base = false) :
    merge a b = .error .differentBase ∧ verifiedMerge a b = .error .differentBase := by
  unfold merge verifiedMerge
  simp [mergeChecksBase, vmergeChecksBase, h]

theorem merge_comm {a b ra rb : SReg} (h₁ : merge a b = .ok ra) (h₂ : merge b a = .ok rb) :
    SetEq ra.ops rb.ops := by
  intro x
  rw [(merge_ops h₁).1, (merge_ops h₂).1, mem_unionOps, mem_unionOps]
  exact Or.comm

theorem merge_assoc {a b c ab abc bc abc' : SReg}
    (h₁ : merge a b = .ok ab) (h₂ : merge ab c = .ok abc)
    (h₃ : merge b c = .ok bc) (h₄ : merge a bc = .ok abc') : SetEq abc.ops abc'.ops := by
  intro x
  rw [(merge_ops h₂).1, (merge_ops h₁).1, (merge_ops h₄).1, (merge_ops h₃).1]
  simp only [mem_unionOps]
  exact or_assoc

theorem merge_idem (a : SReg) : merge a a = .ok a := by
  unfold merge
  simp only [mergeChecksBase, Bool.true_and, mergeable_refl]
  simp [unionOps_of_subset (s := a.ops) (t := a.ops) (fun _ h => h)]

/-- Merging what was already merged changes nothing (duplication of deliveries is harmless). -/
theorem merge_absorb {a b r : SReg} (h : merge a b = .ok r) : merge r b = .ok r := by
  have ⟨ho, hb⟩ := merge_ops h
  have hm : mergeable r.base b.base = true := by rw [hb]; exact (merge_ok_iff a b).mp ⟨r, h⟩
  unfold merge
  have : unionOps r.ops b.ops = r.ops :=
    unionOps_of_subset (fun x hx => by rw [ho, mem_unionOps]; exact Or.inr hx)
  simp only [mergeChecksBase, Bool.true_and, hm, this, Bool.not_true, Bool.false_eq_true, ↓reduceIte]

/-! ## Same set of delivered operations ⇒ same state, in any order and with any duplication -/

/-- Deliver ops one by one through `add_op`, ignoring refusals (what a replica does with incoming ops). -/
def deliver (r : SReg) : List Op → SReg
  | [] => r
  | op :: rest =>
    match addOp r op with
    | .ok r' => deliver r' rest
    | .error _ => deliver r rest

/-- `add_op` below the entry limit accepts exactly the statically valid ops. -/
theorem addOp_below_limit (r : SReg) (op : Op) (hlt : r.ops.length < maxNumEntries) :
    (Valid r.base op → addOp r op = .ok { r with ops := insertOp r.ops op }) ∧
    (¬ Valid r.base op → ∃ e, addOp r op = .error e) := by
  unfold addOp
  have hc : addOpCountCmp.rejects r.ops.length maxNumEntries = false := by
    simp [addOpCountCmp, Cmp.rejects]; omega
  simp only [hc, Bool.false_eq_true, ↓reduceIte]
  simp only [addOpSizeCmp, Cmp.rejects, addOpChecksOp, ↓reduceIte]
  constructor
  · intro ⟨h1, h2, h3⟩
    have : checkOp r.base op = .ok () := (checkOp_ok_iff _ _).mpr ⟨h1, h2⟩
    have hs : ¬ op.size > maxEntrySize := by omega
    simp [hs, this]
  · intro hv
    by_cases hs : op.size > maxEntrySize
    · simp [hs]
    · cases hck : checkOp r.base op with
      | error e => simp [hs]
      | ok u =>
        exfalso
        have := (checkOp_ok_iff _ _).mp (by cases u; exact hck)
        exact hv ⟨this.1, this.2, by omega⟩

theorem deliver_base (r : SReg) (l : List Op) : (deliver r l).base = r.base := by
  induction l generalizing r with
  | nil => rfl
  | cons op rest ih =>
    unfold deliver
    cases h : addOp r op with
    | error e => exact ih r
    | ok r' =>
      simp only
      rw [ih r']
      unfold addOp at h
      split at h; · cases h
      split at h; · cases h
      split at h
      · cases h
      · injection h with h; subst h; rfl

/-- Below the limit, the delivered state holds exactly the initial ops plus the valid delivered ones. -/
theorem deliver_mem (r : SReg) (l : List Op) (hlt : r.ops.length + l.length < maxNumEntries) (x : Op) :
    x ∈ (deliver r l).ops ↔ x ∈ r.ops ∨ (x ∈ l ∧ Valid r.base x) := by
  induction l generalizing r with
  | nil => simp [deliver]
  | cons op rest ih =>
    simp only [List.length_cons] at hlt
    have hb := addOp_below_limit r op (by omega)
    unfold deliver
    by_cases hv : Valid r.base op
    · rw [hb.1 hv]
      simp only
      have hl := length_insertOp_le r.ops op
      rw [ih _ (by simp only; omega)]
      simp only [mem_insertOp, List.mem_cons]
      constructor
      · rintro ((h | rfl) | ⟨h, hv'⟩)
        · exact Or.inl h
        · exact Or.inr ⟨Or.inl rfl, hv⟩
        · exact Or.inr ⟨Or.inr h, hv'⟩
      · rintro (h | ⟨rfl | h, hv'⟩)
        · exact Or.inl (Or.inl h)
        · exact Or.inl (Or.inr rfl)
        · exact Or.inr ⟨h, hv'⟩
    · obtain ⟨e, he⟩ := hb.2 hv
      rw [he]
      simp only
      rw [ih _ (by omega)]
      simp only [List.mem_cons]
      constructor
      · rintro (h | ⟨h, hv'⟩)
        · exact Or.inl h
        · exact Or.inr ⟨Or.inr h, hv'⟩
      · rintro (h | ⟨rfl | h, hv'⟩)
        · exact Or.inl h
        · exact absurd hv' hv
        · exact Or.inr ⟨h, hv'⟩

/-- **Convergence** (below the entry limit): replicas of one register that were delivered the same *set* of
operations — in any order, with any duplication — hold identical op sets. -/
theorem same_ops_same_state_partial (r : SReg) (l₁ l₂ : List Op)
    (hsame : ∀ x, x ∈ l₁ ↔ x ∈ l₂)
    (h₁ : r.ops.length + l₁.length < maxNumEntries) (h₂ : r.ops.length + l₂.length < maxNumEntries) :
    SetEq (deliver r l₁).ops (deliver r l₂).ops := by
  intro x
  rw [deliver_mem r l₁ h₁, deliver_mem r l₂ h₂, hsame x]

/-! ## Only authorised writes enter a replica -/

theorem addOp_sound {r r' : SReg} {op : Op} (h : addOp r op = .ok r')
    (hall : ∀ x ∈ r.ops, Valid r.base x) : r'.base = r.base ∧ ∀ x ∈ r'.ops, Valid r'.base x := by
  unfold addOp at h
  split at h; · cases h
  rename_i hcount
  split at h; · cases h
  rename_i hsize
  simp only [addOpChecksOp, ↓reduceIte] at h
  cases hck : checkOp r.base op with
  | error e => rw [hck] at h; cases h
  | ok u =>
    rw [hck] at h
    injection h with h; subst h
    refine ⟨rfl, ?_⟩
    intro x hx
    simp only [mem_insertOp] at hx
    rcases hx with hx | rfl
    · exact hall x hx
    · have := (checkOp_ok_iff _ _).mp (by cases u; exact hck)
      simp only [addOpSizeCmp, Cmp.rejects, decide_eq_true_eq] at hsize
      exact ⟨this.1, this.2, by omega⟩

/-- An op rejected statically never enters: wrong register, unpermitted signer, forged signature, oversized. -/
theorem addOp_rejects_invalid (r : SReg) (op : Op) (hv : ¬ Valid r.base op) : ∃ e, addOp r op = .error e := by
  cases h : addOp r op with
  | error e => exact ⟨e, rfl⟩
  | ok r' =>
    exfalso
    unfold addOp at h
    split at h; · cases h
    split at h; · cases h
    rename_i hsize
    simp only [addOpChecksOp, ↓reduceIte] at h
    cases hck : checkOp r.base op with
    | error e => rw [hck] at h; cases h
    | ok u =>
      have := (checkOp_ok_iff _ _).mp (by cases u; exact hck)
      simp only [addOpSizeCmp, Cmp.rejects, decide_eq_true_eq] at hsize
      exact hv ⟨this.1, this.2, by omega⟩

theorem verify_ok_all_valid {r : SReg} (h : verify r = .ok ()) :
    r.ownerSigOk = true ∧ r.ops.length ≤ maxNumEntries ∧ ∀ x ∈ r.ops, Valid r.base x := by
  unfold verify at h
  split at h; · cases h
  rename_i hc
  split at h; · cases h
  rename_i hs
  simp only [verifyCountCmp, Cmp.rejects, decide_eq_true_eq] at hc
  simp only [verifyChecksOwnerSig, Bool.true_and, Bool.not_eq_true', Bool.not_eq_false] at hs
  exact ⟨by cases h' : r.ownerSigOk <;> simp_all, by omega, (firstErr_ok_iff _ _).mp h⟩

theorem valid_of_mergeable {a b : Base} (h : mergeable a b = true) {x : Op} (hv : Valid b x) : Valid a x := by
  obtain ⟨h1, _, h3⟩ := (mergeable_iff a b).mp h
  unfold Valid at *
  rw [h1, h3]; exact hv

theorem verifiedMerge_sound {r o r' : SReg} (h : verifiedMerge r o = .ok r')
    (hall : ∀ x ∈ r.ops, Valid r.base x) : r'.base = r.base ∧ ∀ x ∈ r'.ops, Valid r'.base x := by
  unfold verifiedMerge at h
  split at h; · cases h
  rename_i hm
  simp only [vmergeChecksBase, Bool.true_and, Bool.not_eq_true', Bool.not_eq_false] at hm
  have hm' : mergeable r.base o.base = true := by cases h' : mergeable r.base o.base <;> simp_all
  simp only [vmergeVerifiesOther, ↓reduceIte] at h
  cases hv : verify o with
  | error e => rw [hv] at h; cases h
  | ok u =>
    rw [hv] at h
    injection h with h; subst h
    refine ⟨rfl, ?_⟩
    intro x hx
    simp only [mem_unionOps] at hx
    rcases hx with hx | hx
    · exact hall x hx
    · exact valid_of_mergeable hm' ((verify_ok_all_valid (by cases u; exact hv)).2.2 x hx)

/-- States a replica can reach from an owner-signed empty register through accepted `add_op`s and
accepted `verified_merge`s. -/
inductive Reach : SReg → Prop
  | init (b : Base) : Reach { base := b, ownerSigOk := true, ops := [] }
  | add {r r' : SReg} (op : Op) : Reach r → addOp r op = .ok r' → Reach r'
  | vmerge {r o r' : SReg} : Reach r → verifiedMerge r o = .ok r' → Reach r'

/-- **Authorisation**: every op in every reachable replica targets this register, is within the size
limit, and (unless the register is open to anyone) comes from a permitted signer with a valid signature. -/
theorem reach_all_valid {r : SReg} (h : Reach r) :
    r.ownerSigOk = true ∧ ∀ x ∈ r.ops, Valid r.base x := by
  induction h with
  | init b => exact ⟨rfl, by simp⟩
  | add op _ hadd ih =>
    refine ⟨?_, (addOp_sound hadd ih.2).2⟩
    unfold addOp at hadd
    split at hadd; · cases hadd
    split at hadd; · cases hadd
    split at hadd
    · cases hadd
    · injection hadd with h; subst h; exact ih.1
  | vmerge _ hm ih =>
    refine ⟨?_, (verifiedMerge_sound hm ih.2).2⟩
    unfold verifiedMerge at hm
    split at hm; · cases hm
    split at hm
    · cases hm
    · injection hm with h; subst h; exact ih.1

/-- **Reachable ⇒ verifiable** (within the entry limit): any state a replica reaches through accepted
operations and verified merges, holding at most `MAX_REG_NUM_ENTRIES` ops, passes `verify` everywhere. -/
theorem reachable_verifies_partial {r : SReg} (h : Reach r) (hlen : r.ops.length ≤ maxNumEntries) :
    verify r = .ok () := by
  obtain ⟨hs, hall⟩ := reach_all_valid h
  unfold verify
  have hc : verifyCountCmp.rejects r.ops.length maxNumEntries = false := by
    simp [verifyCountCmp, Cmp.rejects]; omega
  simp only [hc, verifyChecksOwnerSig, hs, Bool.not_true, Bool.and_false, Bool.false_eq_true, ↓reduceIte]
  exact (firstErr_ok_iff _ _).mpr hall

/-- `add_op` alone never leaves the verifiable region: it refuses once `MAX_REG_NUM_ENTRIES` ops are held. -/
theorem addOp_keeps_limit {r r' : SReg} {op : Op} (h : addOp r op = .ok r')
    (_hlen : r.ops.length ≤ maxNumEntries) : r'.ops.length ≤ maxNumEntries := by
  unfold addOp at h
  split at h; · cases h
  rename_i hc
  simp only [addOpCountCmp, Cmp.rejects, decide_eq_true_eq] at hc
  split at h; · cases h
  split at h
  · cases h
  · injection h with h; subst h
    have := length_insertOp_le r.ops op
    simp only; omega

/-- The full statement "every reachable state verifies" — FALSE of the current code, see the witness. -/
def ReachableVerifies : Prop := ∀ r, Reach r → verify r = .ok ()

/-- Known finding K-e: merges are not limited. A reachable replica holding the maximum, merged (verified)
with a reachable one-op replica holding a different op, reaches a state that `verify` rejects. -/
theorem merge_exceeds_limit_witness (r o : SReg) (x : Op)
    (hr : Reach r) (hfull : r.ops.length = maxNumEntries)
    (ho : verify o = .ok ()) (hm : mergeable r.base o.base = true) (hox : o.ops = [x]) (hx : x ∉ r.ops) :
    ∃ r', verifiedMerge r o = .ok r' ∧ Reach r' ∧ verify r' = .error (.tooManyEntries (maxNumEntries + 1)) := by
  have hvm : verifiedMerge r o = .ok { r with ops := unionOps r.ops o.ops } := by
    unfold verifiedMerge
    simp [vmergeChecksBase, vmergeVerifiesOther, hm, ho]
  refine ⟨_, hvm, Reach.vmerge hr hvm, ?_⟩
  have hlen : (unionOps r.ops o.ops).length = maxNumEntries + 1 := by
    rw [hox]; simp [unionOps, insertOp, hx, hfull]
  unfold verify
  simp [verifyCountCmp, Cmp.rejects, hlen]

/-! ## Non-vacuity -/

def base0 : Base := { addr := 1, owner := 1, perms := .writers [1, 2] }
def opA : Op := { addr := 1, node := 10, children := [], size := 32, source := 2, sig := 0, sigOk := true }
def opForged : Op := { opA with sig := 7, sigOk := false }
def opForeign : Op := { opA with addr := 2 }
def opOutsider : Op := { opA with source := 3 }

example : Valid base0 opA := ⟨rfl, Or.inr ⟨rfl, rfl⟩, by decide⟩
example : addOp { base := base0, ownerSigOk := true, ops := [] } opA
    = .ok { base := base0, ownerSigOk := true, ops := [opA] } := by rfl
example : addOp { base := base0, ownerSigOk := true, ops := [] } opForged = .error .invalidSignature := by rfl
example : addOp { base := base0, ownerSigOk := true, ops := [] } opForeign = .error .addrMismatch := by rfl
example : addOp { base := base0, ownerSigOk := true, ops := [] } opOutsider = .error .accessDenied := by rfl
example : Reach { base := base0, ownerSigOk := true, ops := [opA] } :=
  Reach.add opA (Reach.init base0) (by rfl)

end SafeNet.Props.C06

#print axioms SafeNet.Props.C06.merge_rejects_symm
#print axioms SafeNet.Props.C06.diff_base_rejected
#print axioms SafeNet.Props.C06.merge_comm
#print axioms SafeNet.Props.C06.merge_assoc
#print axioms SafeNet.Props.C06.merge_idem
#print axioms SafeNet.Props.C06.merge_absorb
#print axioms SafeNet.Props.C06.same_ops_same_state_partial
#print axioms SafeNet.Props.C06.addOp_sound
#print axioms SafeNet.Props.C06.addOp_rejects_invalid
#print axioms SafeNet.Props.C06.verifiedMerge_sound
#print axioms SafeNet.Props.C06.reach_all_valid
#print axioms SafeNet.Props.C06.reachable_verifies_partial
#print axioms SafeNet.Props.C06.addOp_keeps_limit
#print axioms SafeNet.Props.C06.merge_exceeds_limit_witness

/-!
# C06, CRDT part — `MerkleReg` replicas that received the same set of nodes are identical observably

Model: `SafeNet.Model.MerkleReg` (`crdts-7.3.2` `MerkleReg::{apply, merge, read}`; tied to the real crate by
the correspondence run on `read()`/`size()`). A node is identified with its hash: the only hypothesis is
hash consistency of the delivered nodes (two delivered nodes with the same hash are the same node — SHA3
collision-freedom). `StateEquiv s t`: same dag members, same orphan members, same root hashes, same
`dag.len() + orphans.len()` (what `size()` reports).
-/
namespace SafeNet.Props.C06
open SafeNet.MerkleReg

/-- **Order- and duplication-independence of `apply`.** Two replicas that applied node lists with the same
members (any order, any repetition) hold the same dag, the same orphans, the same roots and the same size. -/
theorem crdt_apply_order_independent (l₁ l₂ : List Node)
    (hsame : ∀ n, n ∈ l₁ ↔ n ∈ l₂)
    (hcons : ∀ n ∈ l₁, ∀ m ∈ l₁, n.hash = m.hash → n = m) :
    StateEquiv (l₁.foldl MerkleReg.apply {}) (l₂.foldl MerkleReg.apply {}) := by
  exact equiv_of_inv (inv_of_list l₁ hcons) (inv_of_list l₂ (HC.congr hsame hcons)) hsame

/-- The part of `crdt_apply_order_independent` about the operation sets and `size()` only. -/
theorem crdt_apply_order_independent_dag (l₁ l₂ : List Node)
    (hsame : ∀ n, n ∈ l₁ ↔ n ∈ l₂)
    (hcons : ∀ n ∈ l₁, ∀ m ∈ l₁, n.hash = m.hash → n = m) :
    let s₁ := l₁.foldl MerkleReg.apply {}
    let s₂ := l₂.foldl MerkleReg.apply {}
    (∀ n, n ∈ s₁.dag ↔ n ∈ s₂.dag) ∧ (∀ n, n ∈ s₁.orphans ↔ n ∈ s₂.orphans) ∧
      s₁.dag.length + s₁.orphans.length = s₂.dag.length + s₂.orphans.length :=
  have e := crdt_apply_order_independent l₁ l₂ hsame hcons
  ⟨e.dag, e.orphans, e.size⟩

/-- **Identical current values**: `read()` returns the same set of hashes on both replicas. -/
theorem crdt_read_order_independent (l₁ l₂ : List Node)
    (hsame : ∀ n, n ∈ l₁ ↔ n ∈ l₂)
    (hcons : ∀ n ∈ l₁, ∀ m ∈ l₁, n.hash = m.hash → n = m) :
    ∀ h, h ∈ read (l₁.foldl MerkleReg.apply {}) ↔ h ∈ read (l₂.foldl MerkleReg.apply {}) :=
  (crdt_apply_order_independent l₁ l₂ hsame hcons).read

/-- **What the state is**, as a function of the set of delivered nodes only: the dag holds the delivered
nodes whose whole ancestry was delivered (`InDag`, a least fixpoint: `inDag_unfold`), the orphans are the
other delivered nodes, and `read()` returns the hashes of dag nodes that no dag node names as a child. -/
theorem crdt_state_characterisation (l : List Node)
    (hcons : ∀ n ∈ l, ∀ m ∈ l, n.hash = m.hash → n = m) :
    let s := l.foldl MerkleReg.apply {}
    (∀ n, n ∈ s.dag ↔ InDag l n) ∧ (∀ n, n ∈ s.orphans ↔ n ∈ l ∧ ¬ InDag l n) ∧
    (∀ h, h ∈ read s ↔ (∃ x, InDag l x ∧ x.hash = h) ∧ ¬ ∃ p, InDag l p ∧ h ∈ p.children) ∧
    (s.dag ++ s.orphans).Nodup := by
  have i : Inv l (l.foldl MerkleReg.apply {}) := inv_of_list l hcons
  exact ⟨i.mem_dag, i.mem_orphans, i.mem_read, i.nodup.nodup⟩

/-- **Merge converges**: merging two replicas in either direction gives equivalent states, and both equal
(observably) the state of a replica that applied every node itself. -/
theorem crdt_merge_converges (l₁ l₂ : List Node)
    (hcons : ∀ n ∈ l₁ ++ l₂, ∀ m ∈ l₁ ++ l₂, n.hash = m.hash → n = m) :
    let a := l₁.foldl MerkleReg.apply {}
    let b := l₂.foldl MerkleReg.apply {}
    StateEquiv (MerkleReg.merge a b) (MerkleReg.merge b a) ∧
      StateEquiv (MerkleReg.merge a b) ((l₁ ++ l₂).foldl MerkleReg.apply {}) := by
  intro a b
  have hc : HC (l₁ ++ l₂) := hcons
  have hc' : HC (l₂ ++ l₁) := hc.congr (fun x => by simp [or_comm])
  have ia : Inv l₁ a := inv_of_list l₁ (hc.sub (fun x hx => List.mem_append_left _ hx))
  have ib : Inv l₂ b := inv_of_list l₂ (hc.sub (fun x hx => List.mem_append_right _ hx))
  have iall : Inv (l₁ ++ l₂) ((l₁ ++ l₂).foldl MerkleReg.apply {}) := inv_of_list _ hc
  exact ⟨equiv_of_inv (inv_merge ia ib hc') (inv_merge ib ia hc) (fun x => by simp [or_comm]),
    equiv_of_inv (inv_merge ia ib hc') iall (fun x => by simp [or_comm])⟩

theorem crdt_merge_read_converges (l₁ l₂ : List Node)
    (hcons : ∀ n ∈ l₁ ++ l₂, ∀ m ∈ l₁ ++ l₂, n.hash = m.hash → n = m) :
    let a := l₁.foldl MerkleReg.apply {}
    let b := l₂.foldl MerkleReg.apply {}
    ∀ h, h ∈ read (MerkleReg.merge a b) ↔ h ∈ read (MerkleReg.merge b a) :=
  (crdt_merge_converges l₁ l₂ hcons).1.read

/-- **General form**: any two replicas reached from the empty register through any interleaving of `apply`s
and `merge`s with other reachable replicas (`MerkleReg.Reach R s`, `R` the nodes received, with repetitions), having
received the same set of hash-consistent nodes, are equivalent and `read` the same values. -/
theorem crdt_reachable_converge {R₁ R₂ : List Node} {s₁ s₂ : MReg}
    (r₁ : MerkleReg.Reach R₁ s₁) (r₂ : MerkleReg.Reach R₂ s₂) (hsame : ∀ n, n ∈ R₁ ↔ n ∈ R₂)
    (hcons : ∀ n ∈ R₁, ∀ m ∈ R₁, n.hash = m.hash → n = m) :
    StateEquiv s₁ s₂ ∧ ∀ h, h ∈ read s₁ ↔ h ∈ read s₂ :=
  have e := equiv_of_inv (reach_inv r₁ hcons) (reach_inv r₂ (HC.congr hsame hcons)) hsame
  ⟨e, e.read⟩

/-- Merging a replica into itself (or re-merging what was merged) changes nothing observable. -/
theorem crdt_merge_idem {R : List Node} {s : MReg} (r : MerkleReg.Reach R s)
    (hcons : ∀ n ∈ R, ∀ m ∈ R, n.hash = m.hash → n = m) : StateEquiv (MerkleReg.merge s s) s :=
  (crdt_reachable_converge (MerkleReg.Reach.merge r r) r (fun n => by simp) (HC.congr (fun n => by simp) hcons)).1

/-! ## Non-vacuity (CRDT part) -/

def n1 : Node := { hash := 1, children := [] }
def n2 : Node := { hash := 2, children := [1] }
def n3 : Node := { hash := 3, children := [2] }
def n4 : Node := { hash := 4, children := [1] }

/-- A 3-node chain delivered child-last (two orphans drained by the last delivery) vs child-first. -/
example : read ([n3, n2, n1].foldl MerkleReg.apply {}) = [3] ∧
    read ([n1, n2, n3].foldl MerkleReg.apply {}) = [3] := by decide
example : ([n3, n2].foldl MerkleReg.apply {}).orphans = [n3, n2] ∧
    ([n3, n2, n1].foldl MerkleReg.apply {}).dag = [n1, n2, n3] := by decide
/-- Two concurrent branches, with duplication and different orders: same two current values. -/
example : read ([n4, n3, n3, n2, n1, n4].foldl MerkleReg.apply {}) = [4, 3] ∧
    read ([n1, n4, n2, n1, n3].foldl MerkleReg.apply {}) = [4, 3] := by decide
example : read (MerkleReg.merge ([n3, n2].foldl MerkleReg.apply {}) ([n1, n4].foldl MerkleReg.apply {}))
    = [3, 4] := by decide
example : InDag [n3, n2, n1] n3 :=
  ⟨by simp, fun c hc => by
    have : c = 2 := by simpa [n3] using hc
    subst this
    exact Grounded.mk n2 (by simp) (fun c hc => by
      have : c = 1 := by simpa [n2] using hc
      subst this
      exact Grounded.mk n1 (by simp) (fun c hc => by simp [n1] at hc))⟩
/-- The hash-consistency hypothesis is needed: with two different nodes under one hash the first one wins. -/
example : read ([n2, ⟨2, []⟩].foldl MerkleReg.apply {}) ≠ read ([⟨2, []⟩, n2].foldl MerkleReg.apply {}) := by
  decide

end SafeNet.Props.C06

#print axioms SafeNet.Props.C06.crdt_apply_order_independent
#print axioms SafeNet.Props.C06.crdt_apply_order_independent_dag
#print axioms SafeNet.Props.C06.crdt_read_order_independent
#print axioms SafeNet.Props.C06.crdt_state_characterisation
#print axioms SafeNet.Props.C06.crdt_merge_converges
#print axioms SafeNet.Props.C06.crdt_merge_read_converges
#print axioms SafeNet.Props.C06.crdt_reachable_converge
#print axioms SafeNet.Props.C06.crdt_merge_idem
