import SafeNet.Proofs.Distance
import SafeNet.Props.C08
import SafeNet.Props.C10
/-!
# C11 — all distance computations agree with the XOR metric over hashed addresses

`H : List Nat → Nat` is SHA-256 read as a big-endian integer (a parameter; injectivity is a hypothesis
only where stated). Constants, trim strings, accessor tables and comparators come from `Gen.Distance`,
regenerated from the Rust source on every run.
-/
namespace SafeNet.Props.C11
open SafeNet.Distance SafeNet.Gen.Distance SafeNet.Dec SafeNet.Amount

variable (H : List Nat → Nat)

/-! ## The metric -/

theorem dist_symm (a b : Addr) : dist H a b = dist H b a := Nat.xor_comm _ _

theorem dist_self (a : Addr) : dist H a a = 0 := Nat.xor_self _

/-- Zero only for equal addresses (equal address bytes), given collision-freedom of the hash. -/
theorem dist_eq_zero_iff (hinj : ∀ x y, H x = H y → x = y) (a b : Addr) :
    dist H a b = 0 ↔ asBytes a = asBytes b := by
  unfold dist
  rw [xor_eq_zero_iff]
  exact ⟨hinj _ _, fun h => by rw [h]⟩

/-- Independent of the form an address is held in: typed, or as the raw record key derived from it
(all six address kinds). -/
theorem dist_form_independent (a b : Addr) :
    dist H (fromRecordKey (toRecordKey a)) b = dist H a b ∧
    dist H b (fromRecordKey (toRecordKey a)) = dist H b a := by
  have h : asBytes (fromRecordKey (toRecordKey a)) = asBytes a := by
    unfold asBytes fromRecordKey toRecordKey
    cases hk : a.kind <;> simp [asBytesRaw, toRecordKeyRaw]
  unfold dist
  rw [h]; exact ⟨rfl, rfl⟩

theorem dist_lt (hH : ∀ x, H x < 2 ^ 256) (a b : Addr) : dist H a b < 2 ^ 256 :=
  Nat.xor_lt_two_pow (hH _) (hH _)

/-! ## `convert_distance_to_u256` is the identity on 256-bit values (never hits the zero fallback) -/

theorem convert_is_identity (n : Nat) (hn : n < 2 ^ 256) : convert n = n := by
  have hd := toDigits_lt n
  have hne := toDigits_ne_nil n
  obtain ⟨d, ds, hds⟩ : ∃ d ds, toDigits n = d :: ds := by
    cases h : toDigits n with
    | nil => exact absurd h hne
    | cons d ds => exact ⟨d, ds, rfl⟩
  have hdlt : d < 10 := hd d (by rw [hds]; exact List.mem_cons_self ..)
  unfold convert convertStr render
  -- strip the "Distance(" prefix once
  have h1 : trimStartMatches trimStart (trimStart ++ toChars (toDigits n) ++ [41]) = toChars (toDigits n) ++ [41] := by
    unfold trimStartMatches
    have hlen : (trimStart ++ toChars (toDigits n) ++ [41]).length = ((toChars (toDigits n)).length + 9) + 1 := by
      simp [trimStart]
    rw [hlen, List.append_assoc, strip_step _ _ _ (by simp [trimStart])]
    apply strip_stop
    rw [hds]
    simp only [toChars, List.map_cons, List.cons_append, trimStart]
    exact isPrefixOf_cons_ne (by omega)
  have h0 : ([68, 105, 115, 116, 97, 110, 99, 101, 40] : List Nat) = trimStart := rfl
  rw [h0, h1]
  -- strip the ")" suffix once
  have h2 : trimEndMatches trimEnd (toChars (toDigits n) ++ [41]) = toChars (toDigits n) := by
    unfold trimEndMatches
    have hrev : (toChars (toDigits n) ++ [41]).reverse = trimEnd.reverse ++ (toChars (toDigits n)).reverse := by
      simp [trimEnd]
    have hlen : (toChars (toDigits n) ++ [41]).length = (toChars (toDigits n)).length + 1 := by simp
    rw [hrev, hlen, strip_step _ _ _ (by simp [trimEnd])]
    rw [strip_stop, List.reverse_reverse]
    -- the last digit character is not ')'
    have : ∀ c ∈ (toChars (toDigits n)).reverse, c ≠ 41 := by
      intro c hc
      simp only [List.mem_reverse, toChars, List.mem_map] at hc
      obtain ⟨x, hx, rfl⟩ := hc
      have := hd x hx
      omega
    cases hr : (toChars (toDigits n)).reverse with
    | nil => simp [trimEnd]
    | cons c cs =>
      simp only [trimEnd, List.reverse_cons, List.reverse_nil, List.nil_append]
      exact isPrefixOf_cons_ne (by have := this c (by rw [hr]; exact List.mem_cons_self ..); omega)
  rw [h2, uintFromStr_digits _ hd, ofDigits_toDigits]
  have : n < U256 := hn
  simp [this]

/-! ## Closeness decisions order and filter exactly as the integer distance does -/

theorem leDist_trans (a b c : Peer) : leDist a b = true → leDist b c = true → leDist a c = true := by
  simp only [leDist, decide_eq_true_eq]; omega

theorem leDist_total (a b : Peer) : (leDist a b || leDist b a) = true := by
  simp only [leDist, Bool.or_eq_true, decide_eq_true_eq]; omega

/-- Sorting is ascending in distance … -/
theorem sort_sorted (ps : List Peer) : (sortByDist ps).Pairwise (fun a b => a.2 ≤ b.2) := by
  have := List.pairwise_mergeSort leDist_trans leDist_total ps
  unfold sortByDist
  exact this.imp (fun h => by simpa [leDist] using h)

/-- … and a permutation of its input. -/
theorem sort_perm (ps : List Peer) : (sortByDist ps).Perm ps := List.mergeSort_perm ps leDist

/-- `sort_peers_by_key` reports `NotEnoughPeers` exactly when fewer than `CLOSE_GROUP_SIZE` are known. -/
theorem sort_err_iff_few (ps : List Peer) (n : Nat) :
    sortPeersByKey ps n = none ↔ ps.length < closeGroupSize := by
  unfold sortPeersByKey
  by_cases h : closeGroupSize > ps.length <;> simp [h] <;> omega

/-- Otherwise it returns the `min n |ps|` nearest peers, ascending: a prefix of the sorted permutation,
and everything left out is at least as far as everything returned. -/
theorem sort_is_closest_prefix (ps : List Peer) (n : Nat) (r : List Peer)
    (h : sortPeersByKey ps n = some r) :
    r.length = min n ps.length ∧
    r.Pairwise (fun a b => a.2 ≤ b.2) ∧
    (r ++ (sortByDist ps).drop n).Perm ps ∧
    ∀ x ∈ r, ∀ y ∈ (sortByDist ps).drop n, x.2 ≤ y.2 := by
  unfold sortPeersByKey at h
  split at h
  · cases h
  · injection h with h
    subst h
    have hs := sort_sorted ps
    have hp := sort_perm ps
    refine ⟨?_, ?_, ?_, ?_⟩
    · rw [List.length_take, hp.length_eq]
    · exact hs.sublist (List.take_sublist _ _)
    · rw [List.take_append_drop]; exact hp
    · intro x hx y hy
      have := hs
      rw [← List.take_append_drop n (sortByDist ps), List.pairwise_append] at this
      exact this.2.2 x hx y hy

/-- Range selection keeps exactly the peers with `distance ≤ range`, in their original order. -/
theorem inRange_is_filter (ps : List Peer) (range : Nat) :
    (∀ x, x ∈ getPeersInRange ps range ↔ x ∈ ps ∧ x.2 ≤ range) ∧
    (getPeersInRange ps range).Sublist ps := by
  unfold getPeersInRange
  refine ⟨fun x => ?_, List.filter_sublist⟩
  simp [List.mem_filter, within, inRangeLe]

/-- `calculate_get_closest_peers`: a given range takes precedence over a count and filters by `≤`. -/
theorem closest_range_preferred (ps : List Peer) (num : Option Nat) (r : Nat) :
    (∀ x, x ∈ calcClosest ps num (some r) ↔ x ∈ ps ∧ x.2 ≤ r) ∧ (calcClosest ps num (some r)).Sublist ps := by
  unfold calcClosest
  refine ⟨fun x => ?_, ?_⟩
  · simp [List.mem_filter, within, closestRangeLe]
  · exact List.filter_sublist

/-- `calculate_get_closest_peers` with a count only: the `n` nearest, ascending. -/
theorem closest_num_sorted_prefix (ps : List Peer) (n : Nat) :
    calcClosest ps (some n) none = (sortByDist ps).take n ∧
    (calcClosest ps (some n) none).length = min n ps.length ∧
    (calcClosest ps (some n) none).Pairwise (fun a b => a.2 ≤ b.2) := by
  unfold calcClosest
  refine ⟨rfl, ?_, ?_⟩
  · rw [List.length_take, (sort_perm ps).length_eq]
  · exact (sort_sorted ps).sublist (List.take_sublist _ _)

/-- Replication candidates: the in-range peers when at least `CLOSE_GROUP_SIZE` of the K closest are in
range, otherwise the `CLOSE_GROUP_SIZE` closest. -/
theorem replicate_candidates_spec (closestK : List Peer) (range : Option Nat) :
    replicateCandidates closestK range =
      match range with
      | some r => if (closestK.filter (fun p => decide (p.2 ≤ r))).length ≥ closeGroupSize
                  then closestK.filter (fun p => decide (p.2 ≤ r)) else closestK.take closeGroupSize
      | none => closestK.take closeGroupSize := by
  unfold replicateCandidates getPeersInRange
  cases range <;> simp [within, inRangeLe]

/-- Client-side closest-peer selection: the caller's own id never counts. The result is the
`CLOSE_GROUP_SIZE + CLOSE_GROUP_SIZE/2` nearest of the *other* peers, ascending, and `NotEnoughPeers` is
reported exactly when fewer than `CLOSE_GROUP_SIZE` other peers are known. -/
theorem client_close_group_spec (ps : List Peer) (selfId : Nat) :
    closeGroupSelect ps selfId true = sortPeersByKey (ps.filter (fun p => p.1 != selfId)) expandedCloseGroup ∧
    (closeGroupSelect ps selfId true = none ↔ (ps.filter (fun p => p.1 != selfId)).length < closeGroupSize) ∧
    (∀ r, closeGroupSelect ps selfId true = some r → ∀ p ∈ r, p.1 ≠ selfId) := by
  have h : closeGroupSelect ps selfId true = sortPeersByKey (ps.filter (fun p => p.1 != selfId)) expandedCloseGroup := by
    simp [closeGroupSelect, clientStripsSelfBeforeSort]
  refine ⟨h, by rw [h, sort_err_iff_few], ?_⟩
  intro r hr p hp
  rw [h] at hr
  obtain ⟨_, _, hperm, _⟩ := sort_is_closest_prefix _ _ _ hr
  have : p ∈ ps.filter (fun p => p.1 != selfId) := hperm.subset (List.mem_append_left _ hp)
  simpa using (List.mem_filter.mp this).2

/-- A node's own selection (`client = false`) is the plain sorted prefix of what the network returned. -/
theorem node_close_group_spec (ps : List Peer) (selfId : Nat) :
    closeGroupSelect ps selfId false = sortPeersByKey ps expandedCloseGroup := by
  simp [closeGroupSelect, clientStripsSelfBeforeSort]

/-! ## Non-vacuity -/

/-! ## The same facts for the function the code computes: `H` := SHA-256 as defined in `Base/Sha256` (FIPS 180-4),
no hypothesis left except collision-freedom in the zero clause -/

/-- a real distance is a 256-bit number … -/
theorem sha_dist_lt (a b : Addr) : distSha a b < 2 ^ 256 :=
  dist_lt _ SafeNet.Sha256.hashNat_lt a b

/-- … so the decimal detour of `convert_distance_to_u256` returns exactly the XOR of the two SHA-256 digests and
never falls back to zero, for every pair of addresses -/
theorem sha_convert_exact (a b : Addr) :
    convert (distSha a b) = SafeNet.Sha256.hashNat (asBytes a) ^^^ SafeNet.Sha256.hashNat (asBytes b) :=
  convert_is_identity _ (sha_dist_lt a b)

theorem sha_dist_symm (a b : Addr) : convert (distSha a b) = convert (distSha b a) := by
  unfold distSha; rw [dist_symm]

/-- zero exactly when the two digests are equal (no hypothesis) … -/
theorem sha_dist_zero_iff (a b : Addr) :
    convert (distSha a b) = 0 ↔ SafeNet.Sha256.hashNat (asBytes a) = SafeNet.Sha256.hashNat (asBytes b) := by
  rw [convert_is_identity _ (sha_dist_lt a b)]
  unfold distSha dist
  exact xor_eq_zero_iff _ _

/-- … hence zero only for equal address bytes, unless these two byte strings are a SHA-256 collision. The hypothesis
is about this pair only (a global "SHA-256 is injective" is false of any function into 256 bits, and would make the
statement vacuous). -/
theorem sha_dist_zero_only_equal (a b : Addr)
    (hpair : SafeNet.Sha256.hashNat (asBytes a) = SafeNet.Sha256.hashNat (asBytes b) → asBytes a = asBytes b) :
    convert (distSha a b) = 0 ↔ asBytes a = asBytes b := by
  rw [sha_dist_zero_iff]
  exact ⟨hpair, fun h => by rw [h]⟩

theorem sha_dist_form_independent (a b : Addr) :
    convert (distSha (fromRecordKey (toRecordKey a)) b) = convert (distSha a b) := by
  unfold distSha; rw [(dist_form_independent _ a b).1]

/-! ## The same decisions over addresses: the composition hash → XOR → (decimal detour) → comparison, where a
fallback of `convert_distance_to_u256` to zero would show (it cannot: `sha_convert_exact`) -/

/-- the XOR metric on addresses: SHA-256 digests of the address bytes, big-endian -/
def xorDist (a b : Addr) : Nat := SafeNet.Sha256.hashNat (asBytes a) ^^^ SafeNet.Sha256.hashNat (asBytes b)

theorem convDist_eq_xor (t p : Addr) : convDist t p = xorDist t p := sha_convert_exact t p

/-- `get_peers_in_range` keeps exactly the peers whose XOR distance to the target is `≤ range`, in their original
order — the comparison the code makes on `convert_distance_to_u256(..)` IS the comparison of the XOR integers. -/
theorem inRange_addr_is_xor_filter (target : Addr) (ps : List APeer) (range : Nat) :
    getPeersInRangeAddr target ps range = ps.filter (fun p => decide (xorDist target p.2 ≤ range)) := by
  unfold getPeersInRangeAddr
  congr 1
  funext p
  simp [within, inRangeLe, convDist_eq_xor]

/-- `calculate_get_closest_peers` with a range: exactly the peers within that XOR distance -/
theorem closest_range_addr_is_xor_filter (target : Addr) (ps : List APeer) (num : Option Nat) (r : Nat) :
    calcClosestAddr target ps num (some r) = ps.filter (fun p => decide (xorDist target p.2 ≤ r)) := by
  have hf : (fun p : APeer => within closestRangeLe (convDist target p.2) r) =
      (fun p : APeer => decide (xorDist target p.2 ≤ r)) := by
    funext p; simp [within, closestRangeLe, convDist_eq_xor]
  unfold calcClosestAddr
  cases num <;> simp only [hf]

/-! ### The address-level definitions ARE the number-level ones over the mapped distances

`toPeer target` sends a peer `(id, address)` to `(id, XOR distance of the two SHA-256 digests)`. Every address-level
decision commutes with it, so the whole number-level specification (`sort_is_closest_prefix`, `inRange_is_filter`,
`closest_range_preferred`, `closest_num_sorted_prefix`) transfers to what the code computes from addresses. The driver
runs the `*Addr` definitions on the addresses of the preceding `bind` line. -/

theorem toPeer_snd (t : Addr) (p : APeer) : (toPeer t p).2 = xorDist t p.2 := rfl

theorem convDist_eq_distSha (t p : Addr) : convDist t p = distSha t p := convert_is_identity _ (sha_dist_lt t p)

/-- the decorate–sort–undecorate of `sort_peers_by_key` is the merge sort of the peers by their XOR distance -/
theorem sortedAddr_eq (t : Addr) (ps : List APeer) :
    ((ps.map (fun p => (p, distSha t p.2))).mergeSort (fun a b => decide (a.2 ≤ b.2))).map (·.1)
      = ps.mergeSort (leAddr t) := by
  rw [← List.map_mergeSort (r := leAddr t) (f := fun p => (p, distSha t p.2))]
  · rw [List.map_map]
    exact List.map_id' _
  · intro a _ b _; rfl

theorem sortByDist_map (t : Addr) (ps : List APeer) :
    sortByDist (ps.map (toPeer t)) = (ps.mergeSort (leAddr t)).map (toPeer t) := by
  unfold sortByDist
  rw [← List.map_mergeSort (r := leAddr t)]
  intro a _ b _; rfl

/-- `sort_peers_by_key` over addresses = `sortPeersByKey` over the mapped XOR distances (same error case, same peers in
the same order) -/
theorem sort_addr_is_sort_of_distances (t : Addr) (ps : List APeer) (n : Nat) :
    (sortPeersByKeyAddr t ps n).map (List.map (toPeer t)) = sortPeersByKey (ps.map (toPeer t)) n := by
  unfold sortPeersByKeyAddr sortPeersByKey
  rw [sortedAddr_eq, sortByDist_map, List.length_map]
  split <;> simp [List.map_take]

theorem filter_addr_is_filter_of_distances (t : Addr) (ps : List APeer) (le : Bool) (r : Nat) :
    (ps.filter (fun p => within le (convDist t p.2) r)).map (toPeer t)
      = (ps.map (toPeer t)).filter (fun p => within le p.2 r) := by
  rw [List.filter_map]
  congr 1
  apply List.filter_congr
  intro p _
  show within le (convDist t p.2) r = within le (toPeer t p).2 r
  rw [convDist_eq_distSha]; rfl

/-- `get_peers_in_range` over addresses = `getPeersInRange` over the mapped XOR distances -/
theorem inRange_addr_is_inRange_of_distances (t : Addr) (ps : List APeer) (r : Nat) :
    (getPeersInRangeAddr t ps r).map (toPeer t) = getPeersInRange (ps.map (toPeer t)) r :=
  filter_addr_is_filter_of_distances t ps inRangeLe r

/-- `calculate_get_closest_peers` over addresses (range branch, count branch, neither) = `calcClosest` over the mapped
XOR distances -/
theorem closest_addr_is_closest_of_distances (t : Addr) (ps : List APeer) (num r : Option Nat) :
    (calcClosestAddr t ps num r).map (toPeer t) = calcClosest (ps.map (toPeer t)) num r := by
  cases r with
  | some r => cases num <;> exact filter_addr_is_filter_of_distances t ps closestRangeLe r
  | none =>
    cases num with
    | none => rfl
    | some n =>
      show List.map (toPeer t) (List.take n _) = List.take n (sortByDist _)
      rw [sortedAddr_eq, sortByDist_map, List.map_take]

theorem leAddr_sorted (t : Addr) (ps : List APeer) :
    (ps.mergeSort (leAddr t)).Pairwise (fun a b => xorDist t a.2 ≤ xorDist t b.2) := by
  have := List.pairwise_mergeSort (le := leAddr t)
    (fun a b c hab hbc => by simp only [leAddr, decide_eq_true_eq] at *; omega)
    (fun a b => by simp only [leAddr, Bool.or_eq_true, decide_eq_true_eq]; omega) ps
  exact this.imp (fun {a b} h => (of_decide_eq_true h : distSha t a.2 ≤ distSha t b.2))

/-- what "the `n` nearest of `ps`, ascending" means over addresses: `r` together with some `rest` is a permutation of
`ps` (so `r` is a sub-multiset: no peer invented, none repeated beyond its multiplicity), `r` has `min n |ps|` elements
in ascending XOR distance, and every peer left out is at least as far as every peer returned -/
def NearestAscending (t : Addr) (ps : List APeer) (n : Nat) (r : List APeer) : Prop :=
  ∃ rest, (r ++ rest).Perm ps ∧ r.length = min n ps.length ∧
    r.Pairwise (fun a b => xorDist t a.2 ≤ xorDist t b.2) ∧
    ∀ x ∈ r, ∀ y ∈ rest, xorDist t x.2 ≤ xorDist t y.2

theorem take_mergeSort_nearest (t : Addr) (ps : List APeer) (n : Nat) :
    NearestAscending t ps n ((ps.mergeSort (leAddr t)).take n) := by
  have hs := leAddr_sorted t ps
  have hp := List.mergeSort_perm ps (leAddr t)
  refine ⟨(ps.mergeSort (leAddr t)).drop n, ?_, ?_, ?_, ?_⟩
  · rw [List.take_append_drop]; exact hp
  · rw [List.length_take, hp.length_eq]
  · exact hs.sublist (List.take_sublist _ _)
  · intro x hx y hy
    rw [← List.take_append_drop n (ps.mergeSort (leAddr t)), List.pairwise_append] at hs
    exact hs.2.2 x hx y hy

/-- `sort_peers_by_key` over addresses: when it answers, the answer is the `min n |ps|` nearest peers in ascending XOR
distance (`NearestAscending`: a permutation of `ps` splits into the answer and peers that are all at least as far), and
at least `CLOSE_GROUP_SIZE` peers were known. (`List.replicate (min n |ps|) p` does not satisfy this: the answer and
the rest together are a permutation of the input.) -/
theorem sort_addr_spec (target : Addr) (ps : List APeer) (n : Nat) (r : List APeer)
    (h : sortPeersByKeyAddr target ps n = some r) :
    NearestAscending target ps n r ∧ closeGroupSize ≤ ps.length := by
  unfold sortPeersByKeyAddr at h
  rw [sortedAddr_eq] at h
  split at h
  · cases h
  · injection h with h
    subst h
    exact ⟨take_mergeSort_nearest target ps n, by omega⟩

/-- `calculate_get_closest_peers` with a count only, over addresses: the `min n |ps|` nearest, ascending -/
theorem closest_num_addr_spec (target : Addr) (ps : List APeer) (n : Nat) :
    NearestAscending target ps n (calcClosestAddr target ps (some n) none) := by
  show NearestAscending target ps n (List.take n _)
  rw [sortedAddr_eq]
  exact take_mergeSort_nearest target ps n

/-! ### "Returns the requested number of nearest peers … or reports that too few are known" — FALSE of the code as worded
(known finding K-c-count-guard)

`sort_peers_by_key` guards on `CLOSE_GROUP_SIZE`, not on the requested count: with `CLOSE_GROUP_SIZE ≤ |ps| < n` it
answers with fewer than `n` peers and no error (the client always asks for `CLOSE_GROUP_SIZE + CLOSE_GROUP_SIZE/2 = 7`);
with `n ≤ |ps| < CLOSE_GROUP_SIZE` it reports `NotEnoughPeers` although the requested number is known.
`calculate_get_closest_peers` has no way to report a shortfall at all. -/

/-- the clause as worded, for one call of `sort_peers_by_key` -/
def RequestedCountOrReported (ps : List Peer) (n : Nat) : Prop :=
  match sortPeersByKey ps n with
  | some r => r.length = n
  | none => ps.length < n

/-- the clause as worded, for every peer list and every requested count -/
def ClosestSelectionAsWorded : Prop := ∀ ps n, RequestedCountOrReported ps n

/-- five peers known, seven requested (what every client read and write does): five returned, nothing reported -/
theorem short_answer_not_reported_witness :
    sortPeersByKey [(1, 9), (2, 3), (3, 7), (4, 1), (5, 5)] 7 = some [(4, 1), (2, 3), (5, 5), (3, 7), (1, 9)] ∧
    ¬ RequestedCountOrReported [(1, 9), (2, 3), (3, 7), (4, 1), (5, 5)] 7 := by
  have h : sortPeersByKey [(1, 9), (2, 3), (3, 7), (4, 1), (5, 5)] 7
      = some [(4, 1), (2, 3), (5, 5), (3, 7), (1, 9)] := by
    simp [sortPeersByKey, closeGroupSize, sortByDist, List.mergeSort, leDist]
  refine ⟨h, ?_⟩
  unfold RequestedCountOrReported
  rw [h]; decide

/-- two peers known, two requested: `NotEnoughPeers` although the requested number is known -/
theorem enough_known_but_reported_witness :
    sortPeersByKey [(1, 9), (2, 3)] 2 = none ∧ ¬ RequestedCountOrReported [(1, 9), (2, 3)] 2 := by
  have h : sortPeersByKey [(1, 9), (2, 3)] 2 = none := by decide
  refine ⟨h, ?_⟩
  unfold RequestedCountOrReported
  rw [h]; decide

theorem closest_selection_as_worded_false : ¬ ClosestSelectionAsWorded :=
  fun h => short_answer_not_reported_witness.2 (h _ _)

/-- the guard is the right one exactly when the request is for at least `CLOSE_GROUP_SIZE` peers and the number of
known peers is not in the gap between `CLOSE_GROUP_SIZE` and the request -/
def CountGuardAdequate (ps : List Peer) (n : Nat) : Prop :=
  closeGroupSize ≤ n ∧ ¬ (closeGroupSize ≤ ps.length ∧ ps.length < n)

theorem requested_count_or_reported_partial (ps : List Peer) (n : Nat) (hyp : CountGuardAdequate ps n) :
    RequestedCountOrReported ps n := by
  obtain ⟨h1, h2⟩ := hyp
  unfold RequestedCountOrReported
  cases h : sortPeersByKey ps n with
  | none =>
    have := (sort_err_iff_few ps n).1 h
    show ps.length < n
    omega
  | some r =>
    have hlen := (sort_is_closest_prefix ps n r h).1
    have : ¬ ps.length < closeGroupSize := fun hc => by
      rw [(sort_err_iff_few ps n).2 hc] at h; cases h
    show r.length = n
    omega

/-- the client's selection (7 requested, own id removed): with 5 or 6 other peers known the answer is short and no error
is raised -/
theorem client_short_answer_witness :
    closeGroupSelect [(0, 2), (1, 9), (2, 3), (3, 7), (4, 1), (5, 5)] 0 true
      = some [(4, 1), (2, 3), (5, 5), (3, 7), (1, 9)] := by
  simp [closeGroupSelect, clientStripsSelfBeforeSort, expandedCloseGroup, sortPeersByKey, closeGroupSize, sortByDist,
    List.mergeSort, leDist]

/-- `calculate_get_closest_peers` (count branch) as worded: the requested number (there is no error case) -/
def ClosestNumReturnsRequested (ps : List Peer) (n : Nat) : Prop := (calcClosest ps (some n) none).length = n

theorem closest_num_short_witness : ¬ ClosestNumReturnsRequested [(1, 9), (2, 3)] 5 := by
  unfold ClosestNumReturnsRequested
  rw [(closest_num_sorted_prefix _ _).2.1]; decide

theorem closest_num_returns_requested_partial (ps : List Peer) (n : Nat) (hyp : n ≤ ps.length) :
    ClosestNumReturnsRequested ps n := by
  unfold ClosestNumReturnsRequested
  rw [(closest_num_sorted_prefix ps n).2.1]; omega

/-! ## The producer of every range bound (`SwarmDriver::run`, interval arm) -/

/-- `range_is_distance_to_kth`: whenever the interval arm sets a range, it is the larger of the density estimate
`(2^256 - 1) / estimated_network_size * CLOSE_GROUP_SIZE` and the XOR distance from the node to the stated neighbour —
entry `CLOSE_GROUP_SIZE + 1` of the self-inclusive, nearest-first K list, i.e. the node's `CLOSE_GROUP_SIZE + 1`-th
nearest routing-table peer — and that distance enters exactly (the decimal detour of `convert_distance_to_u256` never
falls back to zero): the bound is never below the true distance to that neighbour, so every peer at most that far is in
range. -/
theorem range_is_distance_to_kth (self : Addr) (addrOf : Peer → Addr) (nonFull full : Nat) (table : List Peer) (b : Nat)
    (h : deriveRange (fun p => convDist self (addrOf p)) nonFull full table = some b) :
    ∃ p, (closestKSelfInclusive table)[rangeNeighbourIndex]? = some p ∧
      b = Nat.max ((2 ^ 256 - 1) / estimateNetworkSize nonFull full * closeGroupSize) (xorDist self (addrOf p)) ∧
      xorDist self (addrOf p) ≤ b ∧
      closeGroupSize < estimateNetworkSize nonFull full ∧ closeGroupSize + 2 < (closestKSelfInclusive table).length := by
  unfold deriveRange at h
  simp only at h
  split at h
  · cases h
  · rename_i hest
    split at h
    · cases h
    · rename_i hlen
      split at h
      · cases h
      · rename_i p hp
        simp only [Option.some.injEq] at h
        refine ⟨p, hp, ?_, ?_, ?_, ?_⟩
        · rw [← h, convDist_eq_xor]; rfl
        · rw [← h, convDist_eq_xor]; exact Nat.le_max_right _ _
        · simp only [rangeMinEstimateExclusive, closeGroupSize] at hest ⊢; omega
        · simp only [rangeMinListLenExclusive, closeGroupSize] at hlen ⊢; omega

/-- the stated neighbour is a routing-table peer, and exactly `CLOSE_GROUP_SIZE + 1` entries of the K list — the node
itself and its `CLOSE_GROUP_SIZE` nearest peers — precede it, each at most as far as it -/
theorem range_neighbour_is_kth_nearest (table : List Peer) (p : Peer)
    (h : (closestKSelfInclusive table)[rangeNeighbourIndex]? = some p) :
    p ∈ table ∧ (sortByDist table)[closeGroupSize]? = some p ∧
      ∀ q ∈ (sortByDist table).take closeGroupSize, q.2 ≤ p.2 := by
  unfold closestKSelfInclusive at h
  have hidx : rangeNeighbourIndex = closeGroupSize + 1 := rfl
  rw [hidx, List.getElem?_take] at h
  have h' : (sortByDist table)[closeGroupSize]? = some p := by
    split at h
    · simpa using h
    · cases h
  refine ⟨?_, h', ?_⟩
  · have := List.mem_of_getElem? h'
    exact (sort_perm table).mem_iff.1 this
  · intro q hq
    have hs := sort_sorted table
    rw [← List.take_append_drop closeGroupSize (sortByDist table), List.pairwise_append] at hs
    refine hs.2.2 q hq p ?_
    have hd : ((sortByDist table).drop closeGroupSize)[0]? = some p := by
      rw [List.getElem?_drop]; simpa using h'
    exact List.mem_of_getElem? hd

/-- without a large enough estimate or enough known peers nothing is set (the range stays as it was) -/
theorem range_not_set_when_few (f : Peer → Nat) (nonFull full : Nat) (table : List Peer)
    (h : estimateNetworkSize nonFull full ≤ closeGroupSize ∨ table.length ≤ closeGroupSize + 1) :
    deriveRange f nonFull full table = none := by
  unfold deriveRange
  simp only
  rcases h with h | h
  · have : estimateNetworkSize nonFull full ≤ rangeMinEstimateExclusive := h
    simp [this]
  · split
    · rfl
    · have hl : (closestKSelfInclusive table).length ≤ rangeMinListLenExclusive := by
        unfold closestKSelfInclusive
        rw [List.length_take, List.length_cons, (sort_perm table).length_eq]
        simp only [rangeMinListLenExclusive, closeGroupSize] at h ⊢
        omega
      simp [hl]

/-- the range IS set as soon as the estimate exceeds `CLOSE_GROUP_SIZE` and at least `CLOSE_GROUP_SIZE + 2` peers are known -/
theorem range_set_when_enough (f : Peer → Nat) (nonFull full : Nat) (table : List Peer)
    (hest : closeGroupSize < estimateNetworkSize nonFull full) (hlen : closeGroupSize + 2 ≤ table.length) :
    ∃ b, deriveRange f nonFull full table = some b := by
  have hk : (closestKSelfInclusive table).length = min kValue (table.length + 1) := by
    unfold closestKSelfInclusive
    rw [List.length_take, List.length_cons, (sort_perm table).length_eq]
  have h20 : kValue = 20 := rfl
  have h5 : closeGroupSize = 5 := rfl
  have hlt : rangeNeighbourIndex < (closestKSelfInclusive table).length := by
    rw [hk, h20]; simp only [rangeNeighbourIndex]; omega
  unfold deriveRange
  simp only
  have h1 : ¬ estimateNetworkSize nonFull full ≤ rangeMinEstimateExclusive := by
    simp only [rangeMinEstimateExclusive]; omega
  have h2 : ¬ (closestKSelfInclusive table).length ≤ rangeMinListLenExclusive := by
    rw [hk, h20]; simp only [rangeMinListLenExclusive]; omega
  simp only [h1, h2, ↓reduceIte]
  rw [List.getElem?_eq_getElem hlt]
  exact ⟨_, rfl⟩

/-- With the distances of the table being the XOR distances of the peers' addresses to the node (`hcons`: what
`get_closest_local_peers` sorts by), the range that is set covers the node's whole close group: every one of its
`CLOSE_GROUP_SIZE` nearest routing-table peers is at an XOR distance within the bound. -/
theorem range_covers_close_group (self : Addr) (addrOf : Peer → Addr) (nonFull full : Nat) (table : List Peer) (b : Nat)
    (hcons : ∀ p ∈ table, p.2 = xorDist self (addrOf p))
    (h : deriveRange (fun p => convDist self (addrOf p)) nonFull full table = some b) :
    ∀ q ∈ (sortByDist table).take closeGroupSize, xorDist self (addrOf q) ≤ b := by
  obtain ⟨p, hp, _, hle, _, _⟩ := range_is_distance_to_kth self addrOf nonFull full table b h
  obtain ⟨hpm, _, hnear⟩ := range_neighbour_is_kth_nearest table p hp
  intro q hq
  have hqm : q ∈ table := (sort_perm table).mem_iff.1 (List.mem_of_mem_take hq)
  have := hnear q hq
  rw [hcons q hqm, hcons p hpm] at this
  omega

/-- non-vacuity: an 8-peer table with an estimate of 9 gets a range -/
example : ∃ b, deriveRange (fun p => p.2) 8 0 ((List.range 8).map (fun i => (i + 1, i + 10))) = some b :=
  range_set_when_enough _ 8 0 _ (by decide) (by simp [closeGroupSize])

/-! ## The storage challenge orders held records exactly as the XOR integer orders them -/

/-- the `difficulty ≠ 1` branch of the responder (`respondClosest`; the code as a whole, with its `difficulty == 1`
branch, is `challenge_response_spec`): it answers for the `min(difficulty, CLOSE_GROUP_SIZE)` held chunks nearest the
key, ascending, and every held chunk left out is at least as far from the key as every one answered for -/
theorem challenge_response_is_nearest (held : List Peer) (difficulty : Nat) :
    (respondClosest held difficulty).length = min (min difficulty closeGroupSize) held.length ∧
    (respondClosest held difficulty).Pairwise (fun a b => a.2 ≤ b.2) ∧
    (respondClosest held difficulty ++ (sortByDist held).drop (min difficulty closeGroupSize)).Perm held ∧
    ∀ x ∈ respondClosest held difficulty, ∀ y ∈ (sortByDist held).drop (min difficulty closeGroupSize), x.2 ≤ y.2 := by
  unfold respondClosest
  have hcap : challengeWorkloadCap = closeGroupSize := rfl
  rw [hcap]
  have hs := sort_sorted held
  have hp := sort_perm held
  refine ⟨by rw [List.length_take, hp.length_eq], hs.sublist (List.take_sublist _ _), ?_, ?_⟩
  · rw [List.take_append_drop]; exact hp
  · intro x hx y hy
    rw [← List.take_append_drop (min difficulty closeGroupSize) (sortByDist held), List.pairwise_append] at hs
    exact hs.2.2 x hx y hy

/-- `respond_x_closest_record_proof` as a whole: with `difficulty = 1` it answers for the key itself only (found iff the
key is one of the held chunks; no closeness decision is made); with every other difficulty it answers for exactly the
`respondClosest` chunks of `challenge_response_is_nearest`. -/
theorem challenge_response_spec (held : List Peer) (keyId : Option Nat) (difficulty : Nat) :
    (difficulty = 1 → respondProof held keyId difficulty = .single (held.any (fun p => some p.1 == keyId))) ∧
    (difficulty ≠ 1 → respondProof held keyId difficulty = .nearest (respondClosest held difficulty) ∧
      (respondClosest held difficulty).length = min (min difficulty closeGroupSize) held.length ∧
      (respondClosest held difficulty).Pairwise (fun a b => a.2 ≤ b.2) ∧
      ∀ x ∈ respondClosest held difficulty, ∀ y ∈ (sortByDist held).drop (min difficulty closeGroupSize), x.2 ≤ y.2) := by
  constructor
  · intro h; simp [respondProof, h]
  · intro h
    obtain ⟨h1, h2, _, h4⟩ := challenge_response_is_nearest held difficulty
    exact ⟨by simp [respondProof, h], h1, h2, h4⟩

/-- the `difficulty = 1` branch does NOT return the nearest held chunk: two chunks held, neither is the key -/
example : respondProof [(1, 9), (2, 3)] (some 7) 1 = .single false := by decide
example : respondProof [(1, 9), (2, 3)] (some 2) 1 = .single true := by decide

/-- the challenger's target is one of the nearer half of its own chunks (by XOR distance to itself), and what it expects
to be answered are the `CLOSE_GROUP_SIZE` held chunks nearest that target, ascending -/
theorem challenge_targets_spec (bySelf : List Peer) (index : Nat) (toTarget : Nat → Nat → Nat) (t : Nat) (exp : List Nat)
    (h : challengeTargets bySelf index toTarget = some (t, exp)) :
    50 ≤ bySelf.length ∧ index < bySelf.length / 2 ∧
    (∃ c, (sortByDist bySelf)[index]? = some c ∧ c.1 = t ∧ c ∈ bySelf ∧
      ∀ q ∈ (sortByDist bySelf).take index, q.2 ≤ c.2) ∧
    exp = ((sortByDist (bySelf.map (fun c => (c.1, toTarget t c.1)))).take closeGroupSize).map (·.1) ∧
    exp.length = closeGroupSize := by
  unfold challengeTargets at h
  split at h
  · cases h
  · rename_i hn
    split at h
    · cases h
    · rename_i hi
      split at h
      · cases h
      · rename_i c hc
        simp only [Option.some.injEq, Prod.mk.injEq] at h
        obtain ⟨h1, h2⟩ := h
        have hn' : 50 ≤ bySelf.length := by simp only [challengeMinCandidates] at hn; omega
        refine ⟨hn', by omega, ⟨c, hc, h1, ?_, ?_⟩, ?_, ?_⟩
        · exact (sort_perm bySelf).mem_iff.1 (List.mem_of_getElem? hc)
        · intro q hq
          have hs := sort_sorted bySelf
          rw [← List.take_append_drop index (sortByDist bySelf), List.pairwise_append] at hs
          refine hs.2.2 q hq c ?_
          have hd : ((sortByDist bySelf).drop index)[0]? = some c := by rw [List.getElem?_drop]; simpa using hc
          exact List.mem_of_getElem? hd
        · rw [← h2, ← h1]; rfl
        · rw [← h2, List.length_map, List.length_take, (sort_perm _).length_eq, List.length_map]
          simp only [challengeDifficulty, closeGroupSize]; omega

/-- who is challenged: the node's `CLOSE_GROUP_SIZE - 1` nearest routing-table peers (the K list starts with the node
itself, which takes one of the `CLOSE_GROUP_SIZE` places and is then skipped) — so only four peers are challenged -/
theorem challenged_are_four_nearest (table : List Peer) (hid : ∀ p ∈ table, p.1 ≠ 0) (r : List Peer)
    (h : challengedPeers table = some r) :
    r = (sortByDist table).take (closeGroupSize - 1) ∧ r.length = closeGroupSize - 1 := by
  unfold challengedPeers closestKSelfInclusive at h
  simp only at h
  split at h
  · cases h
  · rename_i hlen
    simp only [Option.some.injEq] at h
    have h5 : challengePeersTaken = 5 := rfl
    have h20 : kValue = 20 := rfl
    rw [h5, h20, List.take_take] at h hlen
    simp only [Nat.reduceLeDiff, Nat.min_eq_left, List.take_succ_cons] at h hlen
    have hf : ((sortByDist table).take 4).filter (fun p => p.1 != 0) = (sortByDist table).take 4 := by
      apply List.filter_eq_self.2
      intro p hp
      have : p ∈ table := (sort_perm table).mem_iff.1 (List.mem_of_mem_take hp)
      simpa using hid p this
    simp only [List.filter_cons, bne_self_eq_false, Bool.false_eq_true, ↓reduceIte, hf] at h
    have hcg : closeGroupSize - 1 = 4 := rfl
    rw [hcg]
    refine ⟨h.symm, ?_⟩
    rw [← h]
    simp only [List.length_cons, List.length_take] at hlen ⊢
    omega

/-- the challenger has something to check as soon as it holds 50 chunks (any index in the nearer half) … -/
theorem challenge_targets_exist (bySelf : List Peer) (index : Nat) (toTarget : Nat → Nat → Nat)
    (hn : 50 ≤ bySelf.length) (hi : index < bySelf.length / 2) :
    ∃ t exp, challengeTargets bySelf index toTarget = some (t, exp) := by
  unfold challengeTargets
  have h1 : ¬ bySelf.length < challengeMinCandidates := by simp only [challengeMinCandidates]; omega
  have h2 : ¬ index ≥ bySelf.length / 2 := by omega
  have hlt : index < (sortByDist bySelf).length := by rw [(sort_perm bySelf).length_eq]; omega
  simp only [h1, h2, ↓reduceIte]
  rw [List.getElem?_eq_getElem hlt]
  exact ⟨_, _, rfl⟩

/-- … and somebody to challenge as soon as it knows 4 peers -/
theorem challenged_peers_exist (table : List Peer) (hn : closeGroupSize - 1 ≤ table.length) :
    ∃ r, challengedPeers table = some r := by
  unfold challengedPeers
  simp only
  have h5 : challengePeersTaken = 5 := rfl
  have h20 : kValue = 20 := rfl
  have h4 : closeGroupSize - 1 = 4 := rfl
  have hl : ¬ ((closestKSelfInclusive table).take challengePeersTaken).length < challengePeersTaken := by
    unfold closestKSelfInclusive
    rw [List.length_take, List.length_take, List.length_cons, (sort_perm table).length_eq, h5, h20]
    omega
  simp only [hl, ↓reduceIte]
  exact ⟨_, rfl⟩

example : ∃ t exp, challengeTargets ((List.range 50).map (fun i => (i + 1, i + 10))) 3 (fun t c => t + c) = some (t, exp) :=
  challenge_targets_exist _ 3 _ (by simp) (by simp)
example : ∃ r, challengedPeers ((List.range 8).map (fun i => (i + 1, i + 10))) = some r :=
  challenged_peers_exist _ (by simp [closeGroupSize])

/-! ## Replication candidates over the nearest-first K list -/

/-- `get_replicate_candidates`' selection on the K closest local peers, nearest first (`closestK` ascending, as
`get_closest_local_peers` delivers them): the answer is in ascending distance and a sub-list of the K list; with at least
`CLOSE_GROUP_SIZE` peers in range it is EXACTLY the peers within the range (nobody in range is left out, nobody beyond it
is taken); otherwise it is the `CLOSE_GROUP_SIZE` nearest, and every peer left out is at least as far as every one taken. -/
theorem replicate_candidates_nearest (closestK : List Peer) (hsorted : closestK.Pairwise (fun a b => a.2 ≤ b.2))
    (range : Option Nat) :
    (replicateCandidates closestK range).Pairwise (fun a b => a.2 ≤ b.2) ∧
    (replicateCandidates closestK range).Sublist closestK ∧
    ((∃ r, range = some r ∧ closeGroupSize ≤ (replicateCandidates closestK range).length ∧
        ∀ x, x ∈ replicateCandidates closestK range ↔ x ∈ closestK ∧ x.2 ≤ r) ∨
     (replicateCandidates closestK range = closestK.take closeGroupSize ∧
        ∀ x ∈ closestK.take closeGroupSize, ∀ y ∈ closestK.drop closeGroupSize, x.2 ≤ y.2)) := by
  have htake : ∀ x ∈ closestK.take closeGroupSize, ∀ y ∈ closestK.drop closeGroupSize, x.2 ≤ y.2 := by
    intro x hx y hy
    have hs := hsorted
    rw [← List.take_append_drop closeGroupSize closestK, List.pairwise_append] at hs
    exact hs.2.2 x hx y hy
  cases range with
  | none =>
    exact ⟨hsorted.sublist (List.take_sublist _ _), List.take_sublist _ _, Or.inr ⟨rfl, htake⟩⟩
  | some r =>
    by_cases hlen : (getPeersInRange closestK r).length ≥ closeGroupSize
    · have heq : replicateCandidates closestK (some r) = getPeersInRange closestK r := by
        simp only [replicateCandidates, hlen, ↓reduceIte]
      rw [heq]
      exact ⟨hsorted.sublist (inRange_is_filter closestK r).2, (inRange_is_filter closestK r).2,
        Or.inl ⟨r, rfl, hlen, (inRange_is_filter closestK r).1⟩⟩
    · have heq : replicateCandidates closestK (some r) = closestK.take closeGroupSize := by
        simp only [replicateCandidates, hlen, ↓reduceIte]
      rw [heq]
      exact ⟨hsorted.sublist (List.take_sublist _ _), List.take_sublist _ _, Or.inr ⟨rfl, htake⟩⟩

/-! ## The three range tests disagree at the boundary (observation, no clause of C11 is violated) -/

/-- the replication fetcher admits an advertised key at distance `d` when `d ≤ range` (`Gen.Fetcher.rangeOk`) -/
def fetcherAdmits (d r : Nat) : Bool := SafeNet.Gen.Fetcher.rangeOk d r
/-- the record store counts a record as in range (`get_records_within_distance_range`: `..range`) -/
def storeCountsInRange (d r : Nat) : Bool :=
  if SafeNet.Gen.Store.withinRangeExclusive then decide (d < r) else decide (d ≤ r)
/-- `cleanup_irrelevant_records` removes `range..` -/
def cleanupRemoves (d r : Nat) : Bool :=
  if SafeNet.Gen.Store.cleanupFromInclusive then decide (r ≤ d) else decide (r < d)

/-- A record at EXACTLY the responsible distance is fetched (≤), not counted as in range (<) and removed by the clean-up
(≥) — and then fetched again when it is advertised. Each test orders by the XOR integer; they just cut at different
sides of the one value `range` (probability 2^-256 per record with honest keys). -/
theorem boundary_record_churns_witness (r : Nat) :
    fetcherAdmits r r = true ∧ storeCountsInRange r r = false ∧ cleanupRemoves r r = true := by
  simp [fetcherAdmits, storeCountsInRange, cleanupRemoves, SafeNet.Gen.Fetcher.rangeOk, SafeNet.Gen.Store.withinRangeExclusive,
    SafeNet.Gen.Store.cleanupFromInclusive]

/-- everywhere else the three tests agree: admitted = counted = not removed -/
theorem range_tests_agree_off_boundary (d r : Nat) (h : d ≠ r) :
    fetcherAdmits d r = storeCountsInRange d r ∧ cleanupRemoves d r = !fetcherAdmits d r := by
  simp only [fetcherAdmits, storeCountsInRange, cleanupRemoves, SafeNet.Gen.Fetcher.rangeOk, SafeNet.Gen.Store.withinRangeExclusive,
    SafeNet.Gen.Store.cleanupFromInclusive, ↓reduceIte]
  constructor
  · by_cases h1 : d ≤ r
    · have : d < r := by omega
      simp [h1, this]
    · have : ¬ d < r := by omega
      simp [h1, this]
  · by_cases h1 : d ≤ r
    · have : ¬ r ≤ d := by omega
      simp [h1, this]
    · have : r ≤ d := by omega
      simp [h1, this]

/-- "Zero only for equal addresses" is about the address BYTES (`dist_eq_zero_iff`): two DIFFERENT typed addresses with
the same bytes — a chunk address and a transaction address (or the raw record key) of one xorname — are at distance 0. -/
theorem distinct_kinds_same_bytes_distance_zero (x : List Nat) :
    dist H { kind := .chunk, raw := [], xorname := x } { kind := .transaction, raw := [], xorname := x } = 0 ∧
    dist H { kind := .chunk, raw := [], xorname := x } { kind := .recordKey, raw := x, xorname := [] } = 0 := by
  constructor <;> exact Nat.xor_self _

/-! ## The record store's closeness decisions on records (distance index, farthest record) -/

/-- "Selecting … records within a range": after every history and schedule of the record store (restarts included) the
distance index is exactly `{(XOR distance of k, k) | k held}` and the farthest record is the held key of maximal XOR
distance, for the metric the code computes (SHA-256 of the key bytes and of the node's peer-id bytes), over any finite
key universe without a SHA-256 collision (C10's `views_agree_sha`; the tie to the code is the store correspondence run,
which this check runs as well: every `dist` / `far` / `metrics` / `cleanup` line). -/
theorem record_selection_is_by_xor_distance (cfg : SafeNet.Store.Cfg) (U : List Nat) (keyBytes : Nat → List Nat)
    (self : List Nat)
    (hkeys : ∀ a ∈ U, ∀ b ∈ U, keyBytes a = keyBytes b → a = b)
    (hsha : ∀ a ∈ U, ∀ b ∈ U,
      SafeNet.Sha256.hashNat (keyBytes a) = SafeNet.Sha256.hashNat (keyBytes b) → keyBytes a = keyBytes b)
    (ops : List SafeNet.Store.Op) :
    let dist := fun k => if k ∈ U then SafeNet.Sha256.hashNat (keyBytes k) ^^^ SafeNet.Sha256.hashNat self else 2 ^ 256 + k
    let s := SafeNet.Store.run cfg dist ops
    (∀ d k, (d, k) ∈ s.byDist ↔ (k ∈ SafeNet.Store.keys s.index ∧ d = dist k)) ∧
    (match s.farthest with
      | none => s.index = []
      | some (f, fd) => f ∈ SafeNet.Store.keys s.index ∧ fd = dist f ∧ ∀ k ∈ SafeNet.Store.keys s.index, dist k ≤ fd) := by
  intro dist s
  have h := SafeNet.Props.C10.views_agree_sha cfg U keyBytes self hkeys hsha ops
  exact h.2

/-! ## The replication fetcher's closeness decision (which queued records are fetched first) -/

/-- `ReplicationFetcher::next_keys_to_fetch` is a closeness decision too: for every distance function (in
particular the XOR metric above), a batch the model accepts as the implementation's choice is in ascending distance,
and a queued record that is left behind although its version is not in flight is at least as far as every record of
the batch (C08's `closest_first`, proved over the fetcher model regenerated from the source; the tie to the code is
the fetcher correspondence run, which this check runs as well). -/
theorem fetch_order_is_by_distance (dist : Nat → Nat) (s : SafeNet.Fetcher.State) (choice : List SafeNet.Fetcher.Entry)
    (hok : (SafeNet.Fetcher.nextKeys dist s choice).2.illegal = false) :
    (SafeNet.Fetcher.nextKeys dist s choice).2.ret.Pairwise (fun a b => dist a.key ≤ dist b.key) ∧
    ∀ e ∈ (SafeNet.Fetcher.nextKeys dist s choice).1.tbf,
      SafeNet.Fetcher.hasKT (SafeNet.Fetcher.nextKeys dist s choice).1.ogf e.key e.ty = false →
      ∀ r ∈ (SafeNet.Fetcher.nextKeys dist s choice).2.ret, dist r.key ≤ dist e.key := by
  obtain ⟨h1, h2⟩ := SafeNet.Props.C08.closest_first dist s choice hok
  exact ⟨h1, fun e he hk => (h2 e he hk).2⟩

example : convert 0 = 0 := convert_is_identity 0 (by decide)
example : convert (2 ^ 256 - 1) = 2 ^ 256 - 1 := convert_is_identity _ (by decide)
example : sortPeersByKey [(1, 9), (2, 3), (3, 7), (4, 1), (5, 5)] 2 ≠ none := by
  rw [Ne, sort_err_iff_few]; decide
example : sortPeersByKey [(1, 9), (2, 3)] 2 = none := by decide
example : getPeersInRange [(1, 9), (2, 3), (3, 7)] 7 = [(2, 3), (3, 7)] := by decide

end SafeNet.Props.C11

#print axioms SafeNet.Props.C11.dist_symm
#print axioms SafeNet.Props.C11.dist_self
#print axioms SafeNet.Props.C11.dist_eq_zero_iff
#print axioms SafeNet.Props.C11.dist_form_independent
#print axioms SafeNet.Props.C11.dist_lt
#print axioms SafeNet.Props.C11.convert_is_identity
#print axioms SafeNet.Props.C11.sha_dist_lt
#print axioms SafeNet.Props.C11.sha_convert_exact
#print axioms SafeNet.Props.C11.sha_dist_symm
#print axioms SafeNet.Props.C11.sha_dist_zero_iff
#print axioms SafeNet.Props.C11.sha_dist_zero_only_equal
#print axioms SafeNet.Props.C11.sha_dist_form_independent
#print axioms SafeNet.Props.C11.inRange_addr_is_xor_filter
#print axioms SafeNet.Props.C11.closest_range_addr_is_xor_filter
#print axioms SafeNet.Props.C11.sort_addr_spec
#print axioms SafeNet.Props.C11.sort_addr_is_sort_of_distances
#print axioms SafeNet.Props.C11.inRange_addr_is_inRange_of_distances
#print axioms SafeNet.Props.C11.closest_addr_is_closest_of_distances
#print axioms SafeNet.Props.C11.closest_num_addr_spec
#print axioms SafeNet.Props.C11.short_answer_not_reported_witness
#print axioms SafeNet.Props.C11.enough_known_but_reported_witness
#print axioms SafeNet.Props.C11.closest_selection_as_worded_false
#print axioms SafeNet.Props.C11.requested_count_or_reported_partial
#print axioms SafeNet.Props.C11.client_short_answer_witness
#print axioms SafeNet.Props.C11.closest_num_short_witness
#print axioms SafeNet.Props.C11.closest_num_returns_requested_partial
#print axioms SafeNet.Props.C11.range_is_distance_to_kth
#print axioms SafeNet.Props.C11.range_neighbour_is_kth_nearest
#print axioms SafeNet.Props.C11.range_not_set_when_few
#print axioms SafeNet.Props.C11.challenge_response_is_nearest
#print axioms SafeNet.Props.C11.challenge_response_spec
#print axioms SafeNet.Props.C11.range_set_when_enough
#print axioms SafeNet.Props.C11.range_covers_close_group
#print axioms SafeNet.Props.C11.challenge_targets_exist
#print axioms SafeNet.Props.C11.challenged_peers_exist
#print axioms SafeNet.Props.C11.challenge_targets_spec
#print axioms SafeNet.Props.C11.challenged_are_four_nearest
#print axioms SafeNet.Props.C11.record_selection_is_by_xor_distance
#print axioms SafeNet.Props.C11.fetch_order_is_by_distance
#print axioms SafeNet.Props.C11.sort_sorted
#print axioms SafeNet.Props.C11.sort_perm
#print axioms SafeNet.Props.C11.sort_err_iff_few
#print axioms SafeNet.Props.C11.sort_is_closest_prefix
#print axioms SafeNet.Props.C11.inRange_is_filter
#print axioms SafeNet.Props.C11.closest_range_preferred
#print axioms SafeNet.Props.C11.closest_num_sorted_prefix
#print axioms SafeNet.Props.C11.replicate_candidates_spec
#print axioms SafeNet.Props.C11.replicate_candidates_nearest
#print axioms SafeNet.Props.C11.boundary_record_churns_witness
#print axioms SafeNet.Props.C11.range_tests_agree_off_boundary
#print axioms SafeNet.Props.C11.distinct_kinds_same_bytes_distance_zero
#print axioms SafeNet.Props.C11.client_close_group_spec
#print axioms SafeNet.Props.C11.node_close_group_spec
