import SafeNet.Proofs.Lifecycle
/-!
# C19 — service lifecycle state matches the managed processes, even under faults

Model: `SafeNet/Model/Lifecycle.lean` (`World = Registry × OS`, every operation the exact sequence of
`ServiceControl`/`RpcActions` calls with a fault oracle consumed call by call), tied to the Rust by the
differential correspondence run (`harness/hmgr/src/bin/lifecycle.rs` vs `drv_lifecycle`).

All theorems quantify over operation lists of any length, each operation carrying an arbitrary fault list.
`Op.kill` (a process dying behind the manager's back) is an environment event, not a fault of a call; it is part
of the histories everywhere except in `running_has_process`, where the clause is about what the manager records.

The registry file is a second observable (`Sys`, `SOp.reload`, section 8): it changes only where the code saves.

Two clauses are false of the code in full strength (known finding K-s-orphan: a `start` whose RPC query fails
after the process was launched records nothing about the live process): the full statements are kept as `def`s,
refuted on concrete histories, and proved under the named hypothesis "no unrecorded live process".
-/
namespace SafeNet.Props.C19
open SafeNet.Lifecycle

theorem onSvc_some {w : World} {i : Nat} {s : Svc} (faults : List Bool) (f : Svc → OS → Fx → Svc × OS × Fx × Res)
    (h : w.reg[i]? = some s) :
    onSvc w i faults f =
      (⟨w.reg.set i (f s w.os ⟨faults, 0⟩).1, (f s w.os ⟨faults, 0⟩).2.1⟩, (f s w.os ⟨faults, 0⟩).2.2.2,
        (f s w.os ⟨faults, 0⟩).2.2.1.calls) := by
  simp [onSvc, h]

theorem getElem?_set_self' {reg : List Svc} {i : Nat} {s s' : Svc} (h : reg[i]? = some s) :
    (reg.set i s')[i]? = some s' := by
  have hlt : i < reg.length := by
    rcases Nat.lt_or_ge i reg.length with hlt | hge
    · exact hlt
    · rw [List.getElem?_eq_none hge] at h; cases h
  simp [hlt]

/-! ## 1. A service recorded Running has a live process with the recorded pid -/

/-- After any history of manager operations (any faults), every entry recorded Running has a live process of that
service whose pid is the recorded one. -/
theorem running_has_process (ops : List Op) (hk : ∀ op ∈ ops, op.isKill = false)
    (s : Svc) (hs : s ∈ (run World.init ops).reg) (hr : s.status = .running) :
    ∃ p ∈ (run World.init ops).os.procs, p.svc = s.number ∧ s.pid = some p.pid :=
  run_good World.init ops hk inv_init good_init s hs hr

/-- With processes dying behind the manager's back anywhere in the history, a `refresh` re-establishes the clause
for every service. -/
theorem refresh_reestablishes (ops : List Op) (s : Svc)
    (hs : s ∈ (step (run World.init ops) .refresh).reg) (hr : s.status = .running) :
    ∃ p ∈ (step (run World.init ops) .refresh).os.procs, p.svc = s.number ∧ s.pid = some p.pid :=
  (refresh_spec _ (run_inv World.init ops inv_init)).2.1 s hs hr

/-- **After a refresh every service recorded Running carries the pid the OS reports** for its binary — from ANY
state, in particular when a running service was restarted under a new pid behind the manager's back
(`Op.restartOutside`) or died (`Op.kill`): the partial refresh every `antctl` command runs first is what corrects a
stale pid (`ServiceManager::start` returns early for a service recorded Running whose process is alive). -/
theorem refresh_records_os_pid (w : World) (s : Svc) (hs : s ∈ (step w .refresh).reg) (hr : s.status = .running) :
    ∃ p, (step w .refresh).os.lookup s.number = some p ∧ s.pid = some p.pid := by
  simp only [step, exec] at hs ⊢
  obtain ⟨t, _, rfl⟩ := List.mem_map.mp hs
  rw [svcRefresh_number]
  unfold svcRefresh at hr ⊢
  split
  · rename_i p hp; exact ⟨p, hp, rfl⟩
  · rename_i hl
    rw [hl] at hr
    dsimp only at hr
    split at hr
    · rename_i h; rw [h] at hr; cases hr
    · rename_i h; rw [h] at hr; cases hr
    · simp [onStop] at hr

/-- ... and conversely a refresh records every live process of a recorded service: status Running with its pid. -/
theorem refresh_records_live (w : World) (s : Svc) (_hs : s ∈ w.reg) (p : Proc) (hp : w.os.lookup s.number = some p) :
    (svcRefresh w.os s).status = .running ∧ (svcRefresh w.os s).pid = some p.pid := by
  simp [svcRefresh, hp]

/-- A pid is recorded only together with Running (used by the stop/remove clause). -/
theorem pid_only_when_running (ops : List Op) (s : Svc) (hs : s ∈ (run World.init ops).reg)
    (hr : s.status ≠ .running) : s.pid = none :=
  (run_inv World.init ops inv_init).pid s hs hr

/-! ## 2. A successful stop or removal leaves no process and no recorded pid -/

def isStopOrRemove (i : Nat) : Op → Bool
  | .stop j _ => i == j
  | .remove j _ _ => i == j
  | _ => false

/-- Full statement (FALSE of the code, see the witness below). -/
def StopRemoveLeaveNothing : Prop :=
  ∀ (ops : List Op) (op : Op) (i : Nat) (s : Svc), isStopOrRemove i op = true →
    (run World.init ops).reg[i]? = some s → (result (run World.init ops) op).failed = false →
    NoProc (step (run World.init ops) op).os s.number ∧
    ∃ s', (step (run World.init ops) op).reg[i]? = some s' ∧ s'.pid = none

/-- The service has no live process that the registry does not know about. -/
def NoOrphan (w : World) (s : Svc) : Prop := s.status ≠ .running → NoProc w.os s.number

/-- History of K-s-orphan: the `node_info` RPC fails after the process was launched. -/
def orphanHistory : List Op := [.add 1 none none none false 1 [], .start 0 false [false, true]]

theorem stop_remove_leave_nothing_witness : ¬ StopRemoveLeaveNothing := by
  intro h
  have h1 := (h orphanHistory (.stop 0 []) 0 ⟨1, .added, none, none, none, 30000, 1, none⟩ rfl (by decide) (by decide)).1
  exact h1 ⟨100, 1, 40100⟩ (by decide) rfl

theorem stop_remove_leave_nothing_partial (ops : List Op) (op : Op) (i : Nat) (s : Svc)
    (hop : isStopOrRemove i op = true) (hget : (run World.init ops).reg[i]? = some s)
    (hno : NoOrphan (run World.init ops) s) (hok : (result (run World.init ops) op).failed = false) :
    NoProc (step (run World.init ops) op).os s.number ∧
    ∃ s', (step (run World.init ops) op).reg[i]? = some s' ∧ s'.pid = none := by
  have hpid := (run_inv World.init ops inv_init).pid s (List.mem_of_getElem? hget)
  generalize run World.init ops = w at *
  cases op with
  | stop j faults =>
    have hij : i = j := by simpa [isStopOrRemove] using hop
    subst hij
    simp only [step, result, exec, onSvc_some faults svcStop hget] at hok ⊢
    refine ⟨?_, _, getElem?_set_self' hget, ?_⟩
    · rcases svcStop_cases s w.os ⟨faults, 0⟩ with ⟨_, h2, h3⟩ | ⟨_, _, _, h3⟩
      · rw [h2]; exact hno (h3 hok)
      · rcases h3 with ⟨h3, h4⟩ | h3
        · rw [h3]; exact h4
        · exact (osStop_spec h3).2.2.2.1
    · rcases svcStop_cases s w.os ⟨faults, 0⟩ with ⟨h1, _, h3⟩ | ⟨_, h1, _, _⟩
      · rw [h1]; exact hpid (h3 hok)
      · rw [h1]; exact onStop_pid s
  | remove j keep faults =>
    have hij : i = j := by simpa [isStopOrRemove] using hop
    subst hij
    simp only [step, result, exec, onSvc_some faults (fun s os fx => svcRemove s os fx keep) hget] at hok ⊢
    rcases svcRemove_cases s w.os ⟨faults, 0⟩ keep with ⟨h, _⟩ | ⟨h, _⟩ | ⟨_, hnr, h1, hp, _, _⟩
    · rw [hok] at h; cases h
    · rw [hok] at h; cases h
    · refine ⟨?_, _, getElem?_set_self' hget, ?_⟩
      · intro p hpm; rw [hp] at hpm; exact hno hnr p hpm
      · rw [h1]; exact hpid hnr
  | add _ _ _ _ _ _ _ => simp [isStopOrRemove] at hop
  | start _ _ _ => simp [isStopOrRemove] at hop
  | upgrade _ _ _ _ _ _ => simp [isStopOrRemove] at hop
  | refresh => simp [isStopOrRemove] at hop
  | refreshFull => simp [isStopOrRemove] at hop
  | restartOutside _ => simp [isStopOrRemove] at hop
  | kill _ => simp [isStopOrRemove] at hop
  | flaky _ _ => simp [isStopOrRemove] at hop
  | saveload => simp [isStopOrRemove] at hop

/-- `refresh` (which every `antctl` command runs first) removes the hypothesis: afterwards no service has an
unrecorded live process. -/
theorem refresh_clears_orphans (w : World) (s : Svc) (hs : s ∈ (step w .refresh).reg) :
    NoOrphan (step w .refresh) s := by
  simp only [step, exec] at hs ⊢
  obtain ⟨t, _, rfl⟩ := List.mem_map.mp hs
  intro hnr
  unfold svcRefresh at hnr ⊢
  split
  · rename_i p hp; simp [hp] at hnr
  · rename_i hl
    have hnp : NoProc w.os t.number := lookup_none hl
    split <;> exact hnp

/-! ## 3. A removed service stays removed -/

/-- Full statement (FALSE of the code, see the witness below). -/
def RemovedStaysRemoved : Prop :=
  ∀ (ops : List Op) (op : Op) (i : Nat) (s : Svc), (run World.init ops).reg[i]? = some s → s.status = .removed →
    ∃ s', (step (run World.init ops) op).reg[i]? = some s' ∧ s'.status = .removed

/-- K-s-orphan again: the unrecorded process survives the removal (uninstalling does not stop it) and the next
refresh finds it by its binary path. -/
def orphanRemoveHistory : List Op :=
  [.add 1 none none none false 1 [], .start 0 false [false, false, true], .remove 0 true []]

theorem removed_stays_removed_witness : ¬ RemovedStaysRemoved := by
  intro h
  obtain ⟨s', h1, h2⟩ := h orphanRemoveHistory .refresh 0 ⟨1, .removed, none, none, none, 30000, 1, none⟩ (by decide) rfl
  have : (step (run World.init orphanRemoveHistory) .refresh).reg[0]? =
      some ⟨1, .running, some 100, none, none, 30000, 1, none⟩ := by decide
  rw [this] at h1
  cases h1
  cases h2

/-- Once a service is Removed and has no live process, it stays Removed (and without process) through every further
history of operations, faults and kills. -/
theorem removed_stays_removed_partial (ops1 ops2 : List Op) (i : Nat) (s : Svc)
    (hget : (run World.init ops1).reg[i]? = some s) (hrem : s.status = .removed)
    (hno : NoProc (run World.init ops1).os s.number) :
    ∃ s', (run (run World.init ops1) ops2).reg[i]? = some s' ∧ s'.number = s.number ∧ s'.status = .removed ∧
      NoProc (run (run World.init ops1) ops2).os s.number :=
  run_removedAt _ ops2 i s.number (run_inv World.init ops1 inv_init) ⟨s, hget, rfl, hrem, hno⟩

/-! ## 4. A failed operation never newly records a service as Running -/

theorem addLoop_reg (k num : Nat) (np mp rp : Option Nat) (metrics : Bool) (ver : Nat) (a : AddAcc) :
    ∃ new, (addLoop k num np mp rp metrics ver a).w.reg = a.w.reg ++ new ∧ ∀ t ∈ new, t.status = .added := by
  induction k generalizing num np mp rp a with
  | zero => exact ⟨[], by simp [addLoop], fun _ h => by cases h⟩
  | succ k ih =>
    unfold addLoop
    dsimp only
    have h1 : ∃ new, (addOne num np mp rp metrics ver a).w.reg = a.w.reg ++ new ∧ ∀ t ∈ new, t.status = .added := by
      rcases addOne_cases num np mp rp metrics ver a with ⟨hr, _⟩ | ⟨new, _, _, hst, _, hr, _, _⟩
      · exact ⟨[], by simpa using hr, fun _ h => by cases h⟩
      · exact ⟨[new], hr, fun t ht => by simp at ht; rw [ht]; exact hst⟩
    split
    · exact h1
    · obtain ⟨n1, e1, a1⟩ := h1
      obtain ⟨n2, e2, a2⟩ := ih (num + 1) (np.map (· + 1)) (mp.map (· + 1)) (rp.map (· + 1))
        (addOne num np mp rp metrics ver a)
      refine ⟨n1 ++ n2, by rw [e2, e1, List.append_assoc], ?_⟩
      intro t ht
      rcases List.mem_append.mp ht with h | h
      · exact a1 t h
      · exact a2 t h

theorem addNode_reg (w : World) (fx : Fx) (file : List Svc) (count : Nat) (np mp rp : Option (Nat × Nat))
    (metrics : Bool) (ver : Nat) :
    ∃ new, (addNode w fx file count np mp rp metrics ver).1.reg = w.reg ++ new ∧ ∀ t ∈ new, t.status = .added := by
  unfold addNode
  dsimp only
  have hnil : ∃ new, w.reg = w.reg ++ new ∧ ∀ t ∈ new, t.status = Status.added := ⟨[], by simp, fun _ h => by cases h⟩
  split
  · exact hnil
  · split
    · exact hnil
    · split
      · exact hnil
      · have := addLoop_reg count (startNumber w.reg) (np.map (·.1)) (mp.map (·.1)) (rp.map (·.1)) metrics ver
          ⟨w, fx, [], [], false, file⟩
        split
        · exact this
        · split <;> exact this

theorem onSvc_noNewRun (w : World) (i : Nat) (faults : List Bool) (f : Svc → OS → Fx → Svc × OS × Fx × Res)
    (hN : ∀ s os fx, (f s os fx).2.2.2.failed = true → (f s os fx).1.status = .running → s.status = .running)
    (hf : (onSvc w i faults f).2.1.failed = true) (j : Nat) (s' : Svc)
    (hj : (onSvc w i faults f).1.reg[j]? = some s') (hr : s'.status = .running) :
    ∃ s, w.reg[j]? = some s ∧ s.status = .running := by
  cases hget : w.reg[i]? with
  | none =>
    simp only [onSvc, hget] at hj
    exact ⟨s', hj, hr⟩
  | some s =>
    rw [onSvc_some faults f hget] at hf hj
    simp only at hf hj
    by_cases hij : i = j
    · subst hij
      rw [getElem?_set_self' hget] at hj
      cases hj
      exact ⟨s, hget, hN s w.os ⟨faults, 0⟩ hf hr⟩
    · rw [List.getElem?_set] at hj
      simp only [hij, if_false] at hj
      exact ⟨s', hj, hr⟩

/-- Whatever the state, if an operation fails (returns an error, or `UpgradedButNotStarted`), every entry that is
recorded Running afterwards was already recorded Running before. -/
theorem failure_never_marks_running (w : World) (op : Op) (hf : (result w op).failed = true)
    (j : Nat) (s' : Svc) (hj : (step w op).reg[j]? = some s') (hr : s'.status = .running) :
    ∃ s, w.reg[j]? = some s ∧ s.status = .running := by
  cases op with
  | add count np mp rp metrics ver faults =>
    simp only [step, exec] at hj
    obtain ⟨new, hreg, hnew⟩ := addNode_reg w ⟨faults, 0⟩ [] count np mp rp metrics ver
    rw [hreg] at hj
    rcases Nat.lt_or_ge j w.reg.length with hlt | hge
    · rw [List.getElem?_append_left hlt] at hj; exact ⟨s', hj, hr⟩
    · rw [List.getElem?_append_right hge] at hj
      have := hnew s' (List.mem_of_getElem? hj)
      rw [hr] at this; cases this
  | start i ct faults =>
    exact onSvc_noNewRun w i faults _ (fun s os fx => svcStart_noNewRun s os fx ct) hf j s' hj hr
  | stop i faults =>
    exact onSvc_noNewRun w i faults _ (fun s os fx _ => svcStop_noNewRun s os fx) hf j s' hj hr
  | remove i keep faults =>
    exact onSvc_noNewRun w i faults _ (fun s os fx _ => svcRemove_noNewRun s os fx keep) hf j s' hj hr
  | upgrade i force start ver ct faults =>
    exact onSvc_noNewRun w i faults _ (fun s os fx => svcUpgrade_noNewRun s os fx force start ver ct) hf j s' hj hr
  | refresh => simp [result, exec, Res.ok] at hf
  | refreshFull =>
    simp only [step, exec] at hj
    rcases refreshFull_get w.os w.reg j with ⟨h1, _⟩ | ⟨s, t, h1, h2, h3⟩
    · rw [h1] at hj; cases hj
    · rw [h2] at hj; cases hj
      rcases h3 with rfl | ⟨hl, rfl⟩
      · exact ⟨_, h1, hr⟩
      · exact ⟨s, h1, svcRefresh_dead_not_running _ _ hl hr⟩
  | restartOutside i =>
    simp only [step, result, exec] at hf hj
    split at hf
    · rename_i h; simp only [h] at hj; exact ⟨s', hj, hr⟩
    · simp [Res.ok] at hf
  | kill i =>
    simp only [step, result, exec] at hf hj
    split at hf
    · rename_i h; simp only [h] at hj; exact ⟨s', hj, hr⟩
    · simp [Res.ok] at hf
  | flaky i on =>
    simp only [step, result, exec] at hf hj
    split at hf
    · rename_i h; simp only [h] at hj; exact ⟨s', hj, hr⟩
    · simp [Res.ok] at hf
  | saveload => simp [result, exec, decode_encode, Res.ok] at hf

/-! ## 5. Names and data directories are unique -/

/-- The service name is `antnode{number}`, the data directory `<base>/antnode{number}`: no two registry entries
share a number, after any history (in particular after partially failed multi-node adds and removals). -/
theorem names_dirs_unique (ops : List Op) : ((run World.init ops).reg.map (·.number)).Nodup :=
  (run_inv World.init ops inv_init).nodup

theorem names_dirs_unique_index (ops : List Op) (i j : Nat) (s t : Svc)
    (hi : (run World.init ops).reg[i]? = some s) (hj : (run World.init ops).reg[j]? = some t) (hne : i ≠ j) :
    s.number ≠ t.number :=
  fun he => hne (nodup_index (names_dirs_unique ops) hi hj he)

/-! ## 6. A requested port that another service already records is refused -/

def requested : Option (Nat × Nat) → List Nat
  | none => []
  | some r => prPorts r

theorem checkRange_refuses (r : Option (Nat × Nat)) (count : Nat) (ports : List Nat) (p : Nat)
    (hp : p ∈ requested r) (hin : p ∈ ports) : ∃ e, checkRange r count ports = some e := by
  cases r with
  | none => simp [requested] at hp
  | some r =>
    simp only [requested] at hp
    unfold checkRange
    dsimp only
    split
    · exact ⟨_, rfl⟩
    · split
      · exact ⟨_, rfl⟩
      · rename_i hnone
        have := List.find?_eq_none.mp hnone p hp
        simp [hin] at this

/-- In any state: if one of the requested node / metrics / RPC ports is recorded by an existing service, `add`
fails, makes no `ServiceControl` call and changes nothing. -/
theorem requested_port_refused (w : World) (count : Nat) (np mp rp : Option (Nat × Nat)) (metrics : Bool)
    (ver : Nat) (faults : List Bool) (p : Nat) (hp : p ∈ requested np ++ requested mp ++ requested rp)
    (hin : p ∈ allPorts w.reg) :
    step w (.add count np mp rp metrics ver faults) = w ∧
    (result w (.add count np mp rp metrics ver faults)).failed = true ∧
    (exec w (.add count np mp rp metrics ver faults)).2.2 = 0 := by
  simp only [step, result, exec, addNode]
  simp only [List.mem_append] at hp
  cases h1 : checkRange np count (allPorts w.reg) with
  | some e => exact ⟨rfl, rfl, rfl⟩
  | none =>
    cases h2 : checkRange mp count (allPorts w.reg) with
    | some e => exact ⟨rfl, rfl, rfl⟩
    | none =>
      cases h3 : checkRange rp count (allPorts w.reg) with
      | some e => exact ⟨rfl, rfl, rfl⟩
      | none =>
        exfalso
        rcases hp with (hp | hp) | hp
        · obtain ⟨e, he⟩ := checkRange_refuses np count _ p hp hin; rw [h1] at he; cases he
        · obtain ⟨e, he⟩ := checkRange_refuses mp count _ p hp hin; rw [h2] at he; cases he
        · obtain ⟨e, he⟩ := checkRange_refuses rp count _ p hp hin; rw [h3] at he; cases he

/-! ## 7. The saved registry loads back to the same state -/

theorem save_load_identity (w : World) :
    decode (encode w.reg) = some w.reg ∧ step w .saveload = w ∧ (result w .saveload).failed = false := by
  refine ⟨decode_encode _, ?_, ?_⟩
  · simp [step, exec, decode_encode]
  · simp [result, exec, decode_encode, Res.ok]

/-- ... after every step of any history. -/
theorem save_load_identity_run (ops : List Op) :
    decode (encode (run World.init ops).reg) = some (run World.init ops).reg :=
  decode_encode _

/-! ## 8. The registry file: saved after each install; names stay unique across a reload -/

/-- **`add_node` saves after every completed install**, at every return point and under any fault list: either the
call recorded and installed nothing (file untouched), or the file it leaves is exactly the in-memory registry and
every service definition the call created is recorded in that file. `file` is the file's content before the call. -/
theorem saved_after_each_install (w : World) (fx : Fx) (file : List Svc) (count : Nat) (np mp rp : Option (Nat × Nat))
    (metrics : Bool) (ver : Nat) :
    let r := addNode w fx file count np mp rp metrics ver
    (r.1.reg = w.reg ∧ r.2.2.2 = file ∧ ∀ n, r.1.os.isInstalled n = w.os.isInstalled n) ∨
    (r.2.2.2 = r.1.reg ∧
      ∀ n, r.1.os.isInstalled n = true → w.os.isInstalled n = true ∨ ∃ s ∈ r.2.2.2, s.number = n) := by
  intro r
  unfold r addNode
  dsimp only
  split
  · left; exact ⟨rfl, rfl, fun _ => rfl⟩
  · split
    · left; exact ⟨rfl, rfl, fun _ => rfl⟩
    · split
      · left; exact ⟨rfl, rfl, fun _ => rfl⟩
      · have h0 : FileRel ⟨w, fx, [], [], false, file⟩ ⟨w, fx, [], [], false, file⟩ :=
          Or.inl ⟨rfl, rfl, fun _ => rfl⟩
        have h := addLoop_fileRel count (startNumber w.reg) (np.map (·.1)) (mp.map (·.1)) (rp.map (·.1)) metrics ver
          _ _ h0
        have h' : (_ ∧ _ ∧ _) ∨ (_ ∧ _) := h
        split
        · rcases h' with ⟨h1, h2, h3⟩ | ⟨h1, h2⟩
          · left; exact ⟨h1, h2, h3⟩
          · right; exact ⟨h1, fun n hn => by rw [h1]; exact h2 n hn⟩
        · split
          · rcases h' with ⟨h1, h2, h3⟩ | ⟨h1, h2⟩
            · left; exact ⟨h1, h2, h3⟩
            · right; exact ⟨h1, fun n hn => by rw [h1]; exact h2 n hn⟩
          · rcases h' with ⟨h1, h2, h3⟩ | ⟨h1, h2⟩
            · left; exact ⟨h1, h2, h3⟩
            · right; exact ⟨h1, fun n hn => by rw [h1]; exact h2 n hn⟩

/-- Every entry the call recorded in memory is in the file it leaves. -/
theorem recorded_is_saved (w : World) (fx : Fx) (file : List Svc) (count : Nat) (np mp rp : Option (Nat × Nat))
    (metrics : Bool) (ver : Nat) (s : Svc)
    (hs : s ∈ (addNode w fx file count np mp rp metrics ver).1.reg) (hnew : s ∉ w.reg) :
    s ∈ (addNode w fx file count np mp rp metrics ver).2.2.2 := by
  rcases saved_after_each_install w fx file count np mp rp metrics ver with ⟨h1, _, _⟩ | ⟨h1, _⟩
  · rw [h1] at hs; exact absurd hs hnew
  · rw [h1]; exact hs

theorem addNode_numbers (w : World) (fx : Fx) (file : List Svc) (count : Nat) (np mp rp : Option (Nat × Nat))
    (metrics : Bool) (ver : Nat) (hn : (w.reg.map (·.number)).Nodup) :
    ((addNode w fx file count np mp rp metrics ver).1.reg.map (·.number)).Nodup ∧
    (w.reg.map (·.number)) <+: ((addNode w fx file count np mp rp metrics ver).1.reg.map (·.number)) := by
  unfold addNode
  dsimp only
  split
  · exact ⟨hn, List.prefix_refl _⟩
  · split
    · exact ⟨hn, List.prefix_refl _⟩
    · split
      · exact ⟨hn, List.prefix_refl _⟩
      · have := addLoop_numbers count (startNumber w.reg) (np.map (·.1)) (mp.map (·.1)) (rp.map (·.1)) metrics ver
          ⟨w, fx, [], [], false, file⟩ (fresh_maxNumber w.reg) hn
        split
        · exact this
        · split <;> exact this

theorem onSvc_numbers (w : World) (i : Nat) (faults : List Bool) (f : Svc → OS → Fx → Svc × OS × Fx × Res)
    (hT : ∀ s os fx, (f s os fx).1.number = s.number) :
    (onSvc w i faults f).1.reg.map (·.number) = w.reg.map (·.number) := by
  cases hget : w.reg[i]? with
  | none => simp [onSvc, hget]
  | some s =>
    rw [onSvc_some faults f hget]
    exact map_number_set _ _ _ _ hget (hT s w.os ⟨faults, 0⟩)

/-- Every operation other than `add` leaves the list of recorded service numbers as it is. -/
theorem exec_numbers (w : World) (op : Op) :
    (∃ c np mp rp m v f, op = .add c np mp rp m v f) ∨ (exec w op).1.reg.map (·.number) = w.reg.map (·.number) := by
  cases op with
  | add c np mp rp m v f => left; exact ⟨c, np, mp, rp, m, v, f, rfl⟩
  | start i ct faults => right; exact onSvc_numbers w i faults _ (fun s os fx => (svcStart_trans s os fx ct).num)
  | stop i faults => right; exact onSvc_numbers w i faults _ (fun s os fx => (svcStop_trans s os fx).num)
  | remove i keep faults => right; exact onSvc_numbers w i faults _ (fun s os fx => (svcRemove_trans s os fx keep).num)
  | upgrade i force start ver ct faults =>
    right; exact onSvc_numbers w i faults _ (fun s os fx => (svcUpgrade_trans s os fx force start ver ct).num)
  | refresh =>
    right
    simp only [exec, List.map_map]
    congr 1
    funext s; exact svcRefresh_number _ _
  | refreshFull => right; simp only [exec]; exact refreshFull_numbers _ _
  | restartOutside i => right; simp only [exec]; split <;> rfl
  | kill i => right; simp only [exec]; split <;> rfl
  | flaky i on => right; simp only [exec]; split <;> rfl
  | saveload => right; simp only [exec, decode_encode]

/-- Recorded numbers are pairwise distinct and the file's numbers are an initial segment of them. -/
def SNum (s : Sys) : Prop :=
  (s.w.reg.map (·.number)).Nodup ∧ (s.file.map (·.number)) <+: (s.w.reg.map (·.number))

theorem stepS_nonadd (s : Sys) (o : Op) (hna : ∀ c np mp rp m v f, o ≠ .add c np mp rp m v f) :
    stepS s (.op o) =
      ⟨(exec s.w o).1, if callerSaves s.w o (exec s.w o).2.1 then (exec s.w o).1.reg else s.file⟩ := by
  cases o <;> first | (exfalso; exact hna _ _ _ _ _ _ _ rfl) | rfl

theorem stepS_snum (s : Sys) (sop : SOp) (h : SNum s) : SNum (stepS s sop) := by
  obtain ⟨hn, hp⟩ := h
  cases sop with
  | reload =>
    simp only [stepS, execS]
    exact ⟨hn.sublist hp.sublist, List.prefix_refl _⟩
  | op o =>
    rcases exec_numbers s.w o with ⟨c, np, mp, rp, m, v, f, rfl⟩ | he
    · simp only [stepS, execS]
      obtain ⟨g1, g2⟩ := addNode_numbers s.w ⟨f, 0⟩ s.file c np mp rp m v hn
      refine ⟨g1, ?_⟩
      dsimp only
      split
      · rcases saved_after_each_install s.w ⟨f, 0⟩ s.file c np mp rp m v with ⟨_, h2, _⟩ | ⟨h2, _⟩
        · rw [h2]; exact hp.trans g2
        · rw [h2]; exact List.prefix_refl _
      · exact List.prefix_refl _
    · by_cases hadd : ∃ c np mp rp m v f, o = .add c np mp rp m v f
      · obtain ⟨c, np, mp, rp, m, v, f, rfl⟩ := hadd
        simp only [stepS, execS]
        obtain ⟨g1, g2⟩ := addNode_numbers s.w ⟨f, 0⟩ s.file c np mp rp m v hn
        refine ⟨g1, ?_⟩
        dsimp only
        split
        · rcases saved_after_each_install s.w ⟨f, 0⟩ s.file c np mp rp m v with ⟨_, h2, _⟩ | ⟨h2, _⟩
          · rw [h2]; exact hp.trans g2
          · rw [h2]; exact List.prefix_refl _
        · exact List.prefix_refl _
      · have hna : ∀ c np mp rp m v f, o ≠ .add c np mp rp m v f :=
          fun c np mp rp m v f h => hadd ⟨c, np, mp, rp, m, v, f, h⟩
        rw [stepS_nonadd s o hna]
        refine ⟨by show ((exec s.w o).1.reg.map (·.number)).Nodup; rw [he]; exact hn, ?_⟩
        show (List.map (·.number) (if callerSaves s.w o (exec s.w o).2.1 then (exec s.w o).1.reg else s.file)) <+:
          (exec s.w o).1.reg.map (·.number)
        split
        · exact List.prefix_refl _
        · rw [he]; exact hp

/-- **Names and data directories stay unique across reloads**: histories may at any point drop the in-memory
registry and continue from the registry file (`reload`), e.g. after an `add` that returned early. -/
theorem names_dirs_unique_reload (ops : List SOp) :
    ((runS Sys.init ops).w.reg.map (·.number)).Nodup ∧ ((runS Sys.init ops).file.map (·.number)).Nodup := by
  have h : SNum (runS Sys.init ops) := by
    have : ∀ (s : Sys), SNum s → SNum (runS s ops) := by
      induction ops with
      | nil => exact fun _ h => h
      | cons op r ih => exact fun s h => ih _ (stepS_snum s op h)
    exact this _ ⟨List.nodup_nil, List.prefix_refl _⟩
  exact ⟨h.1, h.1.sublist h.2.sublist⟩

/-- Every service definition the OS holds is recorded in the registry file. -/
def SInst (s : Sys) : Prop := ∀ n, s.w.os.isInstalled n = true → n ∈ s.file.map (·.number)

theorem stepS_sinst (s : Sys) (sop : SOp) (hnum : SNum s) (h : SInst s) : SInst (stepS s sop) := by
  obtain ⟨hn, hp⟩ := hnum
  cases sop with
  | reload => simp only [stepS, execS]; exact h
  | op o =>
    by_cases hadd : ∃ c np mp rp m v f, o = .add c np mp rp m v f
    · obtain ⟨c, np, mp, rp, m, v, f, rfl⟩ := hadd
      obtain ⟨_, g2⟩ := addNode_numbers s.w ⟨f, 0⟩ s.file c np mp rp m v hn
      simp only [stepS, execS]
      intro n hinst
      dsimp only at hinst ⊢
      rcases saved_after_each_install s.w ⟨f, 0⟩ s.file c np mp rp m v with ⟨h1, h2, h3⟩ | ⟨h2, h3⟩
      · rw [h3 n] at hinst
        have hin := h n hinst
        split
        · rw [h2]; exact hin
        · rw [h1]; exact hp.subset hin
      · have hmem : n ∈ (addNode s.w ⟨f, 0⟩ s.file c np mp rp m v).1.reg.map (·.number) := by
          rcases h3 n hinst with h4 | ⟨t, ht, htn⟩
          · exact g2.subset (hp.subset (h n h4))
          · rw [h2] at ht; exact List.mem_map.mpr ⟨t, ht, htn⟩
        split
        · rw [h2]; exact hmem
        · exact hmem
    · have hna : ∀ c np mp rp m v f, o ≠ .add c np mp rp m v f :=
        fun c np mp rp m v f h => hadd ⟨c, np, mp, rp, m, v, f, h⟩
      have he : (exec s.w o).1.reg.map (·.number) = s.w.reg.map (·.number) := by
        rcases exec_numbers s.w o with ⟨c, np, mp, rp, m, v, f, h⟩ | he
        · exact absurd h (hna c np mp rp m v f)
        · exact he
      rw [stepS_nonadd s o hna]
      intro n hinst
      have hin := h n (exec_instSub s.w o hna n hinst)
      show n ∈ List.map (·.number) (if callerSaves s.w o (exec s.w o).2.1 then (exec s.w o).1.reg else s.file)
      split
      · rw [he]; exact hp.subset hin
      · exact hin

theorem runS_inv (ops : List SOp) (s : Sys) (h : SNum s ∧ SInst s) : SNum (runS s ops) ∧ SInst (runS s ops) := by
  induction ops generalizing s with
  | nil => exact h
  | cons op r ih => exact ih (stepS s op) (And.intro (stepS_snum s op h.1) (stepS_sinst s op h.1 h.2))

/-- **Every installed service is recorded in the registry file**, after every step of every history (any faults,
kills, reloads): the next `antctl` invocation, which starts from the file, knows every service definition the OS
holds — in particular the ones created by an `add` that returned early. -/
theorem installed_recorded_in_file (ops : List SOp) (n : Nat)
    (hi : (runS Sys.init ops).w.os.isInstalled n = true) : ∃ t ∈ (runS Sys.init ops).file, t.number = n := by
  have h0 : SNum Sys.init ∧ SInst Sys.init := by
    refine ⟨⟨List.nodup_nil, List.prefix_refl _⟩, ?_⟩
    intro m hm
    simp [Sys.init, World.init, OS.init, OS.isInstalled] at hm
  obtain ⟨t, ht, htn⟩ := List.mem_map.mp ((runS_inv ops Sys.init h0).2 n hi)
  exact ⟨t, ht, htn⟩

/-! ## Non-vacuity -/

-- add two services with the first install failing, then add one more: numbers 2 and 3 (the F-s history)
example : (run World.init [.add 2 none none none false 1 [false, true], .add 1 none none none false 1 []]).reg.map (·.number)
    = [2, 3] := by decide
-- a started service is recorded Running with the pid of its live process
example : (run World.init [.add 1 none none none false 1 [], .start 0 false []]).reg.map (fun s => (s.status, s.pid))
    = [(.running, some 100)] := by decide
example : (run World.init [.add 1 none none none false 1 [], .start 0 false []]).os.procs = [⟨100, 1, 40100⟩] := by decide
-- the hypothesis of the partial theorems holds on ordinary histories: after stop, no process
example : NoProc (run World.init [.add 1 none none none false 1 [], .start 0 false [], .stop 0 []]).os 1 := by
  have h : (run World.init [.add 1 none none none false 1 [], .start 0 false [], .stop 0 []]).os.procs = [] := by decide
  intro p hp; rw [h] at hp; cases hp
-- a failing start (node_info RPC) leaves the entry Added
example : (run World.init orphanHistory).reg.map (·.status) = [.added] := by decide
example : (result (run World.init [.add 1 none none none false 1 []]) (.start 0 false [false, true])).failed = true := by decide
-- a requested port recorded by another service
example : (8000 : Nat) ∈ allPorts (run World.init [.add 1 (some (8000, 8000)) none none false 1 []]).reg := by decide

-- a running service restarted under a new pid behind the manager's back: stale until the refresh
example : (run World.init [.add 1 none none none false 1 [], .start 0 false [], .restartOutside 0]).reg.map (·.pid) = [some 100] := by decide
example : (run World.init [.add 1 none none none false 1 [], .start 0 false [], .restartOutside 0, .refresh]).reg.map (·.pid) = [some 101] := by decide
-- zero connected peers are recorded as `some 0`, not `none`, and survive the serialisation
example : (run World.init [.add 1 none none none false 1 [], .start 0 false [], .saveload]).reg.map (·.peers) = [some 0] := by decide
-- the registry file: an add that returns early (second port allocation fails) has saved the service it installed;
-- after a reload the next add continues with number 2
example : (runS Sys.init [.op (.add 3 none none none false 1 [false, false, true])]).file.map (·.number) = [1] := by decide
example : (runS Sys.init [.op (.add 3 none none none false 1 [false, false, true]), .reload,
    .op (.add 1 none none none false 1 [])]).w.reg.map (·.number) = [1, 2] := by decide
-- a failed start is not saved by its caller; a reload then drops nothing that matters
example : (runS Sys.init [.op (.add 1 none none none false 1 []), .op (.start 0 false []), .reload]).w.reg.map (·.status)
    = [.running] := by decide

end SafeNet.Props.C19

#print axioms SafeNet.Props.C19.running_has_process
#print axioms SafeNet.Props.C19.refresh_reestablishes
#print axioms SafeNet.Props.C19.stop_remove_leave_nothing_witness
#print axioms SafeNet.Props.C19.stop_remove_leave_nothing_partial
#print axioms SafeNet.Props.C19.refresh_clears_orphans
#print axioms SafeNet.Props.C19.removed_stays_removed_witness
#print axioms SafeNet.Props.C19.removed_stays_removed_partial
#print axioms SafeNet.Props.C19.failure_never_marks_running
#print axioms SafeNet.Props.C19.names_dirs_unique
#print axioms SafeNet.Props.C19.names_dirs_unique_index
#print axioms SafeNet.Props.C19.requested_port_refused
#print axioms SafeNet.Props.C19.save_load_identity
#print axioms SafeNet.Props.C19.save_load_identity_run
#print axioms SafeNet.Props.C19.saved_after_each_install
#print axioms SafeNet.Props.C19.recorded_is_saved
#print axioms SafeNet.Props.C19.names_dirs_unique_reload
#print axioms SafeNet.Props.C19.installed_recorded_in_file
#print axioms SafeNet.Props.C19.refresh_records_os_pid
#print axioms SafeNet.Props.C19.refresh_records_live
