import SafeNet.Proofs.LifecycleCmd
import SafeNet.Proofs.LifecyclePorts
/-!
# C19 — service lifecycle state matches the managed processes, even under faults

Model: `SafeNet/Model/Lifecycle.lean` (`World = Registry × OS`, every operation the exact sequence of
`ServiceControl`/`RpcActions` calls with a fault oracle consumed call by call), tied to the Rust by the
differential correspondence run (`harness/hmgr/src/bin/lifecycle.rs` vs `drv_lifecycle`).

All theorems quantify over operation lists of any length, each operation carrying an arbitrary fault list; a fault
is either a call that fails without effect or a call that has its effect and then reports failure (`Fault.failAfter`).
Operations: add, start, stop, remove, upgrade, the partial refresh every `antctl` command runs first, the full refresh
of `antctl status` (through the node RPC, which can succeed or fail at any call), and the daemon's restart
(`restart_node_service`, with or without retained peer id).
`Op.kill` (a process dying behind the manager's back) is an environment event, not a fault of a call; it is part
of the histories everywhere except in `running_has_process`, where the clause is about what the manager records.

The registry file is a second observable (`Sys`, `SOp.reload`, sections 8-8c): it changes only where the code saves.
Where the callers save and whether they refresh first — cmd/node.rs `add / start / stop / remove / upgrade / status`,
antctld's `restart_handler` — is read from the source by rs2lean (one flag per site, `CmdCfg.gen`); `SOp.cmd` is one
whole `antctl` invocation (load, partial refresh, service selection, operation, save). Theorems about that layer:
`running_has_process_file` (+ witness for the command layer before this round's repair), `cmd_stop_remove_leave_nothing`
(full strength: no K-s-orphan hypothesis), `cmd_success_is_saved`, `daemon_restart_saves`.
Ports (section 6): `requested_port_refused`, `requested_twice_refused`, `no_two_services_share_a_port` /
`add_keeps_ports_distinct` (post-state, requested ports), witnesses `overlap_check_needed` (old shape),
`auto_port_not_compared` (declared assumption) and, for the daemon's replacement service, K-s-rpcshare (section 10).

Two clauses are false of the code in full strength (known finding K-s-orphan: a `start` whose RPC query fails
after the process was launched records nothing about the live process): the full statements are kept as `def`s,
refuted on concrete histories, and proved under the named hypothesis "no unrecorded live process".
-/
namespace SafeNet.Props.C19
open SafeNet.Lifecycle

theorem onSvc_some {w : World} {i : Nat} {s : Svc} (faults : List Fault) (f : Svc → OS → Fx → Svc × OS × Fx × Res)
    (h : w.reg[i]? = some s) :
    onSvc w i faults f =
      (⟨w.reg.set i (f s w.os ⟨faults, 0⟩).1, (f s w.os ⟨faults, 0⟩).2.1⟩, (f s w.os ⟨faults, 0⟩).2.2.2,
        (f s w.os ⟨faults, 0⟩).2.2.1.calls) := by
  simp [onSvc, h]

theorem getElem?_set_self' {reg : List Svc} {i : Nat} {s s' : Svc} (h : reg[i]? = some s) :
    (reg.set i s')[i]? = some s' := by
  have hlt : i < reg.length := by
    rcases Nat.lt_or_ge i reg.length with hlt | hge
    · exact hlt
    · rw [List.getElem?_eq_none hge] at h; cases h
  simp [hlt]

/-! ## 1. A service recorded Running has a live process with the recorded pid -/

/-- After any history of manager operations — add, start, stop, remove, upgrade, partial and full refresh (successful
or failing at any RPC call), the daemon's restart with or without retained peer id — under any faults, where a faulted
call either has no effect or HAS ITS EFFECT AND THEN REPORTS FAILURE (`Fault.failAfter`: `stop` killed the process,
`start` launched it, `uninstall`/`install` changed the definition), every entry recorded Running has a live process of
that service whose pid is the recorded one. (`ServiceManager::stop` looks the process up again after a failed
`service_control.stop` — flag `stopFailChecksProcess`, regenerated from lib.rs; without that a `stop` that kills and
then reports failure left Running + the pid of a dead process: fixed.) Only events that are no calls of the manager at
all are excluded: `kill` / `restartOutside`, for which see `refresh_reestablishes`. -/
theorem running_has_process (ops : List Op) (hk : ∀ op ∈ ops, op.isKill = false)
    (s : Svc) (hs : s ∈ (run World.init ops).reg) (hr : s.status = .running) :
    ∃ p ∈ (run World.init ops).os.procs, p.svc = s.number ∧ s.pid = some p.pid :=
  run_good World.init ops hk inv_init good_init s hs hr

theorem svcRefresh_refreshed (os : OS) (s : Svc) : Refreshed os s (svcRefresh os s) := by
  cases hl : os.lookup s.number with
  | none => exact Or.inl ⟨hl, rfl⟩
  | some p => exact Or.inr ⟨p, hl, by simp [svcRefresh, hl], by simp [svcRefresh, hl], by simp [svcRefresh, hl]⟩

/-- A refresh that went through (the partial one always does; the full one if no RPC call failed and, with `--fail`,
every service is running) leaves the OS alone and relates every entry, index by index, to the entry it refreshed. -/
theorem refresh_step_get (w : World) (op : Op) (hop : op.isRefresh = true) (hok : (result w op).failed = false) (k : Nat) :
    (step w op).os = w.os ∧
    (((step w op).reg[k]? = none ∧ w.reg[k]? = none) ∨
      ∃ s s', w.reg[k]? = some s ∧ (step w op).reg[k]? = some s' ∧ Refreshed w.os s s') := by
  cases op with
  | refresh =>
    refine ⟨rfl, ?_⟩
    simp only [step, exec, List.getElem?_map]
    cases h : w.reg[k]? with
    | none => left; exact ⟨rfl, rfl⟩
    | some s => right; exact ⟨s, _, rfl, rfl, svcRefresh_refreshed _ _⟩
  | refreshFull fail faults =>
    have hg := refreshFull_get w.os w.reg ⟨faults, 0⟩ k
    simp only [step, result, exec] at hok ⊢
    rcases h : refreshFull w.os w.reg ⟨faults, 0⟩ with ⟨reg, fx, e⟩
    rw [h] at hg
    cases e with
    | some e => simp [h, Res.err] at hok
    | none =>
      refine ⟨rfl, ?_⟩
      rcases hg with hg | ⟨s, s', g1, g2, _, g4⟩
      · left; exact hg
      · right; exact ⟨s, s', g1, g2, g4 rfl⟩
  | add _ _ _ _ _ _ _ => simp [Op.isRefresh] at hop
  | start _ _ _ => simp [Op.isRefresh] at hop
  | stop _ _ => simp [Op.isRefresh] at hop
  | remove _ _ _ => simp [Op.isRefresh] at hop
  | upgrade _ _ _ _ _ _ => simp [Op.isRefresh] at hop
  | drestart _ _ _ => simp [Op.isRefresh] at hop
  | restartOutside _ => simp [Op.isRefresh] at hop
  | kill _ => simp [Op.isRefresh] at hop
  | flaky _ _ => simp [Op.isRefresh] at hop
  | saveload => simp [Op.isRefresh] at hop

theorem refresh_step_mem (w : World) (op : Op) (hop : op.isRefresh = true) (hok : (result w op).failed = false)
    (s' : Svc) (hs : s' ∈ (step w op).reg) : (step w op).os = w.os ∧ ∃ s ∈ w.reg, Refreshed w.os s s' := by
  obtain ⟨k, hk⟩ := List.mem_iff_getElem?.mp hs
  obtain ⟨ho, hg⟩ := refresh_step_get w op hop hok k
  refine ⟨ho, ?_⟩
  rcases hg with ⟨h1, _⟩ | ⟨s, t, h1, h2, h3⟩
  · rw [h1] at hk; cases hk
  · rw [h2] at hk; cases hk
    exact ⟨s, List.mem_of_getElem? h1, h3⟩

/-- With processes dying or being restarted behind the manager's back anywhere in the history, a refresh that went
through — the partial one, or the full one of `antctl status` with all its RPC calls answered — re-establishes the
clause for every service. -/
theorem refresh_reestablishes (ops : List Op) (op : Op) (hop : op.isRefresh = true)
    (hok : (result (run World.init ops) op).failed = false) (s : Svc)
    (hs : s ∈ (step (run World.init ops) op).reg) (hr : s.status = .running) :
    ∃ p ∈ (step (run World.init ops) op).os.procs, p.svc = s.number ∧ s.pid = some p.pid := by
  obtain ⟨ho, t, _, ht⟩ := refresh_step_mem _ op hop hok s hs
  rw [ho]
  exact refreshed_good ht hr

/-- **After a refresh every service recorded Running carries the pid the OS reports** for its binary — from ANY
state, in particular when a running service was restarted under a new pid behind the manager's back
(`Op.restartOutside`) or died (`Op.kill`): the partial refresh every `antctl` command runs first is what corrects a
stale pid (`ServiceManager::start` returns early for a service recorded Running whose process is alive); a successful
full refresh does the same. -/
theorem refresh_records_os_pid (w : World) (op : Op) (hop : op.isRefresh = true) (hok : (result w op).failed = false)
    (s : Svc) (hs : s ∈ (step w op).reg) (hr : s.status = .running) :
    ∃ p, (step w op).os.lookup s.number = some p ∧ s.pid = some p.pid := by
  obtain ⟨ho, t, _, ht⟩ := refresh_step_mem w op hop hok s hs
  rw [ho]
  exact refreshed_os_pid ht hr

/-- ... and conversely a refresh records every live process of a recorded service: status Running with its pid. -/
theorem refresh_records_live (w : World) (op : Op) (hop : op.isRefresh = true) (hok : (result w op).failed = false)
    (k : Nat) (s : Svc) (hs : w.reg[k]? = some s) (p : Proc) (hp : w.os.lookup s.number = some p) :
    ∃ s', (step w op).reg[k]? = some s' ∧ s'.number = s.number ∧ s'.status = .running ∧ s'.pid = some p.pid := by
  rcases (refresh_step_get w op hop hok k).2 with ⟨_, h2⟩ | ⟨t, s', h1, h2, h3⟩
  · rw [hs] at h2; cases h2
  · rw [hs] at h1; cases h1
    rcases h3 with ⟨hl, _⟩ | ⟨q, hq, g1, g2, g3⟩
    · rw [hp] at hl; cases hl
    · rw [hp] at hq; cases hq
      exact ⟨s', h2, g1, g2, g3⟩

/-- A pid is recorded only together with Running (used by the stop/remove clause). -/
theorem pid_only_when_running (ops : List Op) (s : Svc) (hs : s ∈ (run World.init ops).reg)
    (hr : s.status ≠ .running) : s.pid = none :=
  (run_inv World.init ops inv_init).pid s hs hr

/-! ## 2. A successful stop or removal leaves no process and no recorded pid -/

def isStopOrRemove (i : Nat) : Op → Bool
  | .stop j _ => i == j
  | .remove j _ _ => i == j
  | _ => false

/-- Full statement (FALSE of the code, see the witness below). -/
def StopRemoveLeaveNothing : Prop :=
  ∀ (ops : List Op) (op : Op) (i : Nat) (s : Svc), isStopOrRemove i op = true →
    (run World.init ops).reg[i]? = some s → (result (run World.init ops) op).failed = false →
    NoProc (step (run World.init ops) op).os s.number ∧
    ∃ s', (step (run World.init ops) op).reg[i]? = some s' ∧ s'.pid = none

/-- The service has no live process that the registry does not know about. -/
def NoOrphan (w : World) (s : Svc) : Prop := s.status ≠ .running → NoProc w.os s.number

/-- History of K-s-orphan: the `node_info` RPC fails after the process was launched. -/
def orphanHistory : List Op := [.add 1 none none none false 1 [], .start 0 false [.ok, .fail]]

theorem stop_remove_leave_nothing_witness : ¬ StopRemoveLeaveNothing := by
  intro h
  have h1 := (h orphanHistory (.stop 0 []) 0 ⟨1, .added, none, none, none, 30000, 1, none, none, none⟩ rfl (by decide) (by decide)).1
  exact h1 ⟨100, 1, 40100, 30000⟩ (by decide) rfl

/-- One successful `stop` / `remove` from any state: the entry records a pid only together with Running (`hpid`) and has
no unrecorded live process (`hno`). -/
theorem stop_remove_step (w : World) (op : Op) (i : Nat) (s : Svc)
    (hop : isStopOrRemove i op = true) (hget : w.reg[i]? = some s) (hpid : PidOk s)
    (hno : NoOrphan w s) (hok : (result w op).failed = false) :
    NoProc (step w op).os s.number ∧ ∃ s', (step w op).reg[i]? = some s' ∧ s'.pid = none := by
  cases op with
  | stop j faults =>
    have hij : i = j := by simpa [isStopOrRemove] using hop
    subst hij
    simp only [step, result, exec, onSvc_some faults svcStop hget] at hok ⊢
    refine ⟨?_, _, getElem?_set_self' hget, ?_⟩
    · rcases svcStop_cases s w.os ⟨faults, 0⟩ with ⟨_, h2, h3⟩ | ⟨_, _, h3⟩
      · rw [h2]; exact hno (h3 hok)
      · rcases h3 with ⟨h3, h4⟩ | h3
        · rw [h3]; exact h4
        · exact (osStop_spec h3).2.2.2.1
    · rcases svcStop_cases s w.os ⟨faults, 0⟩ with ⟨h1, _, h3⟩ | ⟨_, h1, _⟩
      · rw [h1]; exact hpid (h3 hok)
      · rw [h1]; exact onStop_pid s
  | remove j keep faults =>
    have hij : i = j := by simpa [isStopOrRemove] using hop
    subst hij
    simp only [step, result, exec, onSvc_some faults (fun s os fx => svcRemove s os fx keep) hget] at hok ⊢
    rcases svcRemove_cases s w.os ⟨faults, 0⟩ keep with ⟨h, _⟩ | ⟨h, _⟩ | ⟨_, hnr, h1, hp, _, _⟩
    · rw [hok] at h; cases h
    · rw [hok] at h; cases h
    · refine ⟨?_, _, getElem?_set_self' hget, ?_⟩
      · intro p hpm; rw [hp] at hpm; exact hno hnr p hpm
      · rw [h1]; exact hpid hnr
  | add _ _ _ _ _ _ _ => simp [isStopOrRemove] at hop
  | start _ _ _ => simp [isStopOrRemove] at hop
  | upgrade _ _ _ _ _ _ => simp [isStopOrRemove] at hop
  | refresh => simp [isStopOrRemove] at hop
  | refreshFull _ _ => simp [isStopOrRemove] at hop
  | drestart _ _ _ => simp [isStopOrRemove] at hop
  | restartOutside _ => simp [isStopOrRemove] at hop
  | kill _ => simp [isStopOrRemove] at hop
  | flaky _ _ => simp [isStopOrRemove] at hop
  | saveload => simp [isStopOrRemove] at hop

theorem stop_remove_leave_nothing_partial (ops : List Op) (op : Op) (i : Nat) (s : Svc)
    (hop : isStopOrRemove i op = true) (hget : (run World.init ops).reg[i]? = some s)
    (hno : NoOrphan (run World.init ops) s) (hok : (result (run World.init ops) op).failed = false) :
    NoProc (step (run World.init ops) op).os s.number ∧
    ∃ s', (step (run World.init ops) op).reg[i]? = some s' ∧ s'.pid = none :=
  stop_remove_step _ op i s hop hget ((run_inv World.init ops inv_init).pid s (List.mem_of_getElem? hget)) hno hok

/-- A refresh that went through (the partial one every `antctl` command runs first, or a successful full one)
removes the hypothesis: afterwards no service has an unrecorded live process. -/
theorem refresh_clears_orphans (w : World) (op : Op) (hop : op.isRefresh = true) (hok : (result w op).failed = false)
    (s : Svc) (hs : s ∈ (step w op).reg) : NoOrphan (step w op) s := by
  obtain ⟨ho, t, _, ht⟩ := refresh_step_mem w op hop hok s hs
  intro hnr
  rw [ho]
  exact refreshed_noOrphan ht hnr

/-! ## 3. A removed service stays removed -/

/-- Full statement (FALSE of the code, see the witness below). -/
def RemovedStaysRemoved : Prop :=
  ∀ (ops : List Op) (op : Op) (i : Nat) (s : Svc), (run World.init ops).reg[i]? = some s → s.status = .removed →
    ∃ s', (step (run World.init ops) op).reg[i]? = some s' ∧ s'.status = .removed

/-- K-s-orphan again: the unrecorded process survives the removal (uninstalling does not stop it) and the next
refresh finds it by its binary path. -/
def orphanRemoveHistory : List Op :=
  [.add 1 none none none false 1 [], .start 0 false [.ok, .ok, .fail], .remove 0 true []]

theorem removed_stays_removed_witness : ¬ RemovedStaysRemoved := by
  intro h
  obtain ⟨s', h1, h2⟩ := h orphanRemoveHistory .refresh 0 ⟨1, .removed, none, none, none, 30000, 1, none, none, none⟩ (by decide) rfl
  have : (step (run World.init orphanRemoveHistory) .refresh).reg[0]? =
      some ⟨1, .running, some 100, none, none, 30000, 1, none, none, none⟩ := by decide
  rw [this] at h1
  cases h1
  cases h2

/-- Once a service is Removed and has no live process, it stays Removed (and without process) through every further
history of operations, faults and kills. -/
theorem removed_stays_removed_partial (ops1 ops2 : List Op) (i : Nat) (s : Svc)
    (hget : (run World.init ops1).reg[i]? = some s) (hrem : s.status = .removed)
    (hno : NoProc (run World.init ops1).os s.number) :
    ∃ s', (run (run World.init ops1) ops2).reg[i]? = some s' ∧ s'.number = s.number ∧ s'.status = .removed ∧
      NoProc (run (run World.init ops1) ops2).os s.number :=
  run_removedAt _ ops2 i s.number (run_inv World.init ops1 inv_init) ⟨s, hget, rfl, hrem, hno⟩

/-! ## 4. A failed operation never newly records a service as Running -/

theorem addLoop_reg (k num : Nat) (np mp rp : Option Nat) (metrics : Bool) (ver : Nat) (a : AddAcc) :
    ∃ new, (addLoop k num np mp rp metrics ver a).w.reg = a.w.reg ++ new ∧ ∀ t ∈ new, t.status = .added := by
  induction k generalizing num np mp rp a with
  | zero => exact ⟨[], by simp [addLoop], fun _ h => by cases h⟩
  | succ k ih =>
    unfold addLoop
    dsimp only
    have h1 : ∃ new, (addOne num np mp rp metrics ver a).w.reg = a.w.reg ++ new ∧ ∀ t ∈ new, t.status = .added := by
      rcases addOne_cases num np mp rp metrics ver a with ⟨hr, _⟩ | ⟨hr, _⟩ | ⟨new, _, _, hst, _, hr, _, _⟩
      · exact ⟨[], by simpa using hr, fun _ h => by cases h⟩
      · exact ⟨[], by simpa using hr, fun _ h => by cases h⟩
      · exact ⟨[new], hr, fun t ht => by simp at ht; rw [ht]; exact hst⟩
    split
    · exact h1
    · obtain ⟨n1, e1, a1⟩ := h1
      obtain ⟨n2, e2, a2⟩ := ih (num + 1) (np.map (· + 1)) (mp.map (· + 1)) (rp.map (· + 1))
        (addOne num np mp rp metrics ver a)
      refine ⟨n1 ++ n2, by rw [e2, e1, List.append_assoc], ?_⟩
      intro t ht
      rcases List.mem_append.mp ht with h | h
      · exact a1 t h
      · exact a2 t h

theorem addNode_reg (w : World) (fx : Fx) (file : List Svc) (count : Nat) (np mp rp : Option (Nat × Nat))
    (metrics : Bool) (ver : Nat) :
    ∃ new, (addNode w fx file count np mp rp metrics ver).1.reg = w.reg ++ new ∧ ∀ t ∈ new, t.status = .added := by
  unfold addNode
  dsimp only
  have hnil : ∃ new, w.reg = w.reg ++ new ∧ ∀ t ∈ new, t.status = Status.added := ⟨[], by simp, fun _ h => by cases h⟩
  split
  · exact hnil
  · split
    · exact hnil
    · split
      · exact hnil
      · have := addLoop_reg count (startNumber w.reg) (np.map (·.1)) (mp.map (·.1)) (rp.map (·.1)) metrics ver
          ⟨w, fx, [], [], false, file⟩
        split
        · exact this
        · split <;> exact this

theorem onSvc_noNewRun (w : World) (i : Nat) (faults : List Fault) (f : Svc → OS → Fx → Svc × OS × Fx × Res)
    (hN : ∀ s os fx, (f s os fx).2.2.2.failed = true → (f s os fx).1.status = .running → s.status = .running)
    (hf : (onSvc w i faults f).2.1.failed = true) (j : Nat) (s' : Svc)
    (hj : (onSvc w i faults f).1.reg[j]? = some s') (hr : s'.status = .running) :
    ∃ s, w.reg[j]? = some s ∧ s.status = .running := by
  cases hget : w.reg[i]? with
  | none =>
    simp only [onSvc, hget] at hj
    exact ⟨s', hj, hr⟩
  | some s =>
    rw [onSvc_some faults f hget] at hf hj
    simp only at hf hj
    by_cases hij : i = j
    · subst hij
      rw [getElem?_set_self' hget] at hj
      cases hj
      exact ⟨s, hget, hN s w.os ⟨faults, 0⟩ hf hr⟩
    · rw [List.getElem?_set] at hj
      simp only [hij, if_false] at hj
      exact ⟨s', hj, hr⟩

/-- Whatever the state, if an operation other than the full refresh fails (returns an error, or
`UpgradedButNotStarted`), every entry that is recorded Running afterwards was already recorded Running before.
(A failing full refresh has refreshed the entries in front of the failing RPC call: see the next theorem.) -/
theorem failure_never_marks_running (w : World) (op : Op) (hnf : op.isFullRefresh = false)
    (hf : (result w op).failed = true)
    (j : Nat) (s' : Svc) (hj : (step w op).reg[j]? = some s') (hr : s'.status = .running) :
    ∃ s, w.reg[j]? = some s ∧ s.status = .running := by
  cases op with
  | add count np mp rp metrics ver faults =>
    simp only [step, exec] at hj
    obtain ⟨new, hreg, hnew⟩ := addNode_reg w ⟨faults, 0⟩ [] count np mp rp metrics ver
    rw [hreg] at hj
    rcases Nat.lt_or_ge j w.reg.length with hlt | hge
    · rw [List.getElem?_append_left hlt] at hj; exact ⟨s', hj, hr⟩
    · rw [List.getElem?_append_right hge] at hj
      have := hnew s' (List.mem_of_getElem? hj)
      rw [hr] at this; cases this
  | start i ct faults =>
    exact onSvc_noNewRun w i faults _ (fun s os fx => svcStart_noNewRun s os fx ct) hf j s' hj hr
  | stop i faults =>
    exact onSvc_noNewRun w i faults _ (fun s os fx _ => svcStop_noNewRun s os fx) hf j s' hj hr
  | remove i keep faults =>
    exact onSvc_noNewRun w i faults _ (fun s os fx _ => svcRemove_noNewRun s os fx keep) hf j s' hj hr
  | upgrade i force start ver ct faults =>
    exact onSvc_noNewRun w i faults _ (fun s os fx => svcUpgrade_noNewRun s os fx force start ver ct) hf j s' hj hr
  | refresh => simp [result, exec, Res.ok] at hf
  | refreshFull fail faults => simp [Op.isFullRefresh] at hnf
  | drestart i retain faults =>
    simp only [step, result] at hf hj
    rcases exec_drestart_cases w i retain faults with ⟨h1, _⟩ | ⟨k, _, h1⟩
    · rw [h1] at hj; exact ⟨s', hj, hr⟩
    · rw [h1] at hf hj
      exact restartAt_noNewRun w k retain faults hf j s' hj hr
  | restartOutside i =>
    simp only [step, result, exec] at hf hj
    split at hf
    · rename_i h; simp only [h] at hj; exact ⟨s', hj, hr⟩
    · simp [Res.ok] at hf
  | kill i =>
    simp only [step, result, exec] at hf hj
    split at hf
    · rename_i h; simp only [h] at hj; exact ⟨s', hj, hr⟩
    · simp [Res.ok] at hf
  | flaky i on =>
    simp only [step, result, exec] at hf hj
    split at hf
    · rename_i h; simp only [h] at hj; exact ⟨s', hj, hr⟩
    · simp [Res.ok] at hf
  | saveload => simp [result, exec, Res.ok] at hf

/-- **The clause as worded, for every operation incl. the full refresh**: from any state, if an operation fails and
an entry is recorded Running afterwards that was not recorded Running before, then it IS running — a live process of
that service has the recorded pid. (Only a full refresh whose RPC fails at a later service does this: the services in
front of it were refreshed and found alive.) -/
theorem failure_marks_running_only_if_it_is (w : World) (op : Op) (hf : (result w op).failed = true)
    (j : Nat) (s' : Svc) (hj : (step w op).reg[j]? = some s') (hr : s'.status = .running) :
    (∃ s, w.reg[j]? = some s ∧ s.status = .running) ∨
    (∃ p ∈ (step w op).os.procs, p.svc = s'.number ∧ s'.pid = some p.pid) := by
  cases hfr : op.isFullRefresh with
  | false => exact Or.inl (failure_never_marks_running w op hfr hf j s' hj hr)
  | true =>
    cases op with
    | refreshFull fail faults =>
      have hg := refreshFull_get w.os w.reg ⟨faults, 0⟩ j
      have hos : (step w (.refreshFull fail faults)).os = w.os := by
        simp only [step, exec]; split <;> rfl
      have hreg : (step w (.refreshFull fail faults)).reg = (refreshFull w.os w.reg ⟨faults, 0⟩).1 := by
        simp only [step, exec]; split <;> (rename_i h; rw [h])
      rw [hos]
      rw [hreg] at hj
      rcases hg with ⟨h1, _⟩ | ⟨s, t, h1, h2, h3, _⟩
      · rw [h1] at hj; cases hj
      · rw [h2] at hj; cases hj
        rcases h3 with rfl | h3
        · exact Or.inl ⟨_, h1, hr⟩
        · exact Or.inr (refreshed_good h3 hr)
    | add _ _ _ _ _ _ _ => simp [Op.isFullRefresh] at hfr
    | start _ _ _ => simp [Op.isFullRefresh] at hfr
    | stop _ _ => simp [Op.isFullRefresh] at hfr
    | remove _ _ _ => simp [Op.isFullRefresh] at hfr
    | upgrade _ _ _ _ _ _ => simp [Op.isFullRefresh] at hfr
    | refresh => simp [Op.isFullRefresh] at hfr
    | drestart _ _ _ => simp [Op.isFullRefresh] at hfr
    | restartOutside _ => simp [Op.isFullRefresh] at hfr
    | kill _ => simp [Op.isFullRefresh] at hfr
    | flaky _ _ => simp [Op.isFullRefresh] at hfr
    | saveload => simp [Op.isFullRefresh] at hfr

/-! ## 5. Names and data directories are unique -/

/-- The service name is `antnode{number}`, the data directory `<base>/antnode{number}`: no two registry entries
share a number, after any history (in particular after partially failed multi-node adds and removals). -/
theorem names_dirs_unique (ops : List Op) : ((run World.init ops).reg.map (·.number)).Nodup :=
  (run_inv World.init ops inv_init).nodup

theorem names_dirs_unique_index (ops : List Op) (i j : Nat) (s t : Svc)
    (hi : (run World.init ops).reg[i]? = some s) (hj : (run World.init ops).reg[j]? = some t) (hne : i ≠ j) :
    s.number ≠ t.number :=
  fun he => hne (nodup_index (names_dirs_unique ops) hi hj he)

/-! ## 6. A requested port that another service already records is refused -/

def requested : Option (Nat × Nat) → List Nat
  | none => []
  | some r => prPorts r

theorem checkRange_refuses (r : Option (Nat × Nat)) (count : Nat) (ports : List Nat) (p : Nat)
    (hp : p ∈ requested r) (hin : p ∈ ports) : ∃ e, checkRange r count ports = some e := by
  cases r with
  | none => simp [requested] at hp
  | some r =>
    simp only [requested] at hp
    unfold checkRange
    dsimp only
    split
    · exact ⟨_, rfl⟩
    · split
      · exact ⟨_, rfl⟩
      · rename_i hnone
        have := List.find?_eq_none.mp hnone p hp
        simp [hin] at this

/-- In any state: if one of the requested node / metrics / RPC ports is recorded by an existing service, `add`
fails, makes no `ServiceControl` call and changes nothing. -/
theorem requested_port_refused (w : World) (count : Nat) (np mp rp : Option (Nat × Nat)) (metrics : Bool)
    (ver : Nat) (faults : List Fault) (p : Nat) (hp : p ∈ requested np ++ requested mp ++ requested rp)
    (hin : p ∈ allPorts w.reg) :
    step w (.add count np mp rp metrics ver faults) = w ∧
    (result w (.add count np mp rp metrics ver faults)).failed = true ∧
    (exec w (.add count np mp rp metrics ver faults)).2.2 = 0 := by
  simp only [step, result, exec, addNode]
  simp only [List.mem_append] at hp
  cases h1 : checkRange np count (allPorts w.reg) with
  | some e => exact ⟨rfl, rfl, rfl⟩
  | none =>
    cases h2 : checkRange mp count (allPorts w.reg) with
    | some e => exact ⟨rfl, rfl, rfl⟩
    | none =>
      cases h3 : checkRpc np mp rp count (allPorts w.reg) with
      | some e => exact ⟨rfl, rfl, rfl⟩
      | none =>
        exfalso
        rcases hp with (hp | hp) | hp
        · obtain ⟨e, he⟩ := checkRange_refuses np count _ p hp hin; rw [h1] at he; cases he
        · obtain ⟨e, he⟩ := checkRange_refuses mp count _ p hp hin; rw [h2] at he; cases he
        · obtain ⟨e, he⟩ := checkRange_refuses rp count _ p hp hin
          simp [checkRpc, he] at h3

/-- ... and so is an `add` two of whose requested node / metrics / RPC ranges share a port: the port would be recorded
for two of the new services (`--count 2 --node-port 8000-8001 --metrics-port 8001-8002`: antnode2's node port is
antnode1's metrics port, which antnode1 records before antnode2 is added) or twice for one (`--node-port 8000
--rpc-port 8000`). `add_node` compared each requested range with the registry's state before the call only; now the
three ranges are compared with each other up front (`check_port_ranges_disjoint`, flag
`requestedRangesDisjointChecked` regenerated from add_services/mod.rs). -/
theorem requested_twice_refused (w : World) (count : Nat) (np mp rp : Option (Nat × Nat)) (metrics : Bool)
    (ver : Nat) (faults : List Fault) (x y : Nat × Nat) (p : Nat)
    (hxy : (mp = some x ∧ np = some y) ∨ (rp = some x ∧ np = some y) ∨ (rp = some x ∧ mp = some y))
    (hx : p ∈ prPorts x) (hy : p ∈ prPorts y) :
    step w (.add count np mp rp metrics ver faults) = w ∧
    (result w (.add count np mp rp metrics ver faults)).failed = true ∧
    (exec w (.add count np mp rp metrics ver faults)).2.2 = 0 := by
  have hov : ¬ NoOverlap x y := by
    intro h
    unfold NoOverlap at h
    have h1 := (mem_prPorts x p).mp hx
    have h2 := (mem_prPorts y p).mp hy
    unfold prCount at h1 h2
    rw [Nat.max_def, Nat.min_def] at h
    split at h <;> split at h <;> omega
  simp only [step, result, exec, addNode]
  cases h1 : checkRange np count (allPorts w.reg) with
  | some e => exact ⟨rfl, rfl, rfl⟩
  | none =>
    cases h2 : checkRange mp count (allPorts w.reg) with
    | some e => exact ⟨rfl, rfl, rfl⟩
    | none =>
      cases h3 : checkRpc np mp rp count (allPorts w.reg) with
      | some e => exact ⟨rfl, rfl, rfl⟩
      | none =>
        exfalso
        have hd : checkDisjoint np mp rp = none := by
          unfold checkRpc at h3
          split at h3
          · cases h3
          · exact h3
        obtain ⟨o1, o2, o3⟩ := checkDisjoint_none' hd
        rcases hxy with ⟨h, h'⟩ | ⟨h, h'⟩ | ⟨h, h'⟩
        · exact hov (overlapErr_none o1 x (by simp [h]) y (by simp [h']))
        · exact hov (overlapErr_none o2 x (by simp [h]) y (by simp [h']))
        · exact hov (overlapErr_none o3 x (by simp [h]) y (by simp [h']))

/-- **Post-state: no two services share a port.** An `add` all of whose ports are requested (RPC range given; metrics
range given or no metrics server) — from any state, whatever faults its installs meet — appends entries such that every
new entry's ports are pairwise distinct, none of them is recorded by a service that was there before, and no two new
entries share one. (Ports handed out by `get_available_port` are whatever the OS reports as free at that moment; the
code compares them with nothing — see `auto_port_not_compared` and the declared assumption.) -/
theorem no_two_services_share_a_port (w : World) (count : Nat) (np mp : Option (Nat × Nat)) (rr : Nat × Nat)
    (metrics : Bool) (ver : Nat) (faults : List Fault) (hmp : mp.isSome = true ∨ metrics = false) :
    ∃ new, (step w (.add count np mp (some rr) metrics ver faults)).reg = w.reg ++ new ∧
      (∀ e ∈ new, (svcPorts e).Nodup ∧ ∀ p ∈ svcPorts e, p ∉ allPorts w.reg) ∧
      (∀ e ∈ new, ∀ e' ∈ new, e.number ≠ e'.number → ∀ p ∈ svcPorts e, p ∉ svcPorts e') := by
  have hnil : ∃ new : List Svc, w.reg = w.reg ++ new ∧
      (∀ e ∈ new, (svcPorts e).Nodup ∧ ∀ p ∈ svcPorts e, p ∉ allPorts w.reg) ∧
      (∀ e ∈ new, ∀ e' ∈ new, e.number ≠ e'.number → ∀ p ∈ svcPorts e, p ∉ svcPorts e') :=
    ⟨[], by simp, fun _ h => (by cases h), fun _ h => (by cases h)⟩
  simp only [step, exec, addNode]
  cases h1 : checkRange np count (allPorts w.reg) with
  | some e => exact hnil
  | none =>
    cases h2 : checkRange mp count (allPorts w.reg) with
    | some e => exact hnil
    | none =>
      cases h3 : checkRpc np mp (some rr) count (allPorts w.reg) with
      | some e => exact hnil
      | none =>
        have h3' : checkRange (some rr) count (allPorts w.reg) = none ∧ checkDisjoint np mp (some rr) = none := by
          unfold checkRpc at h3
          split at h3
          · cases h3
          · rename_i h; exact ⟨h, h3⟩
        have hpw := checkDisjoint_none h3'.2
        have hchk : ∀ x ∈ slots np mp (some rr), count = prCount x ∧
            ∀ p, x.1 ≤ p → p < x.1 + count → p ∉ allPorts w.reg := by
          intro x hx
          unfold slots at hx
          rcases List.mem_append.mp hx with hx | hx
          · rcases List.mem_append.mp hx with hx | hx
            · exact checkRange_none h2 x hx
            · exact checkRange_none h1 x hx
          · exact checkRange_none h3'.1 x hx
        have hmp' : (mp.map (·.1)).isSome = true ∨ metrics = false := by
          rcases hmp with h | h
          · left; cases mp <;> simp_all
          · right; exact h
        obtain ⟨new, hreg, hnew⟩ := addLoop_requested count (startNumber w.reg) (np.map (·.1)) (mp.map (·.1)) rr.1
          metrics ver ⟨w, ⟨faults, 0⟩, [], [], false, []⟩ hmp'
        have hoff : ∀ e ∈ new, e.number - startNumber w.reg < count := by
          intro e he; obtain ⟨g1, g2, _⟩ := hnew e he; omega
        refine ⟨new, ?_, ?_, ?_⟩
        · simp only [Option.map_some] at hreg ⊢
          split
          · exact hreg
          · split <;> exact hreg
        · intro e he
          rw [newAt_ports (hnew e he)]
          exact ⟨portsAt_nodup hpw (fun x hx => (hchk x hx).1) (hoff e he),
            portsAt_free (fun x hx => (hchk x hx).2) (hoff e he)⟩
        · intro e he e' he' hne p hp
          rw [newAt_ports (hnew e he)] at hp
          rw [newAt_ports (hnew e' he')]
          have g := hnew e he
          have g' := hnew e' he'
          exact portsAt_disjoint hpw (fun x hx => (hchk x hx).1) (hoff e he) (hoff e' he')
            (by have := g.1; have := g'.1; omega) p hp

/-- **Witness for the old shape**: the install loop on overlapping ranges (what `add_node` ran before the ranges were
compared with each other) records antnode2's node port 8001 = antnode1's metrics port 8001. -/
theorem overlap_check_needed :
    (addLoop 2 1 (some 8000) (some 8001) none false 1 ⟨World.init, ⟨[], 0⟩, [], [], false, []⟩).w.reg.map
      (fun e => (e.number, e.nodePort, e.metricsPort)) = [(1, some 8000, some 8001), (2, some 8001, some 8002)] := by
  decide

/-- A port handed out by `get_available_port` is compared with nothing: a requested node port equal to the port the OS
hands out next is recorded twice by one service (in the model the allocator counts up from 30000; on a real OS a port
that a stopped service records, or one requested for a service that is not started yet, is free and can be handed out).
Declared assumption: the OS never hands out a port that is recorded or requested. -/
theorem auto_port_not_compared :
    (run World.init [.add 1 (some (30000, 30000)) none none false 1 []]).reg.map (fun e => (e.nodePort, e.rpcPort))
      = [(some 30000, 30000)] := by decide

/-! ## 7. The saved registry loads back to the same state — NOT a Lean theorem

The model has no serialisation of the registry: `NodeRegistry::save` / `load` are serde-derived JSON (plus the custom
(de)serialisers of `connected_peers` and `peer_id`), and a round-trip theorem about a codec invented for the model would
say nothing about them. This clause is established by the harness only (`harness/hmgr/src/bin/lifecycle.rs`), on the
real code: after EVERY operation the oracle clause `save-load-identity` runs the real `serde_json::to_string` +
`NodeRegistry::from_json` (the code `save`/`load` use) on the real registry and requires the same value and the same
bytes again, also with every optional list/string field forced to `Some(empty)` and to `None`; the registry FILE is an
observable of every output line (`F` dump, `file-matches-memory`), and `reload` / `saveload` continue from what the
real `load` returns, so a lossy round trip also shows as a correspondence difference. In the model `Op.saveload` is
the identity and `SOp.reload` continues from the modelled file content. -/

/-! ## 8. The registry file: saved after each install; names stay unique across a reload -/

/-- **`add_node` saves after every completed install**, at every return point and under any fault list in which no
call has its effect and then reports failure: either the call recorded and installed nothing (file untouched), or the
file it leaves is exactly the in-memory registry and every service definition the call created is recorded in that
file. `file` is the file's content before the call. (An `install` that writes the definition and then reports failure
leaves a definition `add_node` cannot know about: `hc` excludes exactly that.) -/
theorem saved_after_each_install (w : World) (fx : Fx) (file : List Svc) (count : Nat) (np mp rp : Option (Nat × Nat))
    (metrics : Bool) (ver : Nat) (hc : fx.Clean) :
    let r := addNode w fx file count np mp rp metrics ver
    (r.1.reg = w.reg ∧ r.2.2.2 = file ∧ ∀ n, r.1.os.isInstalled n = w.os.isInstalled n) ∨
    (r.2.2.2 = r.1.reg ∧
      ∀ n, r.1.os.isInstalled n = true → w.os.isInstalled n = true ∨ ∃ s ∈ r.2.2.2, s.number = n) := by
  intro r
  unfold r addNode
  dsimp only
  split
  · left; exact ⟨rfl, rfl, fun _ => rfl⟩
  · split
    · left; exact ⟨rfl, rfl, fun _ => rfl⟩
    · split
      · left; exact ⟨rfl, rfl, fun _ => rfl⟩
      · have h0 : FileRel ⟨w, fx, [], [], false, file⟩ ⟨w, fx, [], [], false, file⟩ :=
          Or.inl ⟨rfl, rfl, fun _ => rfl⟩
        have h := addLoop_fileRel count (startNumber w.reg) (np.map (·.1)) (mp.map (·.1)) (rp.map (·.1)) metrics ver
          _ _ hc h0
        have h' : (_ ∧ _ ∧ _) ∨ (_ ∧ _) := h
        split
        · rcases h' with ⟨h1, h2, h3⟩ | ⟨h1, h2⟩
          · left; exact ⟨h1, h2, h3⟩
          · right; exact ⟨h1, fun n hn => by rw [h1]; exact h2 n hn⟩
        · split
          · rcases h' with ⟨h1, h2, h3⟩ | ⟨h1, h2⟩
            · left; exact ⟨h1, h2, h3⟩
            · right; exact ⟨h1, fun n hn => by rw [h1]; exact h2 n hn⟩
          · rcases h' with ⟨h1, h2, h3⟩ | ⟨h1, h2⟩
            · left; exact ⟨h1, h2, h3⟩
            · right; exact ⟨h1, fun n hn => by rw [h1]; exact h2 n hn⟩

/-- Every entry the call recorded in memory is in the file it leaves (any faults). -/
theorem recorded_is_saved (w : World) (fx : Fx) (file : List Svc) (count : Nat) (np mp rp : Option (Nat × Nat))
    (metrics : Bool) (ver : Nat) (s : Svc)
    (hs : s ∈ (addNode w fx file count np mp rp metrics ver).1.reg) (hnew : s ∉ w.reg) :
    s ∈ (addNode w fx file count np mp rp metrics ver).2.2.2 := by
  rcases addNode_file0 w fx file count np mp rp metrics ver with ⟨h1, _⟩ | h1
  · rw [h1] at hs; exact absurd hs hnew
  · rw [h1]; exact hs

theorem addNode_numbers (w : World) (fx : Fx) (file : List Svc) (count : Nat) (np mp rp : Option (Nat × Nat))
    (metrics : Bool) (ver : Nat) (hn : (w.reg.map (·.number)).Nodup) :
    ((addNode w fx file count np mp rp metrics ver).1.reg.map (·.number)).Nodup ∧
    (w.reg.map (·.number)) <+: ((addNode w fx file count np mp rp metrics ver).1.reg.map (·.number)) := by
  unfold addNode
  dsimp only
  split
  · exact ⟨hn, List.prefix_refl _⟩
  · split
    · exact ⟨hn, List.prefix_refl _⟩
    · split
      · exact ⟨hn, List.prefix_refl _⟩
      · have := addLoop_numbers count (startNumber w.reg) (np.map (·.1)) (mp.map (·.1)) (rp.map (·.1)) metrics ver
          ⟨w, fx, [], [], false, file⟩ (fresh_maxNumber w.reg) hn
        split
        · exact this
        · split <;> exact this

theorem onSvc_numbers (w : World) (i : Nat) (faults : List Fault) (f : Svc → OS → Fx → Svc × OS × Fx × Res)
    (hT : ∀ s os fx, (f s os fx).1.number = s.number) :
    (onSvc w i faults f).1.reg.map (·.number) = w.reg.map (·.number) := by
  cases hget : w.reg[i]? with
  | none => simp [onSvc, hget]
  | some s =>
    rw [onSvc_some faults f hget]
    exact map_number_set _ _ _ _ hget (hT s w.os ⟨faults, 0⟩)

/-- The daemon's restart leaves the recorded numbers as they are or appends the replacement's number, which is above
every recorded one. -/
theorem restartAt_numbers (w : World) (j : Nat) (retain : Bool) (faults : List Fault) :
    (restartAt w j retain faults).1.reg.map (·.number) = w.reg.map (·.number) ∨
    (restartAt w j retain faults).1.reg.map (·.number) = w.reg.map (·.number) ++ [restartNumber w.reg] := by
  unfold restartAt
  cases hget : w.reg[j]? with
  | none => left; rfl
  | some s =>
    simp only
    cases retain with
    | true =>
      simp only [↓reduceIte]
      left
      exact onSvc_numbers w j faults _ (fun s os fx => (svcRestartRetain_trans s os fx).num)
    | false =>
      simp only [Bool.false_eq_true, ↓reduceIte]
      have N1 := (svcStop_trans s w.os ⟨faults, 0⟩).num
      rcases hstop : svcStop s w.os ⟨faults, 0⟩ with ⟨s1, os1, fx1, r1⟩
      rw [hstop] at N1
      simp only at N1 ⊢
      have hset : (w.reg.set j s1).map (·.number) = w.reg.map (·.number) := map_number_set _ _ _ _ hget N1
      cases hfail : r1.failed with
      | true => simp only [↓reduceIte]; left; exact hset
      | false =>
        simp only [Bool.false_eq_true, ↓reduceIte]
        have hc := restartFresh_cases (restartNumber w.reg) s1 os1 fx1
        rcases hfresh : restartFresh (restartNumber w.reg) s1 os1 fx1 with ⟨new, os2, fx2, r2⟩
        rw [hfresh] at hc
        simp only at hc ⊢
        rcases hc with ⟨hnone, _, _⟩ | ⟨node0, node, hn0, _, _, hsome, T, _, _⟩
        · subst hnone; left; simpa using hset
        · subst hsome
          right
          simp only [Option.toList_some, List.map_append, List.map_cons, List.map_nil, hset]
          rw [T.num, hn0]

/-- Every operation other than `add` keeps the recorded service numbers pairwise distinct and only ever appends to
them (the daemon's restart without retained peer id appends the replacement's number). -/
theorem exec_numbers (w : World) (op : Op) (hn : (w.reg.map (·.number)).Nodup) :
    (∃ c np mp rp m v f, op = .add c np mp rp m v f) ∨
    (((exec w op).1.reg.map (·.number)).Nodup ∧ (w.reg.map (·.number)) <+: ((exec w op).1.reg.map (·.number))) := by
  have same : ∀ {r : List Svc}, r.map (·.number) = w.reg.map (·.number) →
      (r.map (·.number)).Nodup ∧ (w.reg.map (·.number)) <+: (r.map (·.number)) :=
    fun h => by rw [h]; exact ⟨hn, List.prefix_refl _⟩
  cases op with
  | add c np mp rp m v f => left; exact ⟨c, np, mp, rp, m, v, f, rfl⟩
  | start i ct faults => right; exact same (onSvc_numbers w i faults _ (fun s os fx => (svcStart_trans s os fx ct).num))
  | stop i faults => right; exact same (onSvc_numbers w i faults _ (fun s os fx => (svcStop_trans s os fx).num))
  | remove i keep faults =>
    right; exact same (onSvc_numbers w i faults _ (fun s os fx => (svcRemove_trans s os fx keep).num))
  | upgrade i force start ver ct faults =>
    right; exact same (onSvc_numbers w i faults _ (fun s os fx => (svcUpgrade_trans s os fx force start ver ct).num))
  | refresh =>
    right
    apply same
    simp only [exec, List.map_map]
    congr 1
    funext s; exact svcRefresh_number _ _
  | refreshFull fail faults =>
    right
    apply same
    simp only [exec]
    split <;> (rename_i h; have := refreshFull_numbers w.os w.reg ⟨faults, 0⟩; rw [h] at this; exact this)
  | drestart i retain faults =>
    right
    rcases exec_drestart_cases w i retain faults with ⟨h1, _⟩ | ⟨j, _, h1⟩
    · rw [h1]; exact ⟨hn, List.prefix_refl _⟩
    · rw [h1]
      rcases restartAt_numbers w j retain faults with h | h
      · exact same h
      · rw [h]
        refine ⟨?_, List.prefix_append _ _⟩
        rw [List.nodup_append]
        refine ⟨hn, by simp, ?_⟩
        intro x hx y hy
        simp only [List.mem_singleton] at hy
        obtain ⟨t, ht, rfl⟩ := List.mem_map.mp hx
        rw [hy]
        exact Nat.ne_of_lt (fresh_restartNumber w.reg t ht)
  | restartOutside i => right; apply same; simp only [exec]; split <;> rfl
  | kill i => right; apply same; simp only [exec]; split <;> rfl
  | flaky i on => right; apply same; simp only [exec]; split <;> rfl
  | saveload => right; apply same; simp only [exec]

/-- Recorded numbers are pairwise distinct and the file's numbers are an initial segment of them. -/
def SNum (s : Sys) : Prop :=
  (s.w.reg.map (·.number)).Nodup ∧ (s.file.map (·.number)) <+: (s.w.reg.map (·.number))


theorem stepS_snum_reload (s : Sys) (h : SNum s) : SNum (stepS s .reload) := by
  obtain ⟨hn, hp⟩ := h
  rw [stepS_reload]
  exact ⟨hn.sublist hp.sublist, List.prefix_refl _⟩

theorem stepS_snum_op (s : Sys) (o : Op) (h : SNum s) : SNum (stepS s (.op o)) := by
  obtain ⟨hn, hp⟩ := h
  cases (Nat.zero_le 0) with
  | _ =>
    by_cases hadd : ∃ c np mp rp m v f, o = .add c np mp rp m v f
    · obtain ⟨c, np, mp, rp, m, v, f, rfl⟩ := hadd
      rw [stepS_add]
      obtain ⟨g1, g2⟩ := addNode_numbers s.w ⟨f, 0⟩ s.file c np mp rp m v hn
      refine ⟨g1, ?_⟩
      dsimp only
      split
      · exact List.prefix_refl _
      · rcases addNode_file0 s.w ⟨f, 0⟩ s.file c np mp rp m v with ⟨_, h2⟩ | h2
        · rw [h2]; exact hp.trans g2
        · rw [h2]; exact List.prefix_refl _
    · have hna : ∀ c np mp rp m v f, o ≠ .add c np mp rp m v f :=
        fun c np mp rp m v f h => hadd ⟨c, np, mp, rp, m, v, f, h⟩
      have he : ((exec s.w o).1.reg.map (·.number)).Nodup ∧
          (s.w.reg.map (·.number)) <+: ((exec s.w o).1.reg.map (·.number)) := by
        rcases exec_numbers s.w o hn with h | h
        · exact absurd h hadd
        · exact h
      rw [stepS_nonadd s o hna]
      refine ⟨he.1, ?_⟩
      show (List.map (·.number) (if callerSaves s.w o (exec s.w o).2.1 then (exec s.w o).1.reg else s.file)) <+:
        (exec s.w o).1.reg.map (·.number)
      split
      · exact List.prefix_refl _
      · exact hp.trans he.2

theorem stepS_snum (s : Sys) (sop : SOp) (h : SNum s) : SNum (stepS s sop) :=
  stepS_closed (Q := fun _ => True) stepS_snum_reload (fun s o _ => stepS_snum_op s o) trivial s sop
    (by cases sop <;> trivial) h

/-- **Names and data directories stay unique across reloads**: histories may at any point drop the in-memory
registry and continue from the registry file (`reload`), e.g. after an `add` that returned early or in front of a
daemon restart (antctld loads the file per request). -/
theorem names_dirs_unique_reload (ops : List SOp) :
    ((runS Sys.init ops).w.reg.map (·.number)).Nodup ∧ ((runS Sys.init ops).file.map (·.number)).Nodup := by
  have h : SNum (runS Sys.init ops) := by
    have : ∀ (s : Sys), SNum s → SNum (runS s ops) := by
      induction ops with
      | nil => exact fun _ h => h
      | cons op r ih => exact fun s h => ih _ (stepS_snum s op h)
    exact this _ ⟨List.nodup_nil, List.prefix_refl _⟩
  exact ⟨h.1, h.1.sublist h.2.sublist⟩

theorem pairwise_of_nodup_map {α : Type} {R : α → α → Prop} {f : α → Nat} {l : List α} (hn : (l.map f).Nodup)
    (h : ∀ a ∈ l, ∀ b ∈ l, f a ≠ f b → R a b) : l.Pairwise R := by
  induction l with
  | nil => exact List.Pairwise.nil
  | cons c r ih =>
    rw [List.map_cons, List.nodup_cons] at hn
    rw [List.pairwise_cons]
    refine ⟨?_, ih hn.2 (fun a ha b hb => h a (List.mem_cons_of_mem _ ha) b (List.mem_cons_of_mem _ hb))⟩
    intro b hb
    exact h c (List.mem_cons_self ..) b (List.mem_cons_of_mem _ hb)
      (fun he => hn.1 (List.mem_map.mpr ⟨b, hb, he.symm⟩))

/-- ... as one statement about the whole registry: if all recorded ports were pairwise distinct before such an `add`
(and names unique, which `names_dirs_unique` gives for every reachable state), they are afterwards. -/
theorem add_keeps_ports_distinct (w : World) (count : Nat) (np mp : Option (Nat × Nat)) (rr : Nat × Nat)
    (metrics : Bool) (ver : Nat) (faults : List Fault) (hmp : mp.isSome = true ∨ metrics = false)
    (hnum : (w.reg.map (·.number)).Nodup) (hd : (allPorts w.reg).Nodup) :
    (allPorts (step w (.add count np mp (some rr) metrics ver faults)).reg).Nodup := by
  obtain ⟨new, hreg, h1, h2⟩ := no_two_services_share_a_port w count np mp rr metrics ver faults hmp
  have hnum' : ((step w (.add count np mp (some rr) metrics ver faults)).reg.map (·.number)).Nodup := by
    simp only [step, exec]
    exact (addNode_numbers w ⟨faults, 0⟩ [] count np mp (some rr) metrics ver hnum).1
  rw [hreg, List.map_append, List.nodup_append] at hnum'
  rw [hreg, allPorts_append, List.nodup_append]
  refine ⟨hd, ?_, ?_⟩
  · rw [allPorts_eq, List.Nodup, List.pairwise_flatMap]
    refine ⟨fun e he => (h1 e he).1, ?_⟩
    exact pairwise_of_nodup_map hnum'.2.1 (fun e he e' he' hne x hx y hy hxy => h2 e he e' he' hne x hx (hxy ▸ hy))
  · intro a ha b hb hab
    rw [allPorts_eq] at hb
    obtain ⟨e, he, hbe⟩ := List.mem_flatMap.mp hb
    exact (h1 e he).2 b hbe (hab ▸ ha)

/-! ## 8b. The registry FILE: a service recorded Running there has a live process with the recorded pid -/

/-- The file, read as a registry next to the current OS, satisfies the invariants of a world (so that the next
invocation, which starts from it, starts from a state the theorems of sections 1-5 apply to). -/
structure SysInv (s : Sys) : Prop where
  mem : Inv s.w
  num : SNum s
  file : Inv ⟨s.file, s.w.os⟩

/-- The running-has-process clause, for the in-memory registry and for the file. -/
def SysGood (s : Sys) : Prop := AllGood s.w ∧ AllGood ⟨s.file, s.w.os⟩

theorem file_fresh {s : Sys} (h : SNum s) : Fresh s.file (startNumber s.w.reg) := by
  intro t ht
  have : t.number ∈ s.w.reg.map (·.number) := h.2.subset (List.mem_map.mpr ⟨t, ht, rfl⟩)
  obtain ⟨t', ht', he⟩ := List.mem_map.mp this
  rw [← he]; exact fresh_maxNumber s.w.reg t' ht'

theorem inv_instSub {X : List Svc} {os os' : OS} (h : InstSub os os') (hi : Inv ⟨X, os⟩) : Inv ⟨X, os'⟩ :=
  ⟨hi.nodup, hi.pid, fun t ht hr => by
    have h0 : os.isInstalled t.number = false := hi.rem t ht hr
    show os'.isInstalled t.number = false
    cases h' : os'.isInstalled t.number with
    | false => rfl
    | true => rw [h _ h'] at h0; cases h0⟩

theorem stepS_sys_reload (s : Sys) (h : SysInv s ∧ SysGood s) : SysInv (stepS s .reload) ∧ SysGood (stepS s .reload) := by
  obtain ⟨⟨_, _, hf⟩, _, hgf⟩ := h
  rw [stepS_reload]
  exact ⟨⟨hf, ⟨hf.nodup, List.prefix_refl _⟩, hf⟩, hgf, hgf⟩

theorem stepS_sys_op (s : Sys) (o : Op) (hk : o.isKill = false) (h : SysInv s ∧ SysGood s) :
    SysInv (stepS s (.op o)) ∧ SysGood (stepS s (.op o)) := by
  obtain ⟨⟨hm, hn, hf⟩, hg, hgf⟩ := h
  have hnum := stepS_snum_op s o hn
  by_cases hadd : ∃ c np mp rp m v f, o = .add c np mp rp m v f
  · obtain ⟨c, np, mp, rp, m, v, f, rfl⟩ := hadd
    have hspec := addNode_spec s.w ⟨f, 0⟩ s.file c np mp rp m v hm
    have hprocs := addNode_procs s.w ⟨f, 0⟩ s.file c np mp rp m v
    have hside := addNode_side s.w ⟨f, 0⟩ s.file c np mp rp m v s.file (file_fresh hn) hf
    have hgside : AllGood ⟨s.file, (addNode s.w ⟨f, 0⟩ s.file c np mp rp m v).1.os⟩ :=
      fun t ht => good_mono (ProcsKept.of_eq hprocs) (hgf t ht)
    have hfile : Inv ⟨(addNode s.w ⟨f, 0⟩ s.file c np mp rp m v).2.2.2, (addNode s.w ⟨f, 0⟩ s.file c np mp rp m v).1.os⟩ ∧
        AllGood ⟨(addNode s.w ⟨f, 0⟩ s.file c np mp rp m v).2.2.2, (addNode s.w ⟨f, 0⟩ s.file c np mp rp m v).1.os⟩ := by
      rcases addNode_file0 s.w ⟨f, 0⟩ s.file c np mp rp m v with ⟨_, h2⟩ | h2
      · rw [h2]; exact ⟨hside, hgside⟩
      · rw [h2]; exact ⟨hspec.1, hspec.2.1 hg⟩
    rw [stepS_add] at hnum ⊢
    refine ⟨⟨hspec.1, hnum, ?_⟩, hspec.2.1 hg, ?_⟩
    · dsimp only
      split
      · exact hspec.1
      · exact hfile.1
    · dsimp only
      split
      · exact hspec.2.1 hg
      · exact hfile.2
  · have hna : ∀ c np mp rp m v f, o ≠ .add c np mp rp m v f :=
      fun c np mp rp m v f h => hadd ⟨c, np, mp, rp, m, v, f, h⟩
    have hspec := exec_spec s.w o hm
    rw [stepS_nonadd s o hna] at hnum ⊢
    cases hs : callerSaves s.w o (exec s.w o).2.1 with
    | true =>
      simp only [hs, if_true] at hnum ⊢
      exact ⟨⟨hspec.1, hnum, hspec.1⟩, hspec.2.1 hk hg, hspec.2.1 hk hg⟩
    | false =>
      simp only [hs] at hnum ⊢
      obtain ⟨hpk, his⟩ := exec_unsaved_procsKept s.w o hk hna hs
      exact ⟨⟨hspec.1, hnum, inv_instSub his hf⟩, hspec.2.1 hk hg, fun t ht => good_mono hpk (hgf t ht)⟩

theorem sopAll_isKill (op : SOp) (h : op.isKill = false) : op.All (fun o => o.isKill = false) := by
  cases op <;> first | exact h | trivial

/-- **The running-has-process clause holds of the registry FILE as well**, after every step of every history of
operations, whole `antctl` commands (`cmd`), daemon restarts and reloads, under any faults of all three outcomes (only
outside events excluded, as in `running_has_process`): every entry the file records as Running has a live process of
that service with the recorded pid — so the next `antctl` / `antctld` invocation, which starts from the file, starts
from a registry for which the clause holds (second disjunct: the in-memory registry at any point of such a history,
which generalises `running_has_process` to histories with reloads). The proof needs that every caller of an operation
that can kill a process saves in BOTH arms of the result: `stop` (`stopSavesOnErr`: the repair of this round — a
`service_control.stop` that kills and then reports failure is recorded by `ServiceManager::stop`, and `cmd::node::stop`
dropped that record at process exit), `upgrade`, the daemon's `restart_handler` — flags regenerated from cmd/node.rs and
bin/daemon/main.rs. -/
theorem running_has_process_file (ops : List SOp) (hk : ∀ op ∈ ops, op.isKill = false) (t : Svc)
    (ht : t ∈ (runS Sys.init ops).file ∨ t ∈ (runS Sys.init ops).w.reg) (hr : t.status = .running) :
    ∃ p ∈ (runS Sys.init ops).w.os.procs, p.svc = t.number ∧ t.pid = some p.pid := by
  have h0 : SysInv Sys.init ∧ SysGood Sys.init :=
    ⟨⟨inv_init, ⟨List.nodup_nil, List.prefix_refl _⟩, inv_init⟩, good_init, good_init⟩
  have h := runS_closed (P := fun s => SysInv s ∧ SysGood s) (Q := fun o => o.isKill = false)
    stepS_sys_reload stepS_sys_op rfl ops (fun op hop => sopAll_isKill op (hk op hop)) Sys.init h0
  rcases ht with ht | ht
  · exact h.2.2 t ht hr
  · exact h.2.1 t ht hr

/-- The command layer before the repair: `cmd::node::stop` saved in the `Ok` arm only. -/
def stopUnsaved : CmdCfg := { CmdCfg.gen with stopSavesOnErr := false }

/-- **Witness for the old shape** (`add ; start 0 ; antctl stop 0` whose `service_control.stop` kills the process and then
reports failure): the in-memory registry records the stop (the repair of round 5), the command exits without saving,
and the file — what every later invocation starts from — records Running with pid 100 while no process is left. -/
theorem running_has_process_file_witness :
    (runSC stopUnsaved Sys.init [.op (.add 1 none none none false 1 []), .op (.start 0 false []),
      .cmd (.stop 0 [.failAfter])]).file.map (fun t => (t.status, t.pid)) = [(.running, some 100)] ∧
    (runSC stopUnsaved Sys.init [.op (.add 1 none none none false 1 []), .op (.start 0 false []),
      .cmd (.stop 0 [.failAfter])]).w.os.procs = [] ∧
    (runSC stopUnsaved Sys.init [.op (.add 1 none none none false 1 []), .op (.start 0 false []),
      .cmd (.stop 0 [.failAfter])]).w.reg.map (fun t => (t.status, t.pid)) = [(.stopped, none)] := by decide

/-! ## 8c. Whole `antctl` commands -/

theorem sys_inv_of_history (ops : List SOp) (hk : ∀ op ∈ ops, op.isKill = false) :
    SysInv (runS Sys.init ops) ∧ SysGood (runS Sys.init ops) :=
  runS_closed (P := fun s => SysInv s ∧ SysGood s) (Q := fun o => o.isKill = false)
    stepS_sys_reload stepS_sys_op rfl ops (fun op hop => sopAll_isKill op (hk op hop)) Sys.init
    ⟨⟨inv_init, ⟨List.nodup_nil, List.prefix_refl _⟩, inv_init⟩, good_init, good_init⟩

/-- **A successful `antctl stop` / `antctl remove` leaves no process and no recorded pid — in full strength**, i.e.
without the hypothesis "no unrecorded live process" that the bare `ServiceManager::stop` / `remove` need (K-s-orphan):
the command loads the registry and runs the partial refresh in front of the operation (`stopRefreshFirst`,
`removeRefreshFirst`: regenerated from cmd/node.rs, statement order included), and the refresh records every live
process. `t` is the entry as the command loads it from the file; the history may contain any faults (in particular
starts whose RPC query failed after the launch). Dropping the leading refresh from either command breaks this theorem. -/
theorem cmd_stop_remove_leave_nothing (ops : List SOp) (hk : ∀ op ∈ ops, op.isKill = false) (op : Op) (i : Nat)
    (t : Svc) (hop : isStopOrRemove i op = true) (hget : (runS Sys.init ops).file[i]? = some t)
    (hok : (execS (runS Sys.init ops) (.cmd op)).2.1.failed = false) :
    NoProc (stepS (runS Sys.init ops) (.cmd op)).w.os t.number ∧
    ∃ t', (stepS (runS Sys.init ops) (.cmd op)).w.reg[i]? = some t' ∧ t'.pid = none := by
  have hsys := (sys_inv_of_history ops hk).1
  generalize runS Sys.init ops = s at *
  have hna : ∀ c np mp rp m v f, op ≠ .add c np mp rp m v f := by
    intro c np mp rp m v f h; subst h; simp [isStopOrRemove] at hop
  have hrf : refreshFirst CmdCfg.gen op = true := by
    cases op <;> first | (simp [isStopOrRemove] at hop; done) | exact gen_refresh_first.1 | exact gen_refresh_first.2.1
  have hentry : cmdEntry CmdCfg.gen s op = ⟨⟨s.file.map (svcRefresh s.w.os), s.w.os⟩, s.file⟩ := by
    simp [cmdEntry, hrf]
  have hstep : stepS s (.cmd op) = (execS (cmdEntry CmdCfg.gen s op) (.op op)).1 := by
    show (execS s (.cmd op)).1 = _
    rw [execS_cmd_ok hok]
  rw [execS_cmd_ok hok, execS_nonadd _ _ hna, hentry] at hok
  rw [hstep, execS_nonadd _ _ hna, hentry]
  simp only at hok ⊢
  have hget2 : (s.file.map (svcRefresh s.w.os))[i]? = some (svcRefresh s.w.os t) := by
    rw [List.getElem?_map, hget]; rfl
  have hpid2 : PidOk (svcRefresh s.w.os t) := svcRefresh_pidOk _ _ (hsys.file.pid t (List.mem_of_getElem? hget))
  have hno2 : NoOrphan ⟨s.file.map (svcRefresh s.w.os), s.w.os⟩ (svcRefresh s.w.os t) :=
    fun hnr => refreshed_noOrphan (svcRefresh_refreshed s.w.os t) hnr
  have := stop_remove_step ⟨s.file.map (svcRefresh s.w.os), s.w.os⟩ op i _ hop hget2 hpid2 hno2 hok
  rw [svcRefresh_number] at this
  exact this

/-- **A command that succeeded has saved what it holds**: after a successful `antctl add / start / stop / remove /
upgrade / status` the registry file is the in-memory registry — what "the registry saved after each step" means for
the command layer. Removing the `save()` from an `Ok` arm (or from behind the `?` in `add` / `status`) breaks this
theorem. (The serialisation itself is not modelled: oracle clause save-load-identity.) -/
theorem cmd_success_is_saved (s : Sys) (o : Op) (hc : o.isCommand = true)
    (hok : (execS s (.cmd o)).2.1.failed = false) :
    (stepS s (.cmd o)).file = (stepS s (.cmd o)).w.reg := by
  show (execS s (.cmd o)).1.file = (execS s (.cmd o)).1.w.reg
  have h := execS_cmd_ok hok
  rw [h] at hok ⊢
  exact execOp_ok_saved _ o hc hok

/-- Every service definition the OS holds is recorded in the registry file. -/
def SInst (s : Sys) : Prop := ∀ n, s.w.os.isInstalled n = true → n ∈ s.file.map (·.number)

theorem stepS_sinst_op (s : Sys) (o : Op) (hcl : o.CleanInstall) (hnum : SNum s) (h : SInst s) :
    SInst (stepS s (.op o)) := by
  obtain ⟨hn, hp⟩ := hnum
  cases (Nat.zero_le 0) with
  | _ =>
    by_cases hadd : ∃ c np mp rp m v f, o = .add c np mp rp m v f
    · obtain ⟨c, np, mp, rp, m, v, f, rfl⟩ := hadd
      obtain ⟨_, g2⟩ := addNode_numbers s.w ⟨f, 0⟩ s.file c np mp rp m v hn
      rw [stepS_add]
      intro n hinst
      dsimp only at hinst ⊢
      rcases saved_after_each_install s.w ⟨f, 0⟩ s.file c np mp rp m v hcl with ⟨h1, h2, h3⟩ | ⟨h2, h3⟩
      · rw [h3 n] at hinst
        have hin := h n hinst
        split
        · rw [h1]; exact hp.subset hin
        · rw [h2]; exact hin
      · have hmem : n ∈ (addNode s.w ⟨f, 0⟩ s.file c np mp rp m v).1.reg.map (·.number) := by
          rcases h3 n hinst with h4 | ⟨t, ht, htn⟩
          · exact g2.subset (hp.subset (h n h4))
          · rw [h2] at ht; exact List.mem_map.mpr ⟨t, ht, htn⟩
        split
        · exact hmem
        · rw [h2]; exact hmem
    · have hna : ∀ c np mp rp m v f, o ≠ .add c np mp rp m v f :=
        fun c np mp rp m v f h => hadd ⟨c, np, mp, rp, m, v, f, h⟩
      have he : (s.w.reg.map (·.number)) <+: ((exec s.w o).1.reg.map (·.number)) := by
        rcases exec_numbers s.w o hn with h | h
        · exact absurd h hadd
        · exact h.2
      rw [stepS_nonadd s o hna]
      intro n hinst
      show n ∈ List.map (·.number) (if callerSaves s.w o (exec s.w o).2.1 then (exec s.w o).1.reg else s.file)
      -- every definition present afterwards was present before or belongs to an entry recorded AND saved
      have hkey : s.w.os.isInstalled n = true ∨
          (callerSaves s.w o (exec s.w o).2.1 = true ∧ n ∈ (exec s.w o).1.reg.map (·.number)) := by
        by_cases hdr : ∃ i r f, o = .drestart i r f
        · obtain ⟨i, r, f, rfl⟩ := hdr
          rcases exec_drestart_cases s.w i r f with ⟨h1, _⟩ | ⟨j, hsome, h1⟩
          · rw [h1] at hinst; exact Or.inl hinst
          · rw [h1] at hinst ⊢
            rcases restartAt_inst s.w j r f hcl n hinst with h4 | h4
            · exact Or.inl h4
            · exact Or.inr ⟨by
                have := gen_daemon_saves
                simp [callerSaves, callerSavesC, savesAfter, this.1, this.2, hsome], h4⟩
        · have hnr : ∀ i r f, o ≠ .drestart i r f := fun i r f h => hdr ⟨i, r, f, h⟩
          exact Or.inl (exec_instSub s.w o hna hnr n hinst)
      rcases hkey with h4 | ⟨hsave, h4⟩
      · have hin := h n h4
        split
        · exact he.subset (hp.subset hin)
        · exact hin
      · rw [if_pos hsave]; exact h4

theorem stepS_sinst (s : Sys) (sop : SOp) (hcl : sop.CleanInstall) (h : SNum s ∧ SInst s) :
    SNum (stepS s sop) ∧ SInst (stepS s sop) :=
  stepS_closed (P := fun s => SNum s ∧ SInst s) (Q := Op.CleanInstall)
    (fun s h => ⟨stepS_snum_reload s h.1, by rw [stepS_reload]; exact h.2⟩)
    (fun s o hq h => ⟨stepS_snum_op s o h.1, stepS_sinst_op s o hq h.1 h.2⟩) trivial s sop
    (by cases sop <;> first | exact hcl | trivial) h

theorem runS_inv (ops : List SOp) (hcl : ∀ op ∈ ops, op.CleanInstall) (s : Sys) (h : SNum s ∧ SInst s) :
    SNum (runS s ops) ∧ SInst (runS s ops) := by
  induction ops generalizing s with
  | nil => exact h
  | cons op r ih =>
    exact ih (fun o ho => hcl o (List.mem_cons_of_mem _ ho)) (stepS s op)
      (stepS_sinst s op (hcl op (List.mem_cons_self ..)) h)

/-- **Every installed service is recorded in the registry file**, after every step of every history (any faults,
kills, reloads, daemon restarts) in which no `install` of an `add` / a daemon restart wrote its definition and then
reported failure: the next `antctl` invocation, which starts from the file, knows every service definition the OS
holds — in particular the ones created by an `add` that returned early and the replacement service of a daemon restart
whose first start failed. -/
theorem installed_recorded_in_file (ops : List SOp) (hcl : ∀ op ∈ ops, op.CleanInstall) (n : Nat)
    (hi : (runS Sys.init ops).w.os.isInstalled n = true) : ∃ t ∈ (runS Sys.init ops).file, t.number = n := by
  have h0 : SNum Sys.init ∧ SInst Sys.init := by
    refine ⟨⟨List.nodup_nil, List.prefix_refl _⟩, ?_⟩
    intro m hm
    simp [Sys.init, World.init, OS.init, OS.isInstalled] at hm
  obtain ⟨t, ht, htn⟩ := List.mem_map.mp ((runS_inv ops hcl Sys.init h0).2 n hi)
  exact ⟨t, ht, htn⟩

/-- The hypothesis of `installed_recorded_in_file` is needed: an `install` that writes the definition and then reports
failure leaves a service definition no registry knows about (nothing the code could do about it). -/
theorem installed_recorded_needs_clean :
    (runS Sys.init [.op (.add 1 none none none false 1 [.ok, .failAfter])]).w.os.isInstalled 1 = true ∧
    (runS Sys.init [.op (.add 1 none none none false 1 [.ok, .failAfter])]).file = [] := by decide

/-! ## 9. The daemon's restart (`restart_node_service`, antctld) -/

/-- **The registry the daemon saves is the registry it holds**: `restart_handler` saves whatever the outcome, so after
a daemon restart (of an existing entry) the file equals the in-memory registry — in particular a replacement service
whose first start failed is in the file. -/
theorem daemon_restart_saves (s : Sys) (i : Nat) (retain : Bool) (faults : List Fault) (hi : (s.w.reg[i]?).isSome = true) :
    (stepS s (.op (.drestart i retain faults))).file = (stepS s (.op (.drestart i retain faults))).w.reg := by
  rw [stepS_nonadd s _ (fun _ _ _ _ _ _ _ h => by cases h)]
  have := gen_daemon_saves
  simp [callerSaves, callerSavesC, savesAfter, this.1, this.2, hi]

/-- A successful daemon restart leaves the addressed service (retained peer id) recorded Running with a live process of
the recorded pid, in any state that satisfies the invariants (no refresh is needed in front of it). -/
theorem daemon_restart_running (ops : List Op) (hk : ∀ op ∈ ops, op.isKill = false) (i : Nat) (retain : Bool)
    (faults : List Fault) (s : Svc) (hs : s ∈ (step (run World.init ops) (.drestart i retain faults)).reg)
    (hr : s.status = .running) :
    ∃ p ∈ (step (run World.init ops) (.drestart i retain faults)).os.procs, p.svc = s.number ∧ s.pid = some p.pid := by
  have := running_has_process (ops ++ [.drestart i retain faults]) (by
    intro op hop
    rcases List.mem_append.mp hop with h | h
    · exact hk op h
    · simp only [List.mem_singleton] at h; subst h; rfl) s (by simpa [run, List.foldl_append] using hs) hr
  simpa [run, List.foldl_append] using this

/-! ## 10. The daemon's replacement service records the RPC port of the service it replaces (K-s-rpcshare) -/

/-- Full statement (FALSE of the code): a daemon restart without retained peer id keeps the recorded ports pairwise
distinct. -/
def ReplacementGetsOwnPort : Prop :=
  ∀ (w : World) (i : Nat) (faults : List Fault), (allPorts w.reg).Nodup →
    (allPorts (step w (.drestart i false faults)).reg).Nodup

/-- `restart_node_service(.., retain_peer_id = false)` copies `rpc_socket_addr` from the stopped service into the
replacement it installs and records: two entries record one RPC port (and the replacement is started on it). -/
theorem replacement_shares_rpc_port_witness : ¬ ReplacementGetsOwnPort := by
  intro h
  have := h (run World.init [.add 1 none none none false 1 [], .start 0 false []]) 0 [] (by decide)
  revert this
  decide

/-- What follows: `antctl start` of the replaced service launches its process next to the replacement; the node RPC on
the shared port is answered by the replacement (the first to bind), so the old entry records the replacement's peer id. -/
theorem replacement_answers_for_the_replaced :
    (run World.init [.add 1 none none none false 1 [], .start 0 false [], .drestart 0 false [], .start 0 false []]).reg.map
      (fun t => (t.number, t.status, t.rpcPort, t.peer)) = [(1, .running, 30000, some 2), (2, .running, 30000, some 2)] := by
  decide

/-! ## 11. `NodeRegistry::load`: the loaded registry saves where it was SAVED, not where it was loaded from -/

/-- Full statement (FALSE of the code). -/
def LoadSavesWhereLoaded : Prop := ∀ fs path r, loadReg fs path = some r → r.savePath = path

/-- `save_path` is a serialised field and `load` returns what it deserialises: a registry file copied or moved to
another place loads with the old `save_path`, and the next `save` goes there. (Observation outside the clauses: antctl
and antctld always load from `config::get_node_registry_path()`. Replayed on the real code by `probe-moved-registry`.) -/
theorem load_saves_where_loaded_witness : ¬ LoadSavesWhereLoaded := by
  intro h
  have := h (copyFile (saveReg [] ⟨0, []⟩) 0 1) 1 ⟨0, []⟩ (by decide)
  exact absurd this (by decide)

/-! ## Non-vacuity -/

-- add two services with the first install failing, then add one more: numbers 2 and 3 (the F-s history)
example : (run World.init [.add 2 none none none false 1 [.ok, .fail], .add 1 none none none false 1 []]).reg.map (·.number)
    = [2, 3] := by decide
-- a started service is recorded Running with the pid of its live process, the peer id of its own service, the peers
-- and the listener port its node RPC reports
example : (run World.init [.add 1 none none none false 1 [], .start 0 false []]).reg.map
    (fun s => (s.status, s.pid, s.peer, s.peers, s.lport)) = [(.running, some 100, some 1, some 0, some 40100)] := by decide
example : (run World.init [.add 1 none none none false 1 [], .start 0 false []]).os.procs = [⟨100, 1, 40100, 30000⟩] := by decide
-- the hypothesis of the partial theorems holds on ordinary histories: after stop, no process
example : NoProc (run World.init [.add 1 none none none false 1 [], .start 0 false [], .stop 0 []]).os 1 := by
  have h : (run World.init [.add 1 none none none false 1 [], .start 0 false [], .stop 0 []]).os.procs = [] := by decide
  intro p hp; rw [h] at hp; cases hp
-- a failing start (node_info RPC) leaves the entry Added
example : (run World.init orphanHistory).reg.map (·.status) = [.added] := by decide
example : (result (run World.init [.add 1 none none none false 1 []]) (.start 0 false [.ok, .fail])).failed = true := by decide
-- a requested port recorded by another service
example : (8000 : Nat) ∈ allPorts (run World.init [.add 1 (some (8000, 8000)) none none false 1 []]).reg := by decide

-- a running service restarted under a new pid behind the manager's back: stale until the refresh
example : (run World.init [.add 1 none none none false 1 [], .start 0 false [], .restartOutside 0]).reg.map (·.pid) = [some 100] := by decide
example : (run World.init [.add 1 none none none false 1 [], .start 0 false [], .restartOutside 0, .refresh]).reg.map (·.pid) = [some 101] := by decide
-- ... a SUCCESSFUL full refresh (`antctl status`) records the new pid AND what the node RPC of the new process reports
example : (run World.init [.add 1 none none none false 1 [], .start 0 false [], .restartOutside 0, .refreshFull false []]).reg.map
    (fun s => (s.status, s.pid, s.peers, s.lport)) = [(.running, some 101, some 1, none)] := by decide
example : (result (run World.init [.add 1 none none none false 1 [], .start 0 false [], .restartOutside 0]) (.refreshFull false [])).failed
    = false := by decide
-- ... a full refresh whose second RPC call fails leaves the stale pid and reports the failure
example : (run World.init [.add 1 none none none false 1 [], .start 0 false [], .restartOutside 0, .refreshFull false [.ok, .fail]]).reg.map (·.pid)
    = [some 100] := by decide
-- ... a failing full refresh has refreshed the services in front of the failing call: the unrecorded process of
-- service 1 (K-s-orphan) is newly recorded Running — and it is running (failure_marks_running_only_if_it_is)
example : (run World.init [.add 2 none none none false 1 [], .start 0 false [.ok, .fail], .start 1 false [],
    .refreshFull false [.ok, .ok, .fail]]).reg.map (fun s => (s.status, s.pid)) = [(.running, some 100), (.running, some 101)] := by decide
-- `antctl status --fail`: the refresh goes through, the command fails because a service is not running
example : (result (run World.init [.add 2 none none none false 1 [], .start 0 false []]) (.refreshFull true [])).text
    = "err:ServiceNotRunning" := by decide
-- zero connected peers are recorded as `some 0`, not `none`
example : (run World.init [.add 1 none none none false 1 [], .start 0 false []]).reg.map (·.peers) = [some 0] := by decide
-- the registry file: an add that returns early (second port allocation fails) has saved the service it installed;
-- after a reload the next add continues with number 2
example : (runS Sys.init [.op (.add 3 none none none false 1 [.ok, .ok, .fail])]).file.map (·.number) = [1] := by decide
example : (runS Sys.init [.op (.add 3 none none none false 1 [.ok, .ok, .fail]), .reload,
    .op (.add 1 none none none false 1 [])]).w.reg.map (·.number) = [1, 2] := by decide
-- a failed start is not saved by its caller; a reload then drops nothing that matters
example : (runS Sys.init [.op (.add 1 none none none false 1 []), .op (.start 0 false []), .reload]).w.reg.map (·.status)
    = [.running] := by decide

-- the daemon's restart with retained peer id: stop, uninstall, reinstall with the listener port pinned, start (new pid)
example : (run World.init [.add 1 none none none false 1 [], .start 0 false [], .drestart 0 true []]).reg.map
    (fun s => (s.status, s.pid, s.nodePort)) = [(.running, some 101, some 40100)] := by decide
example : (run World.init [.add 1 none none none false 1 [], .start 0 false [], .drestart 0 true []]).os.installed
    = [(1, some 40100, 30000)] := by decide
-- ... without: the old service is stopped, a replacement is numbered after the highest recorded number — also after a
-- partially failed add (registry [antnode2]: the replacement is antnode3, not a second antnode2)
example : (run World.init [.add 2 none none none false 1 [.ok, .fail], .start 0 false [], .drestart 0 false []]).reg.map
    (fun s => (s.number, s.status)) = [(2, .stopped), (3, .running)] := by decide
-- ... and is recorded (as Added) even when its first start fails, and saved by the daemon
example : (runS Sys.init [.op (.add 1 none none none false 1 []), .op (.start 0 false []), .reload,
    .op (.drestart 0 false [.ok, .ok, .ok, .fail])]).file.map (fun s => (s.number, s.status)) = [(1, .stopped), (2, .added)] := by decide
-- ... an entry that never recorded a peer id cannot be addressed
example : (result (run World.init [.add 1 none none none false 1 []]) (.drestart 0 true [])).text = "err:peer-not-found" := by decide
-- a `stop` that kills the process and then reports failure: the service is recorded as stopped (no stale pid)
example : (run World.init [.add 1 none none none false 1 [], .start 0 false [], .stop 0 [.failAfter]]).reg.map
    (fun s => (s.status, s.pid)) = [(.stopped, none)] := by decide
example : (result (run World.init [.add 1 none none none false 1 [], .start 0 false []]) (.stop 0 [.failAfter])).failed = true := by decide
example : (run World.init [.add 1 none none none false 1 [], .start 0 false [], .stop 0 [.failAfter]]).os.procs = [] := by decide
-- a `start` that launches the process and then reports failure leaves it unrecorded (K-s-orphan)
example : (run World.init [.add 1 none none none false 1 [], .start 0 false [.failAfter]]).os.procs = [⟨100, 1, 40100, 30000⟩] := by decide

-- a whole `antctl stop` whose service-manager call kills and then reports failure: the stop is recorded AND saved
example : (runS Sys.init [.op (.add 1 none none none false 1 []), .op (.start 0 false []), .cmd (.stop 0 [.failAfter])]).file.map
    (fun t => (t.status, t.pid)) = [(.stopped, none)] := by decide
-- `antctl stop` after a start whose RPC query failed (unrecorded live process): the refresh records it, the stop kills it
example : (runS Sys.init [.op (.add 1 none none none false 1 []), .op (.start 0 false [.ok, .fail]), .cmd (.stop 0 [])]).w.os.procs
    = [] := by decide
example : (execS (runS Sys.init [.op (.add 1 none none none false 1 []), .op (.start 0 false [.ok, .fail])]) (.cmd (.stop 0 []))).2.1.failed
    = false := by decide
-- ... the bare ServiceManager::stop leaves it alive (K-s-orphan)
example : (runS Sys.init [.op (.add 1 none none none false 1 []), .op (.start 0 false [.ok, .fail]), .op (.stop 0 [])]).w.os.procs
    = [⟨100, 1, 40100, 30000⟩] := by decide
-- a removed service is not found by a command
example : (execS (runS Sys.init [.op (.add 1 none none none false 1 []), .cmd (.remove 0 false [])]) (.cmd (.start 0 false []))).2.1.text
    = "err:no-such-service" := by decide
-- requested ranges that share a port are refused; disjoint ones are recorded at the service's offset
example : (result World.init (.add 2 (some (8000, 8001)) (some (8001, 8002)) none false 1 [])).text = "err:port-requested-twice:8001" := by
  decide
example : (run World.init [.add 2 (some (8000, 8001)) (some (8002, 8003)) (some (8004, 8005)) false 1 []]).reg.map svcPorts
    = [[8002, 8000, 8004], [8003, 8001, 8005]] := by decide

end SafeNet.Props.C19

#print axioms SafeNet.Props.C19.running_has_process
#print axioms SafeNet.Props.C19.refresh_reestablishes
#print axioms SafeNet.Props.C19.stop_remove_leave_nothing_witness
#print axioms SafeNet.Props.C19.stop_remove_leave_nothing_partial
#print axioms SafeNet.Props.C19.refresh_clears_orphans
#print axioms SafeNet.Props.C19.removed_stays_removed_witness
#print axioms SafeNet.Props.C19.removed_stays_removed_partial
#print axioms SafeNet.Props.C19.failure_never_marks_running
#print axioms SafeNet.Props.C19.failure_marks_running_only_if_it_is
#print axioms SafeNet.Props.C19.names_dirs_unique
#print axioms SafeNet.Props.C19.names_dirs_unique_index
#print axioms SafeNet.Props.C19.requested_port_refused
#print axioms SafeNet.Props.C19.requested_twice_refused
#print axioms SafeNet.Props.C19.no_two_services_share_a_port
#print axioms SafeNet.Props.C19.add_keeps_ports_distinct
#print axioms SafeNet.Props.C19.overlap_check_needed
#print axioms SafeNet.Props.C19.auto_port_not_compared
#print axioms SafeNet.Props.C19.saved_after_each_install
#print axioms SafeNet.Props.C19.recorded_is_saved
#print axioms SafeNet.Props.C19.names_dirs_unique_reload
#print axioms SafeNet.Props.C19.running_has_process_file
#print axioms SafeNet.Props.C19.running_has_process_file_witness
#print axioms SafeNet.Props.C19.cmd_stop_remove_leave_nothing
#print axioms SafeNet.Props.C19.cmd_success_is_saved
#print axioms SafeNet.Props.C19.installed_recorded_in_file
#print axioms SafeNet.Props.C19.installed_recorded_needs_clean
#print axioms SafeNet.Props.C19.refresh_records_os_pid
#print axioms SafeNet.Props.C19.refresh_records_live
#print axioms SafeNet.Props.C19.daemon_restart_saves
#print axioms SafeNet.Props.C19.daemon_restart_running
#print axioms SafeNet.Props.C19.replacement_shares_rpc_port_witness
#print axioms SafeNet.Props.C19.replacement_answers_for_the_replaced
#print axioms SafeNet.Props.C19.load_saves_where_loaded_witness
