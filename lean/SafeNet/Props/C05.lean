import SafeNet.Proofs.Quorum
/-!
# C05 — quorum reads return only what enough distinct peers agree on

Theorems over the model `SafeNet.Quorum` (tied to `ant-networking` by rs2lean for the quorum table, the
responder-set type, the completion comparison and the target check, and by the differential run of
`harness/hnet/src/bin/quorum.rs` against `drv_quorum`).  All statements quantify over arbitrary event
histories `ops : List Op` (any interleaving of requests, replies, duplicates, terminating events, hang-ups).
-/
namespace SafeNet.Props.C05
open SafeNet.Quorum SafeNet.Gen.Quorum

/-- **Invariant.** Every version of every pending query has fewer responders than the query's quorum. -/
theorem pending_below_quorum (ops : List Op) :
    ∀ q ∈ (run ops).pending, ∀ e ∈ q.results, e.2.length < getQuorumValue q.cfg.quorum :=
  (inv_run ops).below

/-- Responders of a version are pairwise distinct peers and versions are pairwise distinct contents. -/
theorem responders_distinct (ops : List Op) :
    ∀ q ∈ (run ops).pending, (q.results.map (·.1)).Nodup ∧ ∀ e ∈ q.results, e.2.Nodup :=
  fun q hq => ⟨(inv_run ops).verNodup q hq, (inv_run ops).peersNodup q hq⟩

/-- At most one in-flight query per key (so "the query a request joins" is unambiguous although the code
finds it by iterating a `HashMap`), and query ids are unique. -/
theorem one_query_per_key (ops : List Op) :
    ((run ops).pending.map (·.key)).Nodup ∧ ((run ops).pending.map (·.qid)).Nodup :=
  ⟨(inv_run ops).keyNodup, (inv_run ops).qidNodup⟩

/-- `ok c` is backed by a quorum under `cfg`: at least `Q(cfg)` pairwise distinct peers each returned exactly
`c` in query `qid` (as recorded in the history `s'.returned`), and `c` is the expected value if one was given. -/
def Backed (s' : State) (qid : Nat) (cfg : Cfg) (c : Content) : Prop :=
  ∃ ps : List Nat, ps.Nodup ∧ getQuorumValue cfg.quorum ≤ ps.length ∧
    (∀ p ∈ ps, (qid, p, c) ∈ s'.returned) ∧ targetMatch cfg c = true

/-- `ok c` is the merge of a mergeable split: the reply `op` completed query `q` while it held at least two versions,
*every* version held is a transaction record, and `c` is the (non-empty) sorted union of the transactions of all
versions. (The last conjunct is read from `Gen.accMergeNeedsAllTx`: a version of another kind — in particular one
that reached the quorum — is never dropped in favour of what a single peer returned.) -/
def Merged (q : Query) (op : Op) (c : Content) : Prop :=
  ∃ p c0 fk, op = .found q.qid p c0 fk ∧ 2 ≤ (addPeer q.results c0 p).1.length ∧
    c = .txs (txUnion ((addPeer q.results c0 p).1.map (·.1))) ∧
    txUnion ((addPeer q.results c0 p).1.map (·.1)) ≠ [] ∧
    ∀ v ∈ (addPeer q.results c0 p).1.map (·.1), ∃ l, v = Content.txs l

theorem allTx_spec {cs : List Content} (h : allTx cs = true) : ∀ v ∈ cs, ∃ l, v = Content.txs l := by
  intro v hv
  unfold allTx at h
  have := List.all_eq_true.1 h v hv
  cases v <;> simp [txsOf] at this
  exact ⟨_, rfl⟩

/-- the guard of the merged-transactions answer (`all_versions_are_transactions && !accumulated_transactions.is_empty()`,
the first conjunct regenerated as `Gen.accMergeNeedsAllTx`) -/
theorem merged_guard {cs : List Content}
    (h : ¬ ((txUnion cs).isEmpty || (accMergeNeedsAllTx && !allTx cs)) = true) :
    txUnion cs ≠ [] ∧ ∀ v ∈ cs, ∃ l, v = Content.txs l := by
  simp only [accMergeNeedsAllTx, Bool.true_and, Bool.or_eq_true, Bool.not_eq_true', not_or] at h
  refine ⟨?_, allTx_spec (by simpa using h.2)⟩
  intro h0
  simp [h0] at h

/-- a reply whose record carries a foreign key is answered `ok` only if the same reply under the query's key is -/
theorem sendCheckedK_ok {cfg : Cfg} {c c' : Content} {k : Bool} (h : sendCheckedK cfg c k = .ok c') :
    sendChecked cfg c = .ok c' := by
  unfold sendCheckedK at h
  split at h
  · exact h
  · simp [targetChecked] at h

theorem findQ_of_mem {s : State} (h : Inv s) {q : Query} (hq : q ∈ s.pending) :
    findQ q.qid s.pending = some q := by
  cases hf : findQ q.qid s.pending with
  | none => exact absurd rfl (findQ_none hf q hq)
  | some q' =>
    obtain ⟨h1, h2⟩ := findQ_some hf
    rw [qid_unique h.qidNodup h1 hq h2]

/-- the entries of the history of replies are events of the history -/
theorem returned_are_events (ops : List Op) (qid p : Nat) (c : Content)
    (h : (qid, p, c) ∈ (run ops).returned) : ∃ fk, Op.found qid p c fk ∈ ops :=
  returned_sound ops (qid, p, c) h

/-- **`ok` needs a quorum.** Whenever a step delivers `ok c` to a caller, the caller was waiting on a pending
query `q` and either at least `Q(q.cfg)` distinct peers returned byte-identical `c` in this query and `c`
matches `q.cfg`'s target, or `c` is the transaction union of a split.  (`q.cfg` is the cfg of the query's
*first* caller, see `query_cfg_is_first_callers` and `joiner_inherits_cfg_witness`.) -/
theorem ok_has_quorum (ops : List Op) (op : Op) (caller : Nat) (c : Content)
    (h : (caller, Outcome.ok c) ∈ (step (run ops) op).2.deliveries) :
    ∃ q ∈ (run ops).pending, caller ∈ q.senders ∧
      (Backed (step (run ops) op).1 q.qid q.cfg c ∨ Merged q op c) := by
  have inv := inv_run ops
  obtain ⟨q, hq, hcaller, hcases⟩ := step_deliveries h
  refine ⟨q, hq, hcaller, ?_⟩
  rcases hcases with ⟨p, c0, fk, hop, hkey, hreach, ho⟩ | ⟨_, ho⟩ | ⟨_, ho⟩ | ⟨_, ho⟩
  · rcases ho with ho | ho
    · unfold completedOutcome completedOutcomeWith at ho
      split at ho
      · -- single version
        left
        have ho := (sendCheckedK_ok ho.symm).symm
        simp only [sendChecked, targetChecked, if_true] at ho
        split at ho
        · rename_i htm
          injection ho with hc; subst hc
          obtain ⟨ps, hmem, hlen, _⟩ := addPeer_has q.results c p
          refine ⟨ps, addPeer_peers_nodup c p (inv.peersNodup q hq) _ hmem, ?_, ?_, htm⟩
          · have := reached_true hreach; unfold quorumOf at this; omega
          · intro p' hp'
            have hret : (step (run ops) op).1.returned = (run ops).returned ++ [(q.qid, p, c)] := by
              subst hop
              simp [step, findQ_of_mem inv hq, hreach, terminate, hkey]
            rw [hret]
            rcases addPeer_mem hmem with hold | ⟨_, _, h3⟩
            · exact List.mem_append_left _ (inv.returned q hq _ hold p' hp')
            · rcases h3 p' hp' with hpp | ⟨ps', hps', hpps⟩
              · subst hpp; simp
              · exact List.mem_append_left _ (inv.returned q hq _ hps' p' hpps)
        · cases ho
      · -- several versions
        rename_i hlen
        right
        dsimp only at ho
        split at ho
        · cases ho
        · rename_i hne
          injection ho with hc
          obtain ⟨ps, hmem, _, _⟩ := addPeer_has q.results c0 p
          have hpos : 0 < (addPeer q.results c0 p).1.length := List.length_pos_of_mem hmem
          obtain ⟨hne1, hne2⟩ := merged_guard hne
          refine ⟨p, c0, fk, hop, ?_, hc, hne1, hne2⟩
          simp at hlen; omega
    · cases ho
  · rcases ho with ho | ho
    · exfalso
      unfold finishedOutcome at ho
      split at ho
      · cases ho
      · rename_i c' ps hres
        split at ho
        · rename_i hle
          have := inv.below q hq (c', ps) (by rw [hres]; simp)
          simp only [] at this; omega
        · cases ho
      · cases ho
    · cases ho
  · rcases ho with ho | ho <;> cases ho
  · rcases ho with ho | ho
    · exfalso
      unfold timeoutOutcome at ho
      split at ho
      · rename_i c' ps hres
        split at ho
        · rename_i hle
          have := inv.below q hq (c', ps) (by rw [hres]; simp)
          simp only [] at this; omega
        · cases ho
      · cases ho
    · cases ho

/-- **Dead `Ok` branches.** For a pending query of a reachable state `handle_get_record_finished` never takes
its `Ok(record)` branch and the `Timeout` arm of `handle_get_record_error` always answers `QueryTimeout`
(so the missing target comparison in the former and the quorum test in both are harmless). -/
theorem finished_ok_unreachable (ops : List Op) :
    ∀ q ∈ (run ops).pending, (∀ c, finishedOutcome q ≠ .ok c) ∧ timeoutOutcome q = .timeout := by
  intro q hq
  have hb := (inv_run ops).below q hq
  constructor
  · intro c ho
    unfold finishedOutcome at ho
    split at ho
    · cases ho
    · rename_i c' ps hres
      split at ho
      · have := hb (c', ps) (by rw [hres]; simp)
        simp only [] at this; omega
      · cases ho
    · cases ho
  · unfold timeoutOutcome
    split
    · rename_i c' ps hres
      have := hb (c', ps) (by rw [hres]; simp)
      simp only [] at this
      split
      · omega
      · rfl
    · rfl

/-- … hence no caller ever receives `ok` from a `finished` or `timeout` event, nor `RecordDoesNotMatch` from a timeout. -/
theorem finished_timeout_deliver_no_ok (ops : List Op) (qid caller : Nat) (o : Outcome) :
    ((caller, o) ∈ (step (run ops) (.finished qid)).2.deliveries → ∀ c, o ≠ .ok c) ∧
    ((caller, o) ∈ (step (run ops) (.timeout qid)).2.deliveries → o = .timeout ∨ o = .closed) := by
  constructor
  · intro h c hc
    obtain ⟨q, hq, _, hcases⟩ := step_deliveries h
    rcases hcases with ⟨p, c0, fk, hop, _⟩ | ⟨_, ho⟩ | ⟨hop, _⟩ | ⟨hop, _⟩
    · cases hop
    · rcases ho with ho | ho
      · exact (finished_ok_unreachable ops q hq).1 c (by rw [← ho, hc])
      · rw [hc] at ho; cases ho
    · rcases hop with hop | hop <;> cases hop
    · cases hop
  · intro h
    obtain ⟨q, hq, _, hcases⟩ := step_deliveries h
    rcases hcases with ⟨p, c0, fk, hop, _⟩ | ⟨hop, _⟩ | ⟨hop, _⟩ | ⟨_, ho⟩
    · cases hop
    · cases hop
    · rcases hop with hop | hop <;> cases hop
    · rcases ho with ho | ho
      · left; rw [ho]; exact (finished_ok_unreachable ops q hq).2
      · right; exact ho

/-- **A peer answering twice counts once.** A reply from a peer that already returned this very content to
a pending query changes nothing: same pending map, nothing delivered. -/
theorem dup_peer_counts_once (ops : List Op) (q : Query) (hq : q ∈ (run ops).pending)
    (c : Content) (ps : List Nat) (p : Nat) (fk : Option Nat) (hm : (c, ps) ∈ q.results) (hp : p ∈ ps) :
    (step (run ops) (.found q.qid p c fk)).1.pending = (run ops).pending ∧
    (step (run ops) (.found q.qid p c fk)).2.deliveries = [] ∧
    (step (run ops) (.found q.qid p c fk)).2.ret = .ok := by
  have inv := inv_run ops
  have hadd := addPeer_dup (inv.verNodup q hq) hm hp
  have hlt : ps.length < quorumOf q.cfg := inv.below q hq (c, ps) hm
  have hnr : reached ps.length (quorumOf q.cfg) = false := by
    simp [reached, thresholdIsGe]; omega
  have hid : (run ops).pending.map (fun x => if x.qid = q.qid then { x with results := q.results } else x)
      = (run ops).pending := by
    have : ∀ x ∈ (run ops).pending,
        (if x.qid = q.qid then { x with results := q.results } else x) = x := by
      intro x hx
      split
      · rename_i hxq
        have := qid_unique inv.qidNodup hx hq hxq
        subst this; rfl
      · rfl
    rw [List.map_congr_left this]; simp
  by_cases hg : fk.getD q.key = q.key
  · simp [step, findQ_of_mem inv hq, hadd, hnr, hid, hg]
  · simp [step, findQ_of_mem inv hq, foundChecksKey, hg]

/-- the accumulated count is the number of *distinct* responders: what `addPeer` reports is the length of a
duplicate-free list -/
theorem responded_peers_counts_distinct (ops : List Op) (q : Query) (hq : q ∈ (run ops).pending) (c : Content) (p : Nat) :
    ∃ ps, (c, ps) ∈ (addPeer q.results c p).1 ∧ ps.Nodup ∧ ps.length = (addPeer q.results c p).2 := by
  obtain ⟨ps, h1, h2, _⟩ := addPeer_has q.results c p
  exact ⟨ps, h1, addPeer_peers_nodup c p ((inv_run ops).peersNodup q hq) _ h1, h2⟩

/-- The cfg a query runs under is the cfg of its first caller. -/
theorem query_cfg_is_first_callers (ops : List Op) :
    ∀ q ∈ (run ops).pending, ∃ c0 rest, q.senders = c0 :: rest ∧ (c0, q.key, q.cfg) ∈ (run ops).asked :=
  (inv_run ops).firstCfg

/-! ## Named holders (`expected_holders`) do not lower the quorum

`Cfg.expected` is part of the cfg every theorem above quantifies over; `Backed` asks for `getQuorumValue cfg.quorum`
distinct peers whatever the caller named. (The number of copies required is `get_quorum_value(&cfg.get_quorum)` at all
four sites of kad.rs; the translator refuses any other expression, and the differential run names holders — answering
and silent ones, fewer and more than the quorum — in the `get` lines.) -/

/-- *Definitional, not a proof obligation*: no function of the model reads `Cfg.expected`, so this holds by `rfl`. The
evidence that the code's copy count ignores `expected_holders` is the translator (it reads
`get_quorum_value(&cfg.get_quorum)` at the completion test and refuses anything else) and the differential run, whose
`get` lines name holders. `ok_has_quorum` quantifies over cfgs with any `expected`. -/
theorem quorum_ignores_expected_holders (cfg : Cfg) (e : List Nat) :
    quorumOf { cfg with expected := e } = quorumOf cfg ∧
    ∀ c, targetMatch { cfg with expected := e } c = targetMatch cfg c :=
  ⟨rfl, fun _ => rfl⟩

-- Majority with three named holders: two distinct peers are not enough, neither at once nor at a timeout
example : (step (run [.get 0 0 { quorum := .majority, target := none, isReg := false, expected := [1, 2, 3] },
      .found 0 1 (.hdr .chunk 0) none]) (.found 0 2 (.hdr .chunk 0) none)).2.deliveries = [] := by decide
example : (step (run [.get 0 0 { quorum := .majority, target := none, isReg := false, expected := [1, 2] },
      .found 0 1 (.hdr .chunk 0) none]) (.timeout 0)).2.deliveries = [(0, .timeout)] := by decide

/-! ## Known finding K-d: a joiner inherits the first caller's cfg -/

/-- The property at full strength: an `ok` is backed by a quorum *under the receiving caller's own cfg*
(or is the transaction merge of a split). -/
def OkHasQuorumOwnCfg : Prop :=
  ∀ (ops : List Op) (op : Op) (caller key : Nat) (cfg : Cfg) (c : Content),
    (caller, key, cfg) ∈ (run ops).asked →
    (caller, Outcome.ok c) ∈ (step (run ops) op).2.deliveries →
    (∃ q ∈ (run ops).pending, Merged q op c) ∨ ∃ qid, Backed (step (run ops) op).1 qid cfg c

def kdHistory : List Op :=
  [.get 0 0 { quorum := .one, target := none, isReg := false },
   .get 0 1 { quorum := .all, target := none, isReg := false }]

/-- **Witness (K-d).** Caller 1 asks with `Quorum::All` while caller 0's `Quorum::One` query for the same key
is in flight; after a single reply both receive `ok`. -/
theorem joiner_inherits_cfg_witness :
    (1, 0, ({ quorum := .all, target := none, isReg := false } : Cfg)) ∈ (run kdHistory).asked ∧
    (step (run kdHistory) (.found 0 1 (.hdr .chunk 0) none)).2.deliveries =
      [(0, .ok (.hdr .chunk 0)), (1, .ok (.hdr .chunk 0))] ∧
    (step (run kdHistory) (.found 0 1 (.hdr .chunk 0) none)).1.returned = [(0, 1, .hdr .chunk 0)] ∧
    getQuorumValue .all = 5 := by
  refine ⟨by decide, by decide, by decide, by decide⟩

theorem not_okHasQuorumOwnCfg : ¬ OkHasQuorumOwnCfg := by
  intro h
  obtain ⟨hasked, hdel, hret, hq⟩ := joiner_inherits_cfg_witness
  rcases h kdHistory (.found 0 1 (.hdr .chunk 0) none) 1 0 _ (.hdr .chunk 0) hasked (by rw [hdel]; simp) with
    ⟨q, hqm, p, c0, fk, hop, hlen, _⟩ | ⟨qid, ps, hnd, hlen, hall, _⟩
  · have hp : (run kdHistory).pending =
        [{ qid := 0, key := 0, senders := [0, 1], results := [], cfg := { quorum := .one, target := none, isReg := false } }] := by decide
    rw [hp] at hqm
    simp at hqm; subst hqm
    injection hop with _ h2 h3 _
    subst h2; subst h3
    simp [addPeer] at hlen
  · rw [hret] at hall
    rw [hq] at hlen
    match ps, hnd, hlen, hall with
    | a :: b :: _, hnd, _, hall =>
      have ha := hall a (by simp)
      have hb := hall b (by simp)
      simp at ha hb
      simp [ha.2, hb.2] at hnd
    | [], _, hlen, _ => simp at hlen
    | [_], _, hlen, _ => simp at hlen

/-- **Partial (K-d).** If the receiving caller asked with the cfg the query runs under — it is the query's
first caller, or it joined with an identical cfg — the `ok` is backed by a quorum under *its own* cfg. -/
theorem ok_has_quorum_own_cfg_partial (ops : List Op) (op : Op) (caller : Nat) (c : Content)
    (h : (caller, Outcome.ok c) ∈ (step (run ops) op).2.deliveries) :
    ∃ q ∈ (run ops).pending, caller ∈ q.senders ∧
      ∀ cfg, cfg = q.cfg → (Backed (step (run ops) op).1 q.qid cfg c ∨ Merged q op c) := by
  obtain ⟨q, hq, hc, hb⟩ := ok_has_quorum ops op caller c h
  exact ⟨q, hq, hc, fun cfg hcfg => by rw [hcfg]; exact hb⟩

/-! ## Known finding K-d2: merged transactions are not compared with the target -/

/-- Full strength: a delivered `ok c` matches the target of the query's cfg. -/
def OkMatchesTarget : Prop :=
  ∀ (ops : List Op) (op : Op) (caller : Nat) (c : Content),
    (caller, Outcome.ok c) ∈ (step (run ops) op).2.deliveries →
    ∀ q ∈ (run ops).pending, caller ∈ q.senders → targetMatch q.cfg c = true

def kd2History : List Op :=
  [.get 0 0 { quorum := .n 2, target := some (.txs [0]), isReg := false },
   .found 0 1 (.txs [1]) none, .found 0 2 (.txs [0]) none]

/-- **Witness (K-d2).** The caller expects `t0`; one peer returned `t1`, two returned `t0`: it receives
`ok t0.1`. -/
theorem merged_skips_target_witness :
    (step (run kd2History) (.found 0 3 (.txs [0]) none)).2.deliveries = [(0, .ok (.txs [0, 1]))] ∧
    (∃ q ∈ (run kd2History).pending, 0 ∈ q.senders ∧ targetMatch q.cfg (.txs [0, 1]) = false) := by
  refine ⟨by decide, ?_⟩
  refine ⟨{ qid := 0, key := 0, senders := [0], results := [(.txs [1], [1]), (.txs [0], [2])],
            cfg := { quorum := .n 2, target := some (.txs [0]), isReg := false } }, by decide, by decide, by decide⟩

theorem not_okMatchesTarget : ¬ OkMatchesTarget := by
  intro h
  obtain ⟨hdel, q, hq, hs, htm⟩ := merged_skips_target_witness
  have := h kd2History (.found 0 3 (.txs [0]) none) 0 (.txs [0, 1]) (by rw [hdel]; simp) q hq hs
  rw [htm] at this; cases this

/-- **Partial (K-d2).** Outside the transaction merge of a split a delivered `ok` matches the target
(this is the `Backed` disjunct of `ok_has_quorum`). -/
theorem ok_matches_target_partial (ops : List Op) (op : Op) (caller : Nat) (c : Content)
    (h : (caller, Outcome.ok c) ∈ (step (run ops) op).2.deliveries) :
    ∃ q ∈ (run ops).pending, caller ∈ q.senders ∧ (targetMatch q.cfg c = true ∨ Merged q op c) := by
  obtain ⟨q, hq, hc, hb⟩ := ok_has_quorum ops op caller c h
  refine ⟨q, hq, hc, ?_⟩
  rcases hb with ⟨_, _, _, _, htm⟩ | hm
  · exact Or.inl htm
  · exact Or.inr hm

/-! ## `ok` equals the caller's expected value -/

/-- What "equals the expected value" means for a cfg: without a target nothing is required; a plain target
must be byte-identical (`Content` equality); with `is_register` the value and the target are both registers
with the same base register and the same set of ops (ops lists are canonical, so list equality is set
equality; the owner signature is not part of the comparison). -/
def TargetEq (cfg : Cfg) (c : Content) : Prop :=
  match cfg.target with
  | none => True
  | some t =>
    if cfg.isReg then ∃ b s s' ops, c = .reg b s ops ∧ t = .reg b s' ops
    else c = t

/-- `does_target_match` (with the comparison regenerated from the source) accepts exactly the values that
equal the target in the sense of `TargetEq`. -/
theorem targetMatch_iff_equals (cfg : Cfg) (c : Content) : targetMatch cfg c = true ↔ TargetEq cfg c := by
  unfold targetMatch TargetEq
  cases cfg.target with
  | none => simp
  | some t =>
    simp only []
    by_cases hr : cfg.isReg = true
    · simp only [hr, if_true]
      cases c with
      | reg b s ops =>
        cases t with
        | reg b' s' ops' =>
          simp only [opsMatch, regTargetOpsCmp, Bool.and_eq_true, beq_iff_eq]
          constructor
          · rintro ⟨h1, h2⟩
            exact ⟨b, s, s', ops, rfl, by rw [h1, h2]⟩
          · rintro ⟨b0, s0, s0', o0, h1, h2⟩
            injection h1 with e1 _ e3
            injection h2 with f1 _ f3
            exact ⟨by rw [e1, f1], by rw [e3, f3]⟩
        | junk _ => simp
        | hdr _ _ => simp
        | txs _ => simp
        | pad _ _ _ _ => simp
      | junk _ => simp
      | hdr _ _ => simp
      | txs _ => simp
      | pad _ _ _ _ => simp
    · simp [hr]

/-- **`ok` equals the target.** A delivered `ok c` equals the expected value of the cfg the query runs under —
byte-identical for a plain target, same base register and same op set for an `is_register` target — unless it
is the transaction merge of a split (known finding K-d2). -/
theorem ok_equals_target (ops : List Op) (op : Op) (caller : Nat) (c : Content)
    (h : (caller, Outcome.ok c) ∈ (step (run ops) op).2.deliveries) :
    ∃ q ∈ (run ops).pending, caller ∈ q.senders ∧ (TargetEq q.cfg c ∨ Merged q op c) := by
  obtain ⟨q, hq, hc, hb⟩ := ok_matches_target_partial ops op caller c h
  refine ⟨q, hq, hc, ?_⟩
  rcases hb with hb | hb
  · exact Or.inl ((targetMatch_iff_equals q.cfg c).1 hb)
  · exact Or.inr hb

-- register targets: equal ops match whatever the owner signature; a superset, a subset, disjoint ops, another
-- base and an undecodable record (even a byte-identical one) do not
example : targetMatch { quorum := .one, target := some (.reg 0 true [1]), isReg := true } (.reg 0 false [1]) = true := by decide
example : targetMatch { quorum := .one, target := some (.reg 0 true [1]), isReg := true } (.reg 0 true [1, 2]) = false := by decide
example : targetMatch { quorum := .one, target := some (.reg 0 true [1, 2]), isReg := true } (.reg 0 true [1]) = false := by decide
example : targetMatch { quorum := .one, target := some (.reg 0 true [1]), isReg := true } (.reg 0 true [2]) = false := by decide
example : targetMatch { quorum := .one, target := some (.reg 0 true [1]), isReg := true } (.reg 1 true [1]) = false := by decide
example : targetMatch { quorum := .one, target := some (.hdr .reg 0), isReg := true } (.hdr .reg 0) = false := by decide
example : targetMatch { quorum := .one, target := some (.reg 0 true [1]), isReg := false } (.reg 0 false [1]) = false := by decide

/-! ## Split: all versions or their merge -/

/-- the version map a query holds when `op` is handled -/
def resultsAt (q : Query) : Op → List (Content × List Nat)
  | .found _ p c _ => (addPeer q.results c p).1
  | _ => q.results

/-- **Split (enumeration of the outcomes).** When a step answers the callers of a query that holds two or more versions,
every caller receives the *full* version map with all responders, or the sorted union of the transactions of *all*
versions, or (kad error events) `QueryTimeout` / `RecordNotFound` with the versions discarded — never one arbitrarily
picked version. The clause of the property itself ("the full set or the merge") is `SplitReturnsAllOrMerge` below:
false of the code for the kad error events (known finding K-d5), proved for every other step
(`split_returns_all_or_merge_partial`). -/
theorem split_returns_all_or_merge_or_error (ops : List Op) (op : Op) (caller : Nat) (o : Outcome)
    (h : (caller, o) ∈ (step (run ops) op).2.deliveries) :
    ∃ q ∈ (run ops).pending, caller ∈ q.senders ∧
      (2 ≤ (resultsAt q op).length →
        o = .split (resultsAt q op) ∨
        (o = .ok (.txs (txUnion ((resultsAt q op).map (·.1)))) ∧ txUnion ((resultsAt q op).map (·.1)) ≠ []) ∨
        (o = .timeout ∧ op = .timeout q.qid) ∨
        (o = .notFound ∧ (op = .notFound q.qid ∨ op = .quorumFailed q.qid)) ∨ o = .closed) := by
  obtain ⟨q, hq, hcaller, hcases⟩ := step_deliveries h
  refine ⟨q, hq, hcaller, ?_⟩
  intro hlen
  rcases hcases with ⟨p, c0, fk, hop, _, _, ho⟩ | ⟨hop, ho⟩ | ⟨hop, ho⟩ | ⟨hop, ho⟩
  · subst hop
    simp only [resultsAt] at hlen ⊢
    rcases ho with ho | ho
    · unfold completedOutcome completedOutcomeWith at ho
      split at ho
      · rename_i h1; simp at h1; omega
      · dsimp only at ho
        split at ho
        · left; exact ho
        · rename_i hne
          right; left
          exact ⟨ho, (merged_guard hne).1⟩
    · right; right; right; right; exact ho
  · subst hop
    simp only [resultsAt] at hlen ⊢
    rcases ho with ho | ho
    · left
      rw [ho]; unfold finishedOutcome
      split
      · rename_i hres; rw [hres] at hlen; simp at hlen
      · rename_i hres; rw [hres] at hlen; simp at hlen
      · rfl
    · right; right; right; right; exact ho
  · right; right; right
    rcases ho with ho | ho
    · left; exact ⟨ho, hop⟩
    · right; exact ho
  · subst hop
    simp only [resultsAt] at hlen ⊢
    rcases ho with ho | ho
    · right; right; left
      refine ⟨?_, trivial⟩
      rw [ho]; unfold timeoutOutcome
      split
      · rename_i hres; rw [hres] at hlen; simp at hlen
      · rfl
    · right; right; right; right; exact ho

/-! ## The key carried by a reply's record

libp2p-kad hands a `FoundRecord` to the handlers without comparing `record.key` with the key of the query.
`accumulate_get_record_found` drops a reply whose record carries another key before any use of it
(`Gen.foundChecksKey`, regenerated from the source; fix 090e7e0 of the former finding K-d3). -/

/-- **A reply carrying another key is ignored**: it changes nothing and delivers nothing, as if the peer had not
answered. -/
theorem foreign_key_reply_ignored (ops : List Op) (q : Query) (hq : q ∈ (run ops).pending)
    (p : Nat) (c : Content) (k : Nat) (hk : k ≠ q.key) :
    step (run ops) (.found q.qid p c (some k)) = (run ops, {}) := by
  have hf := findQ_of_mem (inv_run ops) hq
  simp [step, hf, foundChecksKey, hk]

/-- The record delivered with `ok` carries the requested key. -/
def OkCarriesRequestedKey : Prop :=
  ∀ (ops : List Op) (op : Op) (caller : Nat) (c : Content),
    (caller, Outcome.ok c) ∈ (step (run ops) op).2.deliveries →
    ∀ q ∈ (run ops).pending, caller ∈ q.senders → deliveredKey (run ops) q op c = q.key

/-- **`ok` carries the requested key**, for all histories: the record handed over is the completing reply's own
record, and a reply is only used when its record carries the query's key. -/
theorem ok_carries_requested_key : OkCarriesRequestedKey := by
  intro ops op caller c h q hq hcq
  have inv := inv_run ops
  have ic := invC_run ops
  obtain ⟨q', hq', hc', hcases⟩ := step_deliveries h
  have hqq : q' = q := qid_unique inv.qidNodup hq' hq (ic.disjoint q' hq' q hq caller hc' hcq)
  subst hqq
  rcases hcases with ⟨p, c0, fk, hop, hkey, _, _⟩ | ⟨hop, ho⟩ | ⟨hop, ho⟩ | ⟨hop, ho⟩
  · subst hop
    exact hkey
  · exfalso
    rcases ho with ho | ho
    · exact (finished_ok_unreachable ops q' hq').1 c ho.symm
    · cases ho
  · exfalso; rcases ho with ho | ho <;> cases ho
  · exfalso
    rcases ho with ho | ho
    · rw [(finished_ok_unreachable ops q' hq').2] at ho; cases ho
    · cases ho

/-- `ok c` is backed by a quorum *for key `key`*: at least `Q(cfg)` distinct peers each returned `c` in a record
carrying `key`. -/
def BackedForKey (s' : State) (qid : Nat) (cfg : Cfg) (c : Content) (key : Nat) : Prop :=
  ∃ ps : List Nat, ps.Nodup ∧ getQuorumValue cfg.quorum ≤ ps.length ∧ ∀ p ∈ ps, (qid, p, c, key) ∈ s'.keys

/-- The quorum behind an `ok` consists of peers that returned the content *for the requested key*. -/
def OkHasQuorumForRequestedKey : Prop :=
  ∀ (ops : List Op) (op : Op) (caller : Nat) (c : Content),
    (caller, Outcome.ok c) ∈ (step (run ops) op).2.deliveries →
    ∀ q ∈ (run ops).pending, caller ∈ q.senders →
      BackedForKey (step (run ops) op).1 q.qid q.cfg c q.key ∨ Merged q op c

/-- **`ok` needs a quorum for the requested key**, for all histories: at least `Q` pairwise distinct peers each
returned byte-identical `c` in a record carrying the requested key (or `c` is the transaction merge of a split). -/
theorem ok_has_quorum_for_requested_key : OkHasQuorumForRequestedKey := by
  intro ops op caller c h q hq hcq
  have inv := inv_run ops
  have ic := invC_run ops
  have irk := invRK_run ops
  obtain ⟨q', hq', hc', hcases⟩ := step_deliveries h
  have hqq : q' = q := qid_unique inv.qidNodup hq' hq (ic.disjoint q' hq' q hq caller hc' hcq)
  subst hqq
  rcases hcases with ⟨p, c0, fk, hop, hkey, hreach, ho⟩ | ⟨_, ho⟩ | ⟨_, ho⟩ | ⟨_, ho⟩
  · rcases ho with ho | ho
    · unfold completedOutcome completedOutcomeWith at ho
      split at ho
      · left
        have ho := (sendCheckedK_ok ho.symm).symm
        simp only [sendChecked, targetChecked, if_true] at ho
        split at ho
        · injection ho with hc; subst hc
          obtain ⟨ps, hmem, hlen, _⟩ := addPeer_has q'.results c p
          refine ⟨ps, addPeer_peers_nodup c p (inv.peersNodup q' hq') _ hmem, ?_, ?_⟩
          · have := reached_true hreach; unfold quorumOf at this; omega
          · intro p' hp'
            have hks : (step (run ops) op).1.keys = (run ops).keys ++ [(q'.qid, p, c, q'.key)] := by
              subst hop
              simp [step, findQ_of_mem inv hq', hreach, terminate, hkey]
            rw [hks]
            rcases addPeer_mem hmem with hold | ⟨_, _, h3⟩
            · exact List.mem_append_left _ (irk q' hq' _ hold p' hp')
            · rcases h3 p' hp' with hpp | ⟨ps', hps', hpps⟩
              · subst hpp; simp
              · exact List.mem_append_left _ (irk q' hq' _ hps' p' hpps)
        · cases ho
      · rename_i hlen
        right
        dsimp only at ho
        split at ho
        · cases ho
        · rename_i hne
          injection ho with hc
          obtain ⟨ps, hmem, _, _⟩ := addPeer_has q'.results c0 p
          have hpos : 0 < (addPeer q'.results c0 p).1.length := List.length_pos_of_mem hmem
          obtain ⟨hne1, hne2⟩ := merged_guard hne
          refine ⟨p, c0, fk, hop, ?_, hc, hne1, hne2⟩
          simp at hlen; omega
    · cases ho
  · exfalso
    rcases ho with ho | ho
    · exact (finished_ok_unreachable ops q' hq').1 c ho.symm
    · cases ho
  · exfalso; rcases ho with ho | ho <;> cases ho
  · exfalso
    rcases ho with ho | ho
    · rw [(finished_ok_unreachable ops q' hq').2] at ho; cases ho
    · cases ho

/-- Invariant behind it: every responder counted for a version of a pending query returned that version in a
record carrying the query's key. -/
theorem responders_returned_for_key (ops : List Op) :
    ∀ q ∈ (run ops).pending, ∀ e ∈ q.results, ∀ p ∈ e.2, (q.qid, p, e.1, q.key) ∈ (run ops).keys :=
  invRK_run ops

/-- the key history consists of replies of the history (an explicit key on the event is the recorded one) -/
theorem keys_are_events (ops : List Op) (qid p : Nat) (c : Content) (k : Nat)
    (h : (qid, p, c, k) ∈ (run ops).keys) : ∃ fk, Op.found qid p c fk ∈ ops ∧ ∀ k', fk = some k' → k = k' :=
  keys_sound ops (qid, p, c, k) h

-- the two histories of the former finding K-d3: the reply under key 1 is ignored
example : (step (run [.get 0 0 { quorum := .one, target := none, isReg := false }])
      (.found 0 1 (.hdr .chunk 0) (some 1))).2.deliveries = [] := by decide
example : (step (run [.get 0 0 { quorum := .n 2, target := none, isReg := false }, .found 0 1 (.hdr .chunk 0) (some 1)])
      (.found 0 2 (.hdr .chunk 0) none)).2.deliveries = [] := by decide
-- an explicit key equal to the requested one counts
example : (step (run [.get 0 0 { quorum := .n 2, target := none, isReg := false }, .found 0 1 (.hdr .chunk 0) (some 0)])
      (.found 0 2 (.hdr .chunk 0) none)).2.deliveries = [(0, .ok (.hdr .chunk 0))] := by decide

/-! ## Exactly one outcome per caller -/

/-- The ghost log `delivered` is exactly what the steps put on the callers' channels. -/
theorem delivered_is_output (s : State) (op : Op) :
    (step s op).1.delivered = s.delivered ++ (step s op).2.deliveries := delivered_step s op

/-- **One outcome each.** At any point of any history, a caller that has not hung up is either waiting in
exactly one pending query and has received nothing, or is waiting nowhere and has received exactly one
outcome (a value or a specific error). -/
theorem one_outcome_each (ops : List Op) (caller : Nat) (hc : caller < (run ops).nextCaller)
    (hl : caller ∉ (run ops).hung) :
    ((∃ q ∈ (run ops).pending, caller ∈ q.senders ∧
          ∀ q' ∈ (run ops).pending, caller ∈ q'.senders → q' = q) ∧
        ((run ops).delivered.map (·.1)).count caller = 0) ∨
    ((∀ q ∈ (run ops).pending, caller ∉ q.senders) ∧
        ((run ops).delivered.map (·.1)).count caller = 1) := by
  have inv := inv_run ops
  have ic := invC_run ops
  rcases ic.cover caller hc with ⟨q, hq, hcq⟩ | hd | hh
  · left
    refine ⟨⟨q, hq, hcq, ?_⟩, ?_⟩
    · intro q' hq' hcq'
      exact qid_unique inv.qidNodup hq' hq (ic.disjoint q' hq' q hq caller hcq' hcq)
    · exact List.count_eq_zero.2 (ic.pendNotDelivered q hq caller hcq)
  · right
    refine ⟨?_, ?_⟩
    · intro q hq hcq
      exact ic.pendNotDelivered q hq caller hcq hd
    · rw [List.Nodup.count ic.delNodup]; simp [hd]
  · exact absurd hh hl

/-- **…delivered by the terminating event.** A terminating event (or the reply that completes the quorum)
for a pending query removes it and answers each of its live callers exactly once, in that very step, and
nobody else. -/
theorem terminating_event_answers_all (ops : List Op) (q : Query) (hq : q ∈ (run ops).pending) (op : Op)
    (hop : op = .finished q.qid ∨ op = .notFound q.qid ∨ op = .quorumFailed q.qid ∨ op = .timeout q.qid) :
    (step (run ops) op).2.deliveries.map (·.1) = q.senders.filter (fun x => !(run ops).hung.contains x) ∧
    ((step (run ops) op).2.deliveries.map (·.1)).Nodup ∧
    (∀ x ∈ (step (run ops) op).1.pending, x.qid ≠ q.qid) := by
  have inv := inv_run ops
  have ic := invC_run ops
  have hf := findQ_of_mem inv hq
  have key : (step (run ops) op) = terminate (run ops) q
      (match op with | .finished _ => finishedOutcome q | .timeout _ => timeoutOutcome q | _ => .notFound) := by
    rcases hop with h | h | h | h <;> subst h <;> simp [step, hf]
  rw [key]
  refine ⟨by simp [terminate, deliver_callers], ?_, ?_⟩
  · simp only [terminate, deliver_callers]
    exact (ic.sendersNodup q hq).filter _
  · intro x hx
    exact (mem_removeQ.1 hx).2

/-- Nothing is delivered except by the step that removes the query: while a query stays pending its callers
receive nothing (`get`, a reply below the quorum, a hang-up and events for unknown queries deliver nothing). -/
theorem deliveries_only_on_removal (ops : List Op) (op : Op) (caller : Nat) (o : Outcome)
    (h : (caller, o) ∈ (step (run ops) op).2.deliveries) :
    ∃ q ∈ (run ops).pending, caller ∈ q.senders ∧ ∀ x ∈ (step (run ops) op).1.pending, x.qid ≠ q.qid := by
  have inv := inv_run ops
  obtain ⟨q, hq, hcaller, hcases⟩ := step_deliveries h
  refine ⟨q, hq, hcaller, ?_⟩
  have hf := findQ_of_mem inv hq
  rcases hcases with ⟨p, c0, fk, hop, hkey, hreach, _⟩ | ⟨hop, _⟩ | ⟨hop, _⟩ | ⟨hop, _⟩
  · subst hop
    intro x hx
    simp [step, hf, hreach, terminate, hkey] at hx
    exact (mem_removeQ.1 hx).2
  · subst hop
    intro x hx
    simp [step, hf, terminate] at hx
    exact (mem_removeQ.1 hx).2
  · rcases hop with hop | hop <;> subst hop <;> intro x hx <;> simp [step, hf, terminate] at hx <;>
      exact (mem_removeQ.1 hx).2
  · subst hop
    intro x hx
    simp [step, hf, terminate] at hx
    exact (mem_removeQ.1 hx).2

/-- A caller observes a dropped channel (`closed`) only when some caller of the same query dropped its receiver
(the statement that held before the repair of the sender loops; with `Gen.sendServesAllCallers` it is subsumed by
`value_or_specific_error` below: not even then). -/
theorem closed_only_after_hangup (ops : List Op) (op : Op) (caller : Nat)
    (h : (caller, Outcome.closed) ∈ (step (run ops) op).2.deliveries) :
    ∃ q ∈ (run ops).pending, caller ∈ q.senders ∧ ∃ c' ∈ q.senders, c' ∈ (run ops).hung :=
  step_closed h

/-! ### every sender is served

The three lemmas below are the ones that read `Gen.sendServesAllCallers` (regenerated from the sender loops of
`event/kad.rs`); everything else about `deliver` is proved for both values of the flag. -/

/-- every sender is served (`Gen.sendServesAllCallers`): nobody observes a closed channel -/
theorem deliver_no_closed {hung cs : List Nat} {o : Outcome} {x : Nat}
    (h : (x, Outcome.closed) ∈ (deliver hung cs o).1) : o = .closed := by
  induction cs with
  | nil => simp [deliver] at h
  | cons c cs ih =>
    simp only [deliver] at h
    split at h
    · simp only [sendServesAllCallers, if_true] at h
      exact ih h
    · rcases List.mem_cons.1 h with h | h
      · simp only [Prod.mk.injEq] at h
        exact h.2.symm
      · exact ih h

/-- a live sender receives exactly the outcome sent, whoever else hung up -/
theorem deliver_live {hung cs : List Nat} {o : Outcome} {x : Nat} (hx : x ∈ cs) (hl : x ∉ hung) :
    (x, o) ∈ (deliver hung cs o).1 := by
  induction cs with
  | nil => simp at hx
  | cons c cs ih =>
    simp only [deliver]
    split
    · rename_i hc
      have hc' : c ∈ hung := by simpa using hc
      simp only [sendServesAllCallers, if_true]
      rcases List.mem_cons.1 hx with e | hx
      · subst e; exact absurd hc' hl
      · exact ih hx
    · rcases List.mem_cons.1 hx with e | hx
      · subst e; exact List.mem_cons_self ..
      · exact List.mem_cons_of_mem _ (ih hx)

/-- no step lets any caller observe a closed channel (every sender is served, `Gen.sendServesAllCallers`) -/
theorem step_no_closed {s : State} {op : Op} {x : Nat} : (x, Outcome.closed) ∉ (step s op).2.deliveries := by
  intro h
  cases op with
  | get key caller cfg =>
    simp only [step] at h
    split at h
    · simp at h
    · split at h <;> simp at h
  | found qid p c fk =>
    simp only [step] at h
    split at h
    · simp at h
    · split at h
      · simp at h
      split at h
      · simp only [terminate] at h
        exact completedOutcome_ne_closed _ _ _ _ (deliver_no_closed h)
      · simp at h
  | finished qid =>
    simp only [step] at h
    split at h
    · simp at h
    · simp only [terminate] at h
      exact finishedOutcome_ne_closed _ (deliver_no_closed h)
  | notFound qid =>
    simp only [step] at h
    split at h
    · simp at h
    · simp only [terminate] at h
      cases deliver_no_closed h
  | quorumFailed qid =>
    simp only [step] at h
    split at h
    · simp at h
    · simp only [terminate] at h
      cases deliver_no_closed h
  | timeout qid =>
    simp only [step] at h
    split at h
    · simp at h
    · simp only [terminate] at h
      exact timeoutOutcome_ne_closed _ (deliver_no_closed h)
  | hangup caller =>
    simp only [step] at h
    split at h <;> simp at h

/-- **Full clause "a value or a specific error".** Nothing a step puts on a caller's channel is a bare dropped
channel (`closed` = `InternalMsgChannelDropped` at the caller, no value and no `GetRecordError`). -/
def ValueOrSpecificError : Prop :=
  ∀ (ops : List Op) (op : Op) (caller : Nat) (o : Outcome),
    (caller, o) ∈ (step (run ops) op).2.deliveries → o ≠ .closed

/-- **A value or a specific error, for all histories — hang-ups included.** The loops that answer the callers serve
every sender (`Gen.sendServesAllCallers`, regenerated from the source: `send_to_all`); a caller that dropped its
receiver no longer takes the callers queued behind it down with it (former finding, fixed). -/
theorem value_or_specific_error : ValueOrSpecificError := by
  intro ops op caller o h ho
  subst ho
  exact step_no_closed h

/-! ### "the full set of versions or their merge" (full clause), and where the code falls short of it -/

/-- **Full clause.** Whenever the callers of a query that holds two or more versions are answered, they receive the
full version map or the transaction union of all versions. -/
def SplitReturnsAllOrMerge : Prop :=
  ∀ (ops : List Op) (op : Op) (caller : Nat) (o : Outcome),
    (caller, o) ∈ (step (run ops) op).2.deliveries →
    ∃ q ∈ (run ops).pending, caller ∈ q.senders ∧
      (2 ≤ (resultsAt q op).length →
        o = .split (resultsAt q op) ∨
        (o = .ok (.txs (txUnion ((resultsAt q op).map (·.1)))) ∧ txUnion ((resultsAt q op).map (·.1)) ≠ []))

def kd5History : List Op :=
  [.get 0 0 { quorum := .n 2, target := none, isReg := false },
   .found 0 1 (.hdr .chunk 0) none, .found 0 2 (.hdr .chunk 1) none]

/-- **Witness (K-d5).** Two peers returned differing content, then kad reports a timeout (or NotFound / QuorumFailed):
the caller receives the bare error, the two versions held are discarded (kad.rs: "todo: … Why don't we return a split
record error"). -/
theorem timeout_discards_versions_witness :
    (step (run kd5History) (.timeout 0)).2.deliveries = [(0, .timeout)] ∧
    (step (run kd5History) (.notFound 0)).2.deliveries = [(0, .notFound)] ∧
    (run kd5History).pending = [{ qid := 0, key := 0, senders := [0], results := [(.hdr .chunk 0, [1]), (.hdr .chunk 1, [2])], cfg := { quorum := .n 2, target := none, isReg := false } }] := by
  decide

theorem not_splitReturnsAllOrMerge : ¬ SplitReturnsAllOrMerge := by
  intro h
  obtain ⟨hd, _, hp⟩ := timeout_discards_versions_witness
  obtain ⟨q, hq, _, hcl⟩ := h kd5History (.timeout 0) 0 .timeout (by rw [hd]; simp)
  rw [hp] at hq
  simp at hq; subst hq
  rcases hcl (by decide) with h1 | ⟨h1, _⟩ <;> cases h1

/-- **Partial (K-d5).** For every step other than a kad error event (`Timeout`, `NotFound`, `QuorumFailed`) — i.e. for the
reply that completes a quorum and for `FinishedWithNoAdditionalRecord` — the clause holds at full strength. -/
theorem split_returns_all_or_merge_partial (ops : List Op) (op : Op) (caller : Nat) (o : Outcome)
    (hterm : ∀ qid, op ≠ .timeout qid ∧ op ≠ .notFound qid ∧ op ≠ .quorumFailed qid)
    (h : (caller, o) ∈ (step (run ops) op).2.deliveries) :
    ∃ q ∈ (run ops).pending, caller ∈ q.senders ∧
      (2 ≤ (resultsAt q op).length →
        o = .split (resultsAt q op) ∨
        (o = .ok (.txs (txUnion ((resultsAt q op).map (·.1)))) ∧ txUnion ((resultsAt q op).map (·.1)) ≠ [])) := by
  have hnc : o ≠ .closed := fun hc => step_no_closed (hc ▸ h)
  obtain ⟨q, hq, hcaller, hall⟩ := split_returns_all_or_merge_or_error ops op caller o h
  refine ⟨q, hq, hcaller, ?_⟩
  intro hlen
  rcases hall hlen with h1 | h1 | ⟨_, h1⟩ | ⟨_, h1 | h1⟩ | h1
  · exact Or.inl h1
  · exact Or.inr h1
  · exact absurd h1 (hterm q.qid).1
  · exact absurd h1 (hterm q.qid).2.1
  · exact absurd h1 (hterm q.qid).2.2
  · exact absurd h1 hnc

/-! ## Observe point "result of `Network::get_record_from_network`" -/

/-- **Full clause at the second observe point.** An `Ok` of `get_record_from_network` equals the caller's expected value
when one was given. -/
def NetOkEqualsTarget : Prop :=
  ∀ (ord : List Content) (cfg : Cfg) (retries : Nat) (atts : List Attempt) (c : Content),
    cfgWf cfg = true → netLoop ord cfg retries atts = .ok c → targetMatch cfg c = true

/-- **Witness (K-d4).** The caller expects the register `r0g.0` (`is_register`); one holder returned it, another one the
same register with op 1 instead: the attempt ends in `SplitRecord`, `handle_split_record_error` merges the two and
`get_record_from_network` returns `Ok(r0g.0.1)` — `does_target_match` is never consulted on a merged record (lib.rs
"verified to be stored" relies on this `Ok`). -/
theorem net_split_merge_skips_target_witness :
    netLoop [.reg 0 true [0], .reg 0 true [1]] { quorum := .n 2, target := some (.reg 0 true [0]), isReg := true } 0
      [{ replies := [(1, .reg 0 true [0]), (2, .reg 0 true [1])], term := .finished }] = .ok (.reg 0 true [0, 1]) ∧
    targetMatch { quorum := .n 2, target := some (.reg 0 true [0]), isReg := true } (.reg 0 true [0, 1]) = false := by
  decide

theorem not_netOkEqualsTarget : ¬ NetOkEqualsTarget := by
  intro h
  have := h _ _ _ _ _ (by decide) net_split_merge_skips_target_witness.1
  rw [net_split_merge_skips_target_witness.2] at this
  cases this

theorem netTryOf_ok {ord : List Content} {o : Outcome} {c : Content} (h : netTryOf ord o = .inl (.ok c)) :
    o = .ok c ∨ ∃ m, o = .split m ∧ mergeSplitMap (hashMapOf ord m) = some c := by
  cases o with
  | ok c' => simp [netTryOf] at h; exact Or.inl (by rw [h])
  | split m =>
    simp only [netTryOf] at h
    cases hm : mergeSplitMap (hashMapOf ord m) with
    | none => simp [hm] at h
    | some r => simp [hm] at h; exact Or.inr ⟨m, rfl, by rw [← h]; exact hm⟩
  | notEnough _ _ _ => simp [netTryOf] at h
  | mismatch _ => simp [netTryOf] at h
  | notFound => simp [netTryOf] at h
  | timeout => simp [netTryOf] at h
  | closed => simp [netTryOf] at h

theorem netTry_ok {ord : List Content} {cfg : Cfg} {atts : List Attempt} {c : Content}
    (h : netTry ord cfg atts = .inl (.ok c)) :
    attemptOutcome cfg (firstAttempt atts) = some (.ok c) ∨
      ∃ m, attemptOutcome cfg (firstAttempt atts) = some (.split m) ∧ mergeSplitMap (hashMapOf ord m) = some c := by
  unfold netTry at h
  cases ha : attemptOutcome cfg (firstAttempt atts) with
  | none => rw [ha] at h; simp [netTryOf] at h
  | some o =>
    rw [ha] at h
    rcases netTryOf_ok h with h1 | ⟨m, h1, h2⟩
    · exact Or.inl (congrArg some h1)
    · exact Or.inr ⟨m, congrArg some h1, h2⟩

theorem tail_drop_eq (l : List Attempt) (i : Nat) : l.tail.drop i = l.drop (i + 1) := by
  cases l <;> simp

/-- **Partial (K-d4).** An `Ok c` of `get_record_from_network` comes from one of the attempts it actually made: for some
`i ≤ retries`, the `i`-th attempt (the one the holders answer after `i` retries, `firstAttempt (atts.drop i)`) put `Ok c`
on the caller's channel (the caller is that query's first and only caller, so `ok_has_quorum` / `ok_equals_target` speak
about such an `Ok`) — or that attempt ended in `SplitRecord` and `c` is what `handle_split_record_error` made of its
version map (`merge_*` theorems; not compared with the target). Nothing else is ever returned as `Ok`. -/
theorem net_ok_partial (ord : List Content) (cfg : Cfg) (retries : Nat) :
    ∀ (atts : List Attempt) (c : Content), netLoop ord cfg retries atts = .ok c →
      ∃ i, i ≤ retries ∧
        (attemptOutcome cfg (firstAttempt (atts.drop i)) = some (.ok c) ∨
          ∃ m, attemptOutcome cfg (firstAttempt (atts.drop i)) = some (.split m) ∧
            mergeSplitMap (hashMapOf ord m) = some c) := by
  induction retries with
  | zero =>
    intro atts c h
    simp only [netLoop] at h
    split at h
    · rename_i r hr; subst h; exact ⟨0, Nat.le_refl _, by simpa using netTry_ok hr⟩
    · cases h
  | succ n ih =>
    intro atts c h
    simp only [netLoop] at h
    split at h
    · rename_i r hr; subst h; exact ⟨0, Nat.zero_le _, by simpa using netTry_ok hr⟩
    · obtain ⟨i, hi, hc⟩ := ih _ _ h
      refine ⟨i + 1, Nat.succ_le_succ hi, ?_⟩
      rw [tail_drop_eq] at hc
      exact hc

-- the errors are retried while the back-off lasts; a dropped channel is not
example : netLoop [] { quorum := .n 2, target := none, isReg := false } 1
    [{ replies := [(1, .hdr .chunk 0)], term := .timeout }, { replies := [(1, .hdr .chunk 0), (2, .hdr .chunk 0)], term := .finished }]
    = .ok (.hdr .chunk 0) := by decide
example : netLoop [] { quorum := .n 2, target := none, isReg := false } 0
    [{ replies := [(1, .hdr .chunk 0)], term := .timeout }] = .err .timeout := by decide

/-! **Remark (K-d6, observation; not a proof obligation).** `does_target_match` compares whole records
(`target_record == record`: value, key, publisher, expires) while versions are keyed by the value hash alone and the
record handed over is the completing reply's own. `Model.sendCheckedM` writes that comparison down, but it is a
free-standing definition: `step`, `completedOutcome`, `netTry` and `netLoop` do not carry record metadata, so nothing
below is a theorem about the modelled handlers. K-d6 is established by the oracle-only component `quorum-net` alone
(the witness is replayed on the real `get_record_from_network`). -/
example (q : Quorum) (c : Content) :
    sendCheckedM { quorum := q, target := some c, isReg := false } c true = .mismatch c ∧
    sendCheckedM { quorum := q, target := some c, isReg := false } c false = .ok c := by
  simp [sendCheckedM, sendChecked, targetMatch, targetChecked]

theorem delivered_never_closed_aux (ops : List Op) : ∀ s : State, (∀ d ∈ s.delivered, d.2 ≠ Outcome.closed) →
    ∀ d ∈ (ops.foldl (fun s op => (step s op).1) s).delivered, d.2 ≠ Outcome.closed := by
  induction ops with
  | nil => intro s h; exact h
  | cons op ops ih =>
    intro s h
    simp only [List.foldl_cons]
    apply ih
    intro d hd
    rw [delivered_step] at hd
    rcases List.mem_append.1 hd with hd | hd
    · exact h d hd
    · intro hc
      have : (d.1, Outcome.closed) ∈ (step s op).2.deliveries := by rw [← hc]; exact hd
      exact step_no_closed this

/-- the whole log of what callers ever received contains values and specific errors only -/
theorem delivered_never_closed (ops : List Op) : ∀ d ∈ (run ops).delivered, d.2 ≠ Outcome.closed :=
  delivered_never_closed_aux ops {} (by simp)

/-- **One outcome each, a value or a specific error.** `one_outcome_each` with the outcome named: a caller that is
not waiting has received exactly one entry, and that entry is not a dropped channel. -/
theorem one_outcome_each_specific (ops : List Op) (caller : Nat) (hc : caller < (run ops).nextCaller)
    (hl : caller ∉ (run ops).hung) (hw : ∀ q ∈ (run ops).pending, caller ∉ q.senders) :
    ((run ops).delivered.map (·.1)).count caller = 1 ∧
    ∃ o, (caller, o) ∈ (run ops).delivered ∧ o ≠ .closed ∧ ∀ o', (caller, o') ∈ (run ops).delivered → o' ≠ .closed := by
  rcases one_outcome_each ops caller hc hl with ⟨⟨q, hq, hcq, _⟩, _⟩ | ⟨_, hcount⟩
  · exact absurd hcq (hw q hq)
  · refine ⟨hcount, ?_⟩
    have hm : caller ∈ (run ops).delivered.map (·.1) := by
      apply List.count_pos_iff.1; omega
    obtain ⟨d, hd, hdc⟩ := List.mem_map.1 hm
    refine ⟨d.2, ?_, delivered_never_closed ops d hd, ?_⟩
    · have : d = (caller, d.2) := by rw [← hdc]
      rw [← this]; exact hd
    · intro o' ho'
      exact delivered_never_closed ops (caller, o') ho'

/-- **A hang-up does not starve the others.** When a terminating event arrives for a pending query, every caller
of the query whose receiver is alive receives the query's outcome — a value or a specific error — whichever other
callers of the same key have dropped their receivers, and wherever they stand in the queue. -/
theorem live_callers_answered_despite_hangups (ops : List Op) (q : Query) (hq : q ∈ (run ops).pending) (op : Op)
    (hop : op = .finished q.qid ∨ op = .notFound q.qid ∨ op = .quorumFailed q.qid ∨ op = .timeout q.qid)
    (caller : Nat) (hc : caller ∈ q.senders) (hl : caller ∉ (run ops).hung) :
    ∃ o, o ≠ .closed ∧ (caller, o) ∈ (step (run ops) op).2.deliveries := by
  have inv := inv_run ops
  have hf := findQ_of_mem inv hq
  have key : (step (run ops) op) = terminate (run ops) q
      (match op with | .finished _ => finishedOutcome q | .timeout _ => timeoutOutcome q | _ => .notFound) := by
    rcases hop with h | h | h | h <;> subst h <;> simp [step, hf]
  rw [key]
  refine ⟨_, ?_, by simp only [terminate]; exact deliver_live hc hl⟩
  rcases hop with h | h | h | h <;> subst h
  · exact finishedOutcome_ne_closed q
  · simp
  · simp
  · exact timeoutOutcome_ne_closed q

/-- … and so does the reply that completes the quorum. -/
theorem live_callers_answered_on_completion (ops : List Op) (q : Query) (hq : q ∈ (run ops).pending)
    (p : Nat) (c : Content) (fk : Option Nat) (hkey : fk.getD q.key = q.key)
    (hreach : reached (addPeer q.results c p).2 (quorumOf q.cfg) = true)
    (caller : Nat) (hc : caller ∈ q.senders) (hl : caller ∉ (run ops).hung) :
    (caller, completedOutcome q.cfg (addPeer q.results c p).1 c true) ∈
      (step (run ops) (.found q.qid p c fk)).2.deliveries := by
  have inv := inv_run ops
  have hf := findQ_of_mem inv hq
  have hd : (step (run ops) (.found q.qid p c fk)).2.deliveries =
      (deliver (run ops).hung q.senders (completedOutcome q.cfg (addPeer q.results c p).1 c true)).1 := by
    simp [step, hf, hreach, terminate, hkey, foundChecksKey]
  rw [hd]
  exact deliver_live hc hl

-- three callers wait on one key, the middle one hangs up: the other two receive the value, the handler reports the
-- dropped channel afterwards
example : (step (run [.get 0 0 { quorum := .one, target := none, isReg := false },
      .get 0 1 { quorum := .one, target := none, isReg := false },
      .get 0 2 { quorum := .one, target := none, isReg := false }, .hangup 1])
      (.found 0 1 (.hdr .chunk 0) none)).2.deliveries = [(0, .ok (.hdr .chunk 0)), (2, .ok (.hdr .chunk 0))] := by decide
example : (step (run [.get 0 0 { quorum := .one, target := none, isReg := false },
      .get 0 1 { quorum := .one, target := none, isReg := false }, .hangup 0])
      (.finished 0)).2.ret = .chan := by decide

/-- **The merge on the quorum path is the union.** The transaction set a reply-completed split hands over
(`Merged`, `split_returns_all_or_merge`: `txUnion` of all versions, built in a `BTreeSet<Transaction>`) is sorted,
duplicate-free and contains exactly the transactions of all versions — two transactions that differ only in the
signature (ids `2b`, `2b+1`) are both kept. Proved from `Gen.txOrdComparesAllFields` (Transaction's derived `Ord`). -/
theorem accumulate_merge_is_union (cs : List Content) :
    Asc (txUnion cs) ∧ ∀ y, y ∈ txUnion cs ↔ ∃ l, Content.txs l ∈ cs ∧ y ∈ l :=
  ⟨asc_txUnion cs, fun _ => mem_txUnion⟩

-- a transaction and its look-alike with another signature are both in the merge, on both paths
example : (step (run [.get 0 0 { quorum := .n 2, target := none, isReg := false },
      .found 0 1 (.txs [0]) none, .found 0 2 (.txs [1]) none]) (.found 0 3 (.txs [0]) none)).2.deliveries
    = [(0, .ok (.txs [0, 1]))] := by decide
example : mergeSplit [.txs [1], .txs [0]] = some (.txs [0, 1]) := by decide

/-! ### a version that is no transaction record is never dropped from a merged `ok`

Former defect (repaired in /repo, `Gen.accMergeNeedsAllTx`): once the map held several versions, the version that reached
the quorum was answered with `Ok(union of whatever decodes as transactions)`; versions of another kind contributed
nothing. Three peers agreeing on a chunk and ONE peer returning a transaction record gave the caller that single
peer's transaction as `Ok`, the target comparison skipped. -/

/-- Full clause for the split branch: an `Ok(union)` is answered only for a split all of whose versions are
transaction records. -/
def MergeOnlyOfTransactionSplit (needAll : Bool) : Prop :=
  ∀ (cfg : Cfg) (rs : List (Content × List Nat)) (c : Content) (k : Bool) (u : List Nat),
    rs.length ≠ 1 → completedOutcomeWith needAll cfg rs c k = .ok (.txs u) →
    ∀ v ∈ rs.map (·.1), ∃ l, v = Content.txs l

/-- **The repaired code** (the flag is the regenerated one). -/
theorem merge_only_of_transaction_split : MergeOnlyOfTransactionSplit accMergeNeedsAllTx := by
  intro cfg rs c k u hlen h
  unfold completedOutcomeWith at h
  split at h
  · rename_i h1; simp at h1; exact absurd h1 hlen
  · dsimp only at h
    split at h
    · cases h
    · rename_i hne
      exact (merged_guard hne).2

/-- **Witness (former defect, fixed).** Quorum majority, expected value the chunk `hc0`; peer 1 returned the transaction
record `t5`, peers 2, 3, 4 the chunk: the old shape answers `ok t5` — one peer's content, not the target; the repaired
code hands over the whole split. -/
theorem old_merge_drops_quorum_version_witness :
    completedOutcomeWith false { quorum := .majority, target := some (.hdr .chunk 0), isReg := false }
      [(.txs [10], [1]), (.hdr .chunk 0, [2, 3, 4])] (.hdr .chunk 0) true = .ok (.txs [10]) ∧
    completedOutcome { quorum := .majority, target := some (.hdr .chunk 0), isReg := false }
      [(.txs [10], [1]), (.hdr .chunk 0, [2, 3, 4])] (.hdr .chunk 0) true
      = .split [(.txs [10], [1]), (.hdr .chunk 0, [2, 3, 4])] := by decide

theorem not_mergeOnlyOfTransactionSplit_old : ¬ MergeOnlyOfTransactionSplit false := by
  intro h
  have := h _ _ _ _ _ (by decide) old_merge_drops_quorum_version_witness.1 (.hdr .chunk 0) (by decide)
  obtain ⟨l, hl⟩ := this
  cases hl

-- the history of the former defect on the repaired model: the caller receives the full set of versions
example : (step (run [.get 0 0 { quorum := .majority, target := some (.hdr .chunk 0), isReg := false },
      .found 0 1 (.txs [10]) none, .found 0 2 (.hdr .chunk 0) none, .found 0 3 (.hdr .chunk 0) none])
      (.found 0 4 (.hdr .chunk 0) none)).2.deliveries
    = [(0, .split [(.txs [10], [1]), (.hdr .chunk 0, [2, 3, 4])])] := by decide

/-! ## `handle_split_record_error`: the merge of a split

`order` is the iteration order of the result map (any duplicate-free order is a legal choice of the
implementation; the first record with a decodable header dictates the kind). -/

theorem regValid_is_reg {r : Content} (h : regValid r = true) : kindOf r = some .reg := by
  cases r <;> simp [regValid] at h <;> rfl

theorem padValid_is_pad {r : Content} (h : padValid r = true) : kindOf r = some .pad := by
  cases r <;> simp [padValid] at h <;> rfl

/-- **Transactions.** A transaction result is the sorted duplicate-free union of the transactions of *all*
versions (and has more than one element). -/
theorem merge_tx_is_union {order : List Content} {u : List Nat} (h : mergeSplit order = some (.txs u)) :
    Asc u ∧ 1 < u.length ∧ ∀ y, y ∈ u ↔ ∃ l, Content.txs l ∈ order ∧ y ∈ l := by
  unfold mergeSplit at h
  split at h
  · cases h
  · split at h
    · cases h
    · rename_i k _ _
      cases k with
      | chunk => cases h
      | paid => cases h
      | txn =>
        simp only [] at h
        split at h
        · rename_i hlen
          injection h with h; injection h with h; subst h
          refine ⟨asc_txUnionH _, hlen, ?_⟩
          intro y
          rw [mem_txUnionH]
          constructor
          · rintro ⟨l, hl, hy⟩; exact ⟨l, (List.mem_filter.1 hl).1, hy⟩
          · rintro ⟨l, hl, hy⟩; exact ⟨l, List.mem_filter.2 ⟨hl, by simp [kindOf]⟩, hy⟩
        · cases h
      | reg =>
        simp only [] at h
        split at h
        · cases h
        · cases h
      | pad =>
        simp only [] at h
        have := (bestPad_spec h).2.1
        simp [padValid] at this

/-- **Registers.** A register result carries the first verified register's base and the sorted union of the
ops of *all* verified registers with that base (registers that fail `verify` contribute nothing). -/
theorem merge_reg_is_union {order : List Content} {b : Nat} {s : Bool} {ops : List Nat}
    (h : mergeSplit order = some (.reg b s ops)) :
    s = true ∧ Asc ops ∧ (∃ r0 ∈ order, regValid r0 = true ∧ regBase r0 = b) ∧
    ∀ o, o ∈ ops ↔ ∃ r ∈ order, regValid r = true ∧ regBase r = b ∧ o ∈ regOps r := by
  unfold mergeSplit at h
  split at h
  · cases h
  · split at h
    · cases h
    · rename_i k _ _
      cases k with
      | chunk => cases h
      | paid => cases h
      | txn =>
        simp only [] at h
        split at h <;> cases h
      | reg =>
        simp only [] at h
        split at h
        · cases h
        · rename_i r0 rest hf
          injection h with h; injection h with hb hs hops
          have hr0 : r0 ∈ List.filter regValid (List.filter (fun c => kindOf c == some Kind.reg) order) := by
            rw [hf]; exact List.mem_cons_self ..
          have hr0' := List.mem_filter.1 hr0
          have aux := regUnion_aux ((r0 :: rest).filter (fun r => regBase r == regBase r0)) [] (by simp [Asc])
          refine ⟨hs.symm, by rw [← hops]; exact aux.1, ⟨r0, (List.mem_filter.1 hr0'.1).1, hr0'.2, hb⟩, ?_⟩
          intro o
          rw [← hops, aux.2 o, ← hf, ← hb]
          simp only [List.not_mem_nil, false_or, List.mem_filter]
          constructor
          · rintro ⟨r, ⟨⟨⟨h1, _⟩, h2⟩, h3⟩, h4⟩
            exact ⟨r, h1, h2, by simpa using h3, h4⟩
          · rintro ⟨r, h1, h2, h3, h4⟩
            exact ⟨r, ⟨⟨⟨h1, by simp [regValid_is_reg h2]⟩, h2⟩, by simpa using h3⟩, h4⟩
      | pad =>
        simp only [] at h
        have := (bestPad_spec h).2.1
        simp [padValid] at this

theorem regValid_spec {r : Content} (h : regValid r = true) :
    regAddr (regBase r) = mergeKeyRegAddr ∧ regVerified r = true := by
  cases r <;> simp [regValid, splitRegChecksKey] at h
  exact ⟨by simpa [regBase] using h.1, h.2⟩

/-- **A register of another address is ignored.** The register handed back lives at the key being read, and every one
of its ops comes from a verified register *of that address* with the same base: a validly self-signed register of
another address that a holder slipped into the split neither dictates the base nor contributes an op — wherever its
content hash places it in the visit order. (Read from `Gen.splitRegChecksKey`, regenerated from the `Register` arm.) -/
theorem split_foreign_register_ignored {order : List Content} {b : Nat} {s : Bool} {ops : List Nat}
    (h : mergeSplit order = some (.reg b s ops)) :
    regAddr b = mergeKeyRegAddr ∧
    ∀ o ∈ ops, ∃ r ∈ order, regAddr (regBase r) = mergeKeyRegAddr ∧ regVerified r = true ∧ regBase r = b ∧ o ∈ regOps r := by
  obtain ⟨_, _, ⟨r0, _, hv0, hb0⟩, hops⟩ := merge_reg_is_union h
  refine ⟨by rw [← hb0]; exact (regValid_spec hv0).1, ?_⟩
  intro o ho
  obtain ⟨r, hr, hv, hb, hor⟩ := (hops o).1 ho
  exact ⟨r, hr, (regValid_spec hv).1, (regValid_spec hv).2, hb, hor⟩

/-- a register of another address is not collected, whatever else is true of it -/
theorem foreign_register_not_collected (b : Nat) (sg : Bool) (ops : List Nat) (hb : regAddr b ≠ mergeKeyRegAddr) :
    regValid (.reg b sg ops) = false := by
  simp [regValid, splitRegChecksKey, hb]

/-- **Witness (former defect, fixed).** The split holds a verified register of ANOTHER address (base 1) and two authentic
versions (base 0); the foreign one is visited first (lowest content hash). Without the address check it dictates the
base, the authentic copies fail `merge` and are dropped: the caller receives a register of the wrong address. The
repaired code returns the union of the authentic copies. -/
theorem unchecked_foreign_register_dictates_witness :
    mergeRegsUnchecked [.reg 1 true [1], .reg 0 true [0], .reg 0 true [2]] = some (.reg 1 true [1]) ∧
    regAddr 1 ≠ mergeKeyRegAddr ∧
    mergeSplit [.reg 1 true [1], .reg 0 true [0], .reg 0 true [2]] = some (.reg 0 true [0, 2]) := by decide

/-- **Scratchpads.** A scratchpad result is one of the versions, validly signed and living at the key being read
(`padValid`: `is_valid()` and, with `Gen.splitPadChecksKey`, its own address is the record key), and no such version has
a higher counter. -/
theorem merge_pad_is_highest_valid {order : List Content} {o c v : Nat} {ok : Bool}
    (h : mergeSplit order = some (.pad o c v ok)) :
    ok = true ∧ Content.pad o c v ok ∈ order ∧ (∀ x ∈ order, padValid x = true → padCount x ≤ c) ∧
      padValid (.pad o c v ok) = true := by
  unfold mergeSplit at h
  split at h
  · cases h
  · split at h
    · cases h
    · rename_i k _ _
      cases k with
      | chunk => cases h
      | paid => cases h
      | txn =>
        simp only [] at h
        split at h <;> cases h
      | reg =>
        simp only [] at h
        split at h <;> cases h
      | pad =>
        simp only [] at h
        obtain ⟨h1, h2, h3⟩ := bestPad_spec h
        have hok : ok = true := by
          have h2' := h2
          simp only [padValid, Bool.and_eq_true] at h2'
          exact h2'.1
        refine ⟨hok, (List.mem_filter.1 h1).1, ?_, h2⟩
        intro x hx hxv
        have := h3 x (List.mem_filter.2 ⟨hx, by simp [padValid_is_pad hxv]⟩) hxv
        simpa [padCount] using this

/-- A merge result is never a version picked for any other reason: it is a transaction union, a register
union or a highest valid scratchpad. -/
theorem merge_result_kinds {order : List Content} {x : Content} (h : mergeSplit order = some x) :
    (∃ u, x = .txs u) ∨ (∃ b ops, x = .reg b true ops) ∨ (∃ o c v, x = .pad o c v true) := by
  cases x with
  | junk n =>
    exfalso
    unfold mergeSplit at h
    split at h
    · cases h
    · split at h
      · cases h
      · rename_i k _ _
        cases k <;> simp only [] at h
        · cases h
        · split at h <;> cases h
        · split at h <;> cases h
        · have := (bestPad_spec h).2.1; simp [padValid] at this
        · cases h
  | hdr k' n =>
    exfalso
    unfold mergeSplit at h
    split at h
    · cases h
    · split at h
      · cases h
      · rename_i k _ _
        cases k <;> simp only [] at h
        · cases h
        · split at h <;> cases h
        · split at h <;> cases h
        · have := (bestPad_spec h).2.1; simp [padValid] at this
        · cases h
  | txs u => exact Or.inl ⟨u, rfl⟩
  | reg b s ops =>
    have := (merge_reg_is_union h).1
    subst this
    exact Or.inr (Or.inl ⟨b, ops, rfl⟩)
  | pad o c v ok =>
    have := (merge_pad_is_highest_valid h).1
    subst this
    exact Or.inr (Or.inr ⟨o, c, v, rfl⟩)

/-- **Determinism.** The merge does not depend on the iteration order of the result map, as far as the
property names it: equal transaction unions; equal op unions for the same base; equal (maximal) counters. -/
theorem merge_order_independent {order order' : List Content} (hp : order.Perm order') :
    (∀ u u', mergeSplit order = some (.txs u) → mergeSplit order' = some (.txs u') → u = u') ∧
    (∀ b s s' ops ops', mergeSplit order = some (.reg b s ops) → mergeSplit order' = some (.reg b s' ops') →
        s = s' ∧ ops = ops') ∧
    (∀ o c v ok o' c' v' ok', mergeSplit order = some (.pad o c v ok) → mergeSplit order' = some (.pad o' c' v' ok') →
        c = c' ∧ ok = ok') := by
  refine ⟨?_, ?_, ?_⟩
  · intro u u' h h'
    obtain ⟨a1, _, m1⟩ := merge_tx_is_union h
    obtain ⟨a2, _, m2⟩ := merge_tx_is_union h'
    apply asc_ext a1 a2
    intro y
    rw [m1 y, m2 y]
    constructor
    · rintro ⟨l, hl, hy⟩; exact ⟨l, hp.mem_iff.1 hl, hy⟩
    · rintro ⟨l, hl, hy⟩; exact ⟨l, hp.mem_iff.2 hl, hy⟩
  · intro b s s' ops ops' h h'
    obtain ⟨s1, a1, _, m1⟩ := merge_reg_is_union h
    obtain ⟨s2, a2, _, m2⟩ := merge_reg_is_union h'
    refine ⟨by rw [s1, s2], ?_⟩
    apply asc_ext a1 a2
    intro y
    rw [m1 y, m2 y]
    constructor
    · rintro ⟨r, hr, h1⟩; exact ⟨r, hp.mem_iff.1 hr, h1⟩
    · rintro ⟨r, hr, h1⟩; exact ⟨r, hp.mem_iff.2 hr, h1⟩
  · intro o c v ok o' c' v' ok' h h'
    obtain ⟨k1, m1, x1, v1⟩ := merge_pad_is_highest_valid h
    obtain ⟨k2, m2, x2, v2⟩ := merge_pad_is_highest_valid h'
    subst k1; subst k2
    have e1 := x1 _ (hp.mem_iff.2 m2) v2
    have e2 := x2 _ (hp.mem_iff.1 m1) v1
    simp only [padCount] at e1 e2
    exact ⟨by omega, rfl⟩

/-! ## "Their deterministic merge, never an arbitrary pick" (full clause)

A result map is a list of `(content hash, version)` entries in the `HashMap`'s own iteration order; the hashes are
the keys of the map, hence pairwise distinct. `handle_split_record_error` visits the versions in ascending order of
the hash (`Gen.splitVisitsInKeyOrder`, regenerated from the loop header of the function), so which kind is expected,
which register base the others are merged into and which of several valid scratchpads with the same highest counter
is kept are functions of the set of versions. -/

/-- **Full clause.** `f` (a merge of a result map) is deterministic: two listings of one map — any two iteration
orders of the `HashMap` — give the same result. -/
def MergeDeterministic (f : List (Nat × Content) → Option Content) : Prop :=
  ∀ m m' : List (Nat × Content), m.Perm m' → (m.map (·.1)).Nodup → f m = f m'

/-- **The merge is deterministic**, for all result maps and all iteration orders (the code as repaired: versions
visited in content-hash order). -/
theorem merge_deterministic : MergeDeterministic mergeSplitMap := by
  intro m m' hp hk
  unfold mergeSplitMap visitOrder
  simp only [splitVisitsInKeyOrder, if_true]
  rw [sortByKey_eq_of_perm hp hk]

/-- The merge as it was before the repair (`for (record, _) in result_map.values()`): the versions are visited in the
map's own iteration order. -/
def mergeSplitUnordered (m : List (Nat × Content)) : Option Content := mergeSplit (m.map (·.2))

/-- **Witness (former finding, fixed: equal counters).** Two validly signed scratchpads of the key with the same, highest counter and
different data: visited in the map's own order, the first one visited wins (`old.count() >= new.count()` keeps `old`). -/
theorem unordered_pad_pick_witness :
    mergeSplitUnordered [(0, .pad 0 2 0 true), (1, .pad 0 2 1 true)] = some (.pad 0 2 0 true) ∧
    mergeSplitUnordered [(1, .pad 0 2 1 true), (0, .pad 0 2 0 true)] = some (.pad 0 2 1 true) := by decide

/-- **Witness (former finding, fixed: several bases).** Two verified registers with different base registers: the first one visited
dictates the base, the other one is dropped. -/
theorem unordered_reg_base_witness :
    mergeSplitUnordered [(0, .reg 0 true [1]), (1, .reg 2 true [2])] = some (.reg 0 true [1]) ∧
    mergeSplitUnordered [(1, .reg 2 true [2]), (0, .reg 0 true [1])] = some (.reg 2 true [2]) := by decide

/-- Visiting in the map's own order is *not* deterministic (both witnesses): the sort is what the clause needs. -/
theorem not_mergeDeterministic_unordered : ¬ MergeDeterministic mergeSplitUnordered := by
  intro h
  have e := h [(0, .pad 0 2 0 true), (1, .pad 0 2 1 true)] [(1, .pad 0 2 1 true), (0, .pad 0 2 0 true)]
    (List.Perm.swap _ _ _) (by decide)
  rw [unordered_pad_pick_witness.1, unordered_pad_pick_witness.2] at e
  cases e

theorem not_mergeDeterministic_unordered_reg :
    ¬ ∀ m m' : List (Nat × Content), m.Perm m' → (m.map (·.1)).Nodup →
        (∀ e ∈ m, kindOf e.2 = some .reg) → mergeSplitUnordered m = mergeSplitUnordered m' := by
  intro h
  have e := h [(0, .reg 0 true [1]), (1, .reg 2 true [2])] [(1, .reg 2 true [2]), (0, .reg 0 true [1])]
    (List.Perm.swap _ _ _) (by decide) (by decide)
  rw [unordered_reg_base_witness.1, unordered_reg_base_witness.2] at e
  cases e

-- the repaired code on the two witnesses: the content hash decides, whatever the listing
example : mergeSplitMap [(7, .pad 0 2 0 true), (3, .pad 0 2 1 true)] = some (.pad 0 2 1 true) ∧
    mergeSplitMap [(3, .pad 0 2 1 true), (7, .pad 0 2 0 true)] = some (.pad 0 2 1 true) := by decide
example : mergeSplitMap [(0, .reg 0 true [1]), (1, .reg 2 true [2])] = some (.reg 0 true [1]) ∧
    mergeSplitMap [(1, .reg 2 true [2]), (0, .reg 0 true [1])] = some (.reg 0 true [1]) := by decide

/-- all versions carry a decodable header of kind `k` -/
def AllKind (k : Kind) (order : List Content) : Prop := ∀ c ∈ order, kindOf c = some k

theorem mergeSplit_allKind {order : List Content} {k : Kind} (hk : AllKind k order) (hlen : 1 < order.length) :
    mergeSplit order =
      match k with
      | .chunk => none
      | .paid => none
      | .txn => if 1 < (txUnionH order).length then some (.txs (txUnionH order)) else none
      | .reg =>
        match order.filter regValid with
        | [] => none
        | r0 :: rest =>
          some (.reg (regBase r0) true
            (((r0 :: rest).filter (fun r => regBase r == regBase r0)).foldl (fun acc r => unionInto acc (regOps r)) []))
      | .pad => bestPad order := by
  have hl : ¬ order.length ≤ 1 := by omega
  have hsame : order.filter (fun c => kindOf c == some k) = order :=
    List.filter_eq_self.2 (fun c hc => by simp [hk c hc])
  match order, hk, hl, hsame with
  | c0 :: rest, hk, hl, hsame =>
    have h0 : kindOf c0 = some k := hk c0 (List.mem_cons_self ..)
    unfold mergeSplit
    simp only [hl, if_false, List.filterMap_cons, h0]
    cases k <;> simp only [hsame] <;> rfl

/-- **Partial (order-independence of the fold itself).** Whatever the order in which the versions are visited —
i.e. also without the sort — the result is the same when all versions carry a header of one kind, the verified
registers share one base register, and the valid scratchpad with the highest counter is unique. (The two witnesses
above violate the last two hypotheses; versions of mixed kinds violate the first: the first decodable header
dictates the kind.) -/
theorem merge_order_independent_partial {order order' : List Content} {k : Kind} (hp : order.Perm order')
    (hk : AllKind k order)
    (hbase : ∀ r ∈ order, ∀ r' ∈ order, regValid r = true → regValid r' = true → regBase r = regBase r')
    (hpad : ∀ x ∈ order, ∀ y ∈ order, padValid x = true → padValid y = true →
      (∀ z ∈ order, padValid z = true → padCount z ≤ padCount x) →
      (∀ z ∈ order, padValid z = true → padCount z ≤ padCount y) → x = y) :
    mergeSplit order = mergeSplit order' := by
  have hk' : AllKind k order' := fun c hc => hk c (hp.mem_iff.2 hc)
  by_cases hlen : order.length ≤ 1
  · have hlen' : order'.length ≤ 1 := by rw [← hp.length_eq]; exact hlen
    unfold mergeSplit
    simp [hlen, hlen']
  · have h1 : 1 < order.length := by omega
    have h1' : 1 < order'.length := by rw [← hp.length_eq]; exact h1
    rw [mergeSplit_allKind hk h1, mergeSplit_allKind hk' h1']
    cases k with
    | chunk => rfl
    | paid => rfl
    | txn =>
      have e : txUnionH order = txUnionH order' := by
        apply asc_ext (asc_txUnionH _) (asc_txUnionH _)
        intro y
        rw [mem_txUnionH, mem_txUnionH]
        constructor
        · rintro ⟨l, hl, hy⟩; exact ⟨l, hp.mem_iff.1 hl, hy⟩
        · rintro ⟨l, hl, hy⟩; exact ⟨l, hp.mem_iff.2 hl, hy⟩
      simp only [e]
    | reg =>
      have hpV : (order.filter regValid).Perm (order'.filter regValid) := hp.filter _
      simp only []
      cases hV : order.filter regValid with
      | nil =>
        cases hV' : order'.filter regValid with
        | nil => rfl
        | cons r0' rest' =>
          have := hpV.length_eq
          rw [hV, hV'] at this; simp at this
      | cons r0 rest =>
        cases hV' : order'.filter regValid with
        | nil =>
          have := hpV.length_eq
          rw [hV, hV'] at this; simp at this
        | cons r0' rest' =>
          simp only []
          rw [hV, hV'] at hpV
          have memV : ∀ r, r ∈ r0 :: rest → r ∈ order ∧ regValid r = true := by
            intro r hr; rw [← hV] at hr; exact List.mem_filter.1 hr
          have memV' : ∀ r, r ∈ r0' :: rest' → r ∈ order ∧ regValid r = true := by
            intro r hr
            have := hpV.mem_iff.2 hr
            exact memV r this
          have hb0 : regBase r0' = regBase r0 :=
            hbase r0' (memV' r0' (List.mem_cons_self ..)).1 r0 (memV r0 (List.mem_cons_self ..)).1
              (memV' r0' (List.mem_cons_self ..)).2 (memV r0 (List.mem_cons_self ..)).2
          have hf : (r0 :: rest).filter (fun r => regBase r == regBase r0) = r0 :: rest :=
            List.filter_eq_self.2 (fun r hr => by
              have := hbase r (memV r hr).1 r0 (memV r0 (List.mem_cons_self ..)).1 (memV r hr).2
                (memV r0 (List.mem_cons_self ..)).2
              simp [this])
          have hf' : (r0' :: rest').filter (fun r => regBase r == regBase r0') = r0' :: rest' :=
            List.filter_eq_self.2 (fun r hr => by
              have := hbase r (memV' r hr).1 r0' (memV' r0' (List.mem_cons_self ..)).1 (memV' r hr).2
                (memV' r0' (List.mem_cons_self ..)).2
              simp [this])
          rw [hf, hf', hb0]
          have a1 := regUnion_aux (r0 :: rest) [] (by simp [Asc])
          have a2 := regUnion_aux (r0' :: rest') [] (by simp [Asc])
          have e : (r0 :: rest).foldl (fun acc r => unionInto acc (regOps r)) [] =
              (r0' :: rest').foldl (fun acc r => unionInto acc (regOps r)) [] := by
            apply asc_ext a1.1 a2.1
            intro y
            rw [a1.2 y, a2.2 y]
            constructor
            · rintro (h | ⟨r, hr, hy⟩)
              · exact Or.inl h
              · exact Or.inr ⟨r, hpV.mem_iff.1 hr, hy⟩
            · rintro (h | ⟨r, hr, hy⟩)
              · exact Or.inl h
              · exact Or.inr ⟨r, hpV.mem_iff.2 hr, hy⟩
          rw [e]
    | pad =>
      simp only []
      cases hb : bestPad order with
      | none =>
        cases hb' : bestPad order' with
        | none => rfl
        | some b' =>
          obtain ⟨m', v', _⟩ := bestPad_spec hb'
          have := bestPad_none hb b' (hp.mem_iff.2 m')
          rw [v'] at this; cases this
      | some b =>
        obtain ⟨m1, v1, x1⟩ := bestPad_spec hb
        cases hb' : bestPad order' with
        | none =>
          have := bestPad_none hb' b (hp.mem_iff.1 m1)
          rw [v1] at this; cases this
        | some b' =>
          obtain ⟨m2, v2, x2⟩ := bestPad_spec hb'
          have := hpad b m1 b' (hp.mem_iff.2 m2) v1 v2 x1 (fun z hz hv => x2 z (hp.mem_iff.1 hz) hv)
          rw [this]

/-! ## Non-vacuity -/

-- quorum table regenerated from the source
example : getQuorumValue .one = 1 ∧ getQuorumValue .majority = 3 ∧ getQuorumValue .all = 5 ∧ getQuorumValue (.n 4) = 4 := by decide
-- three distinct peers satisfy a majority; the caller gets the value
example : (step (run [.get 0 0 { quorum := .majority, target := none, isReg := false },
      .found 0 1 (.hdr .chunk 0) none, .found 0 2 (.hdr .chunk 0) none]) (.found 0 3 (.hdr .chunk 0) none)).2.deliveries
    = [(0, .ok (.hdr .chunk 0))] := by decide
-- the same peer three times does not
example : (step (run [.get 0 0 { quorum := .majority, target := none, isReg := false },
      .found 0 1 (.hdr .chunk 0) none, .found 0 1 (.hdr .chunk 0) none]) (.found 0 1 (.hdr .chunk 0) none)).2.deliveries = [] := by decide
-- a differing target is reported, not returned
example : (step (run [.get 0 0 { quorum := .one, target := some (.hdr .chunk 1), isReg := false }])
      (.found 0 1 (.hdr .chunk 0) none)).2.deliveries = [(0, .mismatch (.hdr .chunk 0))] := by decide
-- split at finish: the full map
example : (step (run [.get 0 0 { quorum := .n 2, target := none, isReg := false },
      .found 0 1 (.hdr .chunk 0) none, .found 0 2 (.hdr .chunk 1) none]) (.finished 0)).2.deliveries
    = [(0, .split [(.hdr .chunk 0, [1]), (.hdr .chunk 1, [2])])] := by decide
-- merges
example : mergeSplit [.txs [0, 1], .txs [2, 1]] = some (.txs [0, 1, 2]) := by decide
example : mergeSplit [.reg 0 true [1], .reg 0 false [2], .reg 0 true [3, 7], .reg 0 true [0, 3]] = some (.reg 0 true [0, 1, 3]) := by decide
example : mergeSplit [.pad 0 1 0 true, .pad 0 3 1 false, .pad 0 2 0 true] = some (.pad 0 2 0 true) := by decide
example : mergeSplit [.hdr .chunk 0, .hdr .chunk 1] = none := by decide

end SafeNet.Props.C05

#print axioms SafeNet.Props.C05.pending_below_quorum
#print axioms SafeNet.Props.C05.ok_has_quorum
#print axioms SafeNet.Props.C05.finished_ok_unreachable
#print axioms SafeNet.Props.C05.finished_timeout_deliver_no_ok
#print axioms SafeNet.Props.C05.dup_peer_counts_once
#print axioms SafeNet.Props.C05.responded_peers_counts_distinct
#print axioms SafeNet.Props.C05.query_cfg_is_first_callers
#print axioms SafeNet.Props.C05.joiner_inherits_cfg_witness
#print axioms SafeNet.Props.C05.not_okHasQuorumOwnCfg
#print axioms SafeNet.Props.C05.ok_has_quorum_own_cfg_partial
#print axioms SafeNet.Props.C05.merged_skips_target_witness
#print axioms SafeNet.Props.C05.not_okMatchesTarget
#print axioms SafeNet.Props.C05.ok_matches_target_partial
#print axioms SafeNet.Props.C05.targetMatch_iff_equals
#print axioms SafeNet.Props.C05.ok_equals_target
#print axioms SafeNet.Props.C05.split_returns_all_or_merge_or_error
#print axioms SafeNet.Props.C05.foreign_key_reply_ignored
#print axioms SafeNet.Props.C05.ok_carries_requested_key
#print axioms SafeNet.Props.C05.ok_has_quorum_for_requested_key
#print axioms SafeNet.Props.C05.responders_returned_for_key
#print axioms SafeNet.Props.C05.keys_are_events
#print axioms SafeNet.Props.C05.one_outcome_each
#print axioms SafeNet.Props.C05.terminating_event_answers_all
#print axioms SafeNet.Props.C05.deliveries_only_on_removal
#print axioms SafeNet.Props.C05.closed_only_after_hangup
#print axioms SafeNet.Props.C05.accumulate_merge_is_union
#print axioms SafeNet.Props.C05.merge_tx_is_union
#print axioms SafeNet.Props.C05.merge_reg_is_union
#print axioms SafeNet.Props.C05.merge_pad_is_highest_valid
#print axioms SafeNet.Props.C05.merge_result_kinds
#print axioms SafeNet.Props.C05.merge_order_independent
#print axioms SafeNet.Props.C05.value_or_specific_error
#print axioms SafeNet.Props.C05.delivered_never_closed
#print axioms SafeNet.Props.C05.one_outcome_each_specific
#print axioms SafeNet.Props.C05.live_callers_answered_despite_hangups
#print axioms SafeNet.Props.C05.live_callers_answered_on_completion
#print axioms SafeNet.Props.C05.merge_deterministic
#print axioms SafeNet.Props.C05.unordered_pad_pick_witness
#print axioms SafeNet.Props.C05.unordered_reg_base_witness
#print axioms SafeNet.Props.C05.not_mergeDeterministic_unordered
#print axioms SafeNet.Props.C05.not_mergeDeterministic_unordered_reg
#print axioms SafeNet.Props.C05.merge_order_independent_partial
#print axioms SafeNet.Props.C05.timeout_discards_versions_witness
#print axioms SafeNet.Props.C05.not_splitReturnsAllOrMerge
#print axioms SafeNet.Props.C05.split_returns_all_or_merge_partial
#print axioms SafeNet.Props.C05.net_split_merge_skips_target_witness
#print axioms SafeNet.Props.C05.not_netOkEqualsTarget
#print axioms SafeNet.Props.C05.net_ok_partial
#print axioms SafeNet.Props.C05.merge_only_of_transaction_split
#print axioms SafeNet.Props.C05.old_merge_drops_quorum_version_witness
#print axioms SafeNet.Props.C05.not_mergeOnlyOfTransactionSplit_old
#print axioms SafeNet.Props.C05.split_foreign_register_ignored
#print axioms SafeNet.Props.C05.foreign_register_not_collected
#print axioms SafeNet.Props.C05.unchecked_foreign_register_dictates_witness
